# Per-property metadata used by bin/check (what is trusted, which regenerated
# facts the property's theorems depend on, which clauses stay explored-only).
HOOK_COMMITS = ["5ce050f"]

PROPS = {
 "C14": {
  "fact_files": ["httpgrpc/codes.go", "httpgrpc/server.go"],
  "trusted_base": ["net/http: http.Error writes the given status; Response.StatusCode/Status/Header as received",
                   "grpc status/codes packages (status.FromError, Code() accessors)"],
  "partial": [],
  "level_text": "Proof: 8 Lean theorems over the code tables regenerated from httpgrpc/codes.go and the documented table in server.go: forward mapping equals the documentation and is an error status for every non-OK code (all naturals), the 499 rule, the client recovers the exact code from the status header for every uint32 code / message / renderer output (decimal round-trip through int32), and OK-iff-2xx for every integer status. Tie: tables regenerated on every run (a changed entry re-checks or breaks the certificate), plus exhaustive differential run of the real functions and a real server+channel against the model.",
  "level_note": "Trusted: Lean kernel; extractor; harness+driver; net/http's http.Error/Response fields; grpc status package. Modelled not verified: header transport by net/http.",
  "assumptions": ["custom error renderers are arbitrary: the theorem quantifies over every (HTTP status, status text) they may write"],
 },
}
