# Per-property metadata used by bin/check (what is trusted, which regenerated
# facts the property's theorems depend on, which clauses stay explored-only).
HOOK_COMMITS = ["5ce050f", "333d190"]
_HS_TB = ["HTTP server stream model (Model/HttpServerStream.lean): net/http's ResponseWriter sends the status line with the header map as it is at the first Write/WriteHeader and reports a broken connection as a Write error (the recording writer of the harness behaves so); `rmu`/`wmu` make the receive and the write side independent, so the sequential model is exact; a request body is a finite frame list (byte level: C07)"]
_HS_TEXT = " HTTP server stream (handleStream + serverStream) as a deterministic transition system: reply shape, header block = successful SetHeader/SendHeader metadata, trailer = every SetTrailer metadata + the handler's status code, single-request rule, request prefix — proved for every handler program, request body and connection-failure point; tied by scripts through the real Server.ServeHTTP whose every result and whole wire output the model must reproduce exactly."

PROPS = {
 "C14": {
  "fact_files": ["httpgrpc/codes.go", "httpgrpc/server.go"],
  "trusted_base": ["net/http: http.Error writes the given status; Response.StatusCode/Status/Header as received",
                   "grpc status/codes packages (status.FromError, Code() accessors)"],
  "partial": [],
  "level_text": "Proof: 8 Lean theorems over the code tables regenerated from httpgrpc/codes.go and the documented table in server.go: forward mapping equals the documentation and is an error status for every non-OK code (all naturals), the 499 rule, the client recovers the exact code from the status header for every uint32 code / message / renderer output (decimal round-trip through int32), and OK-iff-2xx for every integer status. Tie: tables regenerated on every run (a changed entry re-checks or breaks the certificate), plus exhaustive differential run of the real functions and a real server+channel against the model.",
  "level_note": "Trusted: Lean kernel; extractor; harness+driver; net/http's http.Error/Response fields; grpc status package. Modelled not verified: header transport by net/http.",
  "assumptions": ["custom error renderers are arbitrary: the theorem quantifies over every (HTTP status, status text) they may write"],
 },
 "C09": {
  "fact_files": ["httpgrpc/server.go", "httpgrpc/client.go"],
  "trusted_base": ["strconv.ParseInt base-10 semantics as modelled in Prim.parseInt (validated by the correspondence run)",
                   "context.WithTimeout / time.Time.Add (saturating) and the monotone clock used for the sandwich",
                   "net/http delivers the GRPC-Timeout header value unchanged apart from optional-whitespace trimming"],
  "partial": ["transit time and wall-clock drift are runtime facts: the e2e run measures them one-sidedly"],
  "level_text": "Proof: Lean theorems over the Timeout model with Go's int64 multiply explicit (wrap64): every digit string of any length with a valid unit decodes to exactly v*unit or saturates to MaxInt64 / no deadline, never smaller or negative (C09_parse_valid); no header string can panic the parser (C09_parse_total); the client encodes max(1, d/1ms) with d-1ms < e <= d (C09_client_encoding); client->server round trip is exact (C09_client_server_roundtrip); no deadline => no header. Unit table, divisor, floor rule, ParseInt width and the presence of the saturation are regenerated from the source on every run. Tie: sandwich-checked differential run of contextFromHeaders / headersFromContext and real calls. The header applies whatever deadline the request context already carries: the handler's deadline is never later than now+d nor than the server's own bound, and equals now+d when that bound is absent or later (C09_deadline_under_bounded_parent; guard and parent of the WithTimeout call regenerated); without a header the request context's deadline is kept (C09_no_header_keeps_parent).",
  "level_note": "Trusted: Lean kernel; extractor; harness+driver; strconv/context/time as modelled. Transit time is measured, not proved.",
  "assumptions": ["durations are int64 nanoseconds; the clock is monotone between two readings"],
 },
 "C07": {
  "fact_files": ["httpgrpc/io.go", "httpgrpc/client.go", "httpgrpc/server.go"],
  "trusted_base": ["encoding/binary big-endian int32, io.ReadAtLeast/ReadFull as modelled by Framing.readFull/readSize",
                   "protobuf Unmarshal of payloads is an external: its answers are passed to the model on the op line (pm=/tr= maps)",
                   "runtime.MemStats.TotalAlloc as the allocation observer in the harness oracle"],
  "partial": [],
  "level_text": "Proof: Lean theorems over the Framing model, for arbitrary byte strings and message lists of any length: the decode loop is total and fuel-independent (no panic outcome); every allocation of the client loop and of the server RecvMsg is <= the per-message limit (also for 0x80000000, 0x7fffffff, 0xffffffff prefixes); delivered messages re-framed are a prefix of the input (nothing fabricated); encode/decode round trip; a response cut at ANY offset before the end of the trailer frame yields an error outcome and an intact prefix of the messages; the server rejects a second request frame. maxMessageSize and the guarded allocation sites are regenerated from source on every run. Tie: differential run of the real client decoder (replaying RoundTripper) and server decoder (crafted request bodies) against the model on encodings, every truncation offset, hostile prefixes and random bytes, clean and abrupt endings.",
  "level_note": "Trusted: Lean kernel; extractor; harness+driver; encoding/binary, io, protobuf Unmarshal (external parameter).",
  "assumptions": ["the reader is a finite byte string followed by io.EOF (clean) or a transport error (abrupt)"],
 },
 "C12": {
  "fact_files": ["inprocgrpc/in_process.go"],
  "trusted_base": ["http.ServeMux exact matching of clean paths, net/url escaping and path.Clean (the model's cleanSegs is validated against path.Join only through end-to-end calls)",
                   "strings.SplitN as modelled by Prim.splitN2 (validated by correspondence)"],
  "partial": ["ServeMux / URL escaping behaviour is exercised end to end, not proved"],
  "level_text": "Proof: Lean theorems over the Resolve model for every method-name byte string, every registry and both call kinds: the in-process resolution never panics (guards regenerated from source), a handler runs iff the normalised name is exactly /svc/mth with svc registered and mth a method of that kind and then it is that handler (C12_inproc_resolve), everything else is Unimplemented; for HTTP, path.Join(base, name) gives the same clean path on client and server for every base and is injective in (svc, mth). Tie: facts regenerated; differential run of Invoke/NewStream on name shapes x random registries; end-to-end HTTP through Server and HandleServices with several base paths, per-method handler counters.",
  "level_note": "Trusted: Lean kernel; extractor; harness+driver; ServeMux, net/url, path.Clean.",
  "assumptions": ["the registry holds one entry per service name (C15)"],
 },
 "C11": {
  "fact_files": ["httpgrpc/protocol_versions.go", "httpgrpc/codes.go", "httpgrpc/server.go"],
  "trusted_base": _HS_TB + ["mime.ParseMediaType, codec Unmarshal/Marshal, asMetadata's base64 failure (externals passed on the op line)",
                   "http.ServeMux answers 404 for unknown paths", "http.Error / ResponseWriter"],
  "partial": ["the JSON codec itself (protojson) and the mux are exercised, not modelled"],
  "level_text": "Proof: Lean theorems over the HttpServer decision model for every request and every handler behaviour/script: handler at most once, handler only if POST + supported media type + decodable headers (+ readable body), 405/415/400 precedence with Allow: POST, undecodable message => InvalidArgument without application code, JSON decided identically to protobuf, and for every handler script a streaming reply is data frames followed by exactly one trailer frame unless a write failed. Accepted media types and the code tables are regenerated from source. Tie: randomised requests of all shapes through the real Server with call counters and reply-frame parsing, compared line by line with the model; JSON/proto parity and 404 end to end." + _HS_TEXT,
  "level_note": "Trusted: Lean kernel; extractor; harness+driver; mime, codecs, ServeMux, ResponseWriter.",
  "assumptions": ["the request context is live when the renderer runs (the 499 rule is C14's)"],
 },
 "C13": {
  "fact_files": ["httpgrpc/client.go", "inprocgrpc/in_process.go"],
  "trusted_base": ["grpc metadata.Join / metadata.New (modelled as multimap append with lower-cased keys; validated by correspondence)",
                   "crypto/tls + net/http set Response.TLS iff the connection uses TLS; a client-side Request.TLS is never set",
                   "credentials.PerRPCCredentials implementations are arbitrary (the theorems quantify over their answers)"],
  "partial": ["the TLS handshake itself is exercised with httptest's TLS server, not modelled"],
  "level_text": "Proof: Lean theorems over the Creds model for every credential (security requirement, metadata map or error), every caller metadata multimap and every key: credentials requiring security on a non-https channel fail the call without consulting the credential or issuing a request; errors propagate; otherwise for every key the handler-visible values are the caller's followed by the credential's (lower-cased keys), nothing dropped; the peer option has TLS info iff the connection uses TLS, unary and streaming alike. The isChannelSecure expression of all four call sites and the struct each getPeer call reads TLS from are regenerated from source. Tie: differential unit run of ApplyPerRPCCreds; end-to-end calls over in-memory HTTP, loopback HTTP, httptest TLS and in-process with counting transports.",
  "level_note": "Trusted: Lean kernel; extractor; harness+driver; grpc metadata package; crypto/tls, net/http.",
  "assumptions": ["when credential keys collide after lower-casing, their relative order follows Go map iteration and is compared as a multiset"],
 },
 "C15": {
  "fact_files": [],
  "trusted_base": ["reflect.Type.Implements (the typeOK external)", "Go map semantics (one entry per key; iteration visits each entry once)",
                   "grpc.Server.GetServiceInfo as the reference for parity"],
  "partial": ["method lists / metadata inside ServiceInfo are compared with the descriptor and with grpc.Server at run time (the model carries descriptor identities)"],
  "level_text": "Proof: refinement of the registry model to the abstract map name -> first well-typed registration, for ALL histories of registrations (valid, duplicate, ill-typed, in any order): lookup returns exactly that (C15_query_after_history), refusal leaves the state unchanged, iteration carries pairwise distinct names and contains an entry iff lookup returns it, info lists exactly the iterated (name, descriptor) pairs. Tie: random op histories on HandlerMap, inprocgrpc.Channel and httpgrpc.Server compared line by line with the model; ServiceInfo compared with the descriptors and with grpc.Server on the valid sub-history.",
  "level_note": "Trusted: Lean kernel; harness+driver; reflect, Go maps, grpc.Server as reference. The hand-written model is tied by correspondence only (no regenerated facts).",
  "assumptions": ["descriptors and handlers are compared by identity"],
 },
 "C17": {
  "fact_files": ["intercept.go"],
  "trusted_base": ["Go interface type assertion to *grpc.ClientConn; grpc.ClientConn over bufconn as the standard connection in the harness"],
  "partial": [],
  "level_text": "Proof: Lean theorems over the InterceptClient model with interceptors as arbitrary functions: a unary call through a wrapper equals u(root connection or nil, call, onward) and a wrapper without that kind of interceptor forwards straight through (same for streams); no interceptors => the original channel; unwrap yields the wrapped channel; at every nesting depth the cc argument is the root's standard connection or nil (induction over the wrapper stack); a stack of n logging interceptors logs outermost-first, each once. Whether Invoke/NewStream obtain cc through unwrap and the both-nil test are regenerated from intercept.go. Tie: nesting depths 1..5 x all nil/pass/short-circuit/alter combinations over a real grpc.ClientConn (bufconn), in-process, HTTP and recording channels; ordered event logs compared with the model. An interceptor that forwards under another method name, or without options, reaches the next layer exactly so (C17_renamed_method_reaches_next, C17_dropped_options_stay_dropped); whatever an interceptor returns without calling onward is the call's result, and the wrapper returns the interceptor call itself (C17_short_circuit_result_unchanged, C17_results_direct_facts).",
  "level_note": "Trusted: Lean kernel; extractor; harness+driver.",
  "assumptions": ["interceptors are modelled as functions into an event-log writer (no hidden state shared between layers)"],
 },
 "C16": {
  "fact_files": ["intercept.go"],
  "trusted_base": ["protoc-generated _Handler functions call dec, then the interceptor if non-nil else the method (emulated by the synthetic descriptors of the harness)",
                   "Go slice/struct copy semantics as modelled by the explicit heap of slices"],
  "partial": ["the generated handlers themselves are trusted"],
  "level_text": "Proof: Lean theorems over the InterceptServer model with handlers and interceptors as arbitrary functions: the decorated unary handler equals t(info, req, \\req'. u(info, req', app)) (transport first, decoration next, handler last; u(info, req, app) without a transport interceptor), nested decoration composes outermost-first, the decorated stream handler equals s(info, orig) with info = (/service/stream, the description's flags), no interceptors => the same description and heap, and every slice that existed before decoration is unchanged afterwards (frame condition on an explicit heap). The fresh-slice allocations, the struct copy, the info format and flag sources and the both-nil test are regenerated from intercept.go. Tie: random descriptors x nil/pass/short-circuit/rewrite interceptors at 0..2 decoration levels and at transport level, on direct dispatch, in-process channel and HTTP server; ordered event logs and a deep snapshot of the input ServiceDesc compared. Nested WithInterceptor registry views decorate exactly like nested InterceptServer calls, whatever interceptors the view next to the registry holds (C16_nested_views_unary/_stream over the Reg model; what WithInterceptor returns and what a view registers are regenerated: C16_registry_view_facts).",
  "level_note": "Trusted: Lean kernel; extractor; harness+driver; generated handler shape.",
  "assumptions": ["interceptors are functions into an event-log writer"],
 },
 "C19": {
  "fact_files": ["cmd/protoc-gen-grpchan"],
  "needs_plugin": True,
  "trusted_base": ["goprotoc/gopoet: name mangling (CamelCase, descriptor variable names), import handling and formatting of emitted code",
                   "protoc-gen-go-grpc emits ServiceDesc.Streams in declaration order of the streaming methods",
                   "go/parser as the per-case validity check of emitted code"],
  "partial": ["'the emitted code is valid Go / type-checks' is checked per generated case with go/parser, not proved for every descriptor"],
  "level_text": "Proof: Lean theorems over the Stubgen model for every service (any number and interleaving of the four method kinds), by induction over the method list with the counter generalised: a streaming method at position i is bound to index = number of streaming methods before it = its own position in the Streams slice, unary methods index nothing, every stub's path is /<full service name>/<method>, the call shape matches the streaming flags, and every service of a file counts from zero. The branch table (which kinds increment the counter, callee, path template, call tail) and the counter's placement are regenerated from the plugin source. Tie: the plugin binary built from the working tree runs on synthetic CodeGeneratorRequests; emitted Go is parsed and every binding compared with the model; the checked-in test.pb.grpchan.go is regenerated byte for byte. At request level (Stubgen.requestOutputs): every file that declares a service gets its stubs, depending on that file alone, wherever it stands in the request; files without services are transparent; reordering the request only reorders the outputs (C19_file_output_independent_of_request, _serviceless_files_are_transparent, _outputs_permute_with_request; the loops of doCodeGen are regenerated).",
  "level_note": "Trusted: Lean kernel; extractor; harness+driver; goprotoc/gopoet; protoc-gen-go-grpc ordering.",
  "assumptions": ["StreamIndex is read before the branch increments the counter (source order, validated by correspondence)"],
 },
 "C10": {
  "fact_files": ["inprocgrpc/in_process.go"],
  "trusted_base": ["context package semantics (value lookup walks the parent chain; cancellation and deadlines propagate to children)",
                   "grpc metadata.FromIncomingContext/FromOutgoingContext return copies; peer and ServerTransportStream context keys"],
  "partial": ["independence of metadata under mutation is grpc's copy-on-read behaviour: exercised by mutation on both sides, not modelled"],
  "level_text": "Proof: Lean theorems over the CtxValues model for every caller context chain (user values, gRPC's own keys incl. an enclosing handler's incoming metadata / peer / transport stream, cancel scopes, deadlines) and every key: the handler's context has no value under any key but the four the library binds; those four are the caller's OUTGOING metadata as incoming, an in-process peer, the client-context accessor and a fresh transport stream; deadline and cancellation pass through. The statement list of makeServerContext, what noValuesContext.Value returns and which context Invoke/NewStream hand to the handler are regenerated from source. Tie: real unary and streaming calls with random caller chains, issued from plain code, from inside an in-process handler and from inside a real grpc handler (bufconn); the handler probes every key; ClientContext and metadata mutation checked.",
  "level_note": "Trusted: Lean kernel; extractor; harness+driver; context/metadata/peer packages.",
  "assumptions": ["context keys are compared by identity as Go does; the probe set covers int-typed, string-typed and pointer keys"],
 },
 "C18": {
  "fact_files": [],
  "trusted_base": ["ASSUMED behaviour of the protobuf primitives (proto.Clone, Reset + dynamic.TryMerge with its type check, codec Marshal/Unmarshal, reflect.New) as written in Model/Cloner.lean; validated against the real libraries on every run",
                   "reflective pointer walk + in-place mutation as the observer of shared memory"],
  "partial": ["deep-copy behaviour of protobuf-go / protoreflect dynamic is assumed, not proved; for dynamic messages the validation shows the assumptions do not hold (known findings C18-F3..F13)"],
  "level_text": "Proof (of the adapters' logic, under stated library assumptions): for every adapter and every message, a successful Copy/Clone yields the source's content whatever the destination held, with only freshly allocated memory reachable (hence none shared with the source); non-protobuf values are refused by every adapter; a mismatched destination type is refused by the protobuf-default, clone-func and copy-func adapters; generated<->dynamic interop holds for the protobuf-default, codec and copy-func adapters. The three statements that are FALSE as written in the property are proved as counterexamples (codec accepts a mismatched type; clone-func refuses the other representation; reflect.New of a dynamic message panics) and replayed on the implementation as known findings. Tie: differential run of all four adapters on the available message types (generated and dynamic, unknown fields, pre-populated and mismatched destinations) against the model's ok/error/panic outcome, plus an independent oracle (equality, source snapshot, pointer walk, in-place mutation).",
  "level_note": "Trusted: Lean kernel; harness+driver; the ProtoLib assumptions (validated, not proved). Hand-written model tied by correspondence only.",
  "assumptions": ["ProtoLib: Clone/Copy produce equal content in fresh memory; TryMerge checks the message type; the wire format does not carry the type"],
 },
 "C20": {
  "fact_files": ["inprocgrpc/in_process.go"],
  "trusted_base": ["Go runtime: channels are FIFO with the stated capacity; select picks any ready case; a mutex-protected section is atomic w.r.t. other sections of the same mutex (the model's operation slots)",
                   "goroutine park states from runtime.Stack identify blocked operations (quiescence harness)"],
  "partial": ["memory in bytes is not modelled: the bound is in messages"],
  "level_text": "Proof: invariants of the InprocStream transition system (24 actions: client send/close/recv/header, handler send/recv/headers/trailers/return, finish, cancel), by induction over ALL action sequences, for arbitrary capacities: completed client sends <= frames the handler dequeued + cap, completed handler sends <= data frames the client dequeued + cap (C20_sends_ahead_bounded), a send with a full buffer, live context and running peer has no enabled completion (C20_blocked_when_full) and can only be enabled by a peer receive, the peer's return or a cancellation (C20_blocked_until); buffered + pending + peeked messages per direction are bounded by cap + 2. cap = 1 for both directions is a fact regenerated from make(chan frame, 1). Tie: quiescence-sequenced scripts on the real channel (one side never receives; random scripts) accepted by a subset-construction explorer over the same step function; the oracle counts completed sends against peer receives.",
  "level_note": "Trusted: Lean kernel; extractor; harness (goroutine-park detector) + driver explorer; Go channel/select/mutex semantics at the granularity of the model's actions.",
  "assumptions": ["every access to shared stream state happens under the mutex the model attributes it to, or is a channel operation"],
 },
}

_IS_TB = ["Go runtime: channels are FIFO with the stated capacity; select picks any ready case; a mutex-protected section is atomic w.r.t. other sections of the same mutex (the model's operation slots); context cancellation is monotone and reaches child contexts",
          "goroutine park states from runtime.Stack identify blocked operations (quiescence harness); the subset-construction explorer in Driver.lean uses the same step function the theorems are about",
          "messages and metadata are opaque identities in the stream models (content equality through Clone/Copy is C18, placement C06)"]
_E2E_TEXT = " End-to-end composition of the two HTTP stream models (HttpCompose): with the transport delivering any prefix of what the server model wrote, the client model's delivered messages are a prefix of the handler's successful sends; io.EOF implies the handler returned nil and every message arrived; the trailer status held by the client is the code of the handler's return value."
_HU_TEXT = " HTTP unary end to end (handleMethod + UnaryServerTransportStream + Channel.Invoke) as the functional model HttpUnary: both metadata targets and the caller's outcome proved for every handler program and return value; tied by HU scripts through the real Server and Channel over the in-memory transport, every line reproduced exactly by the model."
_IS_NOTE = "Trusted: Lean kernel; extractor (channel capacities, frame order); harness (goroutine-park detector) + driver explorer; Go channel/select/mutex/context semantics at the granularity of the model's actions. The HTTP transport's client stream and the unary paths are tied by correspondence (scripts and end-to-end runs), their framing by the C07 theorems."
PROPS.update({
 "C01": {
  "fact_files": ["inprocgrpc/in_process.go"], "trusted_base": _HS_TB + _IS_TB + ["protobuf Marshal/Unmarshal/Clone give equal content (exercised with every field kind, not proved)", "real grpc over bufconn is not used as the reference in this revision: the oracle is the property itself"],
  "partial": ["HTTP streams: the client side is the HttpClientStream transition system (C01_http_response_prefix/_complete for response-streaming calls, tied by HC scripts in which the harness plays the transport); the byte level is the Framing model (C07); the server side (serverStream) and single-response calls after a protocol violation are explored only",
              "byte-for-byte content equality is protobuf's: exercised (all field kinds, empty, zero-length, up to 64 KiB quick / 8 MiB thorough), not proved",
              "cross-talk freedom of concurrent RPCs is a theorem only about the model's per-call state (C01_isolation); on the implementation it is exercised with tagged concurrent calls"],
  "level_text": "Proof: invariants of the InprocStream transition system by induction over ALL action sequences (any number of messages, any interleaving of client sender / client receiver / handler / cancellation instant, arbitrary capacities): what the handler's RecvMsg returned is always a prefix of what the client handed to SendMsg and equals it when the handler sees io.EOF (C01_request_prefix/_complete); what the client's RecvMsg returned is always a prefix of what the handler handed to SendMsg and equals it when the client sees io.EOF with a live context (C01_response_prefix/_complete); a step of one call never touches another call's state (C01_isolation). Tie: capacities regenerated from source; quiescence-sequenced scripts on the real channel accepted by a subset-construction explorer over the same step function; prefix/equality oracle on every script for both transports; content and isolation runs end to end." + _HS_TEXT + _E2E_TEXT,
  "level_note": _IS_NOTE,
  "assumptions": ["every access to shared stream state happens under the mutex the model attributes it to, or is a channel operation"],
 },
 "C02": {
  "fact_files": ["inprocgrpc/in_process.go", "httpgrpc/server.go", "httpgrpc/client.go"], "trusted_base": _HS_TB + _IS_TB + ["grpc status package (status.Convert / FromError / FromContextError)", "real grpc.Server/ClientConn over bufconn as the reference for what the standard transport reports (sanitising)"],
  "partial": ["HTTP rendering of the status (X-GRPC-Status / HttpTrailer) is proved for codes in C14 and for framing/truncation in C07; the X-GRPC-Details transport of unary error details is proved byte-exact (C02_details_b64_roundtrip, sites regenerated); the message part of X-GRPC-Status is the C14 round trip; the marshalling of the detail messages themselves (protobuf) and net/http's header transport are external and compared end to end with the bufconn reference",
              "the HTTP server side: handleStream is the HttpServerStream model (status code of the trailer proved; message and details are carried opaquely), handleMethod rendering is explored end to end; the HTTP client stream model assumes of the transport that the body ends right after the trailer frame and that body reads fail once the request context is done (as net/http does)"],
  "level_text": "Proof: for every reachable state of the InprocStream system and every RecvMsg completion with a live context, the terminal outcome is the handler's — io.EOF iff the handler returned nil (and then every data frame was consumed), otherwise the handler's error with context errors translated to Canceled/DeadlineExceeded; the only error the library synthesises is Internal for a second message on a single-response method (C02_client_status_eq_handler, C02_eof_only_if_handler_ok), by the error-frame invariants (an error frame carries exactly the handler's return value, is enqueued unless the context ended, and closes the client that took it). Tie: frame order regenerated; scripts with handler returns nil / status / plain / context errors before, between and after messages accepted by the explorer; end-to-end statuses (19 codes x 12 message shapes x 0..2 details, three kinds, both transports) compared with the handler's status and with the bufconn reference modulo its sanitising; every truncation offset (C07)." + _HS_TEXT + _E2E_TEXT + _HU_TEXT,
  "level_note": _IS_NOTE,
  "assumptions": ["status messages are compared modulo the U+FFFD sanitising the standard transport applies; a delivery equal to the handler's own status is accepted where the reference loses details"],
 },
 "C04": {
  "fact_files": ["inprocgrpc/in_process.go", "httpgrpc/client.go", "httpgrpc/server.go"], "trusted_base": _IS_TB + ["the script's context is a harness-owned context.Context whose Done/Err the env actor controls: deadline expiry is as deterministic as cancellation; real timers are not modelled"],
  "partial": ["wall-clock promptness (timers firing) is runtime: represented as 'the operation's own context branch is enabled, no step of the peer needed' and measured only as hang detection",
              "HTTP server side: that the handler's context ends when the caller goes away is net/http's connection watch (runtime, checked on a loopback connection by cancelReachesIdleHandlerOverTheWire); the model carries the part that is logic — on single-request methods the library has read the request to its end once the handler holds its message (C04_http_server_single_request_read_to_end), on client-streaming methods it need not have (C04_http_server_client_stream_may_leave_request_unread, known finding C04-F7)",
              "HTTP: C04_http_recv_after_cancel / _complete_records_ctx_status / _cancel_unblocks are over the HttpClientStream model (HC scripts); the trailer path of doHttpCall holds rMu while it drains the reply body, so a RecvMsg issued in that window waits for the transport to end the body — outside the model (assumed immediate)"],
  "level_text": "Proof: cancellation/deadline is an environment action enabled in every state of the InprocStream system, so the theorems cover every placement of the instant: once the context is done with reason r, EVERY completion of a pending or later RecvMsg is status(Canceled|DeadlineExceeded) — never nil, a message, io.EOF or a non-status error — unless the client already holds the call's real final error (C04_after_cancel_receive_is_status); every pending operation of either side has its context branch enabled without the peer (C04_cancel_unblocks); the handler's context is done and its RecvMsg yields only the context error (C04_handler_ctx_cancelled); nothing is delivered to either side afterwards (C04_no_delivery_after_cancel); a handler returning its context error is seen as the matching code (C04_handler_ctx_error_maps). Tie: scripts with env.cancel / env.expire at random points accepted by the explorer; oracle on both transports; the unary cancel race is pinned with the Invoke schedule points.",
  "level_note": _IS_NOTE,
  "assumptions": ["Header() is not a receive: after cancellation it returns the raw context error (documented, outside the property)"],
 },
 "C05": {
  "fact_files": ["inprocgrpc/in_process.go", "httpgrpc/client.go"], "trusted_base": _IS_TB + ["runtime.Stack census as the goroutine-leak observer"],
  "partial": ["goroutine leaks and real time are runtime facts: observed by the census after every batch of scripts, not proved",
              "HTTP server-side blocking inside net/http is outside the model; the HTTP client stream is modelled (C05_http_no_panic, _progress_after_exit, _after_done) and tied by HC scripts"],
  "level_text": "Proof: over the InprocStream system with Go's panics explicit: no reachable state has panicked and no enabled step panics (C05_no_panic/_no_step_panics: CloseSend racing SendMsg, repeated CloseSend, operations after completion, finish racing handler goroutines); once the handler has returned every pending client operation has an enabled completion without the peer (C05_progress_after_handler_returned), and with the context done finish itself runs to its end (C05_finish_completes_after_cancel; C04_cancel_unblocks for all other operations); every internal library step strictly decreases a variant, so no operation spins (C05_internal_steps_bounded); after the handler finished sends return nil or io.EOF (C05_send_results_after_finish) and the final status / io.EOF is idempotent. Tie: the quiescence harness is the deadlock detector — for every script prefix the set of blocked/returned operations must be one the explorer allows; drain phase (handler returns, context ends) must leave nothing blocked; recover() around every operation; goroutine census.",
  "level_note": _IS_NOTE,
  "assumptions": ["a blocked operation is one whose goroutine is parked in chan send/receive/select/mutex, stable over two polls"],
 },
 "C08": {
  "fact_files": ["inprocgrpc/in_process.go", "httpgrpc/server.go"], "trusted_base": _HS_TB + _IS_TB,
  "partial": ["the HTTP server's second-request rejection is a theorem of C07 (C07_server_second_request_rejected); over HTTP, after the look-ahead has rejected a second response the final outcome is whichever error was recorded first (Internal, or the reader's own) — never success (C08_http_second_response_is_error)"],
  "level_text": "Proof: on a single-response method with a live context, a RecvMsg that returns a message m implies the handler handed exactly [m] to SendMsg and returned nil, in every reachable state of the InprocStream system (C08_single_response: any handler script, any timing of an extra frame relative to the client's look-ahead); a second data frame is Internal (C08_second_response_is_error), an error frame after the first message is the outcome (C08_error_after_response_is_error — the defect fixed by 03df1bb), and with nothing sent no message is ever returned. Tie: scripts on client-streaming and unary-through-stream methods accepted by the explorer; oracle on both transports." + _HS_TEXT,
  "level_note": _IS_NOTE,
  "assumptions": [],
 },
})
PROPS["C06"] = {
  "fact_files": ["inprocgrpc/in_process.go"],
  "trusted_base": ["ASSUMED: Clone / Copy produce fresh memory with equal content (protobuf deep copy; C18 treats the adapters, the reflective pointer walk of the harness validates it on every run)",
                   "Go runtime: a mutex-protected section is atomic w.r.t. other sections of the same mutex (reqMu in Invoke)",
                   "the recording cloner of the harness observes every copy of the caller's request relative to the return of Invoke; reflective pointer walk + in-place mutation observe shared memory"],
  "partial": ["'never races': data-race freedom proper is a property of the Go memory model and is not expressible in the model; it is supported by the absence of shared memory (pointer walk) and of reads after return (recording cloner), not proved",
              "deep-copy behaviour of protobuf Clone/Merge is assumed (validated per run; for dynamic messages the validation fails: known findings C18-F5..F7)",
              "stream sends: 'the library no longer reads the caller's message after SendMsg returned' is a theorem of the Placement model (the frame carries the clone); on the implementation it is checked by mutation-after-send"],
  "level_text": "Proof: (1) Placement model of where the channel copies (switches regenerated from the source: both SendMsg put cloner.Clone's result into the frame, RecvMsg / Invoke hand frame data out only through cloner.Copy): for EVERY history of allocations, sends and receives into fresh or existing destinations, sender-owned and receiver-owned memory are disjoint, no frame in flight is a sender's object, and the library never reads a sender's object after its send returned (C06_disjoint_ownership); without the clone the property fails (C06_no_clone_counterexample). (2) InprocUnary transition system: in every reachable state of Invoke — any cancellation instant, any timing of the handler's decode, copies stalled in mid-flight — the request is not read after Invoke returned and Invoke does not return while a copy is running (C06_unary_no_read_after_return); the pre-repair code violates it (C06_old_code_reads_after_return, fixed by 515f033). Tie: placement facts regenerated; unary scripts with a recording cloner, schedule-point holds and stalled copies accepted by the explorer; every cloner configuration x RPC kind x direction: pointer walk, mutation after hand-off, pre-filled destinations.",
  "level_note": "Trusted: Lean kernel; extractor (placement facts); harness (recording cloner, pointer walk, goroutine-park detector) + driver explorer; the Clone/Copy freshness assumption.",
  "assumptions": ["Clone/Copy yield fresh memory (ClonerSpec); the caller may mutate or reuse a message at any time after the operation that took it returned"],
}
PROPS["C03"] = {
  "fact_files": ["httpgrpc/io.go", "httpgrpc/client.go", "httpgrpc/server.go", "inprocgrpc/in_process.go"],
  "trusted_base": _HS_TB + _IS_TB + ["net/http's treatment of header lines in transit (key canonicalisation, trimming of optional whitespace, rejection of control bytes) and Go's encoding/base64 (modelled concretely in Model/Metadata.lean and compared with the real functions on every run)",
                            "grpc metadata package (Join / Pairs / FromIncomingContext), grpc.SetHeader / SetTrailer / Header / Trailer call options"],
  "partial": [              "HTTP: header/trailer transport (toHeaders / asMetadata) is proved for whole maps with any number of keys and values (C03_md_roundtrip); the X-GRPC-Trailer- split of unary replies is modelled and proved under the hypothesis that no header key lies under that prefix (C03_unary_trailer_split_roundtrip_partial; the hypothesis is needed: C03_unary_header_under_trailer_prefix_becomes_trailer, cf. known finding C02-F2/C14-F1) and compared with the real toHeaders/setMetadata on random maps; HttpTrailer.metadata is explored end to end; net/http's own header handling (canonicalisation, trimming) is external",
              "HTTP stream header state machine: modelled (HttpServerStream) with opaque metadata identities; the byte-level header codec is C03_md_roundtrip"],
  "level_text": "Proof: base64 of '-bin' values round-trips for EVERY byte string of any length (padding cases, 0x00/0x0A/0xFF) and emits only header-safe bytes (C03_b64_roundtrip, C03_b64_header_safe); encode and decode sites use the same variant (regenerated, C03_codec_sites); a key with any number of values survives toHeaders→asMetadata in order (C03_md_key_roundtrip); over the InprocStream system, for every reachable state with a live context: Header()/Trailer() are exactly the headers/trailers frames taken (C03_client_metadata_is_frames), when the client takes the handler's error frame — and when it sees the clean end — Trailer() already holds every trailer the handler set (C03_trailers_with_final_status, C03_success_has_all_trailers: at most one trailers frame, carrying all of SetTrailer's values, strictly before the error frame which is last), SetHeader/SendHeader after the headers went out fail (C03_set_header_after_send_fails, both state machines); over InprocUnary: nil from Invoke implies every header and trailer reached the call options, for every interleaving with cancellation (C03_unary_success_has_all_metadata). Frame orders regenerated (C03_frame_order_facts). Tie: unit comparison of the real toHeaders/asMetadata with the model; random metadata maps (repeated keys, multi-values set in two steps, '-bin' with arbitrary bytes) end to end on both transports, all RPC kinds, success and failure, duplicated call options; stream and unary scripts with header/trailer oracles." + _HS_TEXT + _HU_TEXT,
  "level_note": _IS_NOTE,
  "assumptions": ["metadata keys are drawn from the gRPC key alphabet and are not reserved HTTP header names; plain values are printable ASCII"],
}
_STREAM_WIP = "proofs for this property are being written in this revision; the harness suite and model explorer already run (see DESIGN.md section 7)"
for _p in ():
    PROPS.setdefault(_p, {"unclaimed": _STREAM_WIP, "fact_files": ["inprocgrpc/in_process.go"], "trusted_base": [], "partial": [], "level_text": "", "level_note": ""})
