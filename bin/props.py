# Per-property metadata used by bin/check (what is trusted, which regenerated
# facts the property's theorems depend on, which clauses stay explored-only).
HOOK_COMMITS = ["5ce050f"]

PROPS = {
 "C14": {
  "fact_files": ["httpgrpc/codes.go", "httpgrpc/server.go"],
  "trusted_base": ["net/http: http.Error writes the given status; Response.StatusCode/Status/Header as received",
                   "grpc status/codes packages (status.FromError, Code() accessors)"],
  "partial": [],
  "level_text": "Proof: 8 Lean theorems over the code tables regenerated from httpgrpc/codes.go and the documented table in server.go: forward mapping equals the documentation and is an error status for every non-OK code (all naturals), the 499 rule, the client recovers the exact code from the status header for every uint32 code / message / renderer output (decimal round-trip through int32), and OK-iff-2xx for every integer status. Tie: tables regenerated on every run (a changed entry re-checks or breaks the certificate), plus exhaustive differential run of the real functions and a real server+channel against the model.",
  "level_note": "Trusted: Lean kernel; extractor; harness+driver; net/http's http.Error/Response fields; grpc status package. Modelled not verified: header transport by net/http.",
  "assumptions": ["custom error renderers are arbitrary: the theorem quantifies over every (HTTP status, status text) they may write"],
 },
 "C09": {
  "fact_files": ["httpgrpc/server.go", "httpgrpc/client.go"],
  "trusted_base": ["strconv.ParseInt base-10 semantics as modelled in Prim.parseInt (validated by the correspondence run)",
                   "context.WithTimeout / time.Time.Add (saturating) and the monotone clock used for the sandwich",
                   "net/http delivers the GRPC-Timeout header value unchanged apart from optional-whitespace trimming"],
  "partial": ["transit time and wall-clock drift are runtime facts: the e2e run measures them one-sidedly"],
  "level_text": "Proof: Lean theorems over the Timeout model with Go's int64 multiply explicit (wrap64): every digit string of any length with a valid unit decodes to exactly v*unit or saturates to MaxInt64 / no deadline, never smaller or negative (C09_parse_valid); no header string can panic the parser (C09_parse_total); the client encodes max(1, d/1ms) with d-1ms < e <= d (C09_client_encoding); client->server round trip is exact (C09_client_server_roundtrip); no deadline => no header. Unit table, divisor, floor rule, ParseInt width and the presence of the saturation are regenerated from the source on every run. Tie: sandwich-checked differential run of contextFromHeaders / headersFromContext and real calls.",
  "level_note": "Trusted: Lean kernel; extractor; harness+driver; strconv/context/time as modelled. Transit time is measured, not proved.",
  "assumptions": ["durations are int64 nanoseconds; the clock is monotone between two readings"],
 },
 "C07": {
  "fact_files": ["httpgrpc/io.go", "httpgrpc/client.go", "httpgrpc/server.go"],
  "trusted_base": ["encoding/binary big-endian int32, io.ReadAtLeast/ReadFull as modelled by Framing.readFull/readSize",
                   "protobuf Unmarshal of payloads is an external: its answers are passed to the model on the op line (pm=/tr= maps)",
                   "runtime.MemStats.TotalAlloc as the allocation observer in the harness oracle"],
  "partial": [],
  "level_text": "Proof: Lean theorems over the Framing model, for arbitrary byte strings and message lists of any length: the decode loop is total and fuel-independent (no panic outcome); every allocation of the client loop and of the server RecvMsg is <= the per-message limit (also for 0x80000000, 0x7fffffff, 0xffffffff prefixes); delivered messages re-framed are a prefix of the input (nothing fabricated); encode/decode round trip; a response cut at ANY offset before the end of the trailer frame yields an error outcome and an intact prefix of the messages; the server rejects a second request frame. maxMessageSize and the guarded allocation sites are regenerated from source on every run. Tie: differential run of the real client decoder (replaying RoundTripper) and server decoder (crafted request bodies) against the model on encodings, every truncation offset, hostile prefixes and random bytes, clean and abrupt endings.",
  "level_note": "Trusted: Lean kernel; extractor; harness+driver; encoding/binary, io, protobuf Unmarshal (external parameter).",
  "assumptions": ["the reader is a finite byte string followed by io.EOF (clean) or a transport error (abrupt)"],
 },
 "C12": {
  "fact_files": ["inprocgrpc/in_process.go"],
  "trusted_base": ["http.ServeMux exact matching of clean paths, net/url escaping and path.Clean (the model's cleanSegs is validated against path.Join only through end-to-end calls)",
                   "strings.SplitN as modelled by Prim.splitN2 (validated by correspondence)"],
  "partial": ["ServeMux / URL escaping behaviour is exercised end to end, not proved"],
  "level_text": "Proof: Lean theorems over the Resolve model for every method-name byte string, every registry and both call kinds: the in-process resolution never panics (guards regenerated from source), a handler runs iff the normalised name is exactly /svc/mth with svc registered and mth a method of that kind and then it is that handler (C12_inproc_resolve), everything else is Unimplemented; for HTTP, path.Join(base, name) gives the same clean path on client and server for every base and is injective in (svc, mth). Tie: facts regenerated; differential run of Invoke/NewStream on name shapes x random registries; end-to-end HTTP through Server and HandleServices with several base paths, per-method handler counters.",
  "level_note": "Trusted: Lean kernel; extractor; harness+driver; ServeMux, net/url, path.Clean.",
  "assumptions": ["the registry holds one entry per service name (C15)"],
 },
 "C11": {
  "fact_files": ["httpgrpc/protocol_versions.go", "httpgrpc/codes.go"],
  "trusted_base": ["mime.ParseMediaType, codec Unmarshal/Marshal, asMetadata's base64 failure (externals passed on the op line)",
                   "http.ServeMux answers 404 for unknown paths", "http.Error / ResponseWriter"],
  "partial": ["the JSON codec itself (protojson) and the mux are exercised, not modelled"],
  "level_text": "Proof: Lean theorems over the HttpServer decision model for every request and every handler behaviour/script: handler at most once, handler only if POST + supported media type + decodable headers (+ readable body), 405/415/400 precedence with Allow: POST, undecodable message => InvalidArgument without application code, JSON decided identically to protobuf, and for every handler script a streaming reply is data frames followed by exactly one trailer frame unless a write failed. Accepted media types and the code tables are regenerated from source. Tie: randomised requests of all shapes through the real Server with call counters and reply-frame parsing, compared line by line with the model; JSON/proto parity and 404 end to end.",
  "level_note": "Trusted: Lean kernel; extractor; harness+driver; mime, codecs, ServeMux, ResponseWriter.",
  "assumptions": ["the request context is live when the renderer runs (the 499 rule is C14's)"],
 },
 "C13": {
  "fact_files": ["httpgrpc/client.go", "inprocgrpc/in_process.go"],
  "trusted_base": ["grpc metadata.Join / metadata.New (modelled as multimap append with lower-cased keys; validated by correspondence)",
                   "crypto/tls + net/http set Response.TLS iff the connection uses TLS; a client-side Request.TLS is never set",
                   "credentials.PerRPCCredentials implementations are arbitrary (the theorems quantify over their answers)"],
  "partial": ["the TLS handshake itself is exercised with httptest's TLS server, not modelled"],
  "level_text": "Proof: Lean theorems over the Creds model for every credential (security requirement, metadata map or error), every caller metadata multimap and every key: credentials requiring security on a non-https channel fail the call without consulting the credential or issuing a request; errors propagate; otherwise for every key the handler-visible values are the caller's followed by the credential's (lower-cased keys), nothing dropped; the peer option has TLS info iff the connection uses TLS, unary and streaming alike. The isChannelSecure expression of all four call sites and the struct each getPeer call reads TLS from are regenerated from source. Tie: differential unit run of ApplyPerRPCCreds; end-to-end calls over in-memory HTTP, loopback HTTP, httptest TLS and in-process with counting transports.",
  "level_note": "Trusted: Lean kernel; extractor; harness+driver; grpc metadata package; crypto/tls, net/http.",
  "assumptions": ["when credential keys collide after lower-casing, their relative order follows Go map iteration and is compared as a multiset"],
 },
}
