import Model.Prim
import Model.Gen.Codes
import Model.Gen.Wire
import Model.Gen.Timeout
import Model.Gen.Inproc
import Model.Codes
import Model.Timeout
import Model.Framing
