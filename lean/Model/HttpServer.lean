/-
  HttpServer: the gatekeeping decisions of `handleMethod` / `handleStream`
  (httpgrpc/server.go) and the shape of a streaming reply.
  Externals supplied as parameters: the media type `mime.ParseMediaType`
  extracts from Content-Type, whether the request headers decode
  (`asMetadata`), whether the body could be read, whether the codec can
  unmarshal the request message.
-/
import Model.Prim
import Model.Codes
import Model.Gen.Wire

namespace HttpServer
open Prim

structure Req where
  method : Bytes          -- r.Method, verbatim
  mediaType : String      -- result of mime.ParseMediaType (lower-cased main type; "" on error)
  headersDecode : Bool    -- asMetadata(r.Header) succeeds (all -bin values are valid base64)
  bodyReadOK : Bool       -- ioutil.ReadAll(r.Body) succeeds (unary only)
  unmarshalOK : Bool      -- codec.Unmarshal of the request message succeeds

/-- what the application handler does once it runs (unary): `none` = returns a response,
    `some c` = returns an error whose status has code `c` -/
abbrev HandlerResult := Option Nat

structure UnaryReply where
  httpStatus : Nat
  allowPost : Bool               -- `Allow: POST` header set
  descHandlerCalls : Nat         -- invocations of the registered method handler (desc.Handler)
  appCalls : Nat                 -- invocations of the application method / interceptor chain
  grpcCode : Option Nat          -- code in X-GRPC-Status, if the header is written
  marshalFailed : Bool := false
deriving DecidableEq, Repr

def POST : Bytes := [80, 79, 83, 84]

def unaryAccepts (mt : String) : Bool := Gen.unaryAccepts.contains mt
def streamAccepts (mt : String) : Bool := Gen.streamAccepts.contains mt

/-- `handleMethod`'s closure. `ctxDone`: the request context is done when the renderer runs;
    `respMarshalOK`: the response message marshals. -/
def handleMethod (r : Req) (h : HandlerResult) (ctxDone : Bool) (respMarshalOK : Bool) : UnaryReply :=
  if r.method != POST then ⟨405, true, 0, 0, none, false⟩
  else if !unaryAccepts r.mediaType then ⟨415, false, 0, 0, none, false⟩
  else if !r.headersDecode then ⟨400, false, 0, 0, none, false⟩
  else if !r.bodyReadOK then ⟨499, false, 0, 0, none, false⟩
  else if !r.unmarshalOK then
    -- desc.Handler runs, `dec` fails with InvalidArgument, the application method is not reached
    ⟨Codes.defaultRendererStatus 3 ctxDone, false, 1, 0, some 3, false⟩
  else match h with
    | some c =>
      let c' := Codes.renderedCode c
      ⟨Codes.defaultRendererStatus c' ctxDone, false, 1, 1, some c', false⟩
    | none =>
      if respMarshalOK then ⟨200, false, 1, 1, none, false⟩
      else ⟨500, false, 1, 1, none, true⟩

/-! ### streaming -/

/-- what the stream handler does with its `grpc.ServerStream` -/
inductive SOp where
  | send (marshalOK writeOK : Bool)    -- SendMsg
  | setHeader | sendHeader | setTrailer
  | recv
deriving DecidableEq, Repr

inductive Frame where | data | trailer
deriving DecidableEq, Repr

structure SState where
  headersSent : Bool := false
  writeFailed : Bool := false
  frames : List Frame := []         -- frames written to the reply body, in order
  sendResults : List Bool := []     -- did SendMsg return nil
  setHeaderResults : List Bool := []

def stepS (s : SState) : SOp → SState
  | .send mOK wOK =>
    if s.writeFailed then { s with sendResults := s.sendResults ++ [false] }     -- io.EOF
    else if mOK && wOK then { s with headersSent := true, frames := s.frames ++ [.data], sendResults := s.sendResults ++ [true] }
    else { s with headersSent := true, writeFailed := true, sendResults := s.sendResults ++ [false] }
  | .setHeader => { s with setHeaderResults := s.setHeaderResults ++ [!s.headersSent] }
  | .sendHeader => if s.headersSent then { s with setHeaderResults := s.setHeaderResults ++ [false] }
                   else { s with headersSent := true, setHeaderResults := s.setHeaderResults ++ [true] }
  | .setTrailer => s
  | .recv => s

structure StreamReply where
  httpStatus : Nat
  allowPost : Bool
  handlerCalls : Nat
  frames : List Frame
deriving DecidableEq, Repr

/-- `handleStream`'s closure: after the gate, run the handler script, then write exactly one
    trailer frame unless a write failed. -/
def handleStream (r : Req) (script : List SOp) : StreamReply :=
  if r.method != POST then ⟨405, true, 0, []⟩
  else if !streamAccepts r.mediaType then ⟨415, false, 0, []⟩
  else if !r.headersDecode then ⟨400, false, 0, []⟩
  else
    let s := script.foldl stepS {}
    if s.writeFailed then ⟨200, false, 1, s.frames⟩
    else ⟨200, false, 1, s.frames ++ [.trailer]⟩

end HttpServer
