/-
  Resolve: how a method-name string selects a handler.
  * in-process (`inprocgrpc.Channel.Invoke` / `NewStream`): leading-slash
    normalisation, `strings.SplitN(method[1:], "/", 2)`, registry lookup —
    with Go's indexing failures explicit;
  * HTTP: `path.Join(base, name)` on both sides (client URL path, server mux
    pattern); the mux itself is an external (exact match on clean paths).
-/
import Model.Prim
import Model.Gen.Resolve

namespace Resolve
open Prim

/-- a registered service: name, unary method names, streaming method names -/
structure Svc where
  name : Bytes
  unary : List Bytes
  streams : List Bytes
deriving DecidableEq

inductive Kind where | unary | stream
deriving DecidableEq, Repr

inductive Outcome where
  | handler (svc method : Bytes)     -- that handler runs
  | unimplemented                    -- status error, no handler runs
  | panic                            -- Go run-time panic (index out of range)
deriving DecidableEq, Repr

/-- `HandlerMap.QueryService`: the map has one entry per name (first registration wins; see C15) -/
def query (reg : List Svc) (name : Bytes) : Option Svc := reg.find? (·.name == name)

def methodsOf (k : Kind) (s : Svc) : List Bytes :=
  match k with
  | .unary => s.unary
  | .stream => s.streams

/-- lookup after the name has been split -/
def lookup (k : Kind) (reg : List Svc) (svc mth : Bytes) : Outcome :=
  match query reg svc with
  | none => .unimplemented
  | some s => if (methodsOf k s).contains mth then .handler svc mth else .unimplemented

/-- `if method == "" || method[0] != '/' { method = "/" + method }` — with `guardEmpty = false`
    this is the unguarded `method[0]`, which panics on the empty string. -/
def normalise (guardEmpty : Bool) (m : Bytes) : Option Bytes :=
  match m with
  | [] => if guardEmpty then some [47] else none
  | c :: r => if c == 47 then some (c :: r) else some (47 :: c :: r)

/-- the in-process resolution. `checkLen` says whether the code checks `len(strs) == 2` before
    indexing `strs[1]`. -/
def inproc (guardEmpty checkLen : Bool) (k : Kind) (reg : List Svc) (m : Bytes) : Outcome :=
  match normalise guardEmpty m with
  | none => .panic
  | some nm =>
    match splitN2 (nm.drop 1) 47 with
    | [svc, mth] => lookup k reg svc mth
    | _ => if checkLen then .unimplemented else .panic

/-- the code as it is in the working tree: the guard facts are regenerated from source -/
def inprocNow (k : Kind) (reg : List Svc) (m : Bytes) : Outcome :=
  match k with
  | .unary => inproc Gen.invokeGuardEmpty Gen.invokeCheckLen k reg m
  | .stream => inproc Gen.newStreamGuardEmpty Gen.newStreamCheckLen k reg m

/-! ### HTTP: `path.Join` on segment lists -/

/-- split on '/' (`cur` is the current segment, reversed) -/
def segsAux : Bytes → Bytes → List Bytes
  | cur, [] => [cur.reverse]
  | cur, c :: r => if c == 47 then cur.reverse :: segsAux [] r else segsAux (c :: cur) r

def segs (p : Bytes) : List Bytes := segsAux [] p

/-- `path.Clean` on the segments of a rooted path: drop empty and ".", resolve ".." -/
def cleanSegs : List Bytes → List Bytes → List Bytes
  | acc, [] => acc.reverse
  | acc, s :: rest =>
    if s.isEmpty || s == [46] then cleanSegs acc rest
    else if s == [46, 46] then cleanSegs (acc.drop 1) rest
    else cleanSegs (s :: acc) rest

/-- `path.Join(base, name)` for an absolute `base`, as a list of clean segments
    (the string is "/" ++ intercalate "/" segments) -/
def joinSegs (base name : Bytes) : List Bytes := cleanSegs [] (segs base ++ segs name)

def renderPath (ss : List Bytes) : Bytes := 47 :: (List.intersperse [47] ss).flatten

/-- a plain segment: non-empty, no '/', not "." or ".." -/
def plain (s : Bytes) : Bool := !s.isEmpty && !s.contains 47 && s != [46] && s != [46, 46]

end Resolve
