/-
  Placement: where the in-process channel copies messages (inprocgrpc/in_process.go SendMsg /
  RecvMsg on both stream sides; Invoke's decode closure and receive loop), with memory modelled
  explicitly: every message object is an identity standing for the set of addresses reachable
  from it; `Clone` and `Copy` are ASSUMED to produce fresh memory with equal content (that is C18's
  subject); what is modelled here is only which object the library puts into a frame and which
  object it hands to the receiver. The switches `cloneOnSend` / `copyOnRecv` are instantiated from
  the facts regenerated from the source.
-/
import Model.Gen.Inproc

namespace Placement

structure St where
  cloneOnSend : Bool
  copyOnRecv : Bool
  next : Nat := 0                    -- allocator: every id < next is in use
  sender : List Nat := []            -- objects owned by the sending side (it may mutate / reuse them at any time)
  receiver : List Nat := []          -- objects owned by the receiving side
  frames : List Nat := []            -- objects held by the library in frames not yet received
  /-- ghost: the library read an object of the sender after the send that handed it over had returned -/
  lateRead : Bool := false
deriving DecidableEq, Repr

inductive Act where
  | newMsg              -- the sender allocates a message
  | send (m : Nat)      -- SendMsg(m) / Invoke(req = m): returns when the frame is written
  | recv                -- RecvMsg(dst): the oldest frame is handed to the receiver
  | recvInto (dst : Nat) -- RecvMsg into an existing receiver-owned destination
deriving DecidableEq, Repr

def init (c1 c2 : Bool) : St := { cloneOnSend := c1, copyOnRecv := c2 }

def step (s : St) : Act → Option St
  | .newMsg => some { s with next := s.next + 1, sender := s.next :: s.sender }
  | .send m =>
    if m ∈ s.sender then
      if s.cloneOnSend then some { s with next := s.next + 1, frames := s.frames ++ [s.next] }   -- fresh copy travels
      else some { s with frames := s.frames ++ [m] }                                              -- the caller's object travels
    else none
  | .recv =>
    match s.frames with
    | f :: rest =>
      let late := decide (f ∈ s.sender)        -- reading the frame's object reads the sender's memory, after its send returned
      if s.copyOnRecv then some { s with next := s.next + 1, frames := rest, receiver := s.next :: s.receiver, lateRead := s.lateRead || late }
      else some { s with frames := rest, receiver := f :: s.receiver, lateRead := s.lateRead || late }
    | [] => none
  | .recvInto dst =>
    if dst ∈ s.receiver then
      match s.frames with
      | f :: rest =>
        let late := decide (f ∈ s.sender)
        -- Reset-then-merge: the destination's reachable memory is replaced by fresh memory
        if s.copyOnRecv then some { s with next := s.next + 1, frames := rest, receiver := s.next :: s.receiver.erase dst, lateRead := s.lateRead || late }
        else some { s with frames := rest, receiver := f :: s.receiver.erase dst, lateRead := s.lateRead || late }
      | [] => none
    else none

def run (s : St) : List Act → Option St
  | [] => some s
  | a :: rest => match step s a with
    | some s' => run s' rest
    | none => none

/-- the channel as the source has it -/
def initFromSource (dirIsRequest : Bool) : St :=
  if dirIsRequest then init Gen.clientSendClones (Gen.serverRecvCopyCalls ≥ 1 && Gen.serverRecvOtherDataUses == 0)
  else init Gen.serverSendClones (Gen.clientRecvCopyCalls ≥ 1 && Gen.clientRecvOtherDataUses == 0)

end Placement
