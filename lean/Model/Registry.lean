/-
  Registry: `grpchan.HandlerMap` (server.go) — RegisterService / QueryService /
  ForEach / GetServiceInfo. Descriptors and handlers are opaque identities;
  `typeOK` is the external `reflect.Type.Implements` answer.
-/
import Model.Prim

namespace Registry
open Prim

structure Reg where
  name : Bytes
  desc : Nat
  handler : Nat
  typeOK : Bool
deriving DecidableEq, Repr

abbrev Entry := Bytes × Nat × Nat
abbrev State := List Entry

def has (s : State) (n : Bytes) : Bool := s.any (·.1 == n)

/-- `RegisterService`: the type check comes first, then the duplicate check; either failure
    panics and leaves the map as it was. Returns the new state and whether it panicked. -/
def register (s : State) (r : Reg) : State × Bool :=
  if !r.typeOK then (s, true)
  else if has s r.name then (s, true)
  else (s ++ [(r.name, r.desc, r.handler)], false)

/-- `QueryService` -/
def query (s : State) (n : Bytes) : Option (Nat × Nat) := (s.find? (·.1 == n)).map (·.2)

/-- `ForEach`: every entry, in some order (Go map iteration) -/
def forEach (s : State) : List Entry := s

/-- `GetServiceInfo`: the registered names with their descriptors -/
def info (s : State) : List (Bytes × Nat) := s.map fun e => (e.1, e.2.1)

def run (s : State) (rs : List Reg) : State := rs.foldl (fun st r => (register st r).1) s

end Registry
