/-
  InterceptClient: `InterceptClientConn` and `interceptedChannel` (intercept.go).
  Interceptors are arbitrary functions into a writer over an event log.
-/
import Model.Prim
import Model.Gen.Intercept

namespace InterceptClient

structure Call where
  method : Nat
  opts : Nat          -- number of call options
deriving DecidableEq, Repr

inductive Ev where
  | int (stream : Bool) (layer : Nat) (cc : Option Nat) (c : Call)   -- an interceptor saw the call
  | base (stream : Bool) (id : Nat) (c : Call)                       -- the call reached the base channel
deriving DecidableEq, Repr

abbrev Res := Nat                       -- 0 = the base channel's result
abbrev Out := List Ev × Res
abbrev Invoker := Call → Out
/-- a client interceptor: gets the `cc` argument, the call and the onward invoker -/
abbrev Interceptor := Option Nat → Call → Invoker → Out

inductive Chan where
  | base (isGrpcConn : Bool) (id : Nat)
  | wrapped (inner : Chan) (u s : Option Interceptor)

/-- `InterceptClientConn`: both nil ⇒ the channel itself -/
def intercept (ch : Chan) (u s : Option Interceptor) : Chan :=
  if Gen.clientIdentityCond == "&&" then (if u.isNone && s.isNone then ch else .wrapped ch u s)
  else (if u.isNone || s.isNone then ch else .wrapped ch u s)

/-- `Unwrap()` -/
def unwrapOne : Chan → Option Chan
  | .base _ _ => none
  | .wrapped inner _ _ => some inner

/-- `unwrap`: completely unwrap to the root -/
def root : Chan → Chan
  | .base g id => .base g id
  | .wrapped inner _ _ => root inner

def grpcId : Chan → Option Nat
  | .base true id => some id
  | _ => none

/-- the `cc` handed to an interceptor of a wrapper around `inner` -/
def ccOf (usesUnwrap : Bool) (inner : Chan) : Option Nat :=
  if usesUnwrap then grpcId (root inner) else grpcId inner

def invoke : Chan → Call → Out
  | .base _ id, c => ([.base false id c], 0)
  | .wrapped inner none _, c => invoke inner c
  | .wrapped inner (some u) _, c => u (ccOf Gen.unaryCCUsesUnwrap inner) c (invoke inner)

def newStream : Chan → Call → Out
  | .base _ id, c => ([.base true id c], 0)
  | .wrapped inner _ none, c => newStream inner c
  | .wrapped inner _ (some s), c => s (ccOf Gen.streamCCUsesUnwrap inner) c (newStream inner)

/-! concrete interceptor behaviours used by the correspondence run -/

/-- log, then forward unchanged -/
def logPass (stream : Bool) (layer : Nat) : Interceptor :=
  fun cc c inv => let (es, r) := inv c; (.int stream layer cc c :: es, r)
/-- log, then return without forwarding -/
def logShort (stream : Bool) (layer : Nat) : Interceptor :=
  fun cc c _ => ([.int stream layer cc c], 1)
/-- log, then forward with one more call option -/
def logAlter (stream : Bool) (layer : Nat) : Interceptor :=
  fun cc c inv => let (es, r) := inv { c with opts := c.opts + 1 }; (.int stream layer cc c :: es, r)

/-- log, then forward without any call option (e.g. an interceptor that strips credentials) -/
def logDrop (stream : Bool) (layer : Nat) : Interceptor :=
  fun cc c inv => let (es, r) := inv { c with opts := 0 }; (.int stream layer cc c :: es, r)

/-- log, then forward under another method name (e.g. an interceptor that routes to a versioned method) -/
def logRename (stream : Bool) (layer : Nat) : Interceptor :=
  fun cc c inv => let (es, r) := inv { c with method := c.method + 1 }; (.int stream layer cc c :: es, r)

end InterceptClient
