/-
  InprocUnary: the transition system of one in-process unary call
  (inprocgrpc/in_process.go: Channel.Invoke; internal/transport_stream.go:
  UnaryServerTransportStream).

  Threads: the caller inside `Invoke` (the receive loop, then the deferred
  `returned = true` under reqMu and `cancel()`), the server goroutine (handler,
  then the frame writes in source order, then `close(ch)`), and the handler's
  decode callback which copies the caller's request under reqMu.

  `step : St → Act → Option (St × List Ev)`; `none` = not enabled. All
  nondeterminism (which `select` branch, scheduling, the cancellation instant)
  is in the choice of the next action. The frame order of the server goroutine
  is a parameter regenerated from the source (`Gen.unaryFrameOrder`).
-/
import Model.InprocStream

namespace InprocUnary
open InprocStream (Reason HErr Res codeOf translate)

inductive UFrame where
  | headers (md : List Nat)
  | data (v : Nat)
  | trailers (md : List Nat)
  | err (e : HErr)
deriving DecidableEq, Repr

inductive Actor where | c | h
deriving DecidableEq, Repr

inductive Ev where
  | ret (a : Actor) (r : Res)
deriving DecidableEq, Repr

structure St where
  cap : Nat
  /- the two repairs made to Invoke, as switches, so that the pre-repair behaviour stays expressible
     (the theorems are about `true`; the counterexamples about `false`) -/
  guardDecode : Bool := true           -- 515f033: decode and return are mutually exclusive (reqMu + returned flag)
  recheckClose : Bool := true          -- 313140f: re-check ctx.Err() when the frame channel is closed
  ctx : Option Reason := none          -- the caller's context
  -- caller side (Invoke)
  result : Option Res := none          -- the receive loop has decided Invoke's result
  returned : Bool := false             -- Invoke has returned (deferred: `returned = true` under reqMu, then cancel())
  gotResponse : Bool := false
  respCopied : Option Nat := none      -- what was copied into the caller's response message
  cHdr : Option (List Nat) := none     -- copts.SetHeaders
  cTlr : Option (List Nat) := none     -- copts.SetTrailers
  -- the request copy (codec closure, reqMu)
  reading : Bool := false              -- the decode closure holds reqMu and is copying the caller's request
  decoded : Bool := false
  readAfterReturn : Bool := false      -- ghost: a copy of the caller's request was in progress or began after Invoke returned
  -- server goroutine
  pc : Nat := 0                        -- 0 handler running, 1 writing frames, 2 channel closed
  hdrsSent : Bool := false             -- UnaryServerTransportStream.hdrsSent
  hHdr : List Nat := []
  hTlr : List Nat := []
  hRet : Option (Option Nat × Option HErr) := none
  frames : List UFrame := []           -- frames the goroutine still has to write
  ch : List UFrame := []
  chClosed : Bool := false
  enq : List UFrame := []              -- ghost
  deq : List UFrame := []              -- ghost
deriving DecidableEq, Repr

inductive Act where
  | cancel (r : Reason)
  | hDecodeBegin | hDecodeEnd
  | hSetHeader (md : Nat) | hSendHeader (md : Nat) | hSetTrailer (md : Nat)
  | hReturn (v : Option Nat) (e : Option HErr)
  | wEnq | wSkip | wClose
  | cTake | cClosed | cCtx | cReturn
deriving DecidableEq, Repr

def init (cap : Nat) : St := { cap }
/-- the code before the two repairs -/
def initOld (cap : Nat) : St := { cap, guardDecode := false, recheckClose := false }

/-- the server goroutine's context: child of the caller's, cancelled when Invoke returns -/
def svrCtxDone (s : St) : Bool := s.ctx.isSome || s.returned

/-- the frames the server goroutine writes after the handler returned, in source order:
    headers (if any), the response (or the Internal error if the handler returned neither),
    trailers (if any), the error (if any) -/
def framesOf (hdr tlr : List Nat) (v : Option Nat) (e : Option HErr) : List UFrame :=
  let e' : Option HErr := match e, v with
    | none, none => some (.status 13)
    | e, _ => e
  (if hdr.isEmpty then [] else [UFrame.headers hdr]) ++
  (match e, v with | none, some x => [UFrame.data x] | _, _ => []) ++
  (if tlr.isEmpty then [] else [UFrame.trailers tlr]) ++
  (match e' with | some x => [UFrame.err x] | none => [])

def ctxStatus (r : Reason) : Res := .status (codeOf r)

def step (s : St) : Act → Option (St × List Ev)
  | .cancel r => if s.ctx.isSome then none else some ({ s with ctx := some r }, [])

  /- the handler decodes the request: the copy runs under reqMu; after Invoke returned it is refused -/
  | .hDecodeBegin =>
    if s.pc != 0 || s.reading then none
    else if s.guardDecode && s.returned then some (s, [.ret .h (.status 1)])
    else some ({ s with reading := true, readAfterReturn := s.readAfterReturn || s.returned }, [])
  | .hDecodeEnd =>
    if s.reading then some ({ s with reading := false, decoded := true, readAfterReturn := s.readAfterReturn || s.returned }, [.ret .h .ok])
    else none
  | .hSetHeader md =>
    if s.pc != 0 || s.reading then none
    else if s.hdrsSent then some (s, [.ret .h .plainErr])
    else some ({ s with hHdr := s.hHdr ++ [md] }, [.ret .h .ok])
  | .hSendHeader md =>
    if s.pc != 0 || s.reading then none
    else if s.hdrsSent then some (s, [.ret .h .plainErr])
    else some ({ s with hHdr := s.hHdr ++ [md], hdrsSent := true }, [.ret .h .ok])
  | .hSetTrailer md =>
    if s.pc != 0 || s.reading then none
    else some ({ s with hTlr := s.hTlr ++ [md] }, [.ret .h .ok])
  | .hReturn v e =>
    if s.pc != 0 || s.reading then none
    else some ({ s with pc := 1, hRet := some (v, e), frames := framesOf s.hHdr s.hTlr v e }, [])

  /- the server goroutine writes its frames: `select { case ch <- m: case <-ctx.Done(): }`, errors ignored -/
  | .wEnq =>
    match s.pc, s.frames with
    | 1, f :: rest =>
      if s.ch.length < s.cap then some ({ s with frames := rest, ch := s.ch ++ [f], enq := s.enq ++ [f] }, [])
      else none
    | _, _ => none
  | .wSkip =>
    match s.pc, s.frames with
    | 1, _ :: rest => if svrCtxDone s then some ({ s with frames := rest }, []) else none
    | _, _ => none
  | .wClose =>
    match s.pc, s.frames with
    | 1, [] => some ({ s with pc := 2, chClosed := true }, [])
    | _, _ => none

  /- the caller's receive loop -/
  | .cTake =>
    if s.result.isSome then none else
    match s.ch with
    | f :: rest =>
      let s1 := { s with ch := rest, deq := s.deq ++ [f] }
      (match f with
       | .err e => some ({ s1 with result := some (translate e) }, [])
       | .data v =>
         if s.gotResponse then some ({ s1 with result := some (.status 13) }, [])
         else some ({ s1 with gotResponse := true, respCopied := some v }, [])
       | .headers md => some ({ s1 with cHdr := some md }, [])
       | .trailers md => some ({ s1 with cTlr := some md }, []))
    | [] => none
  | .cClosed =>
    if s.result.isSome then none
    else if s.ch.isEmpty && s.chClosed then
      (match (if s.recheckClose then s.ctx else none) with
       | some r => some ({ s with result := some (ctxStatus r) }, [])     -- the re-check added by 313140f
       | none => if s.gotResponse then some ({ s with result := some .ok }, [])
                 else some ({ s with result := some .eof }, []))
    else none
  | .cCtx =>
    if s.result.isSome then none
    else match s.ctx with
      | some r => some ({ s with result := some (ctxStatus r) }, [])
      | none => none
  /- Invoke returns: the deferred function takes reqMu (so it waits for a copy in progress), sets
     `returned`, then `cancel()` ends the server goroutine's context -/
  | .cReturn =>
    match s.result with
    | some r => if s.returned || (s.guardDecode && s.reading) then none
                else some ({ s with returned := true, readAfterReturn := s.readAfterReturn || s.reading }, [.ret .c r])
    | none => none

def run (s : St) : List Act → Option St
  | [] => some s
  | a :: rest => match step s a with
    | some (s', _) => run s' rest
    | none => none

def internalActs : List Act := [.wEnq, .wSkip, .wClose, .cTake, .cClosed, .cCtx, .cReturn]

end InprocUnary
