/-
  InterceptServer: `InterceptServer` / `WithInterceptor` (intercept.go) and how
  the three carriers (registry, in-process channel, HTTP server) hand the
  transport-level interceptor to a method handler. Handlers and interceptors
  are arbitrary functions into a writer over an event log. Service
  descriptions live in an explicit heap of slices so that "the original is
  left unmodified" is expressible.
-/
import Model.Prim
import Model.Gen.Intercept
import Model.Gen.InterceptServer

namespace InterceptServer
open Prim

/-! ### unary -/

abbrev Req := Nat
abbrev Resp := Nat
inductive Ev where
  | transport (info : Bytes) (req : Req)     -- transport-level interceptor saw the call
  | decor (layer : Nat) (info : Bytes) (req : Req)   -- decorating interceptor saw the call
  | app (req : Req)                          -- the original handler ran
deriving DecidableEq, Repr

abbrev Out := List Ev × Resp
abbrev UHandler := Req → Out
/-- `grpc.UnaryServerInterceptor`: (info, req, handler) -/
abbrev UInt := Bytes → Req → UHandler → Out

/-- a method handler as in `grpc.MethodDesc.Handler`: given the decoded request and the
    transport's interceptor (nil or not) -/
abbrev MethodHandler := Req → Option UInt → Out

/-- the shape of a protoc-generated `_Svc_Method_Handler` -/
def generated (info : Bytes) (app : UHandler) : MethodHandler :=
  fun req t => match t with
    | none => app req
    | some i => i info req app

/-- the combined interceptor built inside the decorated handler -/
def combine (t : Option UInt) (u : UInt) : UInt :=
  match t with
  | none => u
  | some t => fun info req handler => t info req (fun req' => u info req' handler)

/-- `InterceptServer`'s replacement for one unary method -/
def decorateUnary (u : UInt) (orig : MethodHandler) : MethodHandler :=
  fun req t => orig req (some (combine t u))

/-! ### streams -/

structure StreamInfo where
  fullMethod : Bytes
  isClientStream : Bool
  isServerStream : Bool
deriving DecidableEq, Repr

inductive SEv where
  | transport (info : StreamInfo)
  | decor (layer : Nat) (info : StreamInfo)
  | app
deriving DecidableEq, Repr

abbrev SOut := List SEv × Nat
abbrev SHandler := Unit → SOut
abbrev SInt := StreamInfo → SHandler → SOut

structure StreamDesc where
  name : Bytes
  clientStreams : Bool
  serverStreams : Bool
  handler : Nat          -- identity of the handler function (heap of closures below)
deriving DecidableEq, Repr

/-- the info `InterceptServer` builds for a stream (format and flag sources are regenerated facts) -/
def streamInfo (svc : Bytes) (sd : StreamDesc) : StreamInfo :=
  let full := if Gen.serverStreamInfoFormat == "/%s/%s|ServiceName|StreamName"
              then [47] ++ svc ++ [47] ++ sd.name else []
  { fullMethod := full,
    isClientStream := if Gen.infoIsClientFrom == "ClientStreams" then sd.clientStreams else sd.serverStreams,
    isServerStream := if Gen.infoIsServerFrom == "ServerStreams" then sd.serverStreams else sd.clientStreams }

def decorateStream (s : SInt) (info : StreamInfo) (orig : SHandler) : SHandler :=
  fun _ => s info orig

/-- how a carrier dispatches a stream: transport interceptor (if any) around the registered handler -/
def dispatchStream (t : Option SInt) (info : StreamInfo) (h : SHandler) : SOut :=
  match t with
  | none => h ()
  | some t => t info h

/-! ### descriptions in a heap -/

structure Desc where
  name : Bytes
  methods : Nat      -- address of the slice of unary method handlers
  streams : Nat      -- address of the slice of stream descs
deriving DecidableEq, Repr

structure Heap where
  slices : List (Nat × List Nat)     -- address ↦ element identities
  next : Nat
deriving DecidableEq, Repr

def Heap.get (h : Heap) (a : Nat) : List Nat := ((h.slices.find? (·.1 == a)).map (·.2)).getD []
def Heap.set (h : Heap) (a : Nat) (v : List Nat) : Heap :=
  { h with slices := (a, v) :: h.slices.filter (·.1 != a) }
def Heap.alloc (h : Heap) (v : List Nat) : Heap × Nat :=
  ({ slices := (h.next, v) :: h.slices, next := h.next + 1 }, h.next)

/-- `InterceptServer(desc, u, s)` on the heap: `wrap` maps an element identity to the identity of
    its decorated replacement. Returns the heap and the resulting description. -/
def interceptServer (h : Heap) (d : Desc) (hasU hasS : Bool) (wrap : Nat → Nat) : Heap × Desc :=
  let both := if Gen.serverIdentityCond == "&&" then (!hasU && !hasS) else (!hasU || !hasS)
  if both then (h, d)
  else
    let (h1, m) :=
      if hasU then
        (if Gen.serverMethodsFresh then h.alloc ((h.get d.methods).map wrap)
         else (h.set d.methods ((h.get d.methods).map wrap), d.methods))
      else (h, d.methods)
    let (h2, s) :=
      if hasS then
        (if Gen.serverStreamsFresh then h1.alloc ((h1.get d.streams).map wrap)
         else (h1.set d.streams ((h1.get d.streams).map wrap), d.streams))
      else (h1, d.streams)
    (h2, { d with methods := m, streams := s })

/-! concrete interceptor behaviours for the correspondence run -/
def tPass : UInt := fun info req h => let (es, r) := h req; (.transport info req :: es, r)
def tRewrite : UInt := fun info req h => let (es, r) := h (req + 1); (.transport info req :: es, r + 1000)
def dPass (layer : Nat) : UInt := fun info req h => let (es, r) := h req; (.decor layer info req :: es, r)
def dShort (layer : Nat) : UInt := fun info req _ => ([.decor layer info req], 99)
def dRewrite (layer : Nat) : UInt := fun info req h => let (es, r) := h (req + 1); (.decor layer info req :: es, r + 1000)
def appEcho : UHandler := fun req => ([.app req], req)

/-! ### registry views (`WithInterceptor`) -/

/-- a registry seen through zero or more views; `base` is where registrations end up -/
inductive Reg where
  | base
  | view (inner : Reg) (u : Option UInt) (s : Option SInt)

/-- `WithInterceptor(reg, u, s)`: both nil ⇒ the registry itself, otherwise a new view on top of it -/
def withInterceptor (r : Reg) (u : Option UInt) (s : Option SInt) : Reg :=
  let both := if Gen.registryIdentityCond == "&&" then (u.isNone && s.isNone) else (u.isNone || s.isNone)
  if both then r else .view r u s

/-- what the base registry ends up holding for one unary method registered through `r`
    (`interceptingRegistry.RegisterService` hands `InterceptServer(desc, u, s)` to the registry below) -/
def Reg.registerUnary : Reg → MethodHandler → MethodHandler
  | .base, h => h
  | .view inner (some u) _, h => inner.registerUnary (decorateUnary u h)
  | .view inner none _, h => inner.registerUnary h

/-- the same for a stream handler with the info `InterceptServer` builds for it -/
def Reg.registerStream : Reg → StreamInfo → SHandler → SHandler
  | .base, _, h => h
  | .view inner _ (some s), info, h => inner.registerStream info (decorateStream s info h)
  | .view inner _ none, info, h => inner.registerStream info h

end InterceptServer
