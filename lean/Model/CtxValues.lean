/-
  CtxValues: the context an in-process handler receives
  (`makeServerContext`, `noValuesContext`, inprocgrpc/in_process.go).
  A context is a chain of value / cancel / deadline / no-values nodes; the
  layer list of `makeServerContext` is a fact regenerated from the source.
-/
import Model.Prim
import Model.Gen.Ctx

namespace CtxValues

inductive Key where
  | user (n : Nat)
  | outgoingMD | incomingMD | peer | clientCtx | transportStream
deriving DecidableEq, Repr

inductive Val where
  | user (n : Nat)
  | md (id : Nat)
  | peerInproc
  | peerOther (n : Nat)
  | ctxRef (id : Nat)
  | stsNew
  | stsCaller (n : Nat)
deriving DecidableEq, Repr

inductive Ctx where
  | background
  | withValue (p : Ctx) (k : Key) (v : Val)
  | withCancel (p : Ctx) (scope : Nat)
  | withDeadline (p : Ctx) (t : Nat)
  | noValues (p : Ctx) (forwards : Bool)    -- `noValuesContext`; `forwards = false`: Value returns nil
deriving Repr

def value : Ctx → Key → Option Val
  | .background, _ => none
  | .withValue p k v, k' => if k = k' then some v else value p k'
  | .withCancel p _, k => value p k
  | .withDeadline p _, k => value p k
  | .noValues p fw, k => if fw then value p k else none

/-- earliest deadline along the chain -/
def deadline : Ctx → Option Nat
  | .background => none
  | .withValue p _ _ => deadline p
  | .withCancel p _ => deadline p
  | .withDeadline p t => match deadline p with
    | some t' => some (min t t')
    | none => some t
  | .noValues p _ => deadline p

/-- done once any cancel scope on the chain has fired -/
def cancelled (fired : List Nat) : Ctx → Bool
  | .background => false
  | .withValue p _ _ => cancelled fired p
  | .withCancel p s => fired.contains s || cancelled fired p
  | .withDeadline p _ => cancelled fired p
  | .noValues p _ => cancelled fired p

/-- `if meta, ok := metadata.FromOutgoingContext(ctx); ok { newCtx = metadata.NewIncomingContext(newCtx, meta) }` -/
def incomingLayer (caller cur : Ctx) : Ctx :=
  match value caller .outgoingMD with
  | some v => .withValue cur .incomingMD v
  | none => cur

/-- one statement of `makeServerContext`; `caller` is its argument, `cid` its identity -/
def applyLayer (caller : Ctx) (cid : Nat) (cur : Ctx) (layer : String) : Ctx :=
  if layer == "wrap:noValuesContext" then .noValues cur (Gen.noValuesValueReturns != "nil")
  else if layer == "if(FromOutgoingContext):metadata.NewIncomingContext" then
    incomingLayer caller cur
  else if layer == "peer.NewContext" then .withValue cur .peer .peerInproc
  else if layer == "context.WithValue:clientContextKey:ctx" then .withValue cur .clientCtx (.ctxRef cid)
  else cur

def makeServerContext (caller : Ctx) (cid : Nat) : Ctx :=
  Gen.serverCtxLayers.foldl (applyLayer caller cid) caller

/-- what the handler gets: `Invoke`/`NewStream` derive a cancel scope (0) from the caller's context,
    build the server context from it and bind the new server transport stream -/
def handlerCtx (caller : Ctx) (cid : Nat) : Ctx :=
  .withValue (makeServerContext (.withCancel caller 0) cid) .transportStream .stsNew

end CtxValues
