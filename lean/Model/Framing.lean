/-
  Framing: the length-prefixed frames of the HTTP/1.1 stream protocol
  (httpgrpc/io.go, the decode loop of clientStream.doHttpCall in client.go and
  serverStream.RecvMsg in server.go). The reader is a finite byte string with
  a clean or abrupt ending; every allocation the decoder performs is logged.
-/
import Model.Prim
import Model.Gen.Wire

namespace Framing
open Prim

/-! ### byte order -/

/-- `binary.Write(w, binary.BigEndian, int32(n))` for the two's-complement residue `n mod 2^32` -/
def be32 (n : Nat) : Bytes :=
  [UInt8.ofNat (n / 16777216 % 256), UInt8.ofNat (n / 65536 % 256), UInt8.ofNat (n / 256 % 256), UInt8.ofNat (n % 256)]

/-- unsigned value of four big-endian bytes -/
def u32 (a b c d : UInt8) : Nat := a.toNat * 16777216 + b.toNat * 65536 + c.toNat * 256 + d.toNat

/-- `binary.Read(in, binary.BigEndian, &sz)` with `sz int32` -/
def i32 (a b c d : UInt8) : Int := if u32 a b c d < 2147483648 then (u32 a b c d : Int) else (u32 a b c d : Int) - 4294967296

/-! ### writer (`writeProtoMessage`) -/

/-- a data frame: `int32(len)` then the bytes (requires `len ≤ MaxInt32`) -/
def encodeFrame (m : Bytes) : Bytes := be32 m.length ++ m

/-- the final frame: `int32(-len)` then the bytes. (`len = 0` gives the prefix `0`, which a reader
    cannot tell from an empty data frame — the documented reason the trailer is never empty.) -/
def encodeTrailer (t : Bytes) : Bytes := be32 ((4294967296 - t.length) % 4294967296) ++ t

def encodeStream (ms : List Bytes) (t : Bytes) : Bytes := ms.flatMap encodeFrame ++ encodeTrailer t

/-! ### reader primitives -/

inductive Ending where
  | clean    -- the body ends with io.EOF
  | abrupt   -- the body ends with a transport error
deriving DecidableEq, Repr

inductive RdErr where
  | eof | unexpectedEOF | transport | negativeSize | tooLarge
deriving DecidableEq, Repr

/-- `io.ReadFull` / `io.ReadAtLeast(r, buf, n)` of exactly `n` bytes -/
def readFull (n : Nat) (b : Bytes) (e : Ending) : Except RdErr (Bytes × Bytes) :=
  if n ≤ b.length then .ok (b.take n, b.drop n)
  else match e with
    | .abrupt => .error .transport
    | .clean => if b.isEmpty then .error .eof else .error .unexpectedEOF

/-- `readSizePreface` -/
def readSize (b : Bytes) (e : Ending) : Except RdErr (Int × Bytes) :=
  match b with
  | a :: b1 :: c :: d :: rest => .ok (i32 a b1 c d, rest)
  | _ => match e with
    | .abrupt => .error .transport
    | .clean => if b.isEmpty then .error .eof else .error .unexpectedEOF

/-- `if err == io.EOF { err = io.ErrUnexpectedEOF }` -/
def eofToUnexpected : RdErr → RdErr
  | .eof => .unexpectedEOF
  | e => e

def maxSize : Int := Gen.maxMessageSize

/-- number of allocation sites of a function that are *not* preceded by a size guard -/
def unguardedSites (fn : String) : Nat :=
  match Gen.allocSites.find? (·.1 == fn) with
  | some (_, sites, guarded, _) => sites - guarded
  | none => 0

/-- whether the client's data-frame path checks the size limit before allocating (regenerated fact) -/
def clientDataGuarded : Bool := unguardedSites "doHttpCall" == 0

/-- `readProtoMessage(in, codec, sz, m)` up to (not including) `codec.Unmarshal`:
    returns the payload and what was allocated. -/
def readPayload (sz : Int) (b : Bytes) (e : Ending) : Except RdErr (Bytes × Bytes) × List Nat :=
  if sz < 0 then (.error .negativeSize, [])
  else if sz > maxSize then (.error .tooLarge, [])
  else (readFull sz.toNat b e, [sz.toNat])

/-! ### client: the decode loop of `doHttpCall` -/

inductive Outcome where
  | trailer (t : Bytes)     -- the final frame's payload (then unmarshalled into HttpTrailer)
  | err (e : RdErr)
deriving DecidableEq, Repr

inductive Step where
  | msg (m : Bytes) (rest : Bytes) (allocs : List Nat)
  | done (o : Outcome) (allocs : List Nat)

/-- one iteration of the loop -/
def clientStep (b : Bytes) (e : Ending) : Step :=
  match readSize b e with
  | .error er => .done (.err (eofToUnexpected er)) []     -- EOF before the trailer frame is a truncated stream
  | .ok (sz, rest) =>
    if sz < 0 then
      -- final frame: `readProtoMessage(body, codec, int32(-sz), &cs.tr)`
      match readPayload (wrap32 (-sz)) rest e with
      | (.ok (t, _), al) => .done (.trailer t) al
      | (.error er, al) => .done (.err (eofToUnexpected er)) al
    else if clientDataGuarded && sz > maxSize then .done (.err .tooLarge) []
    else
      match readFull sz.toNat rest e with
      | .ok (m, rest') => .msg m rest' [sz.toNat]
      | .error er => .done (.err (eofToUnexpected er)) [sz.toNat]

structure Decoded where
  msgs : List Bytes
  allocs : List Nat
  outcome : Outcome

def clientDecodeFuel : Nat → Bytes → Ending → Decoded
  | 0, _, _ => ⟨[], [], .err .unexpectedEOF⟩     -- unreachable with fuel > length (see `clientDecode`)
  | fuel + 1, b, e =>
    match clientStep b e with
    | .done o al => ⟨[], al, o⟩
    | .msg m rest al =>
      let r := clientDecodeFuel fuel rest e
      ⟨m :: r.msgs, al ++ r.allocs, r.outcome⟩

/-- the whole loop: every iteration consumes at least four bytes, so `length + 1` iterations suffice -/
def clientDecode (b : Bytes) (e : Ending) : Decoded := clientDecodeFuel (b.length + 1) b e

/-! ### server: `serverStream.RecvMsg` -/

inductive RecvErr where
  | eof                 -- io.EOF: no (more) request messages
  | rd (e : RdErr)
  | extraRequest        -- InvalidArgument: method accepts 1 request message but client sent >1
  | unmarshal           -- `codec.Unmarshal` rejected the payload (returned as is)
deriving DecidableEq, Repr

structure SrvState where
  body : Bytes
  recvd : Nat

/-- one `RecvMsg` call; `clientStreams` is the method's flag, `badMsg` the external
    "`codec.Unmarshal` rejects this payload" -/
def serverRecv (clientStreams : Bool) (badMsg : Bytes → Bool) (s : SrvState) (e : Ending) :
    Except RecvErr Bytes × SrvState × List Nat :=
  if !clientStreams && s.recvd > 0 then (.error .eof, s, [])
  else
    match readSize s.body e with
    | .error .eof => (.error .eof, { s with recvd := s.recvd + 1 }, [])
    | .error er => (.error (.rd er), { s with recvd := s.recvd + 1 }, [])
    | .ok (sz, rest) =>
      match readPayload sz rest e with
      | (.error er, al) => (.error (.rd (eofToUnexpected er)), ⟨rest, s.recvd + 1⟩, al)
      | (.ok (m, rest'), al) =>
        if badMsg m then (.error .unmarshal, ⟨rest', s.recvd + 1⟩, al)
        else if clientStreams then (.ok m, ⟨rest', s.recvd + 1⟩, al)
        else
          -- probe for a second request message
          match readSize rest' e with
          | .error .eof => (.ok m, ⟨rest', s.recvd + 1⟩, al)
          | .error _ => (.error .extraRequest, ⟨rest', s.recvd + 1⟩, al)
          | .ok (_, rest'') => (.error .extraRequest, ⟨rest'', s.recvd + 1⟩, al)

end Framing

namespace Framing
open Prim

/-! ### what a client that calls `RecvMsg` until the end observes (server-streaming response) -/

inductive RecvResult where
  | msg (m : Bytes)      -- nil, message delivered
  | invalid              -- Internal: server sent invalid message (unmarshal failed)
  | eof                  -- io.EOF: stream completed with status OK
  | status (code : Int)  -- the status carried by the trailer frame
  | unexpectedEOF        -- io.ErrUnexpectedEOF
  | otherErr             -- any other non-status error (bad size preface, transport error, bad trailer)
deriving DecidableEq, Repr

/-- `badMsg`/`trCode` are the externals: does `codec.Unmarshal` reject this payload as a response
    message; which status code does this payload carry when unmarshalled as `HttpTrailer`
    (`none` = unmarshal fails). -/
def finalResult (o : Outcome) (trCode : Bytes → Option Int) : RecvResult :=
  match o with
  | .trailer t => match trCode t with
    | none => .otherErr
    | some c => if c = 0 then .eof else .status c
  | .err .unexpectedEOF => .unexpectedEOF
  | .err _ => .otherErr

def clientRecvAll (d : Decoded) (badMsg : Bytes → Bool) (trCode : Bytes → Option Int) : List RecvResult :=
  d.msgs.map (fun m => if badMsg m then .invalid else .msg m) ++ [finalResult d.outcome trCode]

/-- handler view of a request body: results of `RecvMsg` until the first error -/
def serverRecvAllFuel : Nat → Bool → SrvState → Ending → (Bytes → Bool) → List (Except RecvErr Bytes) × List Nat
  | 0, _, _, _, _ => ([], [])
  | fuel + 1, cs, s, e, badMsg =>
    match serverRecv cs badMsg s e with
    | (.error er, _, al) => ([.error er], al)
    | (.ok m, s', al) =>
      let (rs, al') := serverRecvAllFuel fuel cs s' e badMsg
      (.ok m :: rs, al ++ al')

def serverRecvAll (cs : Bool) (body : Bytes) (e : Ending) (badMsg : Bytes → Bool) :=
  serverRecvAllFuel (body.length + 2) cs ⟨body, 0⟩ e badMsg

end Framing
