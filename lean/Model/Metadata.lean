/-
  Metadata: gRPC metadata ⇄ HTTP headers (httpgrpc/io.go toHeaders / asMetadata; client.go
  setMetadata), with base64 for `-bin` keys modelled concretely.

  Bytes are naturals < 256 here (`List Nat`), so that the bit arithmetic is linear arithmetic.
  A metadata multimap is an association list key ↦ values (Go's map: one entry per key; the
  order of keys is not observable, the order of values per key is).
-/
import Model.Gen.Wire

namespace Metadata

abbrev B := List Nat     -- a byte string; every element < 256

/-! ### base64, URL alphabet, with padding (encoding/base64.URLEncoding) -/

def enc6 (n : Nat) : Nat :=
  if n < 26 then 65 + n            -- A..Z
  else if n < 52 then 97 + (n - 26) -- a..z
  else if n < 62 then 48 + (n - 52) -- 0..9
  else if n = 62 then 45            -- '-'
  else 95                           -- '_'

def dec6 (c : Nat) : Option Nat :=
  if 65 ≤ c ∧ c ≤ 90 then some (c - 65)
  else if 97 ≤ c ∧ c ≤ 122 then some (c - 97 + 26)
  else if 48 ≤ c ∧ c ≤ 57 then some (c - 48 + 52)
  else if c = 45 then some 62
  else if c = 95 then some 63
  else none

def pad : Nat := 61   -- '='

def b64enc : B → B
  | a :: b :: c :: rest =>
    enc6 (a / 4) :: enc6 ((a % 4) * 16 + b / 16) :: enc6 ((b % 16) * 4 + c / 64) :: enc6 (c % 64) :: b64enc rest
  | [a, b] => [enc6 (a / 4), enc6 ((a % 4) * 16 + b / 16), enc6 ((b % 16) * 4), pad]
  | [a] => [enc6 (a / 4), enc6 ((a % 4) * 16), pad, pad]
  | [] => []

/-- decoding as Go's non-strict padded decoder does on well-formed input: groups of four; padding
    only in the last group; anything else is an error (`none`) -/
def b64dec : B → Option B
  | [] => some []
  | [c0, c1, c2, c3] =>
    if c2 = pad ∧ c3 = pad then
      (match dec6 c0, dec6 c1 with
       | some s0, some s1 => some [s0 * 4 + s1 / 16]
       | _, _ => none)
    else if c3 = pad then
      (match dec6 c0, dec6 c1, dec6 c2 with
       | some s0, some s1, some s2 => some [s0 * 4 + s1 / 16, (s1 % 16) * 16 + s2 / 4]
       | _, _, _ => none)
    else
      (match dec6 c0, dec6 c1, dec6 c2, dec6 c3 with
       | some s0, some s1, some s2, some s3 => some [s0 * 4 + s1 / 16, (s1 % 16) * 16 + s2 / 4, (s2 % 4) * 64 + s3]
       | _, _, _, _ => none)
  | c0 :: c1 :: c2 :: c3 :: rest =>
    (match dec6 c0, dec6 c1, dec6 c2, dec6 c3, b64dec rest with
     | some s0, some s1, some s2, some s3, some r =>
       some ((s0 * 4 + s1 / 16) :: ((s1 % 16) * 16 + s2 / 4) :: ((s2 % 4) * 64 + s3) :: r)
     | _, _, _, _, _ => none)
  | _ => none

/-! ### base64, URL alphabet, without padding (encoding/base64.RawURLEncoding: the X-GRPC-Details headers) -/

def b64rawenc : B → B
  | a :: b :: c :: rest =>
    enc6 (a / 4) :: enc6 ((a % 4) * 16 + b / 16) :: enc6 ((b % 16) * 4 + c / 64) :: enc6 (c % 64) :: b64rawenc rest
  | [a, b] => [enc6 (a / 4), enc6 ((a % 4) * 16 + b / 16), enc6 ((b % 16) * 4)]
  | [a] => [enc6 (a / 4), enc6 ((a % 4) * 16)]
  | [] => []

def b64rawdec : B → Option B
  | [] => some []
  | [c0, c1] =>
    (match dec6 c0, dec6 c1 with
     | some s0, some s1 => some [s0 * 4 + s1 / 16]
     | _, _ => none)
  | [c0, c1, c2] =>
    (match dec6 c0, dec6 c1, dec6 c2 with
     | some s0, some s1, some s2 => some [s0 * 4 + s1 / 16, (s1 % 16) * 16 + s2 / 4]
     | _, _, _ => none)
  | c0 :: c1 :: c2 :: c3 :: rest =>
    (match dec6 c0, dec6 c1, dec6 c2, dec6 c3, b64rawdec rest with
     | some s0, some s1, some s2, some s3, some r =>
       some ((s0 * 4 + s1 / 16) :: ((s1 % 16) * 16 + s2 / 4) :: ((s2 % 4) * 64 + s3) :: r)
     | _, _, _, _, _ => none)
  | _ => none

/-- the details sites use the unpadded URL variant on both sides (regenerated) -/
def detailSitesPaired : Bool :=
  Gen.b64DetailsEncode == "RawURLEncoding.EncodeToString" && Gen.b64DetailsDecode == "RawURLEncoding.DecodeString"

/-! ### keys -/

def lowerB (c : Nat) : Nat := if 65 ≤ c ∧ c ≤ 90 then c + 32 else c
def lower (k : B) : B := k.map lowerB

def strB (s : String) : B := s.toUTF8.toList.map (·.toNat)

def binSuffix : B := [45, 98, 105, 110]   -- "-bin"
def isBin (k : B) : Bool := binSuffix.reverse.isPrefixOf (lower k).reverse

def reserved : List B := Gen.reservedHeaders.map strB
def isReserved (k : B) : Bool := reserved.contains (lower k)

abbrev MD := List (B × List B)
abbrev Headers := List (B × B)       -- HTTP header lines in emission order

/-- which base64 variant a site uses (regenerated): only the padded URL variant is modelled; any
    other pairing breaks `C03_codec_sites` -/
def sitesPaired : Bool :=
  Gen.b64ToHeaders == "URLEncoding.EncodeToString" && Gen.b64AsMetadata == "URLEncoding.DecodeString"

/-- `toHeaders(md, h, prefix)` -/
def toHeaders (md : MD) (pfx : B) : Headers :=
  md.flatMap fun (k, vs) =>
    if isReserved k then []
    else vs.map fun v => (pfx ++ k, if isBin k then b64enc v else v)

/-- append a value under a key of an association list (Go: `md[k] = append(md[k], v)`) -/
def addVal : MD → B → B → MD
  | [], k, v => [(k, [v])]
  | (k', vs) :: rest, k, v => if k' = k then (k', vs ++ [v]) :: rest else (k', vs) :: addVal rest k v

/-- `asMetadata(header)`: lower-case the key, decode `-bin` values, fail on bad base64 -/
def asMetadata : Headers → Option MD
  | [] => some []
  | (k, v) :: rest =>
    match asMetadata rest with
    | none => none
    | some md =>
      let k' := lower k
      if isBin k' then
        (match b64dec v with
         | some vv => some (addValFront md k' vv)
         | none => none)
      else some (addValFront md k' v)
where
  /-- headers are processed front to back; building from the back we must prepend to keep order -/
  addValFront : MD → B → B → MD
    | [], k, v => [(k, [v])]
    | (k', vs) :: rest, k, v => if k' = k then (k', v :: vs) :: rest else (k', vs) :: addValFront rest k v

def trailerPrefix : B := strB Gen.trailerPrefixClient

/-- `setMetadata`: split received metadata into headers and trailers by the trailer prefix -/
def splitTrailers (md : MD) : MD × MD :=
  (md.filter fun (k, _) => !(trailerPrefix.isPrefixOf k && k.length > trailerPrefix.length),
   (md.filter fun (k, _) => trailerPrefix.isPrefixOf k && k.length > trailerPrefix.length).map
     fun (k, vs) => (k.drop trailerPrefix.length, vs))

end Metadata
