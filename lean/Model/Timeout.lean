/-
  Timeout: the GRPC-Timeout header. Client encoding (`headersFromContext`)
  and server parsing (`contextFromHeaders`), with Go's int64 arithmetic made
  explicit. Durations are nanoseconds.
-/
import Model.Prim
import Model.Codes
import Model.Gen.Timeout

namespace Timeout
open Prim

/-- outcome of the server-side parse -/
inductive Parsed where
  | noDeadline            -- header absent, empty or not understood: no deadline is set
  | deadline (ns : Int)   -- `context.WithTimeout(ctx, ns)`
  | panic                 -- Go run-time panic (index out of range)
deriving DecidableEq, Repr

/-- Go `s[i]` with the bounds check explicit -/
def byteAt (s : Bytes) (i : Int) : Option UInt8 :=
  if 0 ≤ i ∧ i < s.length then s[i.toNat]? else none

/-- the unit switch; `0` = `var unit time.Duration` left at its zero value -/
def unitOf (b : UInt8) : Nat := Codes.lookup Gen.unitTable 0 b.toNat

/-- `time.Duration(timeoutVal) * unit` as the code computes it -/
def mulDur (v : Int) (u : Nat) : Int :=
  if Gen.timeoutSaturates then
    (if v ≤ maxInt64 / (u : Int) then wrap64 (v * u) else maxInt64)
  else wrap64 (v * u)

def applyUnit (v : Int) (suffix : UInt8) : Parsed :=
  if unitOf suffix = 0 then .noDeadline else .deadline (mulDur v (unitOf suffix))

def parseBody (s : Bytes) (suffix : UInt8) : Parsed :=
  match parseInt Gen.timeoutParseBits s.dropLast with
  | none => .noDeadline
  | some v => applyUnit v suffix

/-- `contextFromHeaders`, timeout part, for the header value `s`
    (`h.Get` yields "" for an absent header). -/
def parseTimeout (s : Bytes) : Parsed :=
  if s.isEmpty then .noDeadline else
  match byteAt s ((s.length : Int) - 1) with
  | none => .panic
  | some suffix => parseBody s suffix

/-- client: header value for a remaining duration of `d` ns (`time.Until(deadline)`),
    `int64(timeout / time.Millisecond)` truncates toward zero. -/
def clientMillis (d : Int) : Int :=
  let m := Int.tdiv d Gen.clientDivisor
  if Gen.clientFloorCmp == "<=0" then (if m ≤ 0 then Gen.clientMinimum else m)
  else if Gen.clientFloorCmp == "<0" then (if m < 0 then Gen.clientMinimum else m)
  else m

def clientSuffix : Bytes := (str Gen.clientFormat).drop 2   -- after "%d"

def clientHeader (d : Int) : Bytes := intToDec (clientMillis d) ++ clientSuffix

/-- `headersFromContext`: no deadline ⇒ no header -/
def clientHeaderOpt (deadline : Option Int) : Option Bytes := deadline.map clientHeader

/-- `context.WithTimeout(ctx, d)` called at time `now` on a context whose deadline is `parent`
    (`none`: unbounded): the context package keeps the earlier of the two (external, assumed). -/
def withTimeout (parent : Option Int) (now d : Int) : Int :=
  match parent with
  | none => now + d
  | some p => min p (now + d)

/-- whether the regenerated shape of the call site is the one modelled: the `WithTimeout` call is guarded
    by the unit test alone and extends the context derived from the request's -/
def applySiteAsModelled : Bool :=
  Gen.timeoutApplyCond == "unit != 0" && Gen.timeoutCtxArg == "ctx" &&
    Gen.timeoutCtxFrom == "metadata.NewIncomingContext(parent, md)"

/-- deadline of the handler's context: `contextFromHeaders(parent, h)` run at time `now` with header
    value `s`, the request context's own deadline being `parent` (e.g. set by middleware).
    Any other shape of the call site is not modelled (the header is then taken as not applied). -/
def handlerDeadline (parent : Option Int) (now : Int) (s : Bytes) : Option Int :=
  match parseTimeout s with
  | .deadline d => if applySiteAsModelled then some (withTimeout parent now d) else parent
  | _ => parent

end Timeout
