/-
  InprocStream: the transition system of one in-process streaming call
  (inprocgrpc/in_process.go: NewStream, inProcessClientStream,
  inProcessServerStream, readMessage, writeMessage).

  `step : St → Act → Option (St × List Ev)`; `none` = action not enabled.
  All nondeterminism (Go's `select` among several ready cases, scheduling,
  the instant of cancellation) lives in the choice of the next action; the
  theorems quantify over all action lists. Blocking operations are split at
  their blocking points: a `…Begin` action takes the operation's mutex slot
  and runs to the first `select`; one action per `select` alternative
  completes or continues it. An occupied slot disables other `…Begin`
  actions of that slot — that is the mutex.

  Messages and metadata are opaque identities (`Nat`). Channel capacities are
  parameters of the state (instantiated from the regenerated facts).
-/
import Model.Prim
import Model.Gen.Inproc

namespace InprocStream

inductive Reason where | canceled | deadline
deriving DecidableEq, Repr

/-- what a handler may return as its error -/
inductive HErr where
  | status (code : Nat)        -- a gRPC status error with this code (code ≠ 0)
  | plain                      -- any other Go error
  | ctx (r : Reason)           -- the raw context error (ctx.Err())
deriving DecidableEq, Repr

inductive Frame where
  | headers (md : List Nat)
  | data (m : Nat)
  | trailers (md : List Nat)
  | err (e : HErr)
deriving DecidableEq, Repr

/-- results of operations, as the caller of the operation observes them -/
inductive Res where
  | ok                          -- nil
  | msg (m : Nat)               -- nil, with this message delivered
  | eof                         -- io.EOF
  | status (code : Nat)         -- a gRPC status error
  | ctxErr (r : Reason)         -- a raw context error (not a status)
  | plainErr                    -- some other non-status error
  | md (h : List Nat)           -- Header(): metadata, nil error
deriving DecidableEq, Repr

inductive Actor where | cs | cr | h     -- client sender, client receiver, handler
deriving DecidableEq, Repr

inductive Ev where
  | ret (a : Actor) (r : Res)
deriving DecidableEq, Repr

def codeOf : Reason → Nat
  | .canceled => 1
  | .deadline => 4

/-- `internal.TranslateContextError` applied to an error travelling in an error frame -/
def translate : HErr → Res
  | .status c => .status c
  | .plain => .plainErr
  | .ctx r => .status (codeOf r)

inductive RecvMode where
  | first                -- RecvMsg, nothing delivered yet
  | probe (m : Nat)      -- single-response method: message `m` copied, looking for a second one
  | header               -- Header()
deriving DecidableEq, Repr

inductive WKind where | sendMsg | sendHeader | finish
deriving DecidableEq, Repr

structure Pending where
  frames : List Frame
  kind : WKind
deriving DecidableEq, Repr

structure St where
  capReq : Nat
  capResp : Nat
  respStream : Bool               -- desc.ServerStreams
  -- contexts
  ctx : Option Reason := none     -- the call's context (client side); the handler's is its child
  svrDone : Bool := false         -- `onDone()` ran (first thing in finish)
  svrExited : Bool := false       -- the server goroutine has returned (svrCancel)
  -- channels
  req : List Nat := []
  reqClosed : Bool := false
  resp : List Frame := []
  respClosed : Bool := false
  -- client, send side (reqMu)
  sendClosed : Bool := false
  cSend : Option Nat := none
  -- client, receive side (respMu)
  cState : Nat := 0               -- 0 headers, 1 messages, 2 closed
  last : Option Frame := none
  cHeaders : List Nat := []
  cTrailers : List Nat := []
  cRecv : Option RecvMode := none
  -- server
  sState : Nat := 0
  sHeaders : List Nat := []
  sTrailers : List Nat := []
  sWrite : Option Pending := none  -- holds `mu`
  sRecv : Bool := false
  sReturned : Bool := false
  panicked : Bool := false
  -- ghost histories
  cOffered : List Nat := []       -- messages handed to client SendMsg
  reqEnq : List Nat := []
  reqDeq : List Nat := []
  sDelivered : List Nat := []     -- messages server RecvMsg returned
  sOffered : List Nat := []       -- messages handed to server SendMsg
  respEnq : List Frame := []
  respDeq : List Frame := []
  cDelivered : List Nat := []     -- messages client RecvMsg returned
  sendsDone : Nat := 0            -- client SendMsg calls that returned nil
  sSendsDone : Nat := 0           -- server SendMsg calls that returned nil
  hRet : Option (Option HErr) := none   -- what the handler returned (set by `sReturn`)
  hdrAll : List Nat := []         -- header ids the handler's SetHeader/SendHeader accepted
  tlrAll : List Nat := []         -- trailer ids the handler's SetTrailer accepted
deriving DecidableEq, Repr

inductive Act where
  | cancel (r : Reason)
  -- client send side
  | cSendBegin (m : Nat) | cSendEnq | cSendCtx | cSendRemote
  | cSendRefused                    -- SendMsg with a message the cloner refuses (e.g. not a protobuf message)
  | cCloseSend
  -- client receive side
  | cRecvBegin | cHeaderBegin | cTake | cClosed | cCtx
  | cTrailer
  -- server
  | sSetHeader (md : Nat) | sSendHeader (md : Nat) | sSetTrailer (md : Nat)
  | sSendBegin (m : Nat) | sWriteEnq | sWriteCtx
  | sRecvBegin | sRecvTake | sRecvClosed | sRecvCtx
  | sReturn (e : Option HErr) | sFinishEnd
deriving DecidableEq, Repr

def init (capReq capResp : Nat) (respStream : Bool) : St := { capReq, capResp, respStream }

/-- the server context is a child of the call's context and is also cancelled when the server
    goroutine exits -/
def svrCtxDone (s : St) : Bool := s.ctx.isSome || s.svrExited
/-- `svrDoneCtx` (what the client's SendMsg watches as the remote side) -/
def remoteDone (s : St) : Bool := s.svrDone || svrCtxDone s

def ctxRes (s : St) : Res := match s.ctx with
  | some r => .status (codeOf r)
  | none => .ok

/-- raw `ctx.Err()` as seen by the handler (its context may also be done because the goroutine exited) -/
def svrCtxErr (s : St) : Res := match s.ctx with
  | some r => .ctxErr r
  | none => .ctxErr .canceled

/-- after a `Pending` write finished its last frame -/
def finishWrite (s : St) (k : WKind) (ok : Bool) : St × List Ev :=
  match k with
  | .sendMsg => ({ s with sWrite := none, sSendsDone := if ok then s.sSendsDone + 1 else s.sSendsDone },
                 [.ret .h (if ok then .ok else svrCtxErr s)])
  | .sendHeader => ({ s with sWrite := none }, [.ret .h (if ok then .ok else svrCtxErr s)])
  | .finish => (s, [])     -- `sFinishEnd` closes the channel

def step (s : St) : Act → Option (St × List Ev)
  | .cancel r => if s.ctx.isSome then none else some ({ s with ctx := some r }, [])

  /- client SendMsg -/
  | .cSendBegin m =>
    if s.cSend.isSome then none
    else if s.sendClosed then some (s, [.ret .cs .plainErr])
    else some ({ s with cSend := some m, cOffered := s.cOffered ++ [m] }, [])
  | .cSendRefused =>
    -- the send-side mutex is taken and released again; nothing reaches the channel, nothing changes
    if s.cSend.isSome then none else some (s, [.ret .cs .plainErr])
  | .cSendEnq =>
    match s.cSend with
    | none => none
    | some m =>
      if s.req.length < s.capReq then
        -- `case ch <- m:` then `return ctx.Err()`
        some ({ s with cSend := none, req := s.req ++ [m], reqEnq := s.reqEnq ++ [m],
                       sendsDone := if s.ctx.isSome then s.sendsDone else s.sendsDone + 1 },
              [.ret .cs (match s.ctx with | some r => .ctxErr r | none => .ok)])
      else none
  | .cSendCtx =>
    match s.cSend, s.ctx with
    | some _, some r => some ({ s with cSend := none }, [.ret .cs (.ctxErr r)])
    | _, _ => none
  | .cSendRemote =>
    match s.cSend with
    | some _ => if remoteDone s then some ({ s with cSend := none }, [.ret .cs .eof]) else none
    | none => none
  | .cCloseSend =>
    if s.cSend.isSome then none          -- reqMu is held by the pending SendMsg
    else if s.sendClosed then some (s, [.ret .cs .ok])
    else if s.reqClosed then some ({ s with panicked := true }, [])     -- close of closed channel
    else some ({ s with sendClosed := true, reqClosed := true }, [.ret .cs .ok])

  /- client RecvMsg / Header -/
  | .cRecvBegin =>
    if s.cRecv.isSome then none
    else match s.last with
      | some (.data m) =>
        -- peeked message: served only if the context is still live
        (match s.ctx with
         | some r => some (s, [.ret .cr (.status (codeOf r))])
         | none =>
           if s.respStream then some ({ s with last := none, cDelivered := s.cDelivered ++ [m] }, [.ret .cr (.msg m)])
           else some ({ s with last := none, cRecv := some (.probe m) }, []))
      | some (.err e) => some ({ s with cState := 2 }, [.ret .cr (translate e)])
      | _ => some ({ s with cRecv := some .first }, [])
  | .cHeaderBegin =>
    if s.cRecv.isSome then none
    else if s.cState != 0 then some (s, [.ret .cr (.md s.cHeaders)])
    else some ({ s with cRecv := some .header }, [])
  | .cTake =>
    match s.cRecv, s.resp with
    | some mode, f :: rest =>
      let s1 := { s with resp := rest, respDeq := s.respDeq ++ [f] }
      (match s.ctx with
       | some r =>
         -- `if err := ctx.Err(); err != nil { return frame{}, err }`: the frame is dropped
         (match mode with
          | .header => some ({ s1 with cRecv := none }, [.ret .cr (.ctxErr r)])
          | _ => some ({ s1 with cRecv := none }, [.ret .cr (.status (codeOf r))]))
       | none =>
         (match mode, f with
          | .header, .headers md => some ({ s1 with cRecv := none, cState := 1, cHeaders := md }, [.ret .cr (.md md)])
          | .header, .trailers md => some ({ s1 with cRecv := none, cState := 1, cTrailers := md }, [.ret .cr (.md s.cHeaders)])
          | .header, .err e => some ({ s1 with cRecv := none, cState := 2, last := some (.err e) }, [.ret .cr (.md s.cHeaders)])
          | .header, .data m => some ({ s1 with cRecv := none, cState := 1, last := some (.data m) }, [.ret .cr (.md s.cHeaders)])
          | mode, .headers md => some ({ s1 with cState := 1, cHeaders := md, cRecv := some mode }, [])
          | mode, .trailers md => some ({ s1 with cTrailers := md, cRecv := some mode }, [])
          | .first, .err e => some ({ s1 with cRecv := none, cState := 2, last := some (.err e) }, [.ret .cr (translate e)])
          | .probe _, .err e =>
            -- the failure after the single message takes precedence
            some ({ s1 with cRecv := none, cState := 2, last := some (.err e) }, [.ret .cr (translate e)])
          | .first, .data m =>
            if s.respStream then some ({ s1 with cRecv := none, cDelivered := s.cDelivered ++ [m] }, [.ret .cr (.msg m)])
            else some ({ s1 with cRecv := some (.probe m) }, [])
          | .probe _, .data _ =>
            some ({ s1 with cRecv := none, cState := 2, last := some (.err (.status 13)) }, [.ret .cr (.status 13)])))
    | _, _ => none
  | .cClosed =>
    match s.cRecv with
    | some mode =>
      if s.resp.isEmpty && s.respClosed then
        (match s.ctx with
         | some r =>
           (match mode with
            | .header => some ({ s with cRecv := none }, [.ret .cr (.ctxErr r)])
            | _ => some ({ s with cRecv := none }, [.ret .cr (.status (codeOf r))]))
         | none =>
           (match mode with
            | .header => some ({ s with cRecv := none, cState := 2 }, [.ret .cr (.md s.cHeaders)])
            | .first => some ({ s with cRecv := none, cState := 2 }, [.ret .cr .eof])
            | .probe m => some ({ s with cRecv := none, cState := 2, cDelivered := s.cDelivered ++ [m] }, [.ret .cr (.msg m)])))
      else none
    | none => none
  | .cCtx =>
    match s.cRecv, s.ctx with
    | some .header, some r => some ({ s with cRecv := none }, [.ret .cr (.ctxErr r)])
    | some _, some r => some ({ s with cRecv := none }, [.ret .cr (.status (codeOf r))])
    | _, _ => none
  | .cTrailer => if s.cRecv.isSome then none else some (s, [.ret .cr (.md s.cTrailers)])

  /- server side -/
  | .sSetHeader md =>
    if s.sWrite.isSome || s.sReturned then none
    else if s.sState != 0 then some (s, [.ret .h .plainErr])
    else some ({ s with sHeaders := s.sHeaders ++ [md], hdrAll := s.hdrAll ++ [md] }, [.ret .h .ok])
  | .sSendHeader md =>
    if s.sWrite.isSome || s.sReturned then none
    else if s.sState != 0 then some (s, [.ret .h .plainErr])
    else some ({ s with sHeaders := s.sHeaders ++ [md], hdrAll := s.hdrAll ++ [md],
                        sWrite := some ⟨[.headers (s.sHeaders ++ [md])], .sendHeader⟩ }, [])
  | .sSetTrailer md =>
    if s.sWrite.isSome || s.sReturned then none
    else if s.sState == 2 then some (s, [.ret .h .ok])
    else some ({ s with sTrailers := s.sTrailers ++ [md], tlrAll := s.tlrAll ++ [md] }, [.ret .h .ok])
  | .sSendBegin m =>
    if s.sWrite.isSome || s.sReturned then none
    else if svrCtxDone s || s.sState == 2 then some (s, [.ret .h .eof])
    else
      let hdr := if s.sState == 0 && !s.sHeaders.isEmpty then [Frame.headers s.sHeaders] else []
      let s1 := if s.sState == 0 && s.sHeaders.isEmpty then { s with sState := 1 } else s
      some ({ s1 with sOffered := s.sOffered ++ [m], sWrite := some ⟨hdr ++ [.data m], .sendMsg⟩ }, [])
  | .sWriteEnq =>
    match s.sWrite with
    | some ⟨f :: rest, k⟩ =>
      if s.resp.length < s.capResp ∧ !s.respClosed then
        let s1 := { s with resp := s.resp ++ [f], respEnq := s.respEnq ++ [f] }
        if svrCtxDone s ∧ k != .finish then
          -- `return ctx.Err()` after the enqueue: the operation reports the context error; a header
          -- frame that was written is not recorded as sent
          some (finishWrite s1 k false)
        else
          let s2 := match f with
            | .headers _ => { s1 with sHeaders := [], sState := 1 }
            | _ => s1
          (match rest with
           | [] => some (finishWrite { s2 with sWrite := some ⟨[], k⟩ } k true)
           | _ => some ({ s2 with sWrite := some ⟨rest, k⟩ }, []))
      else none
    | _ => none
  | .sWriteCtx =>
    match s.sWrite with
    | some ⟨_ :: rest, k⟩ =>
      if svrCtxDone s then
        (match k with
         | .finish => some ({ s with sWrite := some ⟨rest, k⟩ }, [])       -- errors ignored, next frame
         | _ => some (finishWrite s k false))
      else none
    | _ => none
  | .sRecvBegin => if s.sRecv || s.sReturned then none else some ({ s with sRecv := true }, [])
  | .sRecvTake =>
    match s.sRecv, s.req with
    | true, m :: rest =>
      let s1 := { s with req := rest, reqDeq := s.reqDeq ++ [m], sRecv := false }
      if svrCtxDone s then some (s1, [.ret .h (svrCtxErr s)])
      else some ({ s1 with sDelivered := s.sDelivered ++ [m] }, [.ret .h (.msg m)])
    | _, _ => none
  | .sRecvClosed =>
    if s.sRecv && s.req.isEmpty && s.reqClosed then
      (if svrCtxDone s then some ({ s with sRecv := false }, [.ret .h (svrCtxErr s)])
       else some ({ s with sRecv := false }, [.ret .h .eof]))
    else none
  | .sRecvCtx =>
    if s.sRecv && svrCtxDone s then some ({ s with sRecv := false }, [.ret .h (svrCtxErr s)]) else none
  | .sReturn e =>
    if s.sWrite.isSome || s.sRecv || s.sReturned then none
    else
      let hdr := if s.sState == 0 && !s.sHeaders.isEmpty then [Frame.headers s.sHeaders] else []
      let tlr := if s.sTrailers.isEmpty then [] else [Frame.trailers s.sTrailers]
      let ef := match e with | some e => [Frame.err e] | none => []
      some ({ s with sReturned := true, svrDone := true, sTrailers := [], hRet := some e,
                     sWrite := some ⟨hdr ++ tlr ++ ef, .finish⟩ }, [])
  | .sFinishEnd =>
    match s.sWrite with
    | some ⟨[], .finish⟩ =>
      if s.respClosed then some ({ s with panicked := true }, [])
      else some ({ s with sWrite := none, sState := 2, respClosed := true, svrExited := true }, [])
    | _ => none

def run (s : St) : List Act → Option St
  | [] => some s
  | a :: rest => match step s a with
    | some (s', _) => run s' rest
    | none => none

/-- the internal (parameterless) actions an explorer closes under -/
def internalActs : List Act :=
  [.cSendEnq, .cSendCtx, .cSendRemote, .cTake, .cClosed, .cCtx, .sWriteEnq, .sWriteCtx,
   .sRecvTake, .sRecvClosed, .sRecvCtx, .sFinishEnd]

end InprocStream
