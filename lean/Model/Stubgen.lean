/-
  Stubgen: what `protoc-gen-grpchan` binds each generated client method to
  (cmd/protoc-gen-grpchan/protoc-gen-grpchan.go, `generateChanStubs`): the
  `streamCount` loop over a service's methods. The branch table (which method
  kinds increment the counter, which callee / path template / call tail each
  emits) is regenerated from the source.
-/
import Model.Prim
import Model.Gen.Stubgen

namespace Stubgen
open Prim

structure Method where
  name : Bytes
  cs : Bool      -- client streaming
  ss : Bool      -- server streaming
deriving DecidableEq, Repr

def Method.streaming (m : Method) : Bool := m.cs || m.ss

inductive Shape where | unary | sstream | stream | unknown
deriving DecidableEq, Repr

structure Binding where
  name : Bytes
  shape : Shape
  path : Bytes
  index : Int        -- index into ServiceDesc.Streams; -1 when the call does not index it
deriving DecidableEq, Repr

abbrev Branch := String × Bool × String × String × Bool × Bool

def condHolds (c : String) (m : Method) : Bool :=
  if c == "IsClientStreaming" then m.cs
  else if c == "IsServerStreaming" then m.ss
  else if c == "else" then true
  else false

/-- the first branch of the if / else-if / else chain whose condition holds -/
def branchOf (m : Method) : Branch :=
  (Gen.stubBranches.find? (fun b => condHolds b.1 m)).getD ("none", false, "", "", false, false)

def shapeOf (b : Branch) : Shape :=
  if b.2.2.1 == "Invoke" then .unary
  else if b.2.2.1 == "NewStream" then (if b.2.2.2.2.2 then .sstream else .stream)
  else .unknown

/-- instantiate the path template -/
def pathOf (b : Branch) (svc name : Bytes) : Bytes :=
  if b.2.2.2.1 == "/{{.ServiceName}}/{{.MethodName}}" then [47] ++ svc ++ [47] ++ name else []

/-- the loop: `cnt` is `streamCount` on entry -/
def bindingsFrom (svc : Bytes) : Nat → List Method → List Binding
  | _, [] => []
  | cnt, m :: rest =>
    let b := branchOf m
    { name := m.name, shape := shapeOf b, path := pathOf b svc m.name,
      index := if b.2.2.2.2.1 then (cnt : Int) else -1 }
      :: bindingsFrom svc (if b.2.1 then cnt + 1 else cnt) rest

/-- one service: the counter starts at 0 (regenerated fact: it is declared inside the service loop) -/
def bindings (svc : Bytes) (ms : List Method) : List Binding := bindingsFrom svc 0 ms

/-- a file: with a per-service counter each service starts at 0; otherwise the count carries over -/
def fileBindings : Nat → List (Bytes × List Method) → List (List Binding)
  | _, [] => []
  | cnt, (svc, ms) :: rest =>
    let start := if Gen.counterResetPerService then 0 else cnt
    bindingsFrom svc start ms :: fileBindings (start + (ms.filter Method.streaming).length) rest

/-! ### a whole request (`doCodeGen`) -/

/-- a file of the request: its name and its services -/
abbrev File := Bytes × List (Bytes × List Method)

/-- whether the regenerated shape of `doCodeGen` / `generateChanStubs` is the one modelled: the package override is
    applied to every file in a loop of its own before any stub is generated, the generation loop has no exit other
    than an error, and a file without services produces nothing and does not end anything -/
def requestShapeAsModelled : Bool :=
  Gen.codegenLoops == [["GoPackageForFileWithOverride"], ["generateChanStubs"]] &&
    Gen.codegenLoopPlainExits == [] &&
    Gen.stubgenNoServices == "if len(fd.GetServices()) == 0 { return nil }"

/-- the output files of one plugin invocation: one per file that declares a service, in request order.
    Any other shape of the loops is not modelled (then nothing is promised: the empty output). -/
def requestOutputs (files : List File) : List (Bytes × List (List Binding)) :=
  if requestShapeAsModelled then
    (files.filter (fun f => !f.2.isEmpty)).map (fun f => (f.1, fileBindings 0 f.2))
  else []

end Stubgen
