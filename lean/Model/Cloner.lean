/-
  Cloner: the four message-copy adapters of inprocgrpc/cloner.go over a small
  model of the protobuf library primitives they are built from
  (`internal.CopyMessage` = Reset + TryMerge with its type check,
  `internal.CloneMessage` = proto.Clone, codec Marshal/Unmarshal, reflect.New).
  A message is its protobuf type, Go representation, abstract content and the
  identities of the mutable memory reachable from it; fresh memory comes from
  a counter. The primitives' behaviour is ASSUMED (and validated against the
  real libraries by the correspondence run); the adapters' logic is what the
  theorems are about.
-/
import Model.Prim

namespace Cloner

structure Msg where
  typ : Nat            -- protobuf message type; 0 = not a protobuf message
  dyn : Bool           -- Go representation: generated struct or dynamic.Message
  val : Nat            -- abstract content
  mem : List Nat       -- mutable memory reachable from the message
  usable : Bool := true  -- false for a zero `dynamic.Message` (no descriptor): any use panics
  acceptsWire : Bool := true  -- as a destination of Unmarshal: do the bytes at hand parse under its schema (external)
deriving DecidableEq, Repr

inductive R (α : Type) where
  | ok (a : α)
  | error
  | panic
deriving Repr

def isProto (m : Msg) : Bool := m.typ != 0

/-! ### library primitives (assumed) -/

/-- `proto.Clone`: equal content, fresh memory -/
def pClone (n : Nat) (m : Msg) : Msg × Nat := ({ m with mem := [n] }, n + 1)

/-- `internal.CopyMessage(out, in)`: both must be protobuf messages; `Reset` then `TryMerge`,
    which refuses incompatible message types (generated and dynamic of one type are compatible) -/
def copyMessage (n : Nat) (out inn : Msg) : R (Msg × Nat) :=
  if !isProto inn || !isProto out then .error
  else if !out.usable then .panic
  else if out.typ != inn.typ then .error
  else .ok ({ out with val := inn.val, mem := [n] }, n + 1)

/-- `internal.CloneMessage` -/
def cloneMessage (n : Nat) (m : Msg) : R (Msg × Nat) :=
  if !isProto m then .error else .ok (pClone n m)

/-- `codec.Marshal`: the wire form carries the content but not the message type -/
def marshal (m : Msg) : Option Nat := if isProto m then some m.val else none

/-- `codec.Unmarshal(b, out)`: resets `out` and fills it from the wire form — any message type will do -/
def unmarshal (n : Nat) (b : Nat) (out : Msg) : R (Msg × Nat) :=
  if !isProto out then .error
  else if !out.usable then .panic
  else if !out.acceptsWire then .error
  else .ok ({ out with val := b, mem := [n] }, n + 1)

/-- `reflect.New(reflect.TypeOf(in).Elem())`: a zero value of the same Go type; a zero
    `dynamic.Message` has no descriptor and cannot be used -/
def reflectNew (m : Msg) : Msg := { typ := m.typ, dyn := m.dyn, val := 0, mem := [], usable := !m.dyn, acceptsWire := true }

/-! ### the adapters -/

abbrev CopyFn := Nat → Msg → Msg → R (Msg × Nat)       -- (fresh, out, in)
abbrev CloneFn := Nat → Msg → R (Msg × Nat)

/-- `CopyFunc(fn)`: Clone = reflect.New + fn -/
def copyFuncClone (fn : CopyFn) : CloneFn := fun n inn => fn n (reflectNew inn) inn

/-- `CodecCloner(codec)` = `CopyFunc(marshal; unmarshal)` -/
def codecCopy : CopyFn := fun n out inn =>
  match marshal inn with
  | none => .error
  | some b => unmarshal n b out
def codecClone : CloneFn := copyFuncClone codecCopy

/-- `ProtoCloner` -/
def protoCopy : CopyFn := fun n out inn =>
  if isProto inn && isProto out then copyMessage n out inn else codecCopy n out inn
def protoClone : CloneFn := fun n inn =>
  if isProto inn then cloneMessage n inn else codecClone n inn

/-- `CloneFunc(fn)`: Copy = clone, then shallow-copy the clone into `out` by reflection, which
    requires identical Go types -/
def cloneFuncCopy (fn : CloneFn) : CopyFn := fun n out inn =>
  match fn n inn with
  | .ok (c, n') =>
    if c.typ != out.typ || c.dyn != out.dyn then .error
    else .ok ({ out with val := c.val, mem := c.mem }, n')
  | .error => .error
  | .panic => .panic

inductive Adapter where | proto | codec | cloneFunc | copyFunc
deriving DecidableEq, Repr

/-- the adapters as the harness configures them (clone-func around `CloneMessage`, copy-func
    around `CopyMessage`) -/
def Adapter.copy : Adapter → CopyFn
  | .proto => protoCopy
  | .codec => codecCopy
  | .cloneFunc => cloneFuncCopy cloneMessage
  | .copyFunc => copyMessage
def Adapter.clone : Adapter → CloneFn
  | .proto => protoClone
  | .codec => codecClone
  | .cloneFunc => cloneMessage
  | .copyFunc => copyFuncClone copyMessage

end Cloner
