/-
  HttpUnary: one unary call over HTTP, end to end
  (httpgrpc/server.go handleMethod after its gate + internal.UnaryServerTransportStream;
   httpgrpc/client.go Channel.Invoke: setMetadata, statFromResponse, the body).

  The handler's calls to grpc.SetHeader / SendHeader / SetTrailer are a list of operations, its
  return value is a response (encodable or not) or an error. The reply is what `handleMethod` puts
  into the HTTP response: status, the `X-GRPC-Status` code if written, the metadata headers, the
  `X-GRPC-Trailer-` headers, the body. `client` is what `Invoke` makes of such a reply.
  Metadata and messages are opaque identities; the byte level is Metadata (`C03_md_roundtrip`),
  Codes (C14) and the base64 of the details (C02).
-/
import Model.InprocStream
import Model.HttpServerStream
import Model.Codes

namespace HttpUnary
open InprocStream (HErr Reason Res codeOf)

inductive HOp where
  | setHeader (md : Nat) | sendHeader (md : Nat) | setTrailer (md : Nat)
  | setStatusHeader (code : Nat)   -- SetHeader with metadata under the protocol's own header name: "x-grpc-status: <code>:…"
deriving DecidableEq, Repr

inductive Ret where
  | resp (m : Nat) (encodable : Bool)
  | err (e : HErr)
deriving DecidableEq, Repr

/-- `internal.UnaryServerTransportStream` -/
structure Sts where
  hdrs : List Nat := []
  hdrsSent : Bool := false
  tlrs : List Nat := []
  spoof : Option Nat := none   -- the first value the handler put under "x-grpc-status" (http.Header.Get reads the first)
deriving DecidableEq, Repr

def hstep (s : Sts) : HOp → Sts × Res
  | .setHeader md => if s.hdrsSent then (s, .plainErr) else ({ s with hdrs := s.hdrs ++ [md] }, .ok)
  | .sendHeader md => if s.hdrsSent then (s, .plainErr) else ({ s with hdrs := s.hdrs ++ [md], hdrsSent := true }, .ok)
  | .setTrailer md => ({ s with tlrs := s.tlrs ++ [md] }, .ok)
  | .setStatusHeader c => if s.hdrsSent then (s, .plainErr) else ({ s with spoof := (match s.spoof with | some x => some x | none => some c) }, .ok)

def runOps (s : Sts) : List HOp → Sts × List Res
  | [] => (s, [])
  | op :: rest =>
    let (s1, r) := hstep s op
    let (s2, rs) := runOps s1 rest
    (s2, r :: rs)

structure Reply where
  httpStatus : Nat
  grpcCode : Option Nat        -- the code in X-GRPC-Status, if the header is written
  hdr : List Nat               -- metadata headers
  tlr : List Nat               -- X-GRPC-Trailer- headers
  body : Option Nat            -- the response message, if one is written
deriving DecidableEq, Repr

/-- the code `handleMethod` renders for the handler's error: a status error keeps its code, context
    errors map to Canceled / DeadlineExceeded, any other error is Unknown; a non-nil error whose
    status says OK becomes Internal -/
def baseCode : HErr → Nat
  | .status c => c
  | .plain => 2
  | .ctx r => codeOf r

def unaryCode (e : HErr) : Nat := if baseCode e == 0 && Gen.unaryOkRewrite then 13 else baseCode e

/-- `handleMethod` from the handler's call on: headers and trailers are written whatever the
    outcome; an error is rendered with its code (OK rewritten to Internal), a response that does
    not marshal is a bare 500 -/
def serve (ops : List HOp) (ret : Ret) (ctxDone : Bool) : Reply × List Res :=
  let (s, rs) := runOps {} ops
  match ret with
  | .err e =>
    -- (handleMethod has its own copy of the OK → Internal rewrite; its presence is regenerated)
    let c := unaryCode e
    ({ httpStatus := Codes.defaultRendererStatus c ctxDone, grpcCode := some c, hdr := s.hdrs, tlr := s.tlrs, body := none }, rs)
  -- without an error `handleMethod` writes no X-GRPC-Status of its own: whatever the handler's header metadata put under
  -- that name reaches the client as the status header (known finding C02-F2)
  | .resp m true => ({ httpStatus := 200, grpcCode := s.spoof, hdr := s.hdrs, tlr := s.tlrs, body := some m }, rs)
  | .resp _ false => ({ httpStatus := 500, grpcCode := s.spoof, hdr := s.hdrs, tlr := s.tlrs, body := none }, rs)

structure Seen where
  result : Res
  hdr : List Nat      -- what the grpc.Header target holds afterwards
  tlr : List Nat      -- what the grpc.Trailer target holds afterwards
deriving DecidableEq, Repr

/-- the code `statFromResponse` reads off a reply: the X-GRPC-Status header if present, else the HTTP status -/
def replyCode (r : Reply) : Nat :=
  match r.grpcCode with
  | some c => c
  | none => Codes.codeFromHttpStatus r.httpStatus

/-- `Invoke` from the reply on (with grpc.Header / grpc.Trailer options present): metadata first,
    then the status, then the body -/
def client (r : Reply) : Seen :=
  let code := replyCode r
  -- (the order "metadata before status" is regenerated from Channel.Invoke)
  let early := code != 0 && !Gen.unaryClientMetadataBeforeStatus
  { result := if code != 0 then .status code else (match r.body with | some m => .msg m | none => .plainErr)   -- (no message in the body: the codec fails on the error page),
    hdr := if early then [] else r.hdr, tlr := if early then [] else r.tlr }

/-! ### the caller's context ends during the call -/

/-- where the end of the context falls relative to `Invoke`'s steps -/
inductive CancelAt where
  | beforeReply                    -- RoundTrip itself fails with the context's error
  | afterHeaders (tookBody : Bool) -- the reply headers are in; `tookBody`: the final select took the body-reader's
                                   -- completion (whose read failed because of the cancellation) rather than ctx.Done
deriving DecidableEq, Repr

/-- what `Invoke` returns when the context ends at that point -/
def clientCancelled (r : Reply) (at_ : CancelAt) (reason : Reason) : Res :=
  let code := replyCode r
  match at_ with
  | .beforeReply => .status (codeOf reason)
  | .afterHeaders tookBody =>
    if code != 0 then .status code           -- an error reply is complete with its headers: the real result
    else if tookBody then (if Gen.unaryBodyErrTranslated then .status (codeOf reason) else .ctxErr reason)
    else .status (codeOf reason)

/-- the handler never sets header metadata under the protocol's status header name -/
def noStatusHeader : List HOp → Bool
  | [] => true
  | .setStatusHeader _ :: _ => false
  | _ :: r => noStatusHeader r

/-- the metadata of the SetHeader / SendHeader calls that returned nil -/
def okHdr : List HOp → List Res → List Nat
  | .setHeader md :: ops, .ok :: rs => md :: okHdr ops rs
  | .sendHeader md :: ops, .ok :: rs => md :: okHdr ops rs
  | _ :: ops, _ :: rs => okHdr ops rs
  | _, _ => []

def trailersSet : List HOp → List Nat
  | [] => []
  | .setTrailer md :: r => md :: trailersSet r
  | _ :: r => trailersSet r

end HttpUnary
