/-
  Creds: `internal.ApplyPerRPCCreds` (internal/call_options.go) and the peer
  information attached to calls (httpgrpc/client.go `getPeer`).
  Metadata is a multimap: an association list whose lookup concatenates the
  value lists of all entries of a key (the shape `metadata.Join` produces).
-/
import Model.Prim
import Model.Gen.Creds

namespace Creds
open Prim

abbrev MD := List (Bytes × List Bytes)

/-- all values of key `k`, in order -/
def MD.get (md : MD) (k : Bytes) : List Bytes := (md.filter (·.1 == k)).flatMap (·.2)

/-- `metadata.New(map[string]string)`: keys lower-cased, one value each -/
def mdNew (m : List (Bytes × Bytes)) : MD := m.map fun (k, v) => (toLower k, [v])

/-- `metadata.Join(a, b)` -/
def mdJoin (a b : MD) : MD := a ++ b

structure PerRPC where
  requireSecurity : Bool
  result : Option (List (Bytes × Bytes))     -- `none` = GetRequestMetadata returned an error

inductive Applied where
  | ok (outgoing : Option MD) (credCalls : Nat)   -- the call proceeds with this outgoing metadata
  | error (credCalls : Nat)                       -- the call fails before any request is issued
deriving DecidableEq, Repr

/-- `ApplyPerRPCCreds(ctx, copts, uri, isChannelSecure)`; `outgoing = none` models a context without
    outgoing metadata. -/
def apply (creds : Option PerRPC) (secure : Bool) (outgoing : Option MD) : Applied :=
  match creds with
  | none => .ok outgoing 0
  | some c =>
    if c.requireSecurity && !secure then .error 0
    else match c.result with
      | none => .error 1
      | some m =>
        if m.isEmpty then .ok outgoing 1
        else match outgoing with
          | some o => .ok (some (mdJoin o (mdNew m))) 1
          | none => .ok (some (mdNew m)) 1

/-- the `isChannelSecure` argument at the four call sites (regenerated facts) -/
def secureOf (expr : String) (scheme : String) : Bool :=
  if expr == "true" then true
  else if expr == "Scheme==https" then scheme == "https"
  else false      -- anything else is not recognised: treated as "never secure" so that proofs fail closed

/-- whether the peer option carries TLS info, given which struct's `TLS` field the code reads
    (a client-side `*http.Request` never has one) and whether the connection uses TLS -/
def peerHasTLS (from_ : String) (connTLS : Bool) : Bool :=
  if from_ == "*net/http.Response" then connTLS else false

end Creds
