/-
  Codes: gRPC code ⇄ HTTP status, as interpreted from the regenerated tables
  (`Gen/Codes.lean`), the default error renderer, and the client's
  recovery of the code from a unary reply (`statFromResponse`, code part).
-/
import Model.Prim
import Model.Gen.Codes

namespace Codes
open Prim

/-- interpreter of a `switch x { case k: return v … default: return d }` table:
    Go evaluates cases in source order; duplicates are a compile error, so
    "first match" is exact. -/
def lookup (t : List (Nat × Nat)) (d c : Nat) : Nat :=
  match t.find? (·.1 == c) with
  | some (_, v) => v
  | none => d

def lookupI (t : List (Int × Nat)) (d : Nat) (s : Int) : Nat :=
  match t.find? (·.1 == s) with
  | some (_, v) => v
  | none => d

/-- `httpStatusFromCode` -/
def httpStatusFromCode (c : Nat) : Nat := lookup Gen.fwdTable Gen.fwdDefault c

/-- interpreter of the tag-less range switch of `codeFromHttpStatus` -/
def rangeLookup : List (Int × Int × List (Int × Nat) × Nat) → Nat → Int → Nat
  | [], d, _ => d
  | (lo, hi, inner, idef) :: rest, d, s =>
    if lo ≤ s ∧ s < hi then lookupI inner idef s else rangeLookup rest d s

/-- `codeFromHttpStatus` (Go `int` argument: any integer) -/
def codeFromHttpStatus (s : Int) : Nat := rangeLookup Gen.revRanges Gen.revDefault s

/-- `DefaultErrorRenderer`: HTTP status written for gRPC code `c` when the
    request context is done (`ctxDone`) or not. -/
def defaultRendererStatus (c : Nat) (ctxDone : Bool) : Nat :=
  if Gen.clientClosedCodes.contains c && ctxDone then Gen.clientClosedStatus
  else httpStatusFromCode c

/-- gRPC `OK` -/
def OK : Nat := 0
def Internal : Nat := 13

/-- `handleMethod`'s error path: a non-nil handler error whose status code is OK
    is rewritten to Internal before rendering. -/
def renderedCode (c : Nat) : Nat := if c == OK then Internal else c

/-- the `X-GRPC-Status` header value written by `handleMethod`:
    `fmt.Sprintf("%d:%s", statProto.Code, statProto.Message)` where
    `statProto.Code` is the `int32` reinterpretation of the `uint32` code. -/
def statusHeaderValue (c : Nat) (msg : Bytes) : Bytes :=
  intToDec (wrap32 (c : Int)) ++ [58] ++ msg

/-- `codes.Code(c)` for the `int64` returned by `ParseInt(_, 10, 32)`, falling back to the
    HTTP-derived code when the text does not parse -/
def parseCode (code0 : Nat) (c0 : Bytes) : Nat :=
  match parseInt 32 c0 with
  | some c => (wrapU32 c).toNat
  | none => code0

/-- the part of `statFromResponse` after `strings.SplitN(header, ":", 2)` -/
def codeMsgOfParts (code0 : Nat) (statusText : Bytes) : List Bytes → Nat × Bytes
  | [] => (code0, statusText)      -- unreachable: SplitN never returns an empty slice
  | [c0] => if c0.isEmpty then (code0, statusText) else (parseCode code0 c0, statusText)
  | c0 :: m :: _ => if c0.isEmpty then (code0, statusText) else (parseCode code0 c0, m)

/-- client: `statFromResponse` code/message part.
    `hdr = none` models an absent `X-GRPC-Status` header (`Header.Get` returns "", which
    takes the same path as `some []`);
    `httpStatus`/`statusText` are `reply.StatusCode`/`reply.Status`. -/
def clientCodeMsg (httpStatus : Int) (statusText : Bytes) (hdr : Option Bytes) : Nat × Bytes :=
  match hdr with
  | none => (codeFromHttpStatus httpStatus, statusText)
  | some h => codeMsgOfParts (codeFromHttpStatus httpStatus) statusText (splitN2 h 58)

end Codes
