/-
  TrailerSplit: how a unary HTTP reply carries the handler's headers and trailers in ONE header block
  (server.go handleMethod: `toHeaders(headers, w.Header(), "")`, `toHeaders(trailers, w.Header(), "X-GRPC-Trailer-")`)
  and how the client takes them apart again (client.go setMetadata). Values are opaque identities; the
  per-value codec is Model/Metadata.lean. A metadata map is an association list (one entry per key).
-/
import Model.Prim
import Model.Gen.Wire

namespace TrailerSplit
open Prim

abbrev Key := Bytes
abbrev MD := List (Key × List Nat)

/-- the prefix as the client tests for it (it lower-cases the key first) -/
def pfx : Key := Prim.str Gen.trailerPrefixClient

/-- server: headers under their own keys, trailers under the prefixed key -/
def serverMerge (h t : MD) : MD := h ++ t.map (fun kv => (pfx ++ kv.1, kv.2))

/-- client: a key is a trailer iff it has the prefix and something after it -/
def isTrailerKey (k : Key) : Bool := pfx.isPrefixOf k && !(k.drop pfx.length).isEmpty

def clientHeaders (m : MD) : MD := m.filter (fun kv => !isTrailerKey kv.1)
def clientTrailers (m : MD) : MD :=
  (m.filter (fun kv => isTrailerKey kv.1)).map (fun kv => (kv.1.drop pfx.length, kv.2))

/-- what an `http.Header` makes of a list of (key, values) additions: one entry per key, values in order of addition -/
def group (m : MD) : MD :=
  m.foldl (fun acc kv =>
    if acc.any (·.1 == kv.1) then acc.map (fun e => if e.1 == kv.1 then (e.1, e.2 ++ kv.2) else e)
    else acc ++ [kv]) []

end TrailerSplit
