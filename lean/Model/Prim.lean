/-
  Prim: Go primitives used by the models.

  * every Go `string` / `[]byte` is `Bytes := List UInt8` (Go strings are byte
    sequences; invalid UTF-8 is in several properties' domains);
  * Go's fixed-width signed integers are `Int` with explicit wrap-around
    (`wrap32`, `wrap64`) applied exactly where Go's arithmetic would wrap;
  * `strconv.ParseInt(s, 10, bits)` and `fmt.Sprintf("%d", …)` over bytes.

  Core Lean only (the driver links this as a `lean_exe`).
-/
namespace Prim

abbrev Bytes := List UInt8

def str (s : String) : Bytes := s.toUTF8.toList

/-- best-effort rendering for driver output only (never used by a theorem) -/
def hexDigit (n : Nat) : Char :=
  if n < 10 then Char.ofNat (48 + n) else Char.ofNat (87 + n)

def toHex (b : Bytes) : String :=
  String.ofList (b.flatMap fun x => [hexDigit (x.toNat / 16), hexDigit (x.toNat % 16)])

def hexVal (c : Char) : Option Nat :=
  if '0' ≤ c ∧ c ≤ '9' then some (c.toNat - 48)
  else if 'a' ≤ c ∧ c ≤ 'f' then some (c.toNat - 87)
  else if 'A' ≤ c ∧ c ≤ 'F' then some (c.toNat - 55)
  else none

def fromHexAux : List Char → Option Bytes
  | [] => some []
  | [_] => none
  | a :: b :: rest =>
    match hexVal a, hexVal b, fromHexAux rest with
    | some x, some y, some r => some (UInt8.ofNat (x * 16 + y) :: r)
    | _, _, _ => none

/-- `-` denotes the empty byte string on the wire protocol -/
def fromHex (s : String) : Option Bytes :=
  if s == "-" then some [] else fromHexAux s.toList

/-! ### fixed-width integers -/

def two31 : Int := 2147483648
def two32 : Int := 4294967296
def two63 : Int := 9223372036854775808
def two64 : Int := 18446744073709551616
def maxInt32 : Int := 2147483647
def minInt32 : Int := -2147483648
def maxInt64 : Int := 9223372036854775807
def minInt64 : Int := -9223372036854775808

/-- Go `int32(x)` for an arbitrary mathematical integer (two's complement) -/
def wrap32 (x : Int) : Int := ((x + two31) % two32) - two31
/-- Go `int64(x)` -/
def wrap64 (x : Int) : Int := ((x + two63) % two64) - two63
/-- Go `uint32(x)` -/
def wrapU32 (x : Int) : Int := x % two32

/-! ### decimal rendering / parsing (fmt `%d`, strconv.ParseInt base 10) -/

def decDigits (n : Nat) : List Nat :=
  if _h : n < 10 then [n] else decDigits (n / 10) ++ [n % 10]
decreasing_by omega

def digitByte (d : Nat) : UInt8 := UInt8.ofNat (48 + d)

def natToDec (n : Nat) : Bytes := (decDigits n).map digitByte

/-- `fmt.Sprintf("%d", x)` -/
def intToDec (x : Int) : Bytes :=
  if x < 0 then 45 :: natToDec x.natAbs else natToDec x.natAbs

def isDigit (b : UInt8) : Bool := 48 ≤ b && b ≤ 57

/-- all bytes are ASCII digits and the list is non-empty -/
def allDigits (s : Bytes) : Bool := !s.isEmpty && s.all isDigit

def digitsVal (s : Bytes) : Nat := s.foldl (fun acc b => acc * 10 + (b.toNat - 48)) 0

/-- sign split of `strconv.ParseInt`: one optional leading `+` or `-` -/
def splitSign : Bytes → Bool × Bytes
  | 43 :: r => (false, r)       -- '+'
  | 45 :: r => (true, r)        -- '-'
  | r => (false, r)

/-- `2^(bits-1)`: the magnitude limit of a signed `bits`-bit integer. The two sizes the code
    uses are given as literals so that no proof ever has to evaluate a power. -/
def limOf (bits : Nat) : Int :=
  if bits = 32 then two31 else if bits = 64 then two63 else (2 : Int) ^ (bits - 1)

/-- `strconv.ParseInt(s, 10, bits)`: optional sign, then one or more ASCII
    digits; value must fit the signed range, otherwise an error (`none`). -/
def parseInt (bits : Nat) (s : Bytes) : Option Int :=
  let neg := (splitSign s).1
  let body := (splitSign s).2
  if !allDigits body then none else
  let v : Int := digitsVal body
  let lim : Int := limOf bits
  if neg then (if v ≤ lim then some (-v) else none)
  else (if v < lim then some v else none)

/-! ### ASCII helpers (strings.ToLower, HasPrefix, HasSuffix) -/

def lowerByte (b : UInt8) : UInt8 := if 65 ≤ b && b ≤ 90 then b + 32 else b
def toLower (s : Bytes) : Bytes := s.map lowerByte

def hasPrefix (s p : Bytes) : Bool := p.isPrefixOf s
def hasSuffix (s p : Bytes) : Bool := p.reverse.isPrefixOf s.reverse

/-- index of first occurrence of byte `c` -/
def indexByte (s : Bytes) (c : UInt8) : Option Nat :=
  let i := s.findIdx (· == c)
  if i < s.length then some i else none

/-- `strings.SplitN(s, sep, 2)` for a one-byte separator -/
def splitN2 (s : Bytes) (c : UInt8) : List Bytes :=
  match indexByte s c with
  | none => [s]
  | some i => [s.take i, s.drop (i + 1)]

end Prim
