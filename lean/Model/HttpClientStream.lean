/-
  HttpClientStream: the transition system of one streaming call of the HTTP/1.1 client
  (httpgrpc/client.go: Channel.NewStream, clientStream.{RecvMsg, SendMsg, CloseSend, Header,
  Trailer, doHttpCall, readErrorIfDone}).

  Threads: the reader goroutine `doHttpCall` (round trip, decode loop, hand-off on the unbuffered
  channel `rCh`, the completion `defer`), the caller's receiver (RecvMsg with its two selects,
  Header, Trailer) and the caller's sender (SendMsg / CloseSend on the request pipe).
  The environment is the HTTP transport / server: it answers the round trip, supplies response
  body items one at a time, ends the body, and consumes request frames from the pipe.

  Assumed of the transport (as net/http behaves, and as the scripted transport of the harness does):
  the body ends right after the trailer frame, and body reads fail once the request's context is
  done (also a read of bytes that had already arrived: `tAbort`) — so the `ioutil.ReadAll(reply.Body)` that precedes the completion `defer` returns at once and
  is not modelled as a separate step (nor is the fact that the trailer path holds rMu across it).

  A response body is modelled at the level of what one iteration of the decode loop sees (the byte
  level is the Framing model, C07): a data frame with a decodable or undecodable payload, a
  trailer frame (decodable or not), or a read failure. `none`-step = action not enabled.
-/
import Model.InprocStream
import Model.Gen.Wire

namespace HttpClientStream
open InprocStream (Reason Res codeOf)

/-- one item of the response body as the decode loop meets it -/
inductive Item where
  | data (m : Nat) (decodable : Bool)   -- a complete data frame; `decodable` = the client's Unmarshal succeeds
  | trailer (code : Nat) (ok : Bool)     -- the trailer frame; `ok` = it unmarshals
  | bad                                   -- a read error / truncated frame / oversized prefix
deriving DecidableEq, Repr

inductive Actor where | cs | cr
deriving DecidableEq, Repr

inductive Ev where
  | ret (a : Actor) (r : Res)
deriving DecidableEq, Repr

inductive RMode where
  | first
  | probe (m : Nat)
  | violation            -- the look-ahead received a second message; about to take rMu and record Internal
deriving DecidableEq, Repr

structure St where
  respStream : Bool
  ctx : Option Reason := none          -- cs.ctx (the caller's context, or cancelled by the stream itself)
  -- transport / environment
  replied : Bool := false              -- the round trip has produced a reply with status OK and decodable headers
  body : List Item := []               -- items supplied by the transport, not yet read by the reader
  bodyEnded : Bool := false            -- the transport has ended the body (clean EOF)
  -- reader goroutine
  pc : Nat := 0                        -- 0 in RoundTrip, 1 decode loop, 2 holding a message for hand-off, 3 exited
  holding : Nat := 0                   -- the message being handed off (pc = 2)
  holdingOK : Bool := true             -- …and whether the client's Unmarshal of it succeeds
  rdErr : Option Res := none           -- the goroutine's local rErr
  ready : Bool := false                -- onReady ran: Header() may return
  hdErr : Option Res := none
  -- completion state (rMu)
  done : Bool := false
  rErr : Option Res := none
  tr : Option Nat := none              -- status code of the trailer (or of a non-OK reply)
  rChClosed : Bool := false
  pipeClosed : Bool := false           -- the request pipe's read side was closed by the reader
  pipeErr : Option Res := none         -- …with this error (readPipe.CloseWithError(rErr))
  -- caller, receive side
  cRecv : Option RMode := none
  panicked : Bool := false
  -- caller, send side (wMu)
  cSend : Option Nat := none           -- a SendMsg parked in the pipe write
  sendClosed : Bool := false
  wErr : Bool := false
  -- ghost
  supplied : List Nat := []            -- decodable data messages the transport has supplied, in order
  delivered : List Nat := []           -- messages RecvMsg returned
  consumed : Nat := 0                  -- data items the reader has read
  sawTrailerOK : Bool := false         -- the reader read a decodable trailer with code 0
  trailerSupplied : Bool := false      -- the transport has supplied a trailer item (nothing follows it)
  dropped : Bool := false              -- a decodable message was taken off the body and will never be delivered
  offered : List Nat := []             -- messages of the SendMsg calls that reached the request pipe, in call order
  reqWritten : List Nat := []          -- request frames the transport has taken off the pipe (SendMsg returned nil), in order
deriving DecidableEq, Repr

inductive Act where
  | cancel (r : Reason)
  -- transport
  | tReply | tReplyStatus (code : Nat) | tReplyBadHeaders | tFail
  | tItem (i : Item) | tEnd
  | tAbort                             -- the request's context is done: the transport fails the read of the still unread trailer frame
  | tReadReq                           -- the server consumes the request frame a SendMsg is writing
  -- reader goroutine
  | rdDecode | rdHandoff | rdCtx
  -- caller
  | cRecvBegin | cRecvCtx | cRecvClosed | cViolation
  | cSendBegin (m : Nat) | cSendPipeClosed | cCloseSend
  | cHeader | cTrailer
deriving DecidableEq, Repr

def init (respStream : Bool) : St := { respStream }

def ctxStatus (r : Reason) : Res := .status (codeOf r)

/-- `readErrorIfDone` once done: the recorded error, else the trailer's status (OK = io.EOF) -/
def finalOf (s : St) : Res :=
  match s.rErr with
  | some e => e
  | none => match s.tr with
    | some 0 => .eof
    | some c => .status c
    | none => .eof       -- (tr is the zero HttpTrailer: code OK)

/-- the completion `defer` of doHttpCall -/
def complete (s : St) : St :=
  let e : Option Res := match s.rdErr, s.ctx with
    | some _, some r => some (ctxStatus r)     -- whatever I/O error the cancellation provoked (81f3c90)
    | e, _ => e
  { s with pc := 3, done := true, rChClosed := true, pipeClosed := true, pipeErr := e,
           rErr := (match s.rErr with | some x => some x | none => e) }

def step (s : St) : Act → Option (St × List Ev)
  | .cancel r => if s.ctx.isSome then some (s, []) else some ({ s with ctx := some r }, [])

  /- the transport answers the round trip (pc = 0) -/
  | .tReply => if s.pc == 0 then some ({ s with pc := 1, replied := true, ready := true }, []) else none
  | .tReplyStatus c =>
    -- a reply whose status (X-GRPC-Status / HTTP code) is not OK: recorded as the trailer, no body read
    if s.pc == 0 && c != 0 then some (complete { s with ready := true, tr := some c, bodyEnded := true }, []) else none
  | .tReplyBadHeaders =>
    if s.pc == 0 then some (complete { s with ready := true, rdErr := some .plainErr, hdErr := some .plainErr, bodyEnded := true }, []) else none
  | .tFail =>
    -- RoundTrip failed: with the context done it reports the context error
    if s.pc == 0 then
      let e := match s.ctx with | some r => ctxStatus r | none => Res.plainErr
      some (complete { s with ready := true, rdErr := some e, hdErr := some e }, [])
    else none
  | .tItem i =>
    if s.replied && !s.bodyEnded && !s.trailerSupplied then
      some ({ s with body := s.body ++ [i],
                     supplied := (match i with | .data m true => s.supplied ++ [m] | _ => s.supplied),
                     trailerSupplied := (match i with | .trailer _ _ => true | _ => false),
                     -- the server ends the body with the trailer frame; a failed read ends it as well
                     bodyEnded := (match i with | .data _ _ => false | _ => true) }, [])
    else none
  | .tEnd => if s.replied && !s.bodyEnded then some ({ s with bodyEnded := true }, []) else none
  | .tAbort =>
    -- once the request's context is done a transport may fail a read although the bytes had arrived (net/http closes
    -- the connection). For unread data frames this changes nothing the client can see (the reader ends with the
    -- context's status either way); for the unread trailer frame it does, so that case is an action of its own.
    if s.ctx.isSome && s.pc == 1 then
      (match s.body with
       | [.trailer _ _] => some ({ s with body := [.bad] }, [])
       | _ => none)
    else none
  | .tReadReq =>
    match s.cSend with
    | some m => some ({ s with cSend := none, reqWritten := s.reqWritten ++ [m] }, [.ret .cs .ok])
    | none => none

  /- the reader's decode loop -/
  | .rdDecode =>
    if s.pc != 1 then none else
    match s.body with
    | .data m ok :: rest => some ({ s with body := rest, pc := 2, holding := m, holdingOK := ok, consumed := s.consumed + 1 }, [])
    | .trailer c true :: rest =>
      some (complete { s with body := rest, tr := some c, sawTrailerOK := s.sawTrailerOK || c == 0 }, [])
    -- an undecodable trailer is the goroutine's local error like any other (it never replaces an error already recorded)
    | .trailer _ false :: rest => some (complete { s with body := rest, rdErr := some .plainErr }, [])
    | .bad :: rest => some (complete { s with body := rest, rdErr := some .plainErr }, [])
    | [] =>
      -- the body ended before a trailer frame: a truncated stream (4d2ee3d)
      if s.bodyEnded then some (complete { s with rdErr := some .plainErr }, []) else none
  | .rdHandoff =>
    -- `case cs.rCh <- msg`: a rendezvous with a RecvMsg waiting in one of its selects
    if s.pc != 2 then none else
    match s.cRecv with
    | some .first =>
      -- the client unmarshals the message; an undecodable one is an Internal error for this RecvMsg
      if !s.holdingOK then some ({ s with pc := 1, cRecv := none }, [.ret .cr (.status 13)])
      else if s.respStream then
        some ({ s with pc := 1, cRecv := none, delivered := s.delivered ++ [s.holding] }, [.ret .cr (.msg s.holding)])
      else some ({ s with pc := 1, cRecv := some (.probe s.holding) }, [])
    | some (.probe _) =>
      -- a second message on a single-response method: the client will record Internal under rMu
      -- (a separate step: the reader may complete first, and then its error is the one returned)
      some ({ s with pc := 1, cRecv := some .violation }, [])
    | some .violation => none
    | none => none
  | .rdCtx =>
    if s.pc != 2 then none else
    match s.ctx with
    | some r => some (complete { s with rdErr := some (ctxStatus r), dropped := s.dropped || (s.holdingOK && s.respStream) }, [])
    | none => none

  /- RecvMsg -/
  | .cRecvBegin =>
    if s.cRecv.isSome then none
    else if s.done then some (s, [.ret .cr (finalOf s)])
    else some ({ s with cRecv := some .first }, [])
  | .cRecvCtx =>
    match s.cRecv, s.ctx with
    | some .violation, _ => none
    | some _, some r => some ({ s with cRecv := none }, [.ret .cr (ctxStatus r)])
    | _, _ => none
  | .cViolation =>
    match s.cRecv with
    | some .violation =>
      (match s.rErr with
       | some e => some ({ s with cRecv := none }, [.ret .cr e])
       | none =>
         -- record Internal, mark the call done and cancel the stream's own context so that the reader cannot hang
         some ({ s with cRecv := none, done := true, rErr := some (.status 13),
                        ctx := (match s.ctx with | some r => some r | none => some .canceled) },
               [.ret .cr (.status 13)]))
    | _ => none
  | .cRecvClosed =>
    match s.cRecv with
    | some mode =>
      if s.rChClosed then
        if !s.done then some ({ s with panicked := true }, [])     -- "cs.rCh was closed but cs.done == false!"
        else
          (match mode with
           | .violation => none
           | .first => some ({ s with cRecv := none }, [.ret .cr (finalOf s)])
           | .probe m =>
             if finalOf s == .eof then
               some ({ s with cRecv := none, delivered := s.delivered ++ [m] }, [.ret .cr (.msg m)])
             else some ({ s with cRecv := none }, [.ret .cr (finalOf s)]))
      else none
    | none => none

  /- SendMsg / CloseSend on the request pipe -/
  | .cSendBegin m =>
    if s.cSend.isSome then none
    else if s.done || s.wErr then some (s, [.ret .cs .eof])
    else if s.sendClosed || s.pipeClosed then some ({ s with wErr := true }, [.ret .cs .plainErr])
    else some ({ s with cSend := some m, offered := s.offered ++ [m] }, [])
  | .cSendPipeClosed =>
    match s.cSend with
    | some _ => if s.pipeClosed then some ({ s with cSend := none, wErr := true }, [.ret .cs (match s.pipeErr with | some e => e | none => .plainErr)]) else none
    | none => none
  | .cCloseSend =>
    if s.cSend.isSome then none else some ({ s with sendClosed := true }, [.ret .cs .ok])

  | .cHeader => if s.ready then some (s, [.ret .cr (match s.hdErr with | some e => e | none => .ok)]) else none
  | .cTrailer => some (s, [.ret .cr .ok])

def run (s : St) : List Act → Option St
  | [] => some s
  | a :: rest => match step s a with
    | some (s', _) => run s' rest
    | none => none

def internalActs : List Act := [.rdDecode, .rdHandoff, .rdCtx, .cRecvCtx, .cRecvClosed, .cViolation, .cSendPipeClosed]

end HttpClientStream
