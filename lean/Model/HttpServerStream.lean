/-
  HttpServerStream: the server side of one streaming call over HTTP
  (httpgrpc/server.go: handleStream after its gate, serverStream.{SetHeader, SendHeader,
  SetTrailer, SendMsg, RecvMsg}).

  The handler's operations on its `grpc.ServerStream` are the actions; `rmu` / `wmu` make the
  receive side and the write side two independent sequential machines, so a sequential model
  over the handler's operation sequence is exact for every interleaving of one receiving and
  one sending goroutine. The environment can break the connection (`breakConn`): from then on
  every `Write` on the ResponseWriter fails.

  What reaches the wire is recorded as a list of `Out` items: the header block (with the
  metadata `w.Header()` held when the status line was written — explicitly by `WriteHeader`, or
  implicitly by the first `Write`), data frames, and the trailer frame.
  The request body is a list of items as `RecvMsg` meets them (byte level: Framing model).
-/
import Model.InprocStream
import Model.Gen.HttpStreams

namespace HttpServerStream
open InprocStream (HErr Reason Res codeOf)

inductive ReqItem where
  | data (m : Nat) (decodable : Bool)   -- a complete frame; `decodable` = the codec can unmarshal its payload
  | cut                                  -- the body ends inside a frame, or the prefix is hostile: a read error
deriving DecidableEq, Repr

inductive Out where
  | head (md : List Nat)
  | data (m : Nat)
  | trailer (code : Nat) (md : List Nat)
deriving DecidableEq, Repr

structure St where
  clientStreams : Bool                 -- (the field the code calls `respStream`: may the client send more than one message)
  req : List ReqItem                   -- what is left of the request body
  recvd : Nat := 0
  hdrs : List Nat := []                -- metadata put into w.Header() so far
  headersSent : Bool := false
  headWritten : Bool := false          -- the status line and header block have gone out
  writeFailed : Bool := false
  connBroken : Bool := false
  tr : List Nat := []
  wire : List Out := []
  finished : Bool := false             -- the handler has returned and handleStream has written (or skipped) the trailer
  -- ghost
  received : List Nat := []            -- messages RecvMsg delivered
  consumed : List ReqItem := []        -- items RecvMsg has taken off the body
  hdrOK : List Nat := []               -- metadata of the SetHeader / SendHeader calls that returned nil
deriving DecidableEq, Repr

inductive Act where
  | setHeader (md : Nat) | sendHeader (md : Nat) | setTrailer (md : Nat)
  | send (m : Nat) (encodable : Bool)
  | recv
  | ret (e : Option HErr)
  | breakConn
deriving DecidableEq, Repr

def init (clientStreams : Bool) (req : List ReqItem) : St := { clientStreams, req }

/-- the code of the trailer for what the handler returned: a status error keeps its code (a
    non-nil error whose status says OK becomes Internal), context errors map to Canceled /
    DeadlineExceeded, any other error is Unknown -/
def trailerCode : Option HErr → Nat
  | none => 0
  | some (.status c) => if c == 0 then (if Gen.streamOkRewrite then 13 else 0) else c   -- (the rewrite's presence is regenerated)
  | some .plain => 2
  | some (.ctx r) => codeOf r

/-- the first `Write` sends the status line with the headers collected so far -/
def withHead (s : St) : List Out := if s.headWritten then s.wire else s.wire ++ [.head s.hdrs]

/-- after the handler has returned only the environment acts -/
def stepFinished (s : St) : Act → Option (St × Res)
  | .breakConn => some ({ s with connBroken := true }, .ok)
  | _ => none

def stepLive (s : St) (a : Act) : Option (St × Res) :=
  match a with
  | .breakConn => some ({ s with connBroken := true }, .ok)
  | .setHeader md =>
    if s.headersSent then some (s, .plainErr)
    else some ({ s with hdrs := s.hdrs ++ [md], hdrOK := s.hdrOK ++ [md] }, .ok)
  | .sendHeader md =>
    if s.headersSent then some (s, .plainErr)
    else some ({ s with hdrs := s.hdrs ++ [md], hdrOK := s.hdrOK ++ [md], headersSent := true, headWritten := true,
                        wire := s.wire ++ [.head (s.hdrs ++ [md])] }, .ok)
  | .setTrailer md => some ({ s with tr := s.tr ++ [md] }, .ok)
  | .send m enc =>
    if s.writeFailed then some (s, .eof)
    else if !enc || s.connBroken then some ({ s with headersSent := true, writeFailed := true }, .plainErr)
    else some ({ s with headersSent := true, headWritten := true, wire := withHead s ++ [.data m] }, .ok)
  | .recv =>
    if !s.clientStreams && s.recvd > 0 then some (s, .eof)
    else
      match s.req with
      | [] => some ({ s with recvd := s.recvd + 1 }, .eof)
      | .cut :: _ => some ({ s with recvd := s.recvd + 1, req := [], consumed := s.consumed ++ [.cut] }, .plainErr)
      | .data m dec :: rest =>
        if !dec then some ({ s with recvd := s.recvd + 1, req := rest, consumed := s.consumed ++ [.data m dec] }, .plainErr)
        else if !s.clientStreams && !rest.isEmpty then
          -- "method accepts 1 request message but client sent >1"
          some ({ s with recvd := s.recvd + 1, req := rest, consumed := s.consumed ++ [.data m dec] }, .status 3)
        else some ({ s with recvd := s.recvd + 1, req := rest, consumed := s.consumed ++ [.data m dec], received := s.received ++ [m] }, .msg m)
  | .ret e =>
    if s.writeFailed || s.connBroken then some ({ s with finished := true }, .ok)
    else some ({ s with finished := true, headWritten := true, wire := withHead s ++ [.trailer (trailerCode e) s.tr] }, .ok)

def step (s : St) (a : Act) : Option (St × Res) :=
  if s.finished then stepFinished s a else stepLive s a

def run (s : St) : List Act → Option (St × List Res)
  | [] => some (s, [])
  | a :: rest => match step s a with
    | some (s', r) => (match run s' rest with
      | some (s'', rs) => some (s'', r :: rs)
      | none => none)
    | none => none

end HttpServerStream
