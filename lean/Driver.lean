/-
  Driver: line protocol between the Go harness and the executable model.
  One operation per input line, one answer line per operation.
  Checker code (trusted), not model: it only parses arguments, calls the
  model definitions the theorems are about, and prints canonical answers.
-/
import Model.TrailerSplit
import Model

open Prim

def parseIntArg (s : String) : Option Int := s.toInt?

def hexArg (s : String) : Option Bytes := fromHex s

def showBytes (b : Bytes) : String := if b.isEmpty then "-" else toHex b

def driveC14 (args : List String) : String :=
  match args with
  | ["fwd", c] => match c.toNat? with
    | some c => toString (Codes.httpStatusFromCode c)
    | none => "bad-op"
  | ["rev", s] => match s.toInt? with
    | some s => toString (Codes.codeFromHttpStatus s)
    | none => "bad-op"
  | ["render", c, d] => match c.toNat? with
    | some c => toString (Codes.defaultRendererStatus c (d == "1"))
    | none => "bad-op"
  | ["client", s, txt, hdr] =>
    match s.toInt?, hexArg txt, (if hdr == "none" then some none else (hexArg hdr).map some) with
    | some s, some txt, some hdr =>
      let (c, m) := Codes.clientCodeMsg s txt hdr
      if c == 0 then "0" else s!"{c} {showBytes m}"
    | _, _, _ => "bad-op"
  | _ => "bad-op"

def showParsed : Timeout.Parsed → String
  | .noDeadline => "none"
  | .deadline ns => s!"dur {ns}"
  | .panic => "panic"

/-- C09. `parseobs <hex> none|crash|<lo> <hi>`: the observation is on the line; answer `accept`
    iff the model's outcome is the observed one (deadline within the clock sandwich). -/
def driveC09 (args : List String) : String :=
  match args with
  | ["parse", h] => match hexArg h with
    | some b => showParsed (Timeout.parseTimeout b)
    | none => "bad-op"
  | ["parseobs", h, "none"] => match hexArg h with
    | some b => if Timeout.parseTimeout b == .noDeadline then "accept" else s!"reject model={showParsed (Timeout.parseTimeout b)}"
    | none => "bad-op"
  | ["parseobs", h, "crash"] => match hexArg h with
    | some b => if Timeout.parseTimeout b == .panic then "accept" else s!"reject model={showParsed (Timeout.parseTimeout b)}"
    | none => "bad-op"
  | ["parseobs", h, lo, hi] => match hexArg h, lo.toInt?, hi.toInt? with
    | some b, some lo, some hi =>
      match Timeout.parseTimeout b with
      | .deadline ns => if lo ≤ ns ∧ ns ≤ hi then "accept" else s!"reject model=dur {ns}"
      | o => s!"reject model={showParsed o}"
    | _, _, _ => "bad-op"
  | ["encobs", lo, hi, h] => match lo.toInt?, hi.toInt?, hexArg h with
    | some lo, some hi, some b =>
      -- the header is monotone in the remaining duration: it must lie between the encodings of the ends
      let hl := Timeout.clientHeader lo
      let hh := Timeout.clientHeader hi
      if b == hl || b == hh then "accept"
      else match Prim.parseInt 64 b.dropLast, Prim.parseInt 64 hl.dropLast, Prim.parseInt 64 hh.dropLast with
        | some x, some l, some u => if l ≤ x ∧ x ≤ u ∧ b.getLast? == hl.getLast? then "accept" else s!"reject model=[{showBytes hl},{showBytes hh}]"
        | _, _, _ => s!"reject model=[{showBytes hl},{showBytes hh}]"
    | _, _, _ => "bad-op"
  | ["enc", "none"] => match Timeout.clientHeaderOpt none with
    | none => "none"
    | some _ => "present"
  | _ => "bad-op"

/-- parse `k=a:b;c:d` maps of hex payloads -/
def parseMap (arg : String) (key : String) : List (Bytes × String) :=
  if !arg.startsWith (key ++ "=") then [] else
  let body := (arg.drop (key.length + 1)).toString
  (body.splitOn ";").filterMap fun kv =>
    match kv.splitOn ":" with
    | [k, v] => (hexArg k).map (·, v)
    | _ => none

def lookupMap (m : List (Bytes × String)) (k : Bytes) : Option String :=
  (m.find? (·.1 == k)).map (·.2)

def showRecv (pm : List (Bytes × String)) : Framing.RecvResult → String
  | .msg m => "m:" ++ ((lookupMap pm m).getD "?")
  | .invalid => "x"
  | .eof => "end:eof"
  | .status c => s!"end:status({c})"
  | .unexpectedEOF => "end:unexpected-eof"
  | .otherErr => "end:other"

def endingArg (s : String) : Option Framing.Ending :=
  if s == "clean" then some .clean else if s == "abrupt" then some .abrupt else none

def driveC07 (args : List String) : String :=
  match args with
  | ["client", body, ending, pmArg, trArg] =>
    match hexArg body, endingArg ending with
    | some b, some e =>
      let pm := parseMap pmArg "pm"
      let tr := parseMap trArg "tr"
      let bad := fun m => lookupMap pm m == some "bad"
      let trCode := fun t => match lookupMap tr t with
        | some "bad" => none
        | some c => c.toInt?
        | none => none
      let d := Framing.clientDecode b e
      " ".intercalate ((Framing.clientRecvAll d bad trCode).map (showRecv pm))
    | _, _ => "bad-op"
  | ["server", body, ending, cs, pmArg, _trArg] =>
    match hexArg body, endingArg ending with
    | some b, some e =>
      let pm := parseMap pmArg "pm"
      let bad := fun m => lookupMap pm m == some "bad"
      let (rs, _) := Framing.serverRecvAll (cs == "1") b e bad
      " ".intercalate (rs.map fun r => match r with
        | .ok m => "m:" ++ ((lookupMap pm m).getD "?")
        | .error .eof => "end:eof"
        | .error .extraRequest => "end:extra-request"
        | .error (.rd .unexpectedEOF) => "end:unexpected-eof"
        | .error .unmarshal => "end:other"
        | .error (.rd _) => "end:other")
    | _, _ => "bad-op"
  | _ => "bad-op"

/-- `reg=svc:u1,u2:s1;svc2::s1` (all names hex) -/
def parseReg (arg : String) : List Resolve.Svc :=
  if !arg.startsWith "reg=" then [] else
  let body := (arg.drop 4).toString
  if body.isEmpty then [] else
  (body.splitOn ";").filterMap fun item =>
    match item.splitOn ":" with
    | [n, u, st] =>
      let names := fun (x : String) => if x.isEmpty then [] else (x.splitOn ",").filterMap hexArg
      (hexArg n).map fun nb => { name := nb, unary := names u, streams := names st }
    | _ => none

def driveC12 (args : List String) : String :=
  match args with
  | ["inproc", kind, name, reg] =>
    match hexArg name with
    | some nm =>
      let k := if kind == "unary" then Resolve.Kind.unary else Resolve.Kind.stream
      match Resolve.inprocNow k (parseReg reg) nm with
      | .handler s m => s!"handler {showBytes s} {showBytes m}"
      | .unimplemented => "unimplemented"
      | .panic => "panic"
    | none => "bad-op"
  | _ => "bad-op"

def b01 (b : Bool) : String := if b then "1" else "0"

def strOfBytes (b : Bytes) : String := String.ofList (b.map fun x => Char.ofNat x.toNat)

def driveC11 (args : List String) : String :=
  match args with
  | ["unary", m, mt, hok, uok, hres, mo] =>
    match hexArg m, hexArg mt with
    | some m, some mt =>
      let req : HttpServer.Req := ⟨m, strOfBytes mt, hok == "1", true, uok == "1"⟩
      let h : HttpServer.HandlerResult := if hres == "none" then none else hres.toNat?
      let rep := HttpServer.handleMethod req h false (mo == "1")
      let g := match rep.grpcCode with | some c => toString c | none => "none"
      s!"status={rep.httpStatus} allow={b01 rep.allowPost} calls={rep.descHandlerCalls} app={rep.appCalls} grpc={g}"
    | _, _ => "bad-op"
  | ["stream", m, mt, hok, script] =>
    match hexArg m, hexArg mt with
    | some m, some mt =>
      let req : HttpServer.Req := ⟨m, strOfBytes mt, hok == "1", true, true⟩
      let ops := ((script.drop 7).toString.toList).filterMap fun c =>
        if c == 's' then some (HttpServer.SOp.send true true)
        else if c == 'm' then some (HttpServer.SOp.send false true)
        else if c == 'h' then some HttpServer.SOp.setHeader
        else if c == 'H' then some HttpServer.SOp.sendHeader
        else if c == 't' then some HttpServer.SOp.setTrailer
        else if c == 'r' then some HttpServer.SOp.recv
        else none
      let rep := HttpServer.handleStream req ops
      let fr := String.ofList (rep.frames.map fun f => match f with | .data => 'd' | .trailer => 'T')
      s!"status={rep.httpStatus} allow={b01 rep.allowPost} calls={rep.handlerCalls} frames={fr}"
    | _, _ => "bad-op"
  | _ => "bad-op"

/-- `k=v1,v2|k2=v` (hex; `-` = empty map) -/
def parseMD (sep : String) (arg : String) : Creds.MD :=
  if arg == "-" || arg.isEmpty then [] else
  (arg.splitOn sep).filterMap fun kv =>
    match kv.splitOn "=" with
    | [k, vs] => (hexArg k).map fun kb => (kb, (vs.splitOn ",").filterMap hexArg)
    | _ => none

/-- canonical rendering as the harness does: keys sorted, `k=v,v;k=v` -/
def showMD (md : Creds.MD) : String :=
  let keys := (md.map (·.1)).eraseDups
  let keys := keys.toArray.qsort (fun a b => toHex a < toHex b) |>.toList
  if keys.isEmpty then "-" else
  ";".intercalate (keys.map fun k => showBytes k ++ "=" ++ ",".intercalate ((Creds.MD.get md k).map showBytes))

def driveC13 (args : List String) : String :=
  match args with
  | ["apply", sec, caller, creds] =>
    let secure := sec == "secure=1"
    let callerArg := (caller.drop 7).toString
    let outgoing : Option Creds.MD := if callerArg == "-" then none else some (parseMD "|" callerArg)
    let credArg := (creds.drop 6).toString
    let c : Option Creds.PerRPC :=
      if credArg == "none" then none else
      match credArg.splitOn ";" with
      | [s, e, m] =>
        let md := parseMD "|" (m.drop 3).toString
        some ⟨s == "sec=1", if e == "err=1" then none else some (md.map fun (k, vs) => (k, vs.headD []))⟩
      | _ => none
    match Creds.apply c secure outgoing with
    | .ok out n => s!"ok {showMD (out.getD [])} credcalls={n}"
    | .error n => s!"error credcalls={n}"
  | ["peer", kind, conn] =>
    let from_ := if kind == "unary" then Gen.unaryPeerTLSFrom else Gen.streamPeerTLSFrom
    s!"tls={b01 (Creds.peerHasTLS from_ (conn == "conntls=1"))}"
  | _ => "bad-op"

def showEntries (es : List (Bytes × Nat)) : String :=
  let xs := es.map fun (n, d) => s!"{showBytes n}:{d}"
  "[" ++ ",".intercalate (xs.toArray.qsort (· < ·)).toList ++ "]"

def driveC15 (args : List String) : String :=
  match args with
  | [_carrier, hist] =>
    let ops := ((hist.drop 5).toString.splitOn ";")
    let (_, outs) := ops.foldl (fun (acc : Registry.State × List String) op =>
      let (s, outs) := acc
      match op.splitOn ":" with
      | ["r", n, d, t] =>
        match hexArg n, d.toNat? with
        | some nb, some dn =>
          let (s', p) := Registry.register s ⟨nb, dn, 1, t == "1"⟩
          (s', outs ++ [if p then "panic" else "ok"])
        | _, _ => (s, outs ++ ["bad-op"])
      | ["q", n] =>
        match hexArg n with
        | some nb => (s, outs ++ [match Registry.query s nb with | some (d, _) => toString d | none => "none"])
        | none => (s, outs ++ ["bad-op"])
      | ["f"] => (s, outs ++ [showEntries ((Registry.forEach s).map fun e => (e.1, e.2.1))])
      | ["i"] => (s, outs ++ [showEntries (Registry.info s)])
      | _ => (s, outs ++ ["bad-op"])) (([] : Registry.State), ([] : List String))
    " ".intercalate outs
  | _ => "bad-op"

def behOf (stream : Bool) (layer : Nat) (c : Char) : Option InterceptClient.Interceptor :=
  if c == 'p' then some (InterceptClient.logPass stream layer)
  else if c == 's' || c == 'c' then some (InterceptClient.logShort stream layer)
  else if c == 'a' then some (InterceptClient.logAlter stream layer)
  else if c == 'd' then some (InterceptClient.logDrop stream layer)
  else if c == 'm' then some (InterceptClient.logRename stream layer)
  else none

def driveC17 (args : List String) : String :=
  match args with
  | kind :: base :: layers :: rest =>
    let copts := match rest with | c :: _ => ((c.drop 6).toString.toNat?.getD 0) | _ => 0
    let slash := match rest with | [_, sl] => sl != "slash=0" | _ => true
    let stream := kind == "stream"
    let baseKind := (base.drop 5).toString
    -- "grpcf" / "recf": the base is reached through a wrapper that is not the library's own (no interceptors of its own)
    let b0 : InterceptClient.Chan := .base (baseKind == "grpc" || baseKind == "grpcf") 0
    let b : InterceptClient.Chan := if baseKind == "grpcf" || baseKind == "recf" then .wrapped b0 none none else b0
    let specs := ((layers.drop 7).toString.splitOn ",")
    let (ch, _) := specs.foldl (fun (acc : InterceptClient.Chan × Nat) sp =>
      let (ch, i) := acc
      let cs := sp.toList
      let u := behOf false i (cs.getD 0 '-')
      let s := behOf true i (cs.getD 1 '-')
      (InterceptClient.intercept ch u s, i + 1)) (b, 0)
    let mname0 := if stream then "/grpchantesting.TestService/BidiStream" else "/grpchantesting.TestService/Unary"
    let mname := if slash then mname0 else (mname0.drop 1).toString
    let (evs, res) := if stream then InterceptClient.newStream ch ⟨0, copts⟩ else InterceptClient.invoke ch ⟨0, copts⟩
    let showEv : InterceptClient.Ev → Option String
      | .int st l cc c =>
        let ccs := match cc with | some _ => "root" | none => "nil"
        some s!"int{if st then "S" else "U"}({l},cc={ccs},{mname}{String.ofList (List.replicate c.method '~')},opts={c.opts})"
      | .base st _ c => if baseKind == "rec" || baseKind == "recf" then some s!"base{if st then "S" else "U"}({mname}{String.ofList (List.replicate c.method '~')},opts={c.opts})" else none
    let body := " ".intercalate (evs.filterMap showEv)
    body ++ " =>" ++ (if res == 0 then "ok" else "short")
  | _ => "bad-op"

def argVal (a : String) (key : String) : String := (a.drop (key.length + 1)).toString

def driveC16 (args : List String) : String :=
  match args with
  | ["unary", svc, m, t, decor, req] =>
    match hexArg (argVal svc "svc"), (argVal req "req").toNat? with
    | some svcB, some rq =>
      let mname := argVal m "m"
      let info : Bytes := [47] ++ svcB ++ [47] ++ Prim.str mname
      let specs := let d := argVal decor "decor"; if d.isEmpty then [] else d.splitOn ","
      let base : InterceptServer.MethodHandler := InterceptServer.generated info InterceptServer.appEcho
      let (h, _) := specs.foldl (fun (acc : InterceptServer.MethodHandler × Nat) sp =>
        let (h, i) := acc
        let c := sp.toList.getD 0 '-'
        let h' := if c == 'p' then InterceptServer.decorateUnary (InterceptServer.dPass i) h
                  else if c == 's' then InterceptServer.decorateUnary (InterceptServer.dShort i) h
                  else if c == 'r' then InterceptServer.decorateUnary (InterceptServer.dRewrite i) h
                  else h
        (h', i + 1)) (base, 0)
      let tr : Option InterceptServer.UInt := if argVal t "t" == "p" then some InterceptServer.tPass
        else if argVal t "t" == "r" then some InterceptServer.tRewrite else none
      let (evs, resp) := h rq tr
      let fm := strOfBytes info
      let showEv : InterceptServer.Ev → String
        | .transport _ r => s!"T({fm},{r})"
        | .decor l _ r => s!"D{l}({fm},{r})"
        | .app r => s!"app({r})"
      let short := evs.all (fun e => match e with | .app _ => false | _ => true)
      " ".intercalate (evs.map showEv) ++ " =>" ++ (if short then "short" else s!"resp({resp})")
    | _, _ => "bad-op"
  | ["stream", svc, m, cs, ss, t, decor] =>
    match hexArg (argVal svc "svc") with
    | some svcB =>
      let sd : InterceptServer.StreamDesc := ⟨Prim.str (argVal m "m"), argVal cs "cs" == "1", argVal ss "ss" == "1", 0⟩
      let info := InterceptServer.streamInfo svcB sd
      let specs := let d := argVal decor "decor"; if d.isEmpty then [] else d.splitOn ","
      let app : InterceptServer.SHandler := fun _ => ([.app], 0)
      let (h, _) := specs.foldl (fun (acc : InterceptServer.SHandler × Nat) sp =>
        let (h, i) := acc
        let c := sp.toList.getD 1 '-'
        let h' : InterceptServer.SHandler :=
          if c == 'p' then InterceptServer.decorateStream (fun inf hh => let (es, r) := hh (); (.decor i inf :: es, r)) info h
          else if c == 's' then InterceptServer.decorateStream (fun inf _ => ([.decor i inf], 1)) info h
          else h
        (h', i + 1)) (app, 0)
      let tr : Option InterceptServer.SInt :=
        if argVal t "t" == "p" then some (fun inf hh => let (es, r) := hh (); (.transport inf :: es, r)) else none
      let (evs, res) := InterceptServer.dispatchStream tr info h
      let showInfo := fun (i : InterceptServer.StreamInfo) => s!"({strOfBytes i.fullMethod},{b01 i.isClientStream},{b01 i.isServerStream})"
      let showEv : InterceptServer.SEv → String
        | .transport i => "T" ++ showInfo i
        | .decor l i => s!"D{l}" ++ showInfo i
        | .app => "app"
      " ".intercalate (evs.map showEv) ++ " =>" ++ (if res == 0 then "ok" else "short")
    | none => "bad-op"
  | _ => "bad-op"

def driveC19 (args : List String) : String :=
  match args with
  | [svc, legacy, methods] =>
    match hexArg (argVal svc "svc") with
    | some svcB =>
      if argVal legacy "legacy" != "1" then "" else
      let marg := argVal methods "methods"
      let ms : List Stubgen.Method := if marg.isEmpty then [] else
        (marg.splitOn ",").filterMap fun item =>
          match item.splitOn ":" with
          | [n, cs, ss] => (hexArg n).map fun nb => ⟨nb, cs == "1", ss == "1"⟩
          | _ => none
      let bs := Stubgen.bindings svcB ms
      ";".intercalate (bs.map fun b =>
        let sh := match b.shape with | .unary => "unary" | .sstream => "sstream" | .stream => "stream" | .unknown => "unknown"
        s!"{showBytes b.name}:{sh}:{showBytes b.path}:{b.index}")
    | none => "bad-op"
  | _ => "bad-op"

def userKeyOf (name : String) : Option Nat :=
  (["int0","int1","int2","int3","str0","str1","str2","str3","ptr"].findIdx? (· == name))

def driveC10 (args : List String) : String :=
  match args with
  | ["probe", chain, nested] =>
    let items := let c := argVal chain "chain"; if c.isEmpty then [] else c.splitOn ","
    -- a nested call starts from a handler context: incoming metadata, peer, transport stream
    let base : CtxValues.Ctx := if argVal nested "nested" == "1"
      then .withValue (.withValue (.withValue .background .incomingMD (.md 100)) .peer (.peerOther 1)) .transportStream (.stsCaller 1)
      else .background
    let (caller, _) := items.foldl (fun (acc : CtxValues.Ctx × Nat) it =>
      let (c, n) := acc
      if it.startsWith "v:" then
        match userKeyOf (it.drop 2).toString with
        | some k => (.withValue c (.user k) (.user k), n)
        | none => (c, n)
      else if it == "out" then (.withValue c .outgoingMD (.md 1), n)
      else if it == "c" then (.withCancel c (n + 1), n + 1)
      else if it == "dl" then (.withDeadline c 5, n)
      else (c, n)) (base, 0)
    let h := CtxValues.handlerCtx caller 0
    let names := ["int0","int1","int2","int3","str0","str1","str2","str3","ptr"]
    let vis := (List.range 9).filterMap fun k =>
      if (CtxValues.value h (.user k)).isSome then names[k]? else none
    let inn := match CtxValues.value h .incomingMD with | some (.md 1) => "1" | _ => "0"
    let out := b01 (CtxValues.value h .outgoingMD).isSome
    let peer := match CtxValues.value h .peer with | some .peerInproc => "inproc" | _ => "other"
    let sts := match CtxValues.value h .transportStream with | some .stsNew => "new" | _ => "none"
    let dl := b01 (CtxValues.deadline h).isSome
    s!"user=[{",".intercalate vis}] in={inn} out={out} peer={peer} sts={sts} dl={dl}"
  | _ => "bad-op"

def adapterOf (s : String) : Option Cloner.Adapter :=
  if s == "proto" then some .proto else if s == "codec" then some .codec
  else if s == "clonefunc" then some .cloneFunc else if s == "copyfunc" then some .copyFunc else none

/-- `src=1g` / `dst=2d`: message type digit and representation letter -/
def msgOf (a : String) (key : String) (val : Nat) (mem : List Nat) : Cloner.Msg :=
  let v := argVal a key
  let t := (v.take 1).toString.toNat?.getD 0
  { typ := t, dyn := (v.drop 1).toString == "d", val := val, mem := mem }

def showR {α : Type} : Cloner.R α → String
  | .ok _ => "ok" | .error => "error" | .panic => "panic"

def driveC18 (args : List String) : String :=
  match args with
  | [ad, "clone", src] => match adapterOf ad with
    | some a => showR (a.clone 100 (msgOf src "src" 7 [1]))
    | none => "bad-op"
  | [ad, "copy", src, dst] => match adapterOf ad with
    | some a => showR (a.copy 100 (msgOf dst "dst" 9 [2]) (msgOf src "src" 7 [1]))
    | none => "bad-op"
  | [ad, "copy", src, dst, wire] => match adapterOf ad with
    | some a => showR (a.copy 100 { msgOf dst "dst" 9 [2] with acceptsWire := argVal wire "wire" == "1" } (msgOf src "src" 7 [1]))
    | none => "bad-op"
  | [ad, "nonproto"] => match adapterOf ad with
    | some a =>
      let np : Cloner.Msg := { typ := 0, dyn := false, val := 1, mem := [1] }
      match a.clone 100 np, a.copy 100 { np with val := 0, mem := [2] } np with
      | .error, .error => "error"
      | .panic, _ => "panic"
      | _, .panic => "panic"
      | _, _ => "ok"
    | none => "bad-op"
  | _ => "bad-op"

/-! ### in-process stream scripts: subset-construction explorer over `InprocStream.step`.
    Checker code: it uses the same `step` the theorems are about; script ops become `…Begin`
    actions, then the state set is closed under the internal actions until none is enabled. -/

namespace ISX
open InprocStream

def showRes : Res → String
  | .ok => "ok" | .msg m => s!"msg:{m}" | .eof => "eof" | .status c => s!"status:{c}"
  | .ctxErr .canceled => "ctxerr:canceled" | .ctxErr .deadline => "ctxerr:deadline"
  | .plainErr => "plain"
  | .md h => if h.isEmpty then "md:-" else "md:" ++ "+".intercalate (h.map toString)

def showEv : Ev → String
  | .ret .cs r => "cs:" ++ showRes r
  | .ret .cr r => "cr:" ++ showRes r
  | .ret .h r => "h:" ++ showRes r

def sortStrs (xs : List String) : List String := (xs.toArray.qsort (· < ·)).toList

/-- all quiescent (no internal action enabled) states reachable by internal actions, with the
    events emitted on the way (as a sorted list) -/
partial def closure (fuel : Nat) (frontier : List (St × List String)) (done : List (St × List String)) : List (St × List String) :=
  match fuel, frontier with
  | 0, _ => done ++ frontier
  | _, [] => done
  | fuel + 1, (s, evs) :: rest =>
    let succs := internalActs.filterMap fun a => (step s a).map fun (s', es) => (s', evs ++ es.map showEv)
    if succs.isEmpty then
      let item := (s, sortStrs evs)
      closure fuel rest (if done.contains item then done else item :: done)
    else
      let newOnes := succs.filter fun x => !(rest.contains x)
      closure fuel (newOnes ++ rest) done

def herrOf (s : String) : Option (Option HErr) :=
  if s == "nil" then some none
  else if s == "plain" then some (some .plain)
  else if s == "ctx:canceled" then some (some (.ctx .canceled))
  else if s == "ctx:deadline" then some (some (.ctx .deadline))
  else if s.startsWith "status:" then ((s.drop 7).toString.toNat?).map fun c => some (.status c)
  else none

def actOf (actor op : String) (arg : String) : Option Act :=
  match actor, op with
  | "cs", "send" => arg.toNat?.map .cSendBegin
  | "cs", "closesend" => some .cCloseSend
  | "cs", "sendbad" => some .cSendRefused
  | "cr", "recv" => some .cRecvBegin
  | "cr", "header" => some .cHeaderBegin
  | "cr", "trailer" => some .cTrailer
  | "h", "recv" => some .sRecvBegin
  | "h", "send" => arg.toNat?.map .sSendBegin
  | "h", "setheader" => arg.toNat?.map .sSetHeader
  | "h", "sendheader" => arg.toNat?.map .sSendHeader
  | "h", "settrailer" => arg.toNat?.map .sSetTrailer
  | "h", "return" => (herrOf arg).map .sReturn
  | "env", "cancel" => some (.cancel .canceled)
  | "env", "expire" => some (.cancel .deadline)
  | _, _ => none

def runScript (kind : String) (ops : List String) : String :=
  let respStream := kind == "sstream" || kind == "bidi"
  let s0 := init Gen.capReq Gen.capResp respStream
  let rec go (k : Nat) (states : List St) : List String → String
    | [] => "accept"
    | opStr :: rest =>
      match opStr.splitOn "=>" with
      | [lhs, obs] =>
        let observed := sortStrs (if obs.isEmpty then [] else obs.splitOn ",")
        let (actorOp, arg) := match lhs.splitOn ":" with
          | [ao] => (ao, "")
          | ao :: more => (ao, ":".intercalate more)
          | [] => ("", "")
        match actorOp.splitOn "." with
        | [actor, op] =>
          match actOf actor op arg with
          | none => s!"bad-op@{k}"
          | some a =>
            let started := states.filterMap fun s => (step s a).map fun (s', es) => (s', es.map showEv)
            let outs := closure 4000 started []
            let matching := (outs.filter fun (_, evs) => evs == observed).map (·.1)
            let dedup := matching.foldl (fun acc s => if acc.contains s then acc else s :: acc) []
            if dedup.isEmpty then
              let allowed := (outs.map (·.2)).foldl (fun acc e => if acc.contains e then acc else e :: acc) []
              s!"reject@{k} op={lhs} observed=[{",".intercalate observed}] model-allows={allowed.map fun e => "[" ++ ",".intercalate e ++ "]"}"
            else go (k + 1) dedup rest
        | _ => s!"bad-op@{k}"
      | _ => s!"bad-op@{k}"
  go 0 [s0] ops

end ISX


/-! ### in-process unary scripts: subset-construction explorer over `InprocUnary.step`.
    Script ops: c.invoke, h.decode, h.decodestall, env.finishcopy, h.setheader:i, h.sendheader:i,
    h.settrailer:i, h.return:<v|nil>:<herr>, env.cancel, env.expire, env.hold:<kind>,
    env.release:<kind>  (kind ∈ headers|data|trailers|err|close: the verifhook schedule points of the
    server goroutine). Holds are checker state: they disable the corresponding internal action. -/
namespace IUX
open InprocUnary
open InprocStream (Reason HErr Res)

def showMD (o : Option (List Nat)) : String := match o with
  | none => "-"
  | some l => "+".intercalate (l.map toString)

def showRet (s : St) (r : Res) : String :=
  "c:" ++ ISX.showRes r ++ "|resp=" ++ (match s.respCopied with | some v => toString v | none => "-") ++
  "|hdr=" ++ showMD s.cHdr ++ "|tlr=" ++ showMD s.cTlr

def showEv (s : St) : Ev → String
  | .ret .c r => showRet s r
  | .ret .h r => "h:" ++ ISX.showRes r

def kindOf : UFrame → String
  | .headers _ => "headers" | .data _ => "data" | .trailers _ => "trailers" | .err _ => "err"

/-- is the internal action disabled by a held schedule point? -/
def heldAct (holds : List String) (s : St) (a : Act) : Bool :=
  match a with
  | .wEnq | .wSkip => (match s.frames with | f :: _ => holds.contains (kindOf f) | [] => false)
  | .wClose => holds.contains "close"
  -- "cresp": the client is stalled in the copy of the response message (the recording cloner of the harness holds it
  -- there): nothing of the client moves from the moment the response has been taken until the hold is released
  | .cTake | .cClosed | .cCtx | .cReturn => holds.contains "cresp" && s.respCopied.isSome
  | _ => false

partial def closure (holds : List String) (started : Bool) (fuel : Nat) (frontier : List (St × List String)) (done : List (St × List String)) :
    List (St × List String) :=
  match fuel, frontier with
  | 0, _ => done ++ frontier
  | _, [] => done
  | fuel + 1, (s, evs) :: rest =>
    let acts := if started then internalActs else []
    let succs := acts.filterMap fun a =>
      if heldAct holds s a then none else (step s a).map fun (s', es) => (s', evs ++ es.map (showEv s'))
    if succs.isEmpty then
      let item := (s, ISX.sortStrs evs)
      closure holds started fuel rest (if done.contains item then done else item :: done)
    else
      let newOnes := succs.filter fun x => !(rest.contains x)
      closure holds started fuel (newOnes ++ rest) done

def retOf (arg : String) : Option (Option Nat × Option HErr) :=
  match arg.splitOn ":" with
  | v :: more =>
    let vv : Option (Option Nat) := if v == "nil" then some none else v.toNat?.map some
    match vv, ISX.herrOf (":".intercalate more) with
    | some vv, some e => some (vv, e)
    | _, _ => none
  | [] => none

/-- explorer state: model states × holds × whether Invoke has been called -/
def runScript (old : Bool) (ops : List String) : String :=
  let s0 := if old then initOld Gen.unaryCap else init Gen.unaryCap
  let rec go (k : Nat) (states : List St) (holds : List String) (started : Bool) : List String → String
    | [] => "accept"
    | opStr :: rest =>
      match opStr.splitOn "=>" with
      | [lhs, obs] =>
        let observed := ISX.sortStrs (if obs.isEmpty then [] else obs.splitOn ",")
        let (actorOp, arg) := match lhs.splitOn ":" with
          | [ao] => (ao, "")
          | ao :: more => (ao, ":".intercalate more)
          | [] => ("", "")
        -- ops that only change checker state
        let (holds', started', acts) : List String × Bool × Option (List Act) :=
          match actorOp with
          | "env.hold" => (if holds.contains arg then holds else arg :: holds, started, some [])
          | "env.release" => (holds.filter (· != arg), started, some [])
          | "c.invoke" => (holds, true, some [])
          | "h.decode" => (holds, started, some [.hDecodeBegin, .hDecodeEnd])
          | "h.decodestall" => (holds, started, some [.hDecodeBegin])
          | "env.finishcopy" => (holds, started, some [.hDecodeEnd])
          | "h.setheader" => (holds, started, arg.toNat?.map fun i => [.hSetHeader i])
          | "h.sendheader" => (holds, started, arg.toNat?.map fun i => [.hSendHeader i])
          | "h.settrailer" => (holds, started, arg.toNat?.map fun i => [.hSetTrailer i])
          | "h.return" => (holds, started, (retOf arg).map fun (v, e) => [.hReturn v e])
          | "env.cancel" => (holds, started, some [.cancel .canceled])
          | "env.expire" => (holds, started, some [.cancel .deadline])
          | _ => (holds, started, none)
        match acts with
        | none => s!"bad-op@{k}"
        | some acts =>
          -- apply the op's actions in sequence (a refused decode ends after its first action)
          let startedSt := states.filterMap fun s =>
            acts.foldl (fun (acc : Option (St × List String × Bool)) a =>
              match acc with
              | none => none
              | some (s, evs, stop) =>
                if stop then some (s, evs, stop) else
                match step s a with
                | none => none
                | some (s', es) =>
                  let refused := a == .hDecodeBegin && !es.isEmpty
                  some (s', evs ++ es.map (showEv s'), refused)) (some (s, [], false))
            |>.map fun (s, evs, _) => (s, evs)
          let outs := closure holds' started' 4000 startedSt []
          let matching := (outs.filter fun (_, evs) => evs == observed).map (·.1)
          let dedup := matching.foldl (fun acc s => if acc.contains s then acc else s :: acc) []
          if dedup.isEmpty then
            let allowed := (outs.map (·.2)).foldl (fun acc e => if acc.contains e then acc else e :: acc) []
            s!"reject@{k} op={lhs} observed=[{",".intercalate observed}] model-allows={allowed.map fun e => "[" ++ ",".intercalate e ++ "]"}"
          else go (k + 1) dedup holds' started' rest
      | _ => s!"bad-op@{k}"
  go 0 [s0] [] false ops

end IUX

def driveIU (args : List String) : String :=
  match args with
  | [mode, ops] =>
    let o := argVal ops "ops"
    IUX.runScript (argVal mode "model" == "old") (if o.isEmpty then [] else o.splitOn ";")
  | _ => "bad-op"


def bytesToNats (b : Bytes) : List Nat := b.map (·.toNat)
def natsToBytes (l : List Nat) : Bytes := l.map (fun n => UInt8.ofNat n)

def driveC03 (args : List String) : String :=
  match args with
  | ["b64enc", h] => match hexArg (if h == "-" then "" else h) with
    | some b => showBytes (natsToBytes (Metadata.b64enc (bytesToNats b)))
    | none => "bad-op"
  | ["b64dec", h] => match hexArg (if h == "-" then "" else h) with
    | some b => match Metadata.b64dec (bytesToNats b) with
      | some v => showBytes (natsToBytes v)
      | none => "error"
    | none => "bad-op"
  | ["b64rawenc", h] => match hexArg (if h == "-" then "" else h) with
    | some b => showBytes (natsToBytes (Metadata.b64rawenc (bytesToNats b)))
    | none => "bad-op"
  | ["b64rawdec", h] => match hexArg (if h == "-" then "" else h) with
    | some b => match Metadata.b64rawdec (bytesToNats b) with
      | some v => showBytes (natsToBytes v)
      | none => "error"
    | none => "bad-op"
  | ["split", h, t] =>
    -- h=<hexkey>:<id>,<id>;…  t=…  →  what the caller's header / trailer targets hold (keys sorted)
    let parse (a : String) : Option TrailerSplit.MD :=
      let body := (a.drop 2).toString
      if body == "-" then some [] else
      (body.splitOn ";").mapM fun e =>
        match e.splitOn ":" with
        | [k, vs] => match hexArg k with
          | some kb => some (kb, (vs.splitOn ",").filterMap String.toNat?)
          | none => none
        | _ => none
    let showM (m : TrailerSplit.MD) : String :=
      if m.isEmpty then "-" else
      let xs := m.map fun (k, vs) => toHex k ++ ":" ++ ",".intercalate (vs.map toString)
      ";".intercalate (xs.toArray.qsort (· < ·)).toList
    match parse h, parse t with
    | some hm, some tm =>
      let w := TrailerSplit.group (TrailerSplit.serverMerge hm tm)
      "h=" ++ showM (TrailerSplit.clientHeaders w) ++ " t=" ++ showM (TrailerSplit.clientTrailers w)
    | _, _ => "bad-op"
  | _ => "bad-op"


/-! ### HTTP client stream scripts: subset-construction explorer over `HttpClientStream.step`.
    The harness plays the transport: t.reply, t.replystatus:N, t.replybad, t.fail, t.item:<kind>[:n],
    t.end, t.readreq; client ops cs.send:n, cs.closesend, cr.recv, cr.header; env.cancel / env.expire. -/
namespace HCX
open HttpClientStream
open InprocStream (Reason Res)

def showEv : Ev → String
  | .ret .cs r => "cs:" ++ ISX.showRes r
  | .ret .cr r => "cr:" ++ ISX.showRes r

/-- the transport's reaction to a done context (as net/http): the response body fails -/
def bodyFails (s : St) : Option St :=
  if s.ctx.isSome && s.replied && !s.bodyEnded then (step s (.tItem .bad)).map (·.1) else none

partial def closure (fuel : Nat) (frontier : List (St × List String)) (done : List (St × List String)) : List (St × List String) :=
  match fuel, frontier with
  | 0, _ => done ++ frontier
  | _, [] => done
  | fuel + 1, (s, evs) :: rest =>
    match bodyFails s with
    | some s' => closure fuel ((s', evs) :: rest) done
    | none =>
    let succs := (internalActs ++ [Act.tAbort]).filterMap fun a => (step s a).map fun (s', es) => (s', evs ++ es.map showEv)
    if succs.isEmpty then
      let item := (s, ISX.sortStrs evs)
      closure fuel rest (if done.contains item then done else item :: done)
    else
      let newOnes := succs.filter fun x => !(rest.contains x)
      closure fuel (newOnes ++ rest) done

def actOf (ao : String) (arg : String) : Option Act :=
  match ao with
  | "t.reply" => some .tReply
  | "t.replystatus" => arg.toNat?.map .tReplyStatus
  | "t.replybad" => some .tReplyBadHeaders
  | "t.fail" => some .tFail
  | "t.end" => some .tEnd
  | "t.readreq" => some .tReadReq
  | "t.item" =>
    (match arg.splitOn ":" with
     | ["data", n] => n.toNat?.map fun n => .tItem (.data n true)
     | ["baddata", n] => n.toNat?.map fun n => .tItem (.data n false)
     | ["trailer", c] => c.toNat?.map fun c => .tItem (.trailer c true)
     | ["badtrailer"] => some (.tItem (.trailer 0 false))
     | ["bad"] => some (.tItem .bad)
     | _ => none)
  | "cs.send" => arg.toNat?.map .cSendBegin
  | "cs.closesend" => some .cCloseSend
  | "cr.recv" => some .cRecvBegin
  | "cr.header" => some .cHeader
  | "cr.trailer" => some .cTrailer
  | "env.cancel" => some (.cancel .canceled)
  | "env.expire" => some (.cancel .deadline)
  | _ => none

def runScript (respStream : Bool) (ops : List String) : String :=
  let rec go (k : Nat) (states : List St) : List String → String
    | [] => "accept"
    | opStr :: rest =>
      match opStr.splitOn "=>" with
      | [lhs, obs] =>
        let observed := ISX.sortStrs (if obs.isEmpty then [] else obs.splitOn ",")
        let (ao, arg) := match lhs.splitOn ":" with
          | [x] => (x, "")
          | x :: more => (x, ":".intercalate more)
          | [] => ("", "")
        -- `t.burst:n:c` = a data frame and the trailer frame arriving together
        let acts : Option (List Act) :=
          if ao == "t.burst" then
            (match arg.splitOn ":" with
             | [n, c] => (match n.toNat?, c.toNat? with
                | some n, some c => some [.tItem (.data n true), .tItem (.trailer c true)]
                | _, _ => none)
             | _ => none)
          else (actOf ao arg).map fun a => [a]
        match acts with
        | none => s!"bad-op@{k}"
        | some acts =>
          let started := states.filterMap fun s =>
            acts.foldl (fun (acc : Option (St × List String)) a =>
              match acc with
              | none => none
              | some (s, evs) => (step s a).map fun (s', es) => (s', evs ++ es.map showEv)) (some (s, []))
          let outs := closure 4000 started []
          let matching := (outs.filter fun (_, evs) => evs == observed).map (·.1)
          let dedup := matching.foldl (fun acc s => if acc.contains s then acc else s :: acc) []
          if dedup.isEmpty then
            let allowed := (outs.map (·.2)).foldl (fun acc e => if acc.contains e then acc else e :: acc) []
            s!"reject@{k} op={lhs} observed=[{",".intercalate observed}] model-allows={allowed.map fun e => "[" ++ ",".intercalate e ++ "]"}"
          else go (k + 1) dedup rest
      | _ => s!"bad-op@{k}"
  go 0 [init respStream] ops

end HCX

def driveHC (args : List String) : String :=
  match args with
  | [kind, ops] =>
    let o := argVal ops "ops"
    HCX.runScript (argVal kind "respstream" == "1") (if o.isEmpty then [] else o.splitOn ";")
  | _ => "bad-op"

def driveIS (args : List String) : String :=
  match args with
  | [kind, ops] =>
    let o := argVal ops "ops"
    ISX.runScript (argVal kind "kind") (if o.isEmpty then [] else o.splitOn ";")
  | _ => "bad-op"

/-! ### HTTP server stream scripts: `HttpServerStream.step` is deterministic, the driver replays the
    handler's operations and prints every result and the whole wire. -/
namespace HSX
open HttpServerStream

def sortNats (xs : List Nat) : List Nat := (xs.toArray.qsort (· < ·)).toList
def showIds (xs : List Nat) : String := "+".intercalate ((sortNats xs).map toString)

def parseReq (s : String) : Option (List ReqItem) :=
  if s == "-" then some [] else
  (s.splitOn ",").mapM fun it =>
    if it == "cut" || it == "cutp" || it == "cuth" then some ReqItem.cut
    else match (it.drop 1).toString.toNat? with
      | some n => if it.startsWith "d" then some (.data n true) else if it.startsWith "x" then some (.data n false) else none
      | none => none

def parseErr (a : String) : Option (Option InprocStream.HErr) :=
  if a == "nil" then some none
  else if a == "plain" then some (some .plain)
  else if a == "ctx:canceled" then some (some (.ctx .canceled))
  else if a == "ctx:deadline" then some (some (.ctx .deadline))
  else if a.startsWith "status:" then (a.drop 7).toString.toNat?.map fun c => some (.status c)
  else none

def parseOp (op : String) : Option Act :=
  match op.splitOn ":" with
  | ["recv"] => some .recv
  | ["break"] => some .breakConn
  | ["sethdr", n] => n.toNat?.map .setHeader
  | ["sendhdr", n] => n.toNat?.map .sendHeader
  | ["settlr", n] => n.toNat?.map .setTrailer
  | ["send", n, e] => n.toNat?.map fun k => .send k (e == "1")
  | "ret" :: rest => (parseErr (":".intercalate rest)).map .ret
  | _ => none

def showOut : Out → String
  | .head md => s!"H[{showIds md}]"
  | .data m => s!"D{m}"
  | .trailer c md => s!"T{c}[{showIds md}]"

def showR : InprocStream.Res → String
  | .ok => "ok" | .msg m => s!"msg:{m}" | .eof => "eof" | .status c => s!"status:{c}" | .plainErr => "plain"
  | _ => "?"

def dash (s : String) : String := if s.isEmpty then "-" else s

def runScript (cs : Bool) (req : String) (ops : List String) : String :=
  match parseReq req, ops.mapM parseOp with
  | some items, some acts =>
    (match run (init cs items) acts with
     | some (s, rs) => s!"res={dash (",".intercalate (rs.map showR))} wire={dash (",".intercalate (s.wire.map showOut))}"
     | none => "model-disabled")
  | _, _ => "bad-op"
end HSX

def driveHS (args : List String) : String :=
  match args with
  | [cs, req, ops] =>
    let o := argVal ops "ops"
    HSX.runScript (argVal cs "cs" == "1") (argVal req "req") (if o == "-" then [] else o.splitOn ";")
  | _ => "bad-op"

/-! ### HTTP unary scripts (deterministic): `HttpUnary.serve` then `HttpUnary.client`. -/
namespace HUX
open HttpUnary

def parseOp (op : String) : Option HOp :=
  match op.splitOn ":" with
  | ["sethdr", n] => n.toNat?.map .setHeader
  | ["sendhdr", n] => n.toNat?.map .sendHeader
  | ["settlr", n] => n.toNat?.map .setTrailer
  | ["sethdrx", n] => n.toNat?.map .setStatusHeader
  | _ => none

def parseRet (a : String) : Option Ret :=
  match a.splitOn ":" with
  | ["resp", n, e] => n.toNat?.map fun k => .resp k (e == "1")
  | "err" :: rest => match HSX.parseErr (":".intercalate rest) with
    | some (some e) => some (.err e)
    | _ => none
  | _ => none

/-- ids in call order (each script uses every id once, in increasing order) -/
def showIds (xs : List Nat) : String := "+".intercalate ((HSX.sortNats xs).map toString)

def runScript (ops : List String) (ret : String) : String :=
  match ops.mapM parseOp, parseRet ret with
  | some os, some r =>
    let (reply, rs) := serve os r false
    let seen := client reply
    s!"res={HSX.dash (",".intercalate (rs.map HSX.showR))} client={HSX.showR seen.result} hdr={HSX.dash (showIds seen.hdr)} tlr={HSX.dash (showIds seen.tlr)}"
  | _, _ => "bad-op"
end HUX

def driveHU (args : List String) : String :=
  match args with
  | [ops, ret] =>
    let o := argVal ops "ops"
    HUX.runScript (if o == "-" then [] else o.splitOn ";") (argVal ret "ret")
  | _ => "bad-op"

def dispatch (line : String) : String :=
  match (line.splitOn " ").filter (· ≠ "") with
  | "C14" :: rest => driveC14 rest
  | "C09" :: rest => driveC09 rest
  | "C07" :: rest => driveC07 rest
  | "C12" :: rest => driveC12 rest
  | "C11" :: rest => driveC11 rest
  | "C13" :: rest => driveC13 rest
  | "C15" :: rest => driveC15 rest
  | "C17" :: rest => driveC17 rest
  | "C16" :: rest => driveC16 rest
  | "C19" :: rest => driveC19 rest
  | "C10" :: rest => driveC10 rest
  | "C18" :: rest => driveC18 rest
  | "IS" :: rest => driveIS rest
  | "HC" :: rest => driveHC rest
  | "HS" :: rest => driveHS rest
  | "HU" :: rest => driveHU rest
  | "C03" :: rest => driveC03 rest
  | "IU" :: rest => driveIU rest
  | _ => "bad-op"

partial def loop (h : IO.FS.Stream) (out : IO.FS.Stream) : IO Unit := do
  let line ← h.getLine
  if line.isEmpty then return ()
  let l := (line.dropRightWhile (fun c => c == '\n' || c == '\r'))
  out.putStrLn (dispatch l)
  loop h out

def main : IO Unit := do
  let stdin ← IO.getStdin
  let stdout ← IO.getStdout
  loop stdin stdout
