/-
  Driver: line protocol between the Go harness and the executable model.
  One operation per input line, one answer line per operation.
  Checker code (trusted), not model: it only parses arguments, calls the
  model definitions the theorems are about, and prints canonical answers.
-/
import Model

open Prim

def parseIntArg (s : String) : Option Int := s.toInt?

def hexArg (s : String) : Option Bytes := fromHex s

def showBytes (b : Bytes) : String := if b.isEmpty then "-" else toHex b

def driveC14 (args : List String) : String :=
  match args with
  | ["fwd", c] => match c.toNat? with
    | some c => toString (Codes.httpStatusFromCode c)
    | none => "bad-op"
  | ["rev", s] => match s.toInt? with
    | some s => toString (Codes.codeFromHttpStatus s)
    | none => "bad-op"
  | ["render", c, d] => match c.toNat? with
    | some c => toString (Codes.defaultRendererStatus c (d == "1"))
    | none => "bad-op"
  | ["client", s, txt, hdr] =>
    match s.toInt?, hexArg txt, (if hdr == "none" then some none else (hexArg hdr).map some) with
    | some s, some txt, some hdr =>
      let (c, m) := Codes.clientCodeMsg s txt hdr
      if c == 0 then "0" else s!"{c} {showBytes m}"
    | _, _, _ => "bad-op"
  | _ => "bad-op"

def dispatch (line : String) : String :=
  match (line.splitOn " ").filter (· ≠ "") with
  | "C14" :: rest => driveC14 rest
  | _ => "bad-op"

partial def loop (h : IO.FS.Stream) (out : IO.FS.Stream) : IO Unit := do
  let line ← h.getLine
  if line.isEmpty then return ()
  let l := (line.dropRightWhile (fun c => c == '\n' || c == '\r'))
  out.putStrLn (dispatch l)
  loop h out

def main : IO Unit := do
  let stdin ← IO.getStdin
  let stdout ← IO.getStdout
  loop stdin stdout
