import Proofs.C14
