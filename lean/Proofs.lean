import Proofs.C14
import Proofs.C09
