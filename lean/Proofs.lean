import Proofs.C14
import Proofs.C09
import Proofs.C07
import Proofs.C12
import Proofs.C11
import Proofs.C13
import Proofs.C15
import Proofs.C17
