/-
  C02 — the client sees exactly the handler's final status; success only if it succeeded
  (in-process streams; the unary path is in InprocUnary, the HTTP rendering in Codes/C14).
  For EVERY reachable state of the InprocStream system and every RecvMsg completion with a live
  context: io.EOF only if the handler returned nil and every data frame was consumed; an error
  result is the handler's error (context errors translated to their status); the only error the
  library itself synthesises is Internal for a second message on a single-response method.
-/
import Proofs.C01
import Proofs.Lemmas.InprocAll
import Proofs.Lemmas.InprocUnaryAll
import Proofs.Lemmas.HttpServerStream
import Proofs.Lemmas.Metadata
import Proofs.Lemmas.HttpUnary
import Proofs.Lemmas.HttpCompose

namespace InprocStream

/-- a RecvMsg completion step: `RecvMsg` served from the peeked frame, or a pending RecvMsg taking
    a frame / seeing the closed channel -/
def isRecvCompletion (s : St) (a : Act) : Prop :=
  (a = .cRecvBegin) ∨ ((a = .cTake ∨ a = .cClosed) ∧ s.cRecv ≠ some .header)

/-- what the client must see for a given handler return value -/
def expected : Option HErr → Res
  | none => .eof
  | some e => translate e

/-- **Final status**: with a live context, every terminal outcome of a client RecvMsg is the
    handler's: `io.EOF` iff the handler returned nil; otherwise the handler's error, translated.
    The single exception is the library's own Internal error for a second response message on a
    single-response method (C08). Messages (`.msg`) are not terminal. -/
theorem C02_client_status_eq_handler (c1 c2 : Nat) (rs : Bool) (s s' : St) (a : Act) (evs : List Ev) (r : Res)
    (h : Reachable c1 c2 rs s) (hctx : s.ctx = none) (ha : isRecvCompletion s a)
    (hs : step s a = some (s', evs)) (hev : Ev.ret .cr r ∈ evs) :
    (∃ m, r = .msg m) ∨ (∃ ret, s.hRet = some ret ∧ r = expected ret) ∨
    (r = .status 13 ∧ s.respStream = false) := by
  obtain ⟨hb, _, hsv, hc, hst⟩ := all_reachable c1 c2 rs s h
  rcases ha with rfl | ⟨rfl | rfl, hmode⟩
  · -- cRecvBegin: served from `last`
    simp only [step] at hs
    split at hs
    · simp at hs
    · split at hs
      · rename_i m hl
        simp [hctx] at hs
        split at hs
        · simp at hs; obtain ⟨_, rfl⟩ := hs; simp at hev; exact Or.inl ⟨m, hev⟩
        · simp at hs; obtain ⟨_, rfl⟩ := hs; simp at hev
      · rename_i e hl
        simp at hs; obtain ⟨_, rfl⟩ := hs; simp at hev
        rcases hst.errLast e hl with h1 | ⟨rfl, h2⟩
        · exact Or.inr (Or.inl ⟨some e, h1, hev⟩)
        · exact Or.inr (Or.inr ⟨by simpa [translate] using hev, h2⟩)
      · simp at hs; obtain ⟨_, rfl⟩ := hs; simp at hev
  · -- cTake
    simp only [step] at hs
    split at hs
    · rename_i mode f rest hm hr
      have hlast : s.last = none := hb.recvLast (by simp [hm])
      simp [hctx] at hs
      have herr : ∀ e, f = .err e → s.hRet = some (some e) := by
        intro e he; apply hst.errEnq; rw [hb.respQ, hr, he]; simp
      cases mode with
      | header => simp [hm] at hmode
      | first =>
        cases f with
        | headers md => simp at hs; obtain ⟨_, rfl⟩ := hs; simp at hev
        | trailers md => simp at hs; obtain ⟨_, rfl⟩ := hs; simp at hev
        | err e => simp at hs; obtain ⟨_, rfl⟩ := hs; simp at hev; exact Or.inr (Or.inl ⟨some e, herr e rfl, hev⟩)
        | data m =>
          simp at hs
          split at hs
          · simp at hs; obtain ⟨_, rfl⟩ := hs; simp at hev; exact Or.inl ⟨m, hev⟩
          · simp at hs; obtain ⟨_, rfl⟩ := hs; simp at hev
      | probe m0 =>
        cases f with
        | headers md => simp at hs; obtain ⟨_, rfl⟩ := hs; simp at hev
        | trailers md => simp at hs; obtain ⟨_, rfl⟩ := hs; simp at hev
        | err e => simp at hs; obtain ⟨_, rfl⟩ := hs; simp at hev; exact Or.inr (Or.inl ⟨some e, herr e rfl, hev⟩)
        | data m =>
          simp at hs; obtain ⟨_, rfl⟩ := hs; simp at hev
          exact Or.inr (Or.inr ⟨hev, hst.probeSingle m0 hm⟩)
    · simp at hs
  · -- cClosed
    simp only [step] at hs
    split at hs
    · rename_i mode hm
      have hlast : s.last = none := hb.recvLast (by simp [hm])
      split at hs
      · rename_i hcl
        simp [hctx] at hs
        simp [Bool.and_eq_true] at hcl
        obtain ⟨hresp, hclosed⟩ := hcl
        obtain ⟨hw, hret⟩ := hb.closedW hclosed
        cases mode with
        | header => simp [hm] at hmode
        | probe m => simp at hs; obtain ⟨_, rfl⟩ := hs; simp at hev; exact Or.inl ⟨m, hev⟩
        | first =>
          simp at hs; obtain ⟨_, rfl⟩ := hs; simp at hev
          -- the handler has returned; had it returned an error, the error frame would have been
          -- taken by the client, which would then hold it in `last`
          have hsome : s.hRet.isSome = true := by rw [hb.hret]; exact hret
          cases hr : s.hRet with
          | none => simp [hr] at hsome
          | some ret =>
            cases ret with
            | none => exact Or.inr (Or.inl ⟨none, rfl, hev⟩)
            | some e =>
              exfalso
              rcases hst.errSent hctx e hr with h1 | h1
              · rw [hb.respQ, hresp] at h1
                simp at h1
                have := hst.errSeen hctx e h1
                simp [lastIsErr, hlast] at this
              · simp [pendFrames, hw] at h1
      · simp at hs
    · simp at hs

/-- **Success only if the handler succeeded**: `io.EOF` with a live context means the handler
    returned nil. -/
theorem C02_eof_only_if_handler_ok (c1 c2 : Nat) (rs : Bool) (s s' : St) (a : Act) (evs : List Ev)
    (h : Reachable c1 c2 rs s) (hctx : s.ctx = none) (ha : isRecvCompletion s a)
    (hs : step s a = some (s', evs)) (hev : Ev.ret .cr .eof ∈ evs) : s.hRet = some none := by
  rcases C02_client_status_eq_handler c1 c2 rs s s' a evs .eof h hctx ha hs hev with ⟨m, hm⟩ | ⟨ret, h1, h2⟩ | ⟨h1, _⟩
  · simp at hm
  · cases ret with
    | none => exact h1
    | some e => cases e <;> simp [expected, translate] at h2
  · simp at h1

/-- **Errors keep their code**: a handler returning status code `c` is seen as exactly `c`; a
    handler returning a raw context error is seen as Canceled / DeadlineExceeded (also C04). -/
theorem C02_expected_codes (c : Nat) (r : Reason) :
    expected (some (.status c)) = .status c ∧ expected (some (.ctx r)) = .status (codeOf r) ∧
    expected (some .plain) = .plainErr ∧ expected none = .eof := by
  simp [expected, translate]

/-- non-vacuity: handler sends one message and returns NotFound (5); the client gets the message,
    then exactly status 5 -/
example : ∃ s s' evs, run (init 1 1 true)
    [.sSendBegin 7, .sWriteEnq, .cRecvBegin, .cTake, .sReturn (some (.status 5)), .sWriteEnq, .sFinishEnd, .cRecvBegin] = some s ∧
    s.ctx = none ∧ step s .cTake = some (s', evs) ∧ Ev.ret .cr (.status 5) ∈ evs ∧ s.hRet = some (some (.status 5)) := by
  refine ⟨_, _, _, rfl, rfl, rfl, ?_, rfl⟩
  simp [translate]

end InprocStream

/-! ### the unary call (`Channel.Invoke`) -/
namespace InprocUnary
open InprocStream (Reason HErr Res codeOf translate)

/-- **Unary final status**: with a live context, what `Invoke` returns is exactly the handler's
    outcome: nil iff the handler returned a response and no error; the handler's error, translated;
    Internal if it returned neither. -/
theorem C02_unary_status_eq_handler (cap : Nat) (s : St) (h : Reachable cap s) (hctx : s.ctx = none)
    (r : Res) (hr : s.result = some r) : ∃ ret, s.hRet = some ret ∧ r = expectedU ret := by
  obtain ⟨_, _, hok⟩ := all_unary cap s h
  rcases hok.res r hr with ⟨rr, h1, _⟩ | h1
  · simp [hctx] at h1
  · exact h1

/-- **Success only with the complete response**: nil from `Invoke` means the caller holds the
    handler's response value. -/
theorem C02_unary_success_is_complete (cap : Nat) (s : St) (h : Reachable cap s) (hr : s.result = some .ok) :
    ∃ x, s.hRet = some (some x, none) ∧ s.respCopied = some x := by
  obtain ⟨x, h1, h2, _⟩ := (all_unary cap s h).2.2.okc hr
  exact ⟨x, h1, h2⟩

end InprocUnary

/-! ### HTTP/1.1 client stream -/
namespace HttpClientStream
open InprocStream (Reason Res codeOf)

/-- **HTTP: success only with the complete response.** Whenever a completed call's outcome is
    io.EOF, the reader has read a decodable trailer frame with code OK — so a response that is cut
    short at ANY point before (or inside) its trailer, fails the round trip, has undecodable headers
    or an undecodable trailer is never reported as success (the body ending before a trailer is an
    error by 4d2ee3d). -/
theorem C02_http_eof_only_with_ok_trailer (rs : Bool) (s : St) (h : Reachable rs s) (hd : s.done = true)
    (hf : finalOf s = .eof) : s.sawTrailerOK = true := by
  have hi := hinv_reachable rs s h
  exact hi.trOK (final_eof s hi hd hf).2

/-- **HTTP: a trailer with a non-OK code is that code.** -/
theorem C02_http_status_from_trailer (s : St) (c : Nat) (hr : s.rErr = none) (ht : s.tr = some (c + 1)) :
    finalOf s = .status (c + 1) := by
  simp [finalOf, hr, ht]

/-- a body that ends before its trailer makes the reader record an error (never a clean end) -/
theorem C02_http_truncated_is_error (s : St) (hpc : s.pc = 1) (hb : s.body = []) (he : s.bodyEnded = true) :
    ∃ s', step s .rdDecode = some (s', []) ∧ s'.done = true ∧ s'.rErr.isSome = true := by
  simp only [step, hpc, hb, he, complete]
  refine ⟨_, rfl, rfl, ?_⟩
  cases s.rErr <;> cases s.ctx <;> simp

end HttpClientStream

namespace HttpServerStream
open InprocStream (HErr Reason Res codeOf)

/-- **The trailer's code is the handler's status** (HTTP server streams): over an intact connection
    the reply ends with a trailer frame whose code is `trailerCode e` — the status error's own code,
    Canceled / DeadlineExceeded for a context error, Unknown for any other error. -/
theorem C02_http_server_trailer_code (cs : Bool) (req : List ReqItem) (acts : List Act) (s1 : St) (rs : List Res)
    (e : Option HErr) (s : St) (r : Res) (h1 : run (init cs req) acts = some (s1, rs)) (h2 : step s1 (.ret e) = some (s, r))
    (hw : s.writeFailed = false) (hc : s.connBroken = false) :
    ∃ md, s.wire.getLast? = some (.trailer (trailerCode e) md) := by
  obtain ⟨fs, _, hwire⟩ := reply_complete cs req acts s1 rs e s r h1 h2 hw hc
  exact ⟨trailersSet acts, by rw [hwire]; simp [List.getLast?_cons]⟩

/-- **…and it says OK only if the handler returned nil**: a non-nil error never travels as code 0 -/
theorem C02_http_server_ok_only_if_nil (e : Option HErr) : trailerCode e = 0 → e = none :=
  trailerCode_zero e

/-- a failed write (unencodable message, broken connection) means no trailer at all: the client sees a
    truncated stream, never a success -/
theorem C02_http_server_no_trailer_after_failed_write (s1 : St) (e : Option HErr) (s : St) (r : Res)
    (h2 : step s1 (.ret e) = some (s, r)) (hw : s1.writeFailed = true) : s.wire = s1.wire := by
  unfold step at h2
  split at h2
  · simp [stepFinished] at h2
  · simp [stepLive, hw] at h2; obtain ⟨rfl, rfl⟩ := h2; rfl

end HttpServerStream

namespace Metadata

/-- **Error details are byte-exact over HTTP** (unary): the unpadded URL base64 that carries each
    marshalled detail in an `X-GRPC-Details` header round-trips for every byte string of any length
    (lengths 1 and 2 mod 3 included) — whatever message type the detail holds. -/
theorem C02_details_b64_roundtrip (bs : B) (h : ∀ x ∈ bs, x < 256) : b64rawdec (b64rawenc bs) = some bs :=
  b64raw_roundtrip bs h

/-- …and the header value consists of header-safe ASCII only -/
theorem C02_details_header_safe (bs : B) : ∀ x ∈ b64rawenc bs, 32 < x ∧ x < 128 := by
  intro x hx; have := b64rawenc_safe bs x hx; exact ⟨this.2, this.1⟩

/-- the encoding site (`handleMethod`) and the decoding site (`statFromResponse`) use the same,
    unpadded URL variant — regenerated from the source on every run -/
theorem C02_details_codec_sites : detailSitesPaired = true := by decide

example : b64rawenc [0, 10, 255, 7] = [65, 65, 114, 95, 66, 119] ∧ b64rawdec (b64rawenc [0, 10, 255, 7]) = some [0, 10, 255, 7] := by decide

end Metadata

namespace HttpUnary
open InprocStream (HErr Reason Res codeOf)

/-- **Unary over HTTP: the caller's outcome is the handler's status.** An error reaches the caller
    with its own code (a non-nil error never as success: OK is rewritten to Internal, context errors
    map to Canceled / DeadlineExceeded, other errors to Unknown), whatever HTTP status the renderer
    chose and whether or not the request context was done. -/
theorem C02_http_unary_error_outcome (ops : List HOp) (e : HErr) (ctxDone : Bool) :
    (client (serve ops (.err e) ctxDone).1).result = .status (unaryCode e) ∧ unaryCode e ≠ 0 ∧
    unaryCode e = HttpServerStream.trailerCode (some e) := by
  have hne := unaryCode_ne_zero e
  exact ⟨by simp [serve, client, replyCode, hne], hne, unaryCode_eq_trailerCode e⟩

/-- a response reaches the caller as that response — **partial**: proved for handlers that set no header
    metadata under the protocol's own status header name. The full statement is false of the code
    (known finding C02-F2, `C02_http_unary_status_header_spoof`). -/
theorem C02_http_unary_success_outcome_partial (ops : List HOp) (m : Nat) (ctxDone : Bool) (hn : noStatusHeader ops = true) :
    (client (serve ops (.resp m true) ctxDone).1).result = .msg m := by
  have h200 : Codes.codeFromHttpStatus 200 = 0 := by decide
  have hs := runOps_noSpoof ops {} hn
  simp only at hs
  simp [serve, client, replyCode, h200, hs]

/-- **the excluded point, as a witness**: a handler that returns a response but has put `x-grpc-status: 5:…`
    into its header metadata makes the caller report code 5 — replayed on the implementation by the HU
    scripts (`sethdrx:5`), recorded as known finding C02-F2 -/
theorem C02_http_unary_status_header_spoof :
    (client (serve [.setStatusHeader 5] (.resp 7 true) false).1).result = .status 5 := by decide

/-- a response that cannot be encoded is reported as an error, never as success (same restriction) -/
theorem C02_http_unary_unencodable_is_error (ops : List HOp) (m : Nat) (ctxDone : Bool) (hn : noStatusHeader ops = true) :
    ∃ c, c ≠ 0 ∧ (client (serve ops (.resp m false) ctxDone).1).result = .status c := by
  have h500 : Codes.codeFromHttpStatus 500 ≠ 0 := by decide
  have hs := runOps_noSpoof ops {} hn
  simp only at hs
  exact ⟨Codes.codeFromHttpStatus 500, h500, by simp [serve, client, replyCode, h500, hs]⟩

end HttpUnary

namespace HttpUnary

/-- regenerated from the source: both handlers rewrite a non-nil error whose status says OK to
    Internal, and the stream handler sanitises the status message for the proto3 trailer -/
theorem C02_http_ok_rewrite_facts :
    Gen.streamOkRewrite = true ∧ Gen.unaryOkRewrite = true ∧ Gen.streamMessageSanitised = true := by decide

end HttpUnary

namespace HttpCompose
open HttpClientStream (Act St finalOf)

/-- **HTTP streams end to end: the status the client holds is the handler's.** Whatever the handler
    program, the client's interleaving and the instant of any cancellation: if the transport answered
    the round trip with the server's reply (no synthetic non-OK status) and has delivered a prefix of
    what the server wrote over an intact connection, then the trailer status recorded in the client —
    the one `RecvMsg` reports when no transport or context error was recorded — is the code of what
    the handler returned (`trailerCode e`: its status code, Canceled / DeadlineExceeded for context
    errors, Unknown for other errors, Internal for a non-nil error that says OK). -/
theorem C02_http_end_to_end_status (cs : Bool) (req : List HttpServerStream.ReqItem)
    (hacts : List HttpServerStream.Act) (s1 : HttpServerStream.St) (rs : List InprocStream.Res)
    (hsrv : HttpServerStream.run (HttpServerStream.init cs req) hacts = some (s1, rs))
    (e : Option InprocStream.HErr) (s2 : HttpServerStream.St) (r : InprocStream.Res)
    (hret : HttpServerStream.step s1 (.ret e) = some (s2, r)) (hw : s2.writeFailed = false) (hc : s2.connBroken = false)
    (rsFlag : Bool) (cacts : List Act) (sc : St) (hcli : HttpClientStream.run (HttpClientStream.init rsFlag) cacts = some sc)
    (hfeed : itemsIn cacts <+: itemsOf s2.wire) (hnost : ∀ c, Act.tReplyStatus c ∉ cacts)
    (c : Nat) (htr : sc.tr = some c) : c = HttpServerStream.trailerCode e := by
  have h := run_trcode cacts _ sc hcli c htr
  simp only [HttpClientStream.init] at h
  have hmem : HttpClientStream.Item.trailer c true ∈ itemsIn cacts := by
    rcases h with h | h | h | h
    · simp at h
    · simp at h
    · exact h
    · exact absurd h (hnost c)
  obtain ⟨fs, hfs, hwire⟩ := HttpServerStream.reply_complete cs req hacts s1 rs e s2 r hsrv hret hw hc
  obtain ⟨hitems, _⟩ := itemsOf_complete (HttpServerStream.okHdr hacts rs) fs (HttpServerStream.trailerCode e) (HttpServerStream.trailersSet hacts) hfs
  rw [hwire, hitems] at hfeed
  exact (prefix_with_trailer _ _ c _ hfeed hmem).2

end HttpCompose
