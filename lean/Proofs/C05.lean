/-
  C05 — stream operations always terminate once the handler returned or the context ended; no
  deadlock, no panic (in-process streams). The model makes Go's panics explicit (`panicked`:
  close of a closed channel — send on a closed channel cannot be expressed because every write is
  guarded by the writer's own mutex slot) and splits every blocking operation at its `select`.
-/
import Proofs.C01
import Proofs.Lemmas.InprocAll
import Proofs.Lemmas.InprocUnaryAll

namespace InprocStream

/-- **No panic**: in no reachable state has the library closed a channel twice — for all
    interleavings, including CloseSend racing SendMsg, repeated CloseSend, operations after
    completion, and handler goroutines still sending while `finish` runs. -/
theorem C05_no_panic (c1 c2 : Nat) (rs : Bool) (s : St) (h : Reachable c1 c2 rs s) : s.panicked = false :=
  (all_reachable c1 c2 rs s h).base.noPanic

/-- …and no enabled step can set it. -/
theorem C05_no_step_panics (c1 c2 : Nat) (rs : Bool) (s s' : St) (a : Act) (evs : List Ev)
    (h : Reachable c1 c2 rs s) (hs : step s a = some (s', evs)) : s'.panicked = false :=
  C05_no_panic c1 c2 rs s' (reachable_step c1 c2 rs s s' a evs h hs)

/-- **Progress once the handler has returned**: every pending client operation has an enabled
    completion that needs no step of the peer. (`svrDone` is set first thing in `finish`.) -/
theorem C05_progress_after_handler_returned (c1 c2 : Nat) (rs : Bool) (s : St) (h : Reachable c1 c2 rs s)
    (hret : s.sReturned = true) :
    (s.cSend.isSome → (step s .cSendRemote).isSome) ∧
    (s.cRecv.isSome → s.respClosed = true → (step s .cTake).isSome ∨ (step s .cClosed).isSome) := by
  obtain ⟨hb, _, _, _, _⟩ := all_reachable c1 c2 rs s h
  refine ⟨?_, ?_⟩
  · intro hp
    cases hm : s.cSend with
    | none => simp [hm] at hp
    | some m => simp [step, hm, remoteDone, hb.doneRet, hret]
  · intro hp hcl
    cases hm : s.cRecv with
    | none => simp [hm] at hp
    | some mode =>
      cases hr : s.resp with
      | nil =>
        right
        simp only [step, hm, hr, hcl]
        cases s.ctx <;> cases mode <;> simp
      | cons f rest =>
        left
        simp only [step, hm, hr]
        cases s.ctx <;> cases mode <;> cases f <;> simp <;> split <;> simp

/-- **Progress once the context is done**: see `C04_cancel_unblocks` (every pending operation of
    either side has its context branch enabled). Restated here for the finishing server goroutine:
    with the context done, `finish` can always run to its end without the client's help. -/
theorem C05_finish_completes_after_cancel (c1 c2 : Nat) (rs : Bool) (s : St) (h : Reachable c1 c2 rs s)
    (r : Reason) (hctx : s.ctx = some r) (fs : List Frame) (hw : s.sWrite = some ⟨fs, .finish⟩) :
    (fs ≠ [] → (step s .sWriteCtx).isSome) ∧ (fs = [] → (step s .sFinishEnd).isSome) := by
  obtain ⟨hb, _, _, _, _⟩ := all_reachable c1 c2 rs s h
  refine ⟨?_, ?_⟩
  · intro hne
    cases fs with
    | nil => simp at hne
    | cons f rest => simp [step, hw, svrCtxDone, hctx]
  · intro he
    subst he
    have hnc : s.respClosed = false := by
      cases hc : s.respClosed with
      | false => rfl
      | true => have := (hb.closedW hc).1; simp [hw] at this
    simp [step, hw, hnc]

/-- a variant that strictly decreases with every internal (library) step: no operation can spin —
    each either completes, or parks waiting for the peer / the context -/
def measure (s : St) : Nat :=
  3 * (pendFrames s).length + (if s.sWrite.isSome then 1 else 0) + 2 * s.resp.length +
  (if s.cSend.isSome then 3 else 0) + (if s.cRecv.isSome then 1 else 0) + (if s.sRecv then 1 else 0) +
  2 * s.req.length

/-- **Bounded own steps**: every internal action strictly decreases `measure`, so from any state at
    most `measure s` library steps can happen before every operation has completed or is blocked. -/
theorem C05_internal_steps_bounded (c1 c2 : Nat) (rs : Bool) (s s' : St) (a : Act) (evs : List Ev)
    (h : Reachable c1 c2 rs s) (ha : a ∈ internalActs)
    (hs : step s a = some (s', evs)) : measure s' < measure s := by
  have hcw := (all_reachable c1 c2 rs s h).base.closedW
  clear h
  simp [internalActs] at ha
  rcases ha with rfl | rfl | rfl | rfl | rfl | rfl | rfl | rfl | rfl | rfl | rfl | rfl <;>
    simp only [step, finishWrite] at hs <;> (repeat' split at hs) <;>
    (try (simp only [Option.some.injEq, Prod.mk.injEq, reduceCtorEq] at hs)) <;>
    (try (obtain ⟨rfl, rfl⟩ := hs)) <;> (try (exfalso; assumption)) <;>
    simp_all [measure, pendFrames] <;> (try omega)

/-- **After the handler has finished, sends return nil or io.EOF** (with a live context; a send
    after CloseSend, or of a message the cloner refuses, is the caller's own error). -/
theorem C05_send_results_after_finish (s s' : St) (a : Act) (evs : List Ev) (res : Res)
    (hctx : s.ctx = none) (hs : step s a = some (s', evs)) (hev : Ev.ret .cs res ∈ evs) :
    res = .ok ∨ res = .eof ∨ (res = .plainErr ∧ (s.sendClosed = true ∨ a = .cSendRefused)) := by
  cases a <;> simp only [step, finishWrite] at hs <;> (repeat' split at hs) <;>
    (try (simp only [Option.some.injEq, Prod.mk.injEq, reduceCtorEq] at hs)) <;>
    (try (obtain ⟨rfl, rfl⟩ := hs)) <;> (try (exfalso; assumption)) <;> simp_all [svrCtxErr]

/-- **A refused send holds nothing**: a SendMsg whose message the cloner refuses returns its error and
    leaves the stream exactly as it was — in particular the send side is free for the next SendMsg or
    CloseSend (the defect a seeded change introduced by not releasing the mutex on that path). -/
theorem C05_refused_send_changes_nothing (s : St) (hc : s.cSend = none) :
    step s .cSendRefused = some (s, [.ret .cs .plainErr]) := by
  simp [step, hc]

/-- **The final status is idempotent**: once the client has been handed the call's error, every
    later RecvMsg returns it again and changes nothing. -/
theorem C05_final_status_idempotent (s : St) (e : HErr) (hl : s.last = some (.err e)) (hc : s.cRecv = none) :
    ∃ s', step s .cRecvBegin = some (s', [.ret .cr (translate e)]) ∧ s'.last = s.last ∧ s'.cDelivered = s.cDelivered := by
  simp [step, hc, hl]

/-- …and after a clean end (`io.EOF`), a further RecvMsg sees the closed, empty channel again. -/
theorem C05_eof_idempotent (s : St) (hctx : s.ctx = none) (hr : s.resp = []) (hcl : s.respClosed = true)
    (hc : s.cRecv = some .first) : ∃ s', step s .cClosed = some (s', [.ret .cr .eof]) ∧ s'.resp = [] ∧ s'.respClosed = true := by
  simp [step, hc, hr, hcl, hctx]

/-- non-vacuity: the handler returns while the client's second SendMsg is parked on a full buffer:
    the send completes with io.EOF -/
example : ∃ s, run (init 1 1 true) [.cSendBegin 1, .cSendEnq, .cSendBegin 2, .sReturn none] = some s ∧
    s.cSend = some 2 ∧ step s .cSendEnq = none ∧ (step s .cSendRemote).map (·.2) = some [.ret .cs .eof] := by
  exact ⟨_, rfl, rfl, rfl, rfl⟩

/-- **A send with room in the buffer completes on its own**, whatever the caller's receiving side is doing (a `RecvMsg`
    or `Header()` parked on another goroutine included — `cRecv` is not consulted): the enqueue step is enabled and returns
    nil under a live context. (The send and receive sides of the client stream share no lock in the model; the script
    engine's `send-blocked-with-empty-buffer` oracle and the explorer hold the implementation to that.) -/
theorem C05_send_with_room_completes (s : St) (m : Nat) (hp : s.cSend = some m) (hroom : s.req.length < s.capReq)
    (hctx : s.ctx = none) :
    ∃ s', step s .cSendEnq = some (s', [.ret .cs .ok]) ∧ s'.cSend = none ∧ s'.cRecv = s.cRecv := by
  simp [step, hp, hroom, hctx]

end InprocStream

/-! ### the unary call (`Channel.Invoke`) -/
namespace InprocUnary
open InprocStream (Reason HErr Res codeOf translate)

/-- **No goroutine is left behind**: once `Invoke` has returned (its deferred `cancel()` ends the
    server goroutine's context), the goroutine can always run to its end by itself: every
    remaining frame write has its context branch enabled, and then the channel is closed — once. -/
theorem C05_unary_goroutine_finishes (s : St) (hret : s.returned = true) (hpc : s.pc = 1) :
    (s.frames ≠ [] → (step s .wSkip).isSome) ∧ (s.frames = [] → (step s .wClose).isSome) := by
  refine ⟨?_, ?_⟩
  · intro hne
    cases hf : s.frames with
    | nil => simp [hf] at hne
    | cons f rest => simp [step, hpc, hf, svrCtxDone, hret]
  · intro he; simp [step, hpc, he]

/-- the channel is closed at most once: `wClose` is enabled only before the close -/
theorem C05_unary_close_once (s : St) (hpc : s.pc = 2) : step s .wClose = none := by
  simp [step, hpc]

end InprocUnary

/-! ### HTTP/1.1 client stream -/
namespace HttpClientStream
open InprocStream (Reason Res codeOf)

/-- **No panic**: the two `panic("cs.rCh was closed but cs.done == false!")` are unreachable —
    `rCh` is closed only by the completion `defer`, after `done` was set. -/
theorem C05_http_no_panic (rs : Bool) (s : St) (h : Reachable rs s) :
    s.panicked = false ∧ (s.rChClosed = true → s.done = true) :=
  ⟨(hinv_reachable rs s h).noPanic, (hinv_reachable rs s h).closedDone⟩

/-- **Once the reader goroutine has exited, nothing of the client stays blocked**: a pending RecvMsg
    sees the closed channel, a SendMsg parked in the request pipe sees the closed pipe. -/
theorem C05_http_progress_after_exit (rs : Bool) (s : St) (h : Reachable rs s) (hpc : s.pc = 3) :
    (s.cRecv.isSome → (step s .cRecvClosed).isSome ∨ (step s .cViolation).isSome) ∧ (s.cSend.isSome → (step s .cSendPipeClosed).isSome) := by
  have hi := hinv_reachable rs s h
  obtain ⟨hcl, hpipe⟩ := hi.exited hpc
  have hd := hi.closedDone hcl
  refine ⟨?_, ?_⟩
  · intro hp
    cases hm : s.cRecv with
    | none => simp [hm] at hp
    | some m =>
      cases m with
      | first => left; simp [step, hm, hcl, hd]
      | probe x => left; simp only [step, hm, hcl, hd]; (repeat' split) <;> simp_all
      | violation => right; simp only [step, hm]; cases s.rErr <;> simp
  · intro hp
    cases hm : s.cSend with
    | none => simp [hm] at hp
    | some m => simp [step, hm, hpipe]

/-- after completion, sends return io.EOF and receives repeat the final outcome -/
theorem C05_http_after_done (s : St) (m : Nat) (hd : s.done = true) (hs : s.cSend = none) (hr : s.cRecv = none) :
    step s (.cSendBegin m) = some (s, [.ret .cs .eof]) ∧ step s .cRecvBegin = some (s, [.ret .cr (finalOf s)]) := by
  simp [step, hs, hr, hd]

/-- **A recorded error is final**: once the call has recorded an error (a transport failure, the
    context's status, or the Internal error of a protocol violation), no later step — in particular
    not the reader goroutine reaching the trailer frame afterwards — replaces or clears it.
    (The code before the repair assigned the trailer's decode result to `cs.rErr` unconditionally:
    RecvMsg returned Internal and the next RecvMsg io.EOF.) -/
theorem C05_http_recorded_error_is_final (s : St) (a : Act) (s' : St) (evs : List Ev) (e : Res)
    (hs : step s a = some (s', evs)) (hr : s.rErr = some e) : s'.rErr = some e := by
  cases a <;> simp only [step, complete] at hs <;> (repeat' split at hs) <;>
    (try (simp only [Option.some.injEq, Prod.mk.injEq, reduceCtorEq] at hs)) <;>
    (try (obtain ⟨rfl, rfl⟩ := hs)) <;> simp_all

/-- **…and so is the final outcome** RecvMsg reports after completion: with the reader goroutine
    gone (or an error recorded) and no protocol-violation verdict pending, every step leaves
    `finalOf` unchanged. -/
theorem C05_http_final_status_stable (s : St) (a : Act) (s' : St) (evs : List Ev)
    (hs : step s a = some (s', evs)) (hpc : s.pc = 3 ∨ s.rErr.isSome) (hv : s.cRecv ≠ some .violation) :
    finalOf s' = finalOf s := by
  cases hr : s.rErr with
  | some e =>
    have := C05_http_recorded_error_is_final s a s' evs e hs hr
    simp [finalOf, hr, this]
  | none =>
    have hpc3 : s.pc = 3 := by simpa [hr] using hpc
    cases a <;> simp only [step, complete] at hs <;> (repeat' split at hs) <;>
      (try (simp only [Option.some.injEq, Prod.mk.injEq, reduceCtorEq] at hs)) <;>
      (try (obtain ⟨rfl, rfl⟩ := hs)) <;> simp_all [finalOf]

end HttpClientStream

namespace HttpClientStream

/-- the only writers of the recorded error and of `done` of an HTTP client stream are RecvMsg's
    second-response verdict and the completion `defer` of the reader goroutine (regenerated from
    httpgrpc/client.go on every run) — the shape `complete` / `cViolation` of the model assume. The
    defect repaired by 3fa6be1 was a third writer, `doHttpCall` itself. -/
theorem C05_http_client_completion_writers :
    Gen.clientRErrWriters = ["RecvMsg", "doHttpCall/defer"] ∧ Gen.clientDoneWriters = ["RecvMsg", "doHttpCall/defer"] := by decide

end HttpClientStream
