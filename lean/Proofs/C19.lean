/-
  C19 — generated stubs bind each method to its own path and stream descriptor.
  Theorems over the Stubgen model for every service: any number and interleaving of the four
  method kinds. The branch table and counter placement are regenerated from the plugin's source.
-/
import Model.Stubgen

namespace Stubgen
open Prim

/-- what the regenerated branch table does for each of the four method kinds -/
theorem branch_facts (n : Bytes) (cs ss : Bool) :
    (branchOf ⟨n, cs, ss⟩).2.1 = (cs || ss) ∧                      -- increments the counter iff streaming
    (branchOf ⟨n, cs, ss⟩).2.2.2.2.1 = (cs || ss) ∧                -- indexes Streams iff streaming
    (branchOf ⟨n, cs, ss⟩).2.2.2.1 = "/{{.ServiceName}}/{{.MethodName}}" ∧
    shapeOf (branchOf ⟨n, cs, ss⟩) =
      (if cs then .stream else if ss then .sstream else .unary) := by
  have hn : branchOf ⟨n, cs, ss⟩ = branchOf ⟨[], cs, ss⟩ := rfl
  rw [hn]
  cases cs <;> cases ss <;> decide

theorem bindingsFrom_length (svc : Bytes) (cnt : Nat) (ms : List Method) :
    (bindingsFrom svc cnt ms).length = ms.length := by
  induction ms generalizing cnt with
  | nil => rfl
  | cons m rest ih => simp [bindingsFrom, ih]

/-- the loop invariant, with the counter generalised -/
theorem bindingsFrom_get (svc : Bytes) (cnt : Nat) (ms : List Method) (i : Nat) (hi : i < ms.length) :
    (bindingsFrom svc cnt ms)[i]? = some
      { name := ms[i].name,
        shape := (if ms[i].cs then .stream else if ms[i].ss then .sstream else .unary),
        path := [47] ++ svc ++ [47] ++ ms[i].name,
        index := if ms[i].streaming then ((cnt + ((ms.take i).filter Method.streaming).length : Nat) : Int) else -1 } := by
  induction ms generalizing cnt i with
  | nil => simp at hi
  | cons m rest ih =>
    obtain ⟨n, cs, ss⟩ := m
    obtain ⟨f1, f2, f3, f4⟩ := branch_facts n cs ss
    cases i with
    | zero =>
      simp only [bindingsFrom, List.getElem?_cons_zero, List.getElem_cons_zero, List.take_zero,
        List.filter_nil, List.length_nil, Nat.add_zero, Option.some.injEq]
      simp only [f2, f4, pathOf, f3, Method.streaming]
      simp
    | succ k =>
      have hk : k < rest.length := by simpa using hi
      simp only [bindingsFrom, List.getElem?_cons_succ, List.getElem_cons_succ]
      rw [ih _ k hk, f1]
      simp only [List.take_succ_cons, List.filter_cons, Method.streaming]
      cases cs <;> cases ss <;> simp <;> (try split) <;> (try simp) <;> omega

/-- **Stream index.** For every service and every method position `i`: a streaming method is bound
    to index = the number of streaming methods declared before it, which is its own position in the
    service's `Streams` slice (the streaming methods in declaration order); a unary method indexes
    nothing. -/
theorem C19_stream_index_correct (svc : Bytes) (ms : List Method) (i : Nat) (hi : i < ms.length) :
    ∃ b, (bindings svc ms)[i]? = some b ∧
      (ms[i].streaming = true →
          b.index = (((ms.take i).filter Method.streaming).length : Nat) ∧
          (ms.filter Method.streaming)[((ms.take i).filter Method.streaming).length]? = some ms[i]) ∧
      (ms[i].streaming = false → b.index = -1) := by
  refine ⟨_, by rw [bindings, bindingsFrom_get svc 0 ms i hi], ?_, ?_⟩
  · intro hs
    refine ⟨by simp [hs], ?_⟩
    -- position in the filtered list
    have hsplit : ms = ms.take i ++ ms[i] :: ms.drop (i + 1) := by
      rw [List.getElem_cons_drop, List.take_append_drop]
    have hf : ms.filter Method.streaming
        = (ms.take i).filter Method.streaming ++ ms[i] :: (ms.drop (i + 1)).filter Method.streaming := by
      have := congrArg (List.filter Method.streaming) hsplit
      rw [List.filter_append, List.filter_cons, hs] at this
      simpa using this
    rw [hf]
    simp
  · intro hs
    simp [hs]

/-- **Path.** Every stub calls "/<full service name>/<method>". -/
theorem C19_path_correct (svc : Bytes) (ms : List Method) (i : Nat) (hi : i < ms.length) :
    ∃ b, (bindings svc ms)[i]? = some b ∧ b.name = ms[i].name ∧ b.path = [47] ++ svc ++ [47] ++ ms[i].name := by
  exact ⟨_, by rw [bindings, bindingsFrom_get svc 0 ms i hi], rfl, rfl⟩

/-- **Shape.** Unary methods call `Invoke`; server-streaming methods open a stream, send the request
    and close the send side; client-streaming and bidi methods just open the stream. -/
theorem C19_shape_correct (svc : Bytes) (ms : List Method) (i : Nat) (hi : i < ms.length) :
    ∃ b, (bindings svc ms)[i]? = some b ∧
      b.shape = (if ms[i].cs then .stream else if ms[i].ss then .sstream else .unary) := by
  exact ⟨_, by rw [bindings, bindingsFrom_get svc 0 ms i hi], rfl⟩

/-- **Per service**: every service of a file starts counting at zero, so the indices of one service
    never depend on the services declared before it. -/
theorem C19_register_per_service (svcs : List (Bytes × List Method)) (cnt : Nat) :
    fileBindings cnt svcs = svcs.map fun s => bindings s.1 s.2 := by
  have h : Gen.counterResetPerService = true := by decide
  induction svcs generalizing cnt with
  | nil => rfl
  | cons s rest ih =>
    obtain ⟨svc, ms⟩ := s
    simp only [fileBindings, h, ↓reduceIte, List.map_cons, bindings]
    rw [ih]; rfl

/-- non-vacuity: `[unary, server-stream, unary, bidi]` gets indices `-1, 0, -1, 1` -/
example : (bindings [115] [⟨[97], false, false⟩, ⟨[98], false, true⟩, ⟨[99], false, false⟩, ⟨[100], true, true⟩]).map (·.index)
    = [-1, 0, -1, 1] := by decide

theorem request_shape : requestShapeAsModelled = true := by decide

/-- **Every file that declares a service gets its stubs, and they depend on that file alone** — whatever else the request
    holds and wherever the file stands in it: files without services before or after it, files it imports, files that
    import it. (The package-override pre-pass runs over all files before the first stub is generated — regenerated.) -/
theorem C19_file_output_independent_of_request (pre post : List File) (f : File) (hf : f.2 ≠ []) :
    (f.1, f.2.map fun s => bindings s.1 s.2) ∈ requestOutputs (pre ++ f :: post) := by
  unfold requestOutputs
  rw [request_shape, if_pos rfl]
  apply List.mem_map.mpr
  refine ⟨f, ?_, by rw [C19_register_per_service]⟩
  apply List.mem_filter.mpr
  refine ⟨by simp, ?_⟩
  cases hfs : f.2 with
  | nil => exact absurd hfs hf
  | cons a r => simp

/-- files without services produce nothing and end nothing: the outputs are those of the request without them -/
theorem C19_serviceless_files_are_transparent (files : List File) :
    requestOutputs files = requestOutputs (files.filter fun f => !f.2.isEmpty) := by
  unfold requestOutputs
  rw [request_shape, if_pos rfl, if_pos rfl, List.filter_filter]
  simp

/-- the order of the files in the request only orders the outputs -/
theorem C19_outputs_permute_with_request (a b : List File) (h : a.Perm b) :
    (requestOutputs a).Perm (requestOutputs b) := by
  unfold requestOutputs
  rw [request_shape, if_pos rfl, if_pos rfl]
  exact (h.filter _).map _

/-- non-vacuity (the shape seeded change C19-m9 broke): a message-only file first, then a file with one service -/
example : (requestOutputs [([116], []), ([115], [([83], [⟨[97], false, true⟩])])]).map (·.1) = [[115]] := by
  unfold requestOutputs; rw [request_shape]; decide

end Stubgen
