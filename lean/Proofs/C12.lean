/-
  C12 — method names resolve to exactly the registered handler, or fail cleanly.
  Property theorems (with their helper lemmas, all local to this property).
  The in-process guards (`method == ""`, `len(strs) != 2`) are facts regenerated from /repo.
-/
import Proofs.Lemmas.Codes
import Model.Resolve

namespace Resolve
open Prim

/-! ### helper lemmas -/

theorem splitN2_cases (x : Bytes) (c : UInt8) :
    (splitN2 x c = [x] ∧ ∀ y ∈ x, y ≠ c) ∨
    (∃ a b, splitN2 x c = [a, b] ∧ x = a ++ c :: b ∧ ∀ y ∈ a, y ≠ c) := by
  induction x with
  | nil => left; exact ⟨by simp [splitN2, indexByte], by simp⟩
  | cons h t ih =>
    by_cases hc : h = c
    · right
      refine ⟨[], t, ?_, by simp [hc], by simp⟩
      subst hc
      simp [splitN2, indexByte, List.findIdx_cons]
    · have hb : (h == c) = false := by simpa using hc
      rcases ih with ⟨h1, h2⟩ | ⟨a, b, h1, h2, h3⟩
      · left
        constructor
        · have hnone : indexByte t c = none := by
            unfold splitN2 at h1
            cases hi : indexByte t c with
            | none => rfl
            | some i => rw [hi] at h1; simp at h1
          unfold indexByte at hnone
          have : ¬ List.findIdx (· == c) t < t.length := by
            intro hlt; rw [if_pos hlt] at hnone; simp at hnone
          unfold splitN2 indexByte
          simp only [List.findIdx_cons, hb, cond_false, List.length_cons]
          rw [if_neg (by omega)]
        · intro y hy
          rcases List.mem_cons.mp hy with rfl | hy
          · exact hc
          · exact h2 y hy
      · right
        refine ⟨h :: a, b, ?_, by rw [h2]; simp, ?_⟩
        · have := Codes.splitN2_no_sep (h :: a) b c (by
            intro y hy
            rcases List.mem_cons.mp hy with rfl | hy
            · exact hc
            · exact h3 y hy)
          rw [h2]
          simpa using this
        · intro y hy
          rcases List.mem_cons.mp hy with rfl | hy
          · exact hc
          · exact h3 y hy

theorem facts : Gen.invokeGuardEmpty = true ∧ Gen.invokeCheckLen = true ∧
    Gen.newStreamGuardEmpty = true ∧ Gen.newStreamCheckLen = true := by decide

theorem inprocNow_eq (k : Kind) (reg : List Svc) (m : Bytes) : inprocNow k reg m = inproc true true k reg m := by
  obtain ⟨h1, h2, h3, h4⟩ := facts
  unfold inprocNow
  cases k <;> simp [h1, h2, h3, h4]

/-- the name after the leading-slash normalisation -/
def norm (m : Bytes) : Bytes :=
  match m with
  | [] => [47]
  | c :: r => if c == 47 then c :: r else 47 :: c :: r

theorem normalise_true (m : Bytes) : normalise true m = some (norm m) := by
  cases m with
  | nil => rfl
  | cons c r =>
    show (if c == 47 then some (c :: r) else some (47 :: c :: r)) = some (if c == 47 then c :: r else 47 :: c :: r)
    split <;> rfl

theorem norm_drop (m : Bytes) : ∃ r, norm m = 47 :: r := by
  cases m with
  | nil => exact ⟨[], rfl⟩
  | cons c r =>
    unfold norm
    by_cases h : (c == 47) = true
    · simp only [h, ↓reduceIte]; exact ⟨r, by have : c = 47 := by simpa using h
                                              rw [this]⟩
    · simp only [h]; exact ⟨c :: r, rfl⟩

/-! ### property theorems -/

/-- **No panic**: for every method-name string, every registry and both call kinds the in-process
    resolution ends in a handler or a status error — never a run-time panic. -/
theorem C12_inproc_no_panic (k : Kind) (reg : List Svc) (m : Bytes) : inprocNow k reg m ≠ .panic := by
  rw [inprocNow_eq]
  unfold inproc
  rw [normalise_true]
  simp only
  split
  · unfold lookup
    split
    · simp
    · split <;> simp
  · simp

/-- **Exact resolution**: a handler runs iff the (normalised) name is exactly
    "/" ++ svc ++ "/" ++ mth with a slash-free `svc` that is registered and has `mth` among its
    methods *of that kind*; and then it is that handler and no other. -/
theorem C12_inproc_resolve (k : Kind) (reg : List Svc) (m svc mth : Bytes) :
    inprocNow k reg m = .handler svc mth ↔
      (norm m = 47 :: (svc ++ 47 :: mth) ∧ (∀ y ∈ svc, y ≠ 47) ∧
       ∃ s, query reg svc = some s ∧ (methodsOf k s).contains mth = true) := by
  rw [inprocNow_eq]
  unfold inproc
  rw [normalise_true]
  simp only
  obtain ⟨r, hr⟩ := norm_drop m
  rw [hr]
  simp only [List.drop_succ_cons, List.drop_zero]
  rcases splitN2_cases r 47 with ⟨h1, h2⟩ | ⟨a, b, h1, h2, h3⟩
  · rw [h1]
    simp only
    constructor
    · intro h; simp at h
    · rintro ⟨he, hs, _⟩
      exfalso
      have : r = svc ++ 47 :: mth := by simpa using he
      exact h2 47 (by rw [this]; simp) rfl
  · rw [h1]
    simp only
    unfold lookup
    constructor
    · intro h
      cases hq : query reg a with
      | none => rw [hq] at h; simp at h
      | some s =>
        rw [hq] at h
        simp only at h
        split at h
        · rename_i hc
          simp only [Outcome.handler.injEq] at h
          obtain ⟨rfl, rfl⟩ := h
          exact ⟨by rw [h2], h3, s, hq, hc⟩
        · simp at h
    · rintro ⟨he, hs, s, hq, hc⟩
      have hr2 : r = svc ++ 47 :: mth := by simpa using he
      -- the split is unique
      have hsplit := Codes.splitN2_no_sep svc mth 47 hs
      rw [← hr2, h1] at hsplit
      simp only [List.cons.injEq, and_true] at hsplit
      obtain ⟨rfl, rfl⟩ := hsplit
      rw [hq]; simp only; rw [if_pos hc]

/-- Unknown service, unknown method, or a method of the other kind (unary name on the stream API
    and vice versa): a status error and no handler. -/
theorem C12_inproc_unknown_or_kind_mismatch (k : Kind) (reg : List Svc) (m : Bytes)
    (h : ∀ svc mth s, norm m = 47 :: (svc ++ 47 :: mth) → query reg svc = some s →
          (methodsOf k s).contains mth = false) :
    inprocNow k reg m = .unimplemented := by
  cases ho : inprocNow k reg m with
  | unimplemented => rfl
  | panic => exact absurd ho (C12_inproc_no_panic k reg m)
  | handler svc mth =>
    obtain ⟨he, _, s, hq, hc⟩ := (C12_inproc_resolve k reg m svc mth).mp ho
    rw [h svc mth s he hq] at hc; simp at hc

/-! ### HTTP: both sides build the path with `path.Join(base, name)` -/

theorem segsAux_plain (s cur rest : Bytes) (hs : ∀ y ∈ s, y ≠ 47) :
    segsAux cur (s ++ rest) = segsAux (s.reverse ++ cur) rest := by
  induction s generalizing cur with
  | nil => rfl
  | cons c t ih =>
    have hc : (c == 47) = false := by simpa using hs c (by simp)
    simp only [List.cons_append, segsAux, hc, Bool.false_eq_true, ↓reduceIte]
    rw [ih (c :: cur) (fun y hy => hs y (by simp [hy]))]
    simp

theorem segs_name (s n : Bytes) (hs : ∀ y ∈ s, y ≠ 47) (hn : ∀ y ∈ n, y ≠ 47) :
    segs (47 :: (s ++ 47 :: n)) = [[], s, n] ∧ segs (s ++ 47 :: n) = [s, n] := by
  have h2 : segs (s ++ 47 :: n) = [s, n] := by
    unfold segs
    rw [segsAux_plain s [] _ hs]
    simp only [List.append_nil, segsAux, beq_self_eq_true, ↓reduceIte, List.reverse_reverse]
    have := segsAux_plain n [] [] hn
    rw [List.append_nil] at this
    rw [this]; simp [segsAux]
  refine ⟨?_, h2⟩
  unfold segs at h2 ⊢
  simp only [segsAux, beq_self_eq_true, ↓reduceIte, List.reverse_nil]
  rw [h2]

theorem cleanSegs_append (acc xs ys : List Bytes) :
    cleanSegs acc (xs ++ ys) = cleanSegs (cleanSegs acc xs).reverse ys := by
  induction xs generalizing acc with
  | nil => simp [cleanSegs]
  | cons x t ih =>
    simp only [List.cons_append, cleanSegs]
    split
    · exact ih acc
    · split
      · exact ih _
      · exact ih _

theorem cleanSegs_empty_seg (acc : List Bytes) (rest : List Bytes) :
    cleanSegs acc ([] :: rest) = cleanSegs acc rest := by
  simp [cleanSegs]

theorem plain_spec (s : Bytes) (h : plain s = true) :
    s.isEmpty = false ∧ (s == [46]) = false ∧ (s == [46, 46]) = false ∧ ∀ y ∈ s, y ≠ 47 := by
  unfold plain at h
  simp only [Bool.and_eq_true, Bool.not_eq_true', bne_iff_ne, ne_eq] at h
  obtain ⟨⟨⟨h1, h2⟩, h3⟩, h4⟩ := h
  refine ⟨h1, by simpa using h3, by simpa using h4, ?_⟩
  intro y hy e
  subst e
  have : s.contains 47 = true := List.contains_iff_mem.mpr hy
  rw [this] at h2; simp at h2

theorem cleanSegs_plain2 (acc : List Bytes) (s n : Bytes) (hs : plain s = true) (hn : plain n = true) :
    cleanSegs acc [s, n] = acc.reverse ++ [s, n] := by
  obtain ⟨a1, a2, a3, _⟩ := plain_spec s hs
  obtain ⟨b1, b2, b3, _⟩ := plain_spec n hn
  simp [cleanSegs, a1, a2, a3, b1, b2, b3]

/-- **Same path on both sides.** For every base path and every plain service/method segment pair,
    the client's `path.Join(base, "/svc/mth")` and the server's `path.Join(base, "svc/mth")` are the
    same clean path: the base's clean segments followed by `svc`, `mth`. -/
theorem C12_http_join_same (base s n : Bytes) (hs : plain s = true) (hn : plain n = true) :
    joinSegs base (47 :: (s ++ 47 :: n)) = joinSegs base [] ++ [s, n] ∧
    joinSegs base (s ++ 47 :: n) = joinSegs base [] ++ [s, n] := by
  obtain ⟨_, _, _, hs'⟩ := plain_spec s hs
  obtain ⟨_, _, _, hn'⟩ := plain_spec n hn
  obtain ⟨e1, e2⟩ := segs_name s n hs' hn'
  have hb : joinSegs base [] = cleanSegs [] (segs base) := by
    unfold joinSegs
    rw [cleanSegs_append]
    simp [segs, segsAux, cleanSegs]
  unfold joinSegs at hb ⊢
  constructor
  · rw [e1, cleanSegs_append, cleanSegs_empty_seg, cleanSegs_plain2 _ s n hs hn, List.reverse_reverse, hb]
  · rw [e2, cleanSegs_append, cleanSegs_plain2 _ s n hs hn, List.reverse_reverse, hb]

/-- **Distinct names, distinct paths**: under one base path the joined path determines the
    (service, method) pair, so an exact-match mux can only select the handler that was named. -/
theorem C12_http_join_injective (base s n s' n' : Bytes)
    (hs : plain s = true) (hn : plain n = true) (hs' : plain s' = true) (hn' : plain n' = true)
    (h : joinSegs base (47 :: (s ++ 47 :: n)) = joinSegs base (s' ++ 47 :: n')) : s = s' ∧ n = n' := by
  rw [(C12_http_join_same base s n hs hn).1, (C12_http_join_same base s' n' hs' hn').2] at h
  have := List.append_cancel_left h
  simp at this
  exact this

/-- non-vacuity -/
example : inprocNow .unary [⟨[115], [[109]], []⟩] [47, 115, 47, 109] = .handler [115] [109] := by decide
example : inprocNow .stream [⟨[115], [[109]], []⟩] [47, 115, 47, 109] = .unimplemented := by decide
example : inprocNow .unary [] [] = .unimplemented := by decide
example : joinSegs [47, 97, 47] [47, 115, 47, 109] = [[97], [115], [109]] := by decide

end Resolve
