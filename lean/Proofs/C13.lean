/-
  C13 — per-RPC credentials never cross an insecure transport; peer info is reported.
  Property theorems over the Creds model. The `isChannelSecure` expressions and the source of the
  peer's TLS state at each call site are facts regenerated from /repo.
-/
import Model.Creds

namespace Creds
open Prim

/-- **Insecure blocks.** Credentials that require transport security on a channel that is not secure:
    the call fails, and the credential is not even consulted (so no request is issued). -/
theorem C13_insecure_blocks (c : PerRPC) (outgoing : Option MD) (h : c.requireSecurity = true) :
    apply (some c) false outgoing = .error 0 := by
  unfold apply; simp [h]

/-- …and at the HTTP call sites "secure" means exactly scheme = https; in-process is always secure. -/
theorem C13_secure_iff_https (scheme : String) :
    secureOf Gen.httpUnarySecureExpr scheme = (scheme == "https") ∧
    secureOf Gen.httpStreamSecureExpr scheme = (scheme == "https") ∧
    secureOf Gen.inprocUnarySecureExpr scheme = true ∧
    secureOf Gen.inprocStreamSecureExpr scheme = true := by
  refine ⟨?_, ?_, ?_, ?_⟩
  · have : Gen.httpUnarySecureExpr = "Scheme==https" := by decide
    rw [this]; unfold secureOf; simp
  · have : Gen.httpStreamSecureExpr = "Scheme==https" := by decide
    rw [this]; unfold secureOf; simp
  · have : Gen.inprocUnarySecureExpr = "true" := by decide
    rw [this]; unfold secureOf; simp
  · have : Gen.inprocStreamSecureExpr = "true" := by decide
    rw [this]; unfold secureOf; simp

/-- A credential error fails the call. -/
theorem C13_creds_error_propagates (c : PerRPC) (secure : Bool) (outgoing : Option MD)
    (h : c.result = none) : ∃ n, apply (some c) secure outgoing = .error n := by
  simp only [apply, h]
  by_cases hs : (c.requireSecurity && !secure) = true
  · exact ⟨0, by rw [if_pos hs]⟩
  · exact ⟨1, by rw [if_neg hs]⟩

theorem get_append (a b : MD) (k : Bytes) : MD.get (a ++ b) k = MD.get a k ++ MD.get b k := by
  unfold MD.get; simp [List.filter_append, List.flatMap_append]

/-- **Merged.** Whenever the call proceeds, for *every* key the handler-visible values are the
    caller's own values (in order) followed by the credential's values for that key (credential keys
    lower-cased); nothing is dropped or overwritten. -/
theorem C13_creds_merged (c : PerRPC) (secure : Bool) (outgoing : Option MD) (m : List (Bytes × Bytes))
    (hs : (c.requireSecurity && !secure) = false) (hr : c.result = some m) (k : Bytes) :
    ∃ out n, apply (some c) secure outgoing = .ok out n ∧
      MD.get (out.getD []) k = MD.get (outgoing.getD []) k ++ MD.get (mdNew m) k := by
  unfold apply
  simp only [hs, hr, Bool.false_eq_true, ↓reduceIte]
  by_cases he : m.isEmpty
  · have hm : m = [] := by simpa using he
    subst hm
    refine ⟨outgoing, 1, by simp, ?_⟩
    simp [mdNew, MD.get]
  · simp only [he, Bool.false_eq_true, ↓reduceIte]
    cases outgoing with
    | none => exact ⟨_, 1, rfl, by simp [MD.get]⟩
    | some o => exact ⟨_, 1, rfl, by simp [mdJoin, get_append]⟩

/-- No credentials: the outgoing metadata is untouched. -/
theorem C13_no_creds_identity (secure : Bool) (outgoing : Option MD) :
    apply none secure outgoing = .ok outgoing 0 := rfl

/-- **Peer TLS**: the peer option carries TLS authentication info iff the connection uses TLS,
    for unary and streaming calls alike. -/
theorem C13_peer_tls (connTLS : Bool) :
    peerHasTLS Gen.unaryPeerTLSFrom connTLS = connTLS ∧ peerHasTLS Gen.streamPeerTLSFrom connTLS = connTLS := by
  have h1 : Gen.unaryPeerTLSFrom = "*net/http.Response" := by decide
  have h2 : Gen.streamPeerTLSFrom = "*net/http.Response" := by decide
  rw [h1, h2]; unfold peerHasTLS; simp

/-- non-vacuity -/
example : apply (some ⟨false, some [([75], [1])]⟩) false (some [([107], [[2]])]) = .ok (some [([107], [[2]]), ([107], [[1]])]) 1 := by decide

end Creds

namespace Creds

/-- regenerated from httpgrpc/client.go: the peer call option is filled in before the reply's status is examined, in
    `Invoke` and in `doHttpCall` alike — so it is set for calls the server answered with a non-OK status too -/
theorem C13_peer_set_before_status : Gen.unaryPeerBeforeStatus = true ∧ Gen.streamPeerBeforeStatus = true := by decide

end Creds
