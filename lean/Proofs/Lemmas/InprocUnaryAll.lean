/- every reachable state of the InprocUnary system satisfies all three invariant bundles -/
import Proofs.Lemmas.InprocUnaryOk

namespace InprocUnary
open InprocStream (Reason HErr Res codeOf translate)

theorem all_unary (cap : Nat) (s : St) (h : Reachable cap s) : UInv s ∧ UCnt s ∧ UOk s :=
  reachable_induction cap (fun s => UInv s ∧ UCnt s ∧ UOk s) ⟨uinv_init cap, ucnt_init cap, uok_init cap⟩
    (fun s a s' evs hp hs => ⟨uinv_step s a s' evs hp.1 hs, ucnt_step s a s' evs hp.1 hp.2.1 hs,
      uok_step s a s' evs hp.1 hp.2.1 hp.2.2 hs⟩) s h

end InprocUnary
