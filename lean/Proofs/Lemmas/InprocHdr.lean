/-
  Header and trailer frames of the InprocStream system (helper lemmas for C03).
  All statements are under `s.ctx = none`: once the context is done the writers may skip frames
  and the client drops them, and the property makes no claim about cancelled calls.
-/
import Proofs.Lemmas.InprocRespDefs

namespace InprocStream

/-- the metadata of the last headers frame of a frame list ([] if none) -/
def hdrOf (l : List Frame) : List Nat :=
  l.foldl (fun acc f => match f with | .headers md => md | _ => acc) []
def tlrOf (l : List Frame) : List Nat :=
  l.foldl (fun acc f => match f with | .trailers md => md | _ => acc) []

@[simp] theorem hdrOf_nil : hdrOf [] = [] := rfl
@[simp] theorem tlrOf_nil : tlrOf [] = [] := rfl
@[simp] theorem hdrOf_snoc (l : List Frame) (f : Frame) :
    hdrOf (l ++ [f]) = (match f with | .headers md => md | _ => hdrOf l) := by
  simp [hdrOf, List.foldl_append]
@[simp] theorem tlrOf_snoc (l : List Frame) (f : Frame) :
    tlrOf (l ++ [f]) = (match f with | .trailers md => md | _ => tlrOf l) := by
  simp [tlrOf, List.foldl_append]

def noHdr (l : List Frame) : Prop := ∀ md, Frame.headers md ∉ l
def noTlr (l : List Frame) : Prop := ∀ md, Frame.trailers md ∉ l

/-- client side: what Header()/Trailer() hold is determined by the frames taken so far -/
structure HdrCli (s : St) : Prop where
  cH : s.ctx = none → s.cHeaders = hdrOf s.respDeq
  cT : s.ctx = none → s.cTrailers = tlrOf s.respDeq

theorem hdrcli_init (c1 c2 : Nat) (rs : Bool) : HdrCli (init c1 c2 rs) := by
  constructor <;> simp [init]

set_option maxHeartbeats 4000000 in
theorem hdrcli_step (s : St) (a : Act) (s' : St) (evs : List Ev) (h : HdrCli s)
    (hs : step s a = some (s', evs)) : HdrCli s' := by
  obtain ⟨r1, r2⟩ := h
  cases a <;> simp only [step, finishWrite] at hs <;> (repeat' split at hs) <;>
    (try (simp only [Option.some.injEq, Prod.mk.injEq, reduceCtorEq] at hs)) <;>
    (try (obtain ⟨rfl, rfl⟩ := hs)) <;>
    (first | (exfalso; assumption)
           | (constructor <;> simp_all <;> (try assumption)))
  all_goals (first | assumption | grind)

end InprocStream
