import Model.Codes

namespace Codes
open Prim

/-! ## lifting lemmas for the table interpreters (proved once, table-independent) -/

theorem lookup_mem_or_default (t : List (Nat × Nat)) (d c : Nat) :
    lookup t d c = d ∨ ∃ p ∈ t, p.1 = c ∧ lookup t d c = p.2 := by
  unfold lookup
  cases h : t.find? (·.1 == c) with
  | none => left; rfl
  | some p =>
    right
    refine ⟨p, List.mem_of_find?_eq_some h, ?_, rfl⟩
    have := List.find?_some h
    simpa using this

/-- certificate: every non-OK row and the default are HTTP error statuses -/
def fwdCert (t : List (Nat × Nat)) (d : Nat) : Bool :=
  t.all (fun p => p.1 == 0 || (400 ≤ p.2 && p.2 ≤ 599)) && (400 ≤ d && d ≤ 599)

theorem fwd_lift (t : List (Nat × Nat)) (d : Nat) (h : fwdCert t d = true) (c : Nat) (hc : c ≠ 0) :
    400 ≤ lookup t d c ∧ lookup t d c ≤ 599 := by
  simp only [fwdCert, Bool.and_eq_true, List.all_eq_true, Bool.or_eq_true, beq_iff_eq,
    decide_eq_true_eq] at h
  obtain ⟨hrows, hd⟩ := h
  rcases lookup_mem_or_default t d c with h0 | ⟨p, hp, hpc, hv⟩
  · rw [h0]; exact hd
  · rw [hv]
    rcases hrows p hp with h1 | h1
    · exact absurd (hpc ▸ h1) hc
    · exact h1

theorem lookupI_mem_or_default (t : List (Int × Nat)) (d : Nat) (s : Int) :
    lookupI t d s = d ∨ ∃ p ∈ t, p.1 = s ∧ lookupI t d s = p.2 := by
  unfold lookupI
  cases h : t.find? (·.1 == s) with
  | none => left; rfl
  | some p =>
    right
    refine ⟨p, List.mem_of_find?_eq_some h, ?_, rfl⟩
    have := List.find?_some h
    simpa using this

/-- all range bounds lie inside `[0, B]` -/
def boundsCert (rs : List (Int × Int × List (Int × Nat) × Nat)) (B : Int) : Bool :=
  rs.all (fun r => 0 ≤ r.1 && r.2.1 ≤ B)

theorem rangeLookup_outside (rs : List (Int × Int × List (Int × Nat) × Nat)) (d : Nat) (B : Int)
    (h : boundsCert rs B = true) (s : Int) (hs : s < 0 ∨ B ≤ s) :
    rangeLookup rs d s = d := by
  induction rs with
  | nil => rfl
  | cons r rest ih =>
    obtain ⟨lo, hi, inner, idef⟩ := r
    simp only [boundsCert, List.all_cons, Bool.and_eq_true, decide_eq_true_eq] at h
    obtain ⟨⟨h1, h2⟩, h3⟩ := h
    unfold rangeLookup
    have : ¬ (lo ≤ s ∧ s < hi) := by omega
    rw [if_neg this]
    exact ih (by simpa [boundsCert] using h3)

/-! ## decimal rendering and parsing round-trip -/

theorem digitsVal_append (a b : Bytes) :
    digitsVal (a ++ b) = b.foldl (fun acc x => acc * 10 + (x.toNat - 48)) (digitsVal a) := by
  simp [digitsVal, List.foldl_append]

theorem digitByte_toNat (d : Nat) (h : d < 10) : (digitByte d).toNat = 48 + d := by
  unfold digitByte
  simp [UInt8.toNat_ofNat]
  omega

theorem isDigit_digitByte (d : Nat) (h : d < 10) : isDigit (digitByte d) = true := by
  have := digitByte_toNat d h
  simp only [isDigit, Bool.and_eq_true, decide_eq_true_eq, UInt8.le_iff_toNat_le]
  constructor
  · show (48 : UInt8).toNat ≤ _; rw [this]; decide +revert
  · show _ ≤ (57 : UInt8).toNat; rw [this]; simp; omega

theorem decDigits_lt (n : Nat) : ∀ d ∈ decDigits n, d < 10 := by
  induction n using Nat.strongRecOn with
  | _ n ih =>
    intro d hd
    rw [decDigits] at hd
    split at hd
    · simp at hd; omega
    · simp only [List.mem_append, List.mem_singleton] at hd
      rcases hd with hd | hd
      · exact ih (n / 10) (by omega) d hd
      · omega

theorem decDigits_ne_nil (n : Nat) : decDigits n ≠ [] := by
  rw [decDigits]; split <;> simp

theorem natToDec_allDigits (n : Nat) : allDigits (natToDec n) = true := by
  simp only [allDigits, natToDec, Bool.and_eq_true, Bool.not_eq_true', List.isEmpty_eq_false_iff,
    List.all_eq_true, List.mem_map]
  refine ⟨by simpa using decDigits_ne_nil n, ?_⟩
  rintro x ⟨d, hd, rfl⟩
  exact isDigit_digitByte d (decDigits_lt n d hd)

theorem digitsVal_natToDec (n : Nat) : digitsVal (natToDec n) = n := by
  induction n using Nat.strongRecOn with
  | _ n ih =>
    unfold natToDec
    rw [decDigits]
    split
    · rename_i h
      simp [digitsVal, digitByte_toNat n h]
    · rename_i h
      rw [List.map_append]
      have e := digitsVal_append ((decDigits (n / 10)).map digitByte) ([n % 10].map digitByte)
      rw [e]
      have := ih (n / 10) (by omega)
      unfold natToDec at this
      rw [this]
      simp [digitByte_toNat (n % 10) (by omega)]
      omega

theorem natToDec_head_isDigit (n : Nat) : ∃ b r, natToDec n = b :: r ∧ isDigit b = true := by
  have h := natToDec_allDigits n
  cases hn : natToDec n with
  | nil => simp [hn, allDigits] at h
  | cons b r =>
    refine ⟨b, r, rfl, ?_⟩
    simp [hn, allDigits] at h
    exact h.1

theorem isDigit_ne (b : UInt8) (h : isDigit b = true) : b ≠ 43 ∧ b ≠ 45 ∧ b ≠ 58 := by
  simp only [isDigit, Bool.and_eq_true, decide_eq_true_eq, UInt8.le_iff_toNat_le] at h
  refine ⟨?_, ?_, ?_⟩ <;> (intro e; subst e; revert h; decide)

theorem splitSign_digit (b : UInt8) (r : Bytes) (hb : isDigit b = true) :
    splitSign (b :: r) = (false, b :: r) := by
  have hne := isDigit_ne b hb
  unfold splitSign
  split
  · rename_i heq; simp at heq; exact absurd heq.1 hne.1
  · rename_i heq; simp at heq; exact absurd heq.1 hne.2.1
  · rfl

theorem parseInt_natToDec (bits : Nat) (n : Nat) (h : (n : Int) < limOf bits) :
    parseInt bits (natToDec n) = some (n : Int) := by
  obtain ⟨b, r, hbr, hb⟩ := natToDec_head_isDigit n
  have had := natToDec_allDigits n
  have hv := digitsVal_natToDec n
  unfold parseInt
  rw [hbr] at had hv ⊢
  rw [splitSign_digit b r hb]
  simp only [had, hv, Bool.not_true, Bool.false_eq_true, ↓reduceIte]
  simp [h]

theorem parseInt_neg_natToDec (bits : Nat) (n : Nat) (h : (n : Int) ≤ limOf bits) :
    parseInt bits (45 :: natToDec n) = some (-(n : Int)) := by
  have had := natToDec_allDigits n
  have hv := digitsVal_natToDec n
  unfold parseInt
  simp only [splitSign, had, hv, Bool.not_true, Bool.false_eq_true, ↓reduceIte]
  simp [h]

theorem parseInt_digits (ds : Bytes) (h : allDigits ds = true) (bits : Nat) :
    parseInt bits ds =
      if (digitsVal ds : Int) < limOf bits then some (digitsVal ds : Int) else none := by
  have hne : ds ≠ [] := by
    intro e; subst e; simp [allDigits] at h
  obtain ⟨b, r, rfl⟩ := List.exists_cons_of_ne_nil hne
  have hb : isDigit b = true := by
    simp [allDigits] at h; exact h.1
  unfold parseInt
  rw [splitSign_digit b r hb]
  simp only [h, Bool.not_true, Bool.false_eq_true, ↓reduceIte]

theorem limOf_32 : limOf 32 = 2147483648 := by decide
theorem limOf_64 : limOf 64 = 9223372036854775808 := by decide

theorem natToDec_no_colon (n : Nat) : ∀ x ∈ natToDec n, x ≠ 58 := by
  intro x hx
  have h := natToDec_allDigits n
  simp only [allDigits, Bool.and_eq_true, List.all_eq_true] at h
  exact (isDigit_ne x (h.2 x hx)).2.2

end Codes

namespace Codes
open Prim

theorem splitN2_no_sep (a m : Bytes) (c : UInt8) (h : ∀ x ∈ a, x ≠ c) :
    splitN2 (a ++ c :: m) c = [a, m] := by
  unfold splitN2 indexByte
  have hidx : List.findIdx (· == c) (a ++ c :: m) = a.length := by
    induction a with
    | nil => simp [List.findIdx_cons]
    | cons x xs ih =>
      have hx : (x == c) = false := by simpa using h x (by simp)
      simp only [List.cons_append, List.findIdx_cons, hx, cond_false, List.length_cons]
      rw [ih (fun y hy => h y (by simp [hy]))]
  rw [hidx]
  simp

end Codes
