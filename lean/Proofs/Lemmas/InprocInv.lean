/-
  Structural invariants of the InprocStream transition system, proved by induction over all
  action sequences (helper lemmas; the property theorems are in Proofs/C0x.lean).
-/
import Proofs.Lemmas.InprocStream

namespace InprocStream

/-- the frames a pending server write still has to put on the channel -/
def pendFrames (s : St) : List Frame := match s.sWrite with
  | some p => p.frames
  | none => []

def isFinish (s : St) : Prop := s.sWrite.map (·.kind) = some WKind.finish

/-- **Base invariant**: lock / lifecycle bookkeeping. -/
structure Base (s : St) : Prop where
  reqQ : s.reqEnq = s.reqDeq ++ s.req
  respQ : s.respEnq = s.respDeq ++ s.resp
  doneRet : s.svrDone = s.sReturned
  retRecv : s.sReturned = true → s.sRecv = false
  closedEq : s.reqClosed = s.sendClosed
  closedSend : s.sendClosed = true → s.cSend = none
  exitedEq : s.svrExited = s.respClosed
  closedW : s.respClosed = true → s.sWrite = none ∧ s.sReturned = true
  recvLast : s.cRecv.isSome = true → s.last = none
  noPanic : s.panicked = false
  finRet : isFinish s → s.sReturned = true
  retFin : s.sReturned = true → s.sWrite = none ∨ isFinish s
  hret : s.hRet.isSome = s.sReturned
  lastKind : ∀ f, s.last = some f → (∃ m, f = .data m) ∨ (∃ e, f = .err e)
  stLast : s.cState = 0 → s.last = none

macro "step_cases" hs:ident : tactic =>
  `(tactic| (simp only [step, finishWrite] at $hs:ident <;> (repeat' split at $hs:ident) <;> simp_all))

set_option maxHeartbeats 4000000 in
theorem base_step (s : St) (a : Act) (s' : St) (evs : List Ev) (h : Base s) (hs : step s a = some (s', evs)) :
    Base s' := by
  obtain ⟨h1, h2, h3, h4, h5, h6, h7, h8, h9, h10, h11, h12, h13, h14, h15⟩ := h
  cases a <;> simp only [step, finishWrite] at hs <;> (repeat' split at hs) <;>
    (try (simp only [Option.some.injEq, Prod.mk.injEq, reduceCtorEq] at hs)) <;>
    (try (obtain ⟨rfl, rfl⟩ := hs)) <;>
    (first | (exfalso; assumption) | (constructor <;> simp_all [isFinish]))
  all_goals (cases hl : s.last with
    | none => rfl
    | some f => rcases h14 f hl with ⟨m, rfl⟩ | ⟨e, rfl⟩ <;> simp_all)

theorem base_init (c1 c2 : Nat) (rs : Bool) : Base (init c1 c2 rs) := by
  constructor <;> simp [init, isFinish]

theorem base_reachable (c1 c2 : Nat) (rs : Bool) (s : St) (h : Reachable c1 c2 rs s) : Base s :=
  reachable_induction c1 c2 rs Base (base_init c1 c2 rs) base_step s h

end InprocStream
