/- HttpUnary: what the handler set is what the reply carries (helper lemmas for C02 / C03) -/
import Model.HttpUnary

namespace HttpUnary
open InprocStream (HErr Reason Res codeOf)

theorem runOps_facts (ops : List HOp) : ∀ (s : Sts),
    (runOps s ops).1.hdrs = s.hdrs ++ okHdr ops (runOps s ops).2 ∧ (runOps s ops).1.tlrs = s.tlrs ++ trailersSet ops := by
  induction ops with
  | nil => intro s; simp [runOps, okHdr, trailersSet]
  | cons op rest ih =>
    intro s
    cases op with
    | setHeader md =>
      simp only [runOps, hstep]
      split
      · have := ih s; simp only [okHdr, trailersSet]; exact this
      · have := ih { s with hdrs := s.hdrs ++ [md] }
        simp only [okHdr, trailersSet]
        simp only [List.append_assoc, List.singleton_append] at this
        exact this
    | sendHeader md =>
      simp only [runOps, hstep]
      split
      · have := ih s; simp only [okHdr, trailersSet]; exact this
      · have := ih { s with hdrs := s.hdrs ++ [md], hdrsSent := true }
        simp only [okHdr, trailersSet]
        simp only [List.append_assoc, List.singleton_append] at this
        exact this
    | setTrailer md =>
      simp only [runOps, hstep]
      have := ih { s with tlrs := s.tlrs ++ [md] }
      simp only [okHdr, trailersSet]
      simp only [List.append_assoc, List.singleton_append] at this
      exact this
    | setStatusHeader c =>
      simp only [runOps, hstep]
      split
      · have := ih s; simp only [okHdr, trailersSet]; exact this
      · have := ih { s with spoof := (match s.spoof with | some x => some x | none => some c) }
        simp only [okHdr, trailersSet]
        exact this

/-- without a status-header collision nothing is put under the protocol's status header name -/
theorem runOps_noSpoof (ops : List HOp) : ∀ (s : Sts), noStatusHeader ops = true → (runOps s ops).1.spoof = s.spoof := by
  induction ops with
  | nil => intro s _; rfl
  | cons op rest ih =>
    intro s h
    cases op with
    | setHeader md => simp only [noStatusHeader] at h; simp only [runOps, hstep]; split <;> simp [ih _ h]
    | sendHeader md => simp only [noStatusHeader] at h; simp only [runOps, hstep]; split <;> simp [ih _ h]
    | setTrailer md => simp only [noStatusHeader] at h; simp only [runOps, hstep]; simp [ih _ h]
    | setStatusHeader c => simp [noStatusHeader] at h

theorem unaryCode_ne_zero (e : HErr) : unaryCode e ≠ 0 := by
  cases e with
  | status c => by_cases h0 : c = 0 <;> simp [unaryCode, baseCode, Gen.unaryOkRewrite, h0]
  | plain => simp [unaryCode, baseCode]
  | ctx r => cases r <;> simp [unaryCode, baseCode, codeOf]

/-- the unary and the stream handler render the same code for the same error -/
theorem unaryCode_eq_trailerCode (e : HErr) : unaryCode e = HttpServerStream.trailerCode (some e) := by
  cases e with
  | status c => by_cases h0 : c = 0 <;> simp [unaryCode, baseCode, HttpServerStream.trailerCode, Gen.unaryOkRewrite, Gen.streamOkRewrite, h0]
  | plain => simp [unaryCode, baseCode, HttpServerStream.trailerCode]
  | ctx r => cases r <;> simp [unaryCode, baseCode, HttpServerStream.trailerCode, codeOf]

end HttpUnary
