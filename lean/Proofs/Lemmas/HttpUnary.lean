/- HttpUnary: what the handler set is what the reply carries (helper lemmas for C02 / C03) -/
import Model.HttpUnary

namespace HttpUnary
open InprocStream (HErr Reason Res codeOf)

theorem runOps_facts (ops : List HOp) : ∀ (s : Sts),
    (runOps s ops).1.hdrs = s.hdrs ++ okHdr ops (runOps s ops).2 ∧ (runOps s ops).1.tlrs = s.tlrs ++ trailersSet ops := by
  induction ops with
  | nil => intro s; simp [runOps, okHdr, trailersSet]
  | cons op rest ih =>
    intro s
    cases op with
    | setHeader md =>
      simp only [runOps, hstep]
      split
      · have := ih s; simp only [okHdr, trailersSet]; exact this
      · have := ih { s with hdrs := s.hdrs ++ [md] }
        simp only [okHdr, trailersSet]
        simp only [List.append_assoc, List.singleton_append] at this
        exact this
    | sendHeader md =>
      simp only [runOps, hstep]
      split
      · have := ih s; simp only [okHdr, trailersSet]; exact this
      · have := ih { s with hdrs := s.hdrs ++ [md], hdrsSent := true }
        simp only [okHdr, trailersSet]
        simp only [List.append_assoc, List.singleton_append] at this
        exact this
    | setTrailer md =>
      simp only [runOps, hstep]
      have := ih { s with tlrs := s.tlrs ++ [md] }
      simp only [okHdr, trailersSet]
      simp only [List.append_assoc, List.singleton_append] at this
      exact this

theorem unaryCode_ne_zero (e : HErr) : unaryCode e ≠ 0 := by
  cases e with
  | status c => by_cases h0 : c = 0 <;> simp [unaryCode, baseCode, Gen.unaryOkRewrite, h0]
  | plain => simp [unaryCode, baseCode]
  | ctx r => cases r <;> simp [unaryCode, baseCode, codeOf]

/-- the unary and the stream handler render the same code for the same error -/
theorem unaryCode_eq_trailerCode (e : HErr) : unaryCode e = HttpServerStream.trailerCode (some e) := by
  cases e with
  | status c => by_cases h0 : c = 0 <;> simp [unaryCode, baseCode, HttpServerStream.trailerCode, Gen.unaryOkRewrite, Gen.streamOkRewrite, h0]
  | plain => simp [unaryCode, baseCode, HttpServerStream.trailerCode]
  | ctx r => cases r <;> simp [unaryCode, baseCode, HttpServerStream.trailerCode, codeOf]

end HttpUnary
