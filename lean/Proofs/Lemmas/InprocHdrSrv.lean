/-
  Server side of the header frame in the InprocStream system (helper lemmas for C03; under a
  live context): there is at most one headers frame, it is the first frame of the response
  stream, it precedes every data frame, and it carries everything the handler's successful
  SetHeader / SendHeader calls set.
-/
import Proofs.Lemmas.InprocHdr
import Proofs.Lemmas.InprocSrv

namespace InprocStream

def isHdr : Frame → Bool | .headers _ => true | _ => false
def isDat : Frame → Bool | .data _ => true | _ => false
/-- no headers frame / no data frame in the list -/
def nHdr (l : List Frame) : Bool := !(l.any isHdr)
def nDat (l : List Frame) : Bool := !(l.any isDat)
/-- the list starts with the headers frame carrying `h` (non-empty) and has no other headers frame -/
def hdrHead (h : List Nat) : List Frame → Bool
  | .headers x :: r => x == h && !h.isEmpty && nHdr r
  | _ => false

@[simp] theorem nHdr_nil : nHdr [] = true := rfl
@[simp] theorem nDat_nil : nDat [] = true := rfl
@[simp] theorem nHdr_cons (f : Frame) (r : List Frame) : nHdr (f :: r) = (!isHdr f && nHdr r) := by simp [nHdr]
@[simp] theorem nDat_cons (f : Frame) (r : List Frame) : nDat (f :: r) = (!isDat f && nDat r) := by simp [nDat]
@[simp] theorem nHdr_append (a b : List Frame) : nHdr (a ++ b) = (nHdr a && nHdr b) := by simp [nHdr, List.any_append]
@[simp] theorem nDat_append (a b : List Frame) : nDat (a ++ b) = (nDat a && nDat b) := by simp [nDat, List.any_append]
@[simp] theorem isHdr_h (m : List Nat) : isHdr (.headers m) = true := rfl
@[simp] theorem isHdr_d (m : Nat) : isHdr (.data m) = false := rfl
@[simp] theorem isHdr_t (m : List Nat) : isHdr (.trailers m) = false := rfl
@[simp] theorem isHdr_e (e : HErr) : isHdr (.err e) = false := rfl
@[simp] theorem isDat_h (m : List Nat) : isDat (.headers m) = false := rfl
@[simp] theorem isDat_d (m : Nat) : isDat (.data m) = true := rfl
@[simp] theorem isDat_t (m : List Nat) : isDat (.trailers m) = false := rfl
@[simp] theorem isDat_e (e : HErr) : isDat (.err e) = false := rfl
@[simp] theorem hdrHead_nil (h : List Nat) : hdrHead h [] = false := rfl
@[simp] theorem hdrHead_h (h x : List Nat) (r : List Frame) : hdrHead h (.headers x :: r) = (x == h && !h.isEmpty && nHdr r) := rfl
@[simp] theorem hdrHead_d (h : List Nat) (m : Nat) (r : List Frame) : hdrHead h (.data m :: r) = false := rfl
@[simp] theorem hdrHead_t (h x : List Nat) (r : List Frame) : hdrHead h (.trailers x :: r) = false := rfl
@[simp] theorem hdrHead_e (h : List Nat) (e : HErr) (r : List Frame) : hdrHead h (.err e :: r) = false := rfl

theorem hdrHead_snoc_nonhdr (h : List Nat) (l : List Frame) (f : Frame) (hf : isHdr f = false) :
    hdrHead h (l ++ [f]) = hdrHead h l := by
  cases l with
  | nil => cases f <;> simp_all
  | cons g r => cases g <;> simp_all
@[simp] theorem hdrHead_snoc_d (h : List Nat) (l : List Frame) (m : Nat) : hdrHead h (l ++ [.data m]) = hdrHead h l :=
  hdrHead_snoc_nonhdr h l _ rfl
@[simp] theorem hdrHead_snoc_t (h : List Nat) (l : List Frame) (m : List Nat) : hdrHead h (l ++ [.trailers m]) = hdrHead h l :=
  hdrHead_snoc_nonhdr h l _ rfl
@[simp] theorem hdrHead_snoc_e (h : List Nat) (l : List Frame) (e : HErr) : hdrHead h (l ++ [.err e]) = hdrHead h l :=
  hdrHead_snoc_nonhdr h l _ rfl

theorem hdrHead_snoc (h : List Nat) (l : List Frame) (f : Frame) (hh : hdrHead h l = true) (hf : isHdr f = false) :
    hdrHead h (l ++ [f]) = true := by
  cases l with
  | nil => simp at hh
  | cons g r => cases g <;> simp_all

structure HdrS (s : St) : Prop where
  /-- before the header block is committed: nothing but (possibly) closing frames is on the stream -/
  a1 : s.ctx = none → s.sState = 0 → nHdr s.respEnq = true ∧ nDat s.respEnq = true ∧ (s.respEnq = [] ∨ nHdr (pendFrames s) = true)
  a5 : s.ctx = none → s.sState = 0 → s.sReturned = false → s.respEnq = []
  a2 : s.ctx = none → s.sState = 0 → s.sHeaders = s.hdrAll
  a3 : s.ctx = none → s.sState = 0 → pendFrames s = [] ∨ hdrHead s.sHeaders (pendFrames s) = true ∨
         (s.sReturned = true ∧ nHdr (pendFrames s) = true ∧ nDat (pendFrames s) = true)
  a4 : s.ctx = none → s.sState = 0 → s.sReturned = true → nHdr (pendFrames s) = true → s.hdrAll = []
  /-- after it: the pending frames hold no headers frame, and the stream starts with the one headers frame -/
  b1 : s.ctx = none → s.sState ≠ 0 → nHdr (pendFrames s) = true
  b2 : s.ctx = none → s.sState ≠ 0 → (s.hdrAll = [] ∧ nHdr s.respEnq = true) ∨ hdrHead s.hdrAll s.respEnq = true

set_option maxRecDepth 4096 in
theorem hdrs_init (c1 c2 : Nat) (rs : Bool) : HdrS (init c1 c2 rs) := by
  constructor <;> simp [init, pendFrames]

set_option maxRecDepth 4096 in
set_option maxHeartbeats 8000000 in
theorem hdrs_step (s : St) (a : Act) (s' : St) (evs : List Ev) (hb : Base s) (h : HdrS s)
    (hs : step s a = some (s', evs)) : HdrS s' := by
  have b7 := hb.exitedEq
  have b8 := hb.closedW
  have b11 := hb.finRet
  have b12 := hb.retFin
  obtain ⟨r1, r0, r2, r3, r4, r5, r6⟩ := h
  cases a with
  | sReturn e =>
    simp only [step] at hs
    split at hs
    · simp at hs
    · rename_i hcond
      simp only [Option.some.injEq, Prod.mk.injEq] at hs
      obtain ⟨rfl, rfl⟩ := hs
      have hnr : s.sReturned = false := by
        cases hr : s.sReturned with
        | false => rfl
        | true => simp [hr] at hcond
      have hnw : s.sWrite = none := by
        cases hw : s.sWrite with
        | none => rfl
        | some p => simp [hw] at hcond
      have hp0 : pendFrames s = [] := by simp [pendFrames, hnw]
      constructor <;> simp only [pendFrames] <;> intro hc <;>
        cases hh : (s.sState == 0 && !s.sHeaders.isEmpty) <;> cases ht : s.sTrailers.isEmpty <;> cases e <;>
        simp_all <;> (try (intro h0; simp_all))
  | sWriteEnq =>
    cases hw : s.sWrite with
    | none => simp [step, hw] at hs
    | some p =>
      obtain ⟨frames, k⟩ := p
      cases frames with
      | nil => simp [step, hw] at hs
      | cons f rest =>
        cases f <;> cases rest <;> cases k <;>
        simp only [step, finishWrite, hw] at hs <;> (repeat' split at hs) <;>
        (try (simp only [Option.some.injEq, Prod.mk.injEq, reduceCtorEq] at hs)) <;>
        (try (obtain ⟨rfl, rfl⟩ := hs)) <;>
        (first | (exfalso; assumption)
               | (constructor <;>
                   (try (simp_all [pendFrames, isFinish, svrCtxDone])) <;> (try assumption)))
        all_goals (first | (intro hc; simp_all; done) | (intro hc; by_cases h0 : s.sState = 0 <;> simp_all))
  | sSendBegin m =>
    simp only [step, finishWrite] at hs <;> (repeat' split at hs) <;>
    (try (simp only [Option.some.injEq, Prod.mk.injEq, reduceCtorEq] at hs)) <;>
    (try (obtain ⟨rfl, rfl⟩ := hs)) <;>
    (first | (exfalso; assumption)
           | (constructor <;>
               (try (simp_all [pendFrames, isFinish, svrCtxDone])) <;> (try assumption)))
    all_goals (first | (intro hc; simp_all; done) | (intro hc; by_cases h0 : s.sState = 0 <;> simp_all))
  | sSendHeader md =>
    simp only [step, finishWrite] at hs <;> (repeat' split at hs) <;>
    (try (simp only [Option.some.injEq, Prod.mk.injEq, reduceCtorEq] at hs)) <;>
    (try (obtain ⟨rfl, rfl⟩ := hs)) <;>
    (first | (exfalso; assumption)
           | (constructor <;>
               (try (simp_all [pendFrames, isFinish, svrCtxDone])) <;> (try assumption)))
    all_goals (first | (intro hc; simp_all; done) | (intro hc; by_cases h0 : s.sState = 0 <;> simp_all))
  | _ =>
    simp only [step, finishWrite] at hs <;> (repeat' split at hs) <;>
    (try (simp only [Option.some.injEq, Prod.mk.injEq, reduceCtorEq] at hs)) <;>
    (try (obtain ⟨rfl, rfl⟩ := hs)) <;>
    (first | (exfalso; assumption)
           | (constructor <;>
               (try (simp_all [pendFrames, isFinish, svrCtxDone])) <;> (try assumption)))
    all_goals (first | (intro hc; simp_all; done) | (intro hc; by_cases h0 : s.sState = 0 <;> simp_all))

/-! ### reading the header block back from a prefix of the stream -/

theorem hdr_foldl_nHdr (l : List Frame) (acc : List Nat) (h : nHdr l = true) :
    l.foldl (fun acc f => match f with | .headers md => md | _ => acc) acc = acc := by
  induction l generalizing acc with
  | nil => rfl
  | cons f r ih =>
    cases f <;> simp at h
    all_goals (simp only [List.foldl_cons]; exact ih _ h)

theorem hdrOf_nHdr (l : List Frame) (h : nHdr l = true) : hdrOf l = [] := hdr_foldl_nHdr l [] h

theorem hdrOf_hdrHead (hd : List Nat) (l : List Frame) (h : hdrHead hd l = true) : hdrOf l = hd := by
  cases l with
  | nil => simp at h
  | cons f r =>
    cases f <;> simp at h
    obtain ⟨⟨rfl, _⟩, hr⟩ := h
    simp only [hdrOf, List.foldl_cons]
    exact hdr_foldl_nHdr r _ hr

theorem hdrHead_prefix (hd : List Nat) (a b : List Frame) (h : hdrHead hd (a ++ b) = true) (ha : a ≠ []) :
    hdrHead hd a = true := by
  cases a with
  | nil => exact absurd rfl ha
  | cons f r =>
    cases f <;> simp at h ⊢
    exact ⟨h.1, h.2.1⟩

end InprocStream
