/-
  Invariants of the HttpServerStream system (server side of an HTTP streaming call): the shape of
  what reaches the wire, the header block, the trailer's content, and the request side.
-/
import Model.HttpServerStream

namespace HttpServerStream
open InprocStream (HErr Reason Res codeOf)

def isData : Out → Bool | .data _ => true | _ => false
def isTrailer : Out → Bool | .trailer _ _ => true | _ => false

/-- data frames, then at most one trailer frame, which is last -/
def framesOK : List Out → Bool
  | [] => true
  | [.trailer _ _] => true
  | .data _ :: r => framesOK r
  | _ => false

/-- nothing, or the header block followed by well-formed frames -/
def wellFormed : List Out → Bool
  | [] => true
  | .head _ :: r => framesOK r
  | _ => false

def allData (l : List Out) : Bool := l.all isData

theorem allData_cons (f : Out) (r : List Out) : allData (f :: r) = (isData f && allData r) := by
  simp [allData]

theorem framesOK_of_allData (l : List Out) (h : allData l = true) : framesOK l = true := by
  induction l with
  | nil => rfl
  | cons f r ih =>
    rw [allData_cons, Bool.and_eq_true] at h
    obtain ⟨hf, hr⟩ := h
    cases f with
    | data m => simp only [framesOK]; exact ih hr
    | head _ => simp [isData] at hf
    | trailer _ _ => simp [isData] at hf

theorem framesOK_snoc_data (l : List Out) (m : Nat) (h : allData l = true) : allData (l ++ [.data m]) = true := by
  induction l with
  | nil => rfl
  | cons f r ih =>
    rw [allData_cons, Bool.and_eq_true] at h
    rw [List.cons_append, allData_cons, Bool.and_eq_true]
    exact ⟨h.1, ih h.2⟩

theorem framesOK_snoc_trailer (l : List Out) (c : Nat) (md : List Nat) (h : allData l = true) :
    framesOK (l ++ [.trailer c md]) = true := by
  induction l with
  | nil => rfl
  | cons f r ih =>
    rw [allData_cons, Bool.and_eq_true] at h
    obtain ⟨hf, hr⟩ := h
    cases f with
    | data m => simp only [List.cons_append, framesOK]; exact ih hr
    | head _ => simp [isData] at hf
    | trailer _ _ => simp [isData] at hf

/-- the frames after the header block -/
def frames : List Out → List Out
  | [] => []
  | _ :: r => r

/-- the decodable messages of a request body, in order -/
def dataOK : List ReqItem → List Nat
  | [] => []
  | .data m true :: r => m :: dataOK r
  | _ :: r => dataOK r

theorem dataOK_append (a b : List ReqItem) : dataOK (a ++ b) = dataOK a ++ dataOK b := by
  induction a with
  | nil => rfl
  | cons f r ih =>
    cases f with
    | cut => simpa [dataOK] using ih
    | data m d => cases d <;> simp [dataOK, ih]

structure Inv (req0 : List ReqItem) (s : St) : Prop where
  hw : s.headWritten = !s.wire.isEmpty
  hs : s.finished = false → s.headWritten = true → s.headersSent = true
  hd : s.hdrs = s.hdrOK
  head : s.headWritten = true → s.wire.head? = some (.head s.hdrOK)
  live : s.finished = false → allData (frames s.wire) = true
  wf : wellFormed s.wire = true
  reqs : ∃ t, req0 = s.consumed ++ t ∧ (s.req = t ∨ s.req = [])
  rcv0 : s.recvd = 0 → s.consumed = [] ∧ s.received = []
  single : s.clientStreams = false → s.received = [] ∨ ∃ m, s.received = [m] ∧ req0 = [.data m true]
  multi : s.clientStreams = true → s.received = dataOK s.consumed

theorem inv_init (cs : Bool) (req : List ReqItem) : Inv req (init cs req) := by
  constructor <;> simp [init, frames, allData, wellFormed, dataOK]

theorem wellFormed_head_frames (w : List Out) (h : List Nat) (hd : w.head? = some (.head h)) (hf : framesOK (frames w) = true) :
    wellFormed w = true := by
  cases w with
  | nil => simp at hd
  | cons f r => simp at hd; subst hd; simpa [wellFormed, frames] using hf

set_option maxRecDepth 4096 in
set_option maxHeartbeats 4000000 in
theorem inv_step (req0 : List ReqItem) (s : St) (a : Act) (s' : St) (r : Res) (h : Inv req0 s)
    (hst : step s a = some (s', r)) : Inv req0 s' := by
  obtain ⟨h1, h2, h3, h4, h5, h6, h7, h8, h9, h10⟩ := h
  unfold step at hst
  split at hst
  · -- finished: only the environment acts
    cases a <;> simp [stepFinished] at hst
    obtain ⟨rfl, rfl⟩ := hst
    exact ⟨h1, h2, h3, h4, h5, h6, h7, h8, h9, h10⟩
  · rename_i hfin
    have hfin' : s.finished = false := by simpa using hfin
    have hlive := h5 hfin'
    cases a with
    | breakConn =>
      simp [stepLive] at hst; obtain ⟨rfl, rfl⟩ := hst
      exact ⟨h1, h2, h3, h4, h5, h6, h7, h8, h9, h10⟩
    | setHeader md =>
      simp only [stepLive] at hst
      split at hst <;> simp at hst <;> obtain ⟨rfl, rfl⟩ := hst
      · exact ⟨h1, h2, h3, h4, h5, h6, h7, h8, h9, h10⟩
      · rename_i hns
        have hnw : s.headWritten = false := by
          cases hw : s.headWritten with
          | false => rfl
          | true => simp [h2 hfin' hw] at hns
        refine ⟨h1, h2, by simp [h3], by simp [hnw], h5, h6, h7, h8, h9, h10⟩
    | sendHeader md =>
      simp only [stepLive] at hst
      split at hst <;> simp at hst <;> obtain ⟨rfl, rfl⟩ := hst
      · exact ⟨h1, h2, h3, h4, h5, h6, h7, h8, h9, h10⟩
      · rename_i hns
        have hnw : s.headWritten = false := by
          cases hw : s.headWritten with
          | false => rfl
          | true => simp [h2 hfin' hw] at hns
        have hwe : s.wire = [] := by
          rw [hnw] at h1
          cases hww : s.wire with
          | nil => rfl
          | cons f r => simp [hww] at h1
        refine ⟨by simp, by simp, by simp [h3], by simp [hwe, h3], by simp [hwe, frames, allData], by simp [hwe, wellFormed, framesOK], h7, h8, h9, h10⟩
    | setTrailer md =>
      simp [stepLive] at hst; obtain ⟨rfl, rfl⟩ := hst
      exact ⟨h1, h2, h3, h4, h5, h6, h7, h8, h9, h10⟩
    | send m enc =>
      simp only [stepLive] at hst
      split at hst
      · simp at hst; obtain ⟨rfl, rfl⟩ := hst; exact ⟨h1, h2, h3, h4, h5, h6, h7, h8, h9, h10⟩
      · split at hst <;> simp at hst <;> obtain ⟨rfl, rfl⟩ := hst
        · exact ⟨h1, by simp, h3, h4, h5, h6, h7, h8, h9, h10⟩
        · -- a frame goes out, preceded by the header block if this is the first write
          cases hw : s.headWritten with
          | true =>
            have hne : s.wire ≠ [] := by
              rw [hw] at h1
              intro he; simp [he] at h1
            obtain ⟨f, rr, hwr⟩ := List.exists_cons_of_ne_nil hne
            have hhead := h4 hw
            refine ⟨by simp [withHead, hw, hwr], by simp, h3, ?_, ?_, ?_, h7, h8, h9, h10⟩
            · intro _; simp [withHead, hw, hwr] at hhead ⊢; exact hhead
            · intro _
              simp only [withHead, hw, hwr, frames, List.cons_append, if_true]
              rw [hwr] at hlive
              exact framesOK_snoc_data rr m (by simpa [frames] using hlive)
            · simp only [withHead, hw, if_true]
              rw [hwr] at hhead hlive ⊢
              simp at hhead; subst hhead
              simp only [List.cons_append, wellFormed]
              exact framesOK_of_allData _ (framesOK_snoc_data rr m (by simpa [frames] using hlive))
          | false =>
            have hwe : s.wire = [] := by
              rw [hw] at h1
              cases hww : s.wire with
              | nil => rfl
              | cons f r => simp [hww] at h1
            refine ⟨by simp [withHead, hw, hwe], by simp, h3, by simp [withHead, hw, hwe, h3], by simp [withHead, hw, hwe, frames, allData, isData],
              by simp [withHead, hw, hwe, wellFormed, framesOK], h7, h8, h9, h10⟩
    | recv =>
      simp only [stepLive] at hst
      split at hst
      · simp at hst; obtain ⟨rfl, rfl⟩ := hst; exact ⟨h1, h2, h3, h4, h5, h6, h7, h8, h9, h10⟩
      · rename_i hgate
        obtain ⟨t, ht1, ht2⟩ := h7
        split at hst
        · simp at hst; obtain ⟨rfl, rfl⟩ := hst
          rename_i hreq
          refine ⟨h1, h2, h3, h4, h5, h6, ⟨t, ht1, ht2⟩, by simp, h9, h10⟩
        · simp at hst; obtain ⟨rfl, rfl⟩ := hst
          rename_i rest hreq
          refine ⟨h1, h2, h3, h4, h5, h6, ?_, by simp, h9, ?_⟩
          rotate_left
          · intro hcs; simp only [dataOK_append, dataOK, List.append_nil]; exact h10 hcs
          rcases ht2 with ht2 | ht2
          · rw [hreq] at ht2; subst ht2
            exact ⟨rest, by simp [ht1], Or.inr rfl⟩
          · rw [hreq] at ht2; simp at ht2
        · rename_i m dec rest hreq
          have htt : t = .data m dec :: rest := by
            rcases ht2 with ht2 | ht2
            · rw [hreq] at ht2; exact ht2.symm
            · rw [hreq] at ht2; simp at ht2
          have hreqs : ∃ t', req0 = (s.consumed ++ [.data m dec]) ++ t' ∧ (rest = t' ∨ rest = []) :=
            ⟨rest, by simp [ht1, htt], Or.inl rfl⟩
          split at hst
          · simp at hst; obtain ⟨rfl, rfl⟩ := hst
            rename_i hdec
            have hdec' : dec = false := by simpa using hdec
            refine ⟨h1, h2, h3, h4, h5, h6, hreqs, by simp, h9, ?_⟩
            intro hcs; subst hdec'; simp only [dataOK_append, dataOK, List.append_nil]; exact h10 hcs
          · split at hst <;> simp at hst <;> obtain ⟨rfl, rfl⟩ := hst
            · rename_i hdec hmany
              refine ⟨h1, h2, h3, h4, h5, h6, hreqs, by simp, h9, ?_⟩
              intro hcs; simp only at hcs; simp [hcs] at hmany
            · rename_i hdec hmany
              have hdec'' : dec = true := by simpa using hdec
              refine ⟨h1, h2, h3, h4, h5, h6, hreqs, by simp, ?_, ?_⟩
              rotate_left
              · intro hcs; subst hdec''; simp only [dataOK_append, dataOK, List.append_nil]; rw [h10 hcs]
              intro hcs
              simp only at hcs
              right
              have hr0 : s.recvd = 0 := by
                simp [hcs] at hgate; exact hgate
              obtain ⟨hc0, hrc0⟩ := h8 hr0
              have hrest : rest = [] := by
                simp [hcs] at hmany; exact hmany
              have hdec' : dec = true := by simpa using hdec
              refine ⟨m, by simp [hrc0], ?_⟩
              simp [ht1, hc0, htt, hrest, hdec']
    | ret e =>
      simp only [stepLive] at hst
      split at hst <;> simp at hst <;> obtain ⟨rfl, rfl⟩ := hst
      · exact ⟨h1, by simp, h3, h4, by simp, h6, h7, h8, h9, h10⟩
      · cases hw : s.headWritten with
        | true =>
          have hne : s.wire ≠ [] := by
            rw [hw] at h1
            intro he; simp [he] at h1
          obtain ⟨f, rr, hwr⟩ := List.exists_cons_of_ne_nil hne
          have hhead := h4 hw
          refine ⟨by simp [withHead, hw, hwr], by simp, h3, ?_, by simp, ?_, h7, h8, h9, h10⟩
          · intro _; simp [withHead, hw, hwr] at hhead ⊢; exact hhead
          · simp only [withHead, hw, if_true]
            rw [hwr] at hhead hlive ⊢
            simp at hhead; subst hhead
            simp only [List.cons_append, wellFormed]
            exact framesOK_snoc_trailer rr _ _ (by simpa [frames] using hlive)
        | false =>
          have hwe : s.wire = [] := by
            rw [hw] at h1
            cases hww : s.wire with
            | nil => rfl
            | cons f r => simp [hww] at h1
          -- (the implicit header write at the trailer does not set headersSent; nothing follows it)
          refine ⟨by simp [withHead, hw, hwe], by simp, h3, by simp [withHead, hw, hwe, h3], by simp, by simp [withHead, hw, hwe, wellFormed, framesOK], h7, h8, h9, h10⟩

/-! ### histories -/

/-- the metadata the handler passed to SetTrailer, in call order -/
def trailersSet : List Act → List Nat
  | [] => []
  | .setTrailer md :: r => md :: trailersSet r
  | _ :: r => trailersSet r

/-- the metadata of the SetHeader / SendHeader calls that returned nil, in call order -/
def okHdr : List Act → List Res → List Nat
  | .setHeader md :: as, .ok :: rs => md :: okHdr as rs
  | .sendHeader md :: as, .ok :: rs => md :: okHdr as rs
  | _ :: as, _ :: rs => okHdr as rs
  | _, _ => []

/-- the messages RecvMsg delivered, in order -/
def msgsOf : List Res → List Nat
  | [] => []
  | .msg m :: r => m :: msgsOf r
  | _ :: r => msgsOf r

theorem step_tr (s : St) (a : Act) (s' : St) (r : Res) (h : step s a = some (s', r)) :
    s'.tr = s.tr ++ trailersSet [a] := by
  unfold step at h
  split at h
  · cases a <;> simp [stepFinished] at h
    obtain ⟨rfl, rfl⟩ := h; simp [trailersSet]
  · cases a <;> simp only [stepLive] at h <;> (repeat' split at h) <;> simp at h <;> (try (obtain ⟨rfl, rfl⟩ := h)) <;> simp [trailersSet]

theorem step_hdr (s : St) (a : Act) (s' : St) (r : Res) (h : step s a = some (s', r)) :
    s'.hdrOK = s.hdrOK ++ okHdr [a] [r] := by
  unfold step at h
  split at h
  · cases a <;> simp [stepFinished] at h
    obtain ⟨rfl, rfl⟩ := h; simp [okHdr]
  · cases a <;> simp only [stepLive] at h <;> (repeat' split at h) <;> simp at h <;> (try (obtain ⟨rfl, rfl⟩ := h)) <;> simp [okHdr]

theorem step_received (s : St) (a : Act) (s' : St) (r : Res) (h : step s a = some (s', r)) :
    s'.received = s.received ++ msgsOf [r] := by
  unfold step at h
  split at h
  · cases a <;> simp [stepFinished] at h
    obtain ⟨rfl, rfl⟩ := h; simp [msgsOf]
  · cases a <;> simp only [stepLive] at h <;> (repeat' split at h) <;> simp at h <;> (try (obtain ⟨rfl, rfl⟩ := h)) <;> simp [msgsOf]

theorem trailersSet_cons (a : Act) (r : List Act) : trailersSet (a :: r) = trailersSet [a] ++ trailersSet r := by
  cases a <;> simp [trailersSet]

theorem okHdr_cons (a : Act) (as : List Act) (r : Res) (rs : List Res) : okHdr (a :: as) (r :: rs) = okHdr [a] [r] ++ okHdr as rs := by
  cases a <;> cases r <;> simp [okHdr]

theorem msgsOf_cons (r : Res) (rs : List Res) : msgsOf (r :: rs) = msgsOf [r] ++ msgsOf rs := by
  cases r <;> simp [msgsOf]

theorem run_cons {s : St} {a : Act} {acts : List Act} {s' : St} {rs : List Res} (h : run s (a :: acts) = some (s', rs)) :
    ∃ s1 r rs', step s a = some (s1, r) ∧ run s1 acts = some (s', rs') ∧ rs = r :: rs' := by
  simp only [run] at h
  split at h
  · rename_i s1 r hs
    split at h
    · rename_i s2 rs2 hr
      simp at h; obtain ⟨rfl, rfl⟩ := h
      exact ⟨s1, r, rs2, hs, hr, rfl⟩
    · simp at h
  · simp at h

theorem run_facts (req0 : List ReqItem) (acts : List Act) : ∀ (s : St) (s' : St) (rs : List Res), Inv req0 s → run s acts = some (s', rs) →
    Inv req0 s' ∧ s'.tr = s.tr ++ trailersSet acts ∧ s'.hdrOK = s.hdrOK ++ okHdr acts rs ∧ s'.received = s.received ++ msgsOf rs := by
  induction acts with
  | nil => intro s s' rs hi h; simp [run] at h; obtain ⟨rfl, rfl⟩ := h; simp [trailersSet, okHdr, msgsOf, hi]
  | cons a acts ih =>
    intro s s' rs hi h
    obtain ⟨s1, r, rs', hs, hr, rfl⟩ := run_cons h
    obtain ⟨i2, t2, h2, m2⟩ := ih s1 s' rs' (inv_step req0 s a s1 r hi hs) hr
    refine ⟨i2, ?_, ?_, ?_⟩
    · rw [t2, step_tr s a s1 r hs, trailersSet_cons a acts, List.append_assoc]
    · rw [h2, step_hdr s a s1 r hs, okHdr_cons a acts r rs', List.append_assoc]
    · rw [m2, step_received s a s1 r hs, msgsOf_cons r rs', List.append_assoc]

/-- the trailer says OK only if the handler returned nil -/
theorem trailerCode_zero (e : Option HErr) : trailerCode e = 0 → e = none := by
  intro h
  cases e with
  | none => rfl
  | some x =>
    cases x with
    | status c => simp only [trailerCode, Gen.streamOkRewrite] at h; split at h <;> simp_all
    | plain => simp [trailerCode] at h
    | ctx r => cases r <;> simp [trailerCode, codeOf] at h

/-- A reply over an intact connection: the header block with exactly the metadata of the successful
    SetHeader/SendHeader calls, then data frames only, then one trailer frame carrying the handler's
    status code and every SetTrailer metadata in call order. -/
theorem reply_complete (cs : Bool) (req : List ReqItem) (acts : List Act) (s1 : St) (rs : List Res) (e : Option HErr)
    (s : St) (r : Res) (h1 : run (init cs req) acts = some (s1, rs)) (h2 : step s1 (.ret e) = some (s, r))
    (hw : s.writeFailed = false) (hc : s.connBroken = false) :
    ∃ fs, allData fs = true ∧ s.wire = .head (okHdr acts rs) :: (fs ++ [.trailer (trailerCode e) (trailersSet acts)]) := by
  obtain ⟨hi, ht, hh, _⟩ := run_facts req acts (init cs req) s1 rs (inv_init cs req) h1
  simp only [init, List.nil_append] at ht hh
  unfold step at h2
  split at h2
  · simp [stepFinished] at h2
  · rename_i hfin
    have hfin' : s1.finished = false := by simpa using hfin
    simp only [stepLive] at h2
    split at h2 <;> simp at h2 <;> obtain ⟨rfl, rfl⟩ := h2
    · rename_i hbad; simp at hw hc; simp [hw, hc] at hbad
    · have hlive := hi.live hfin'
      cases hwr : s1.headWritten with
      | false =>
        have hwe : s1.wire = [] := by
          have := hi.hw; rw [hwr] at this
          cases hww : s1.wire with
          | nil => rfl
          | cons f r => simp [hww] at this
        refine ⟨[], rfl, ?_⟩
        simp [withHead, hwr, hwe, hi.hd, hh, ht]
      | true =>
        have hhead := hi.head hwr
        cases hww : s1.wire with
        | nil => simp [hww] at hhead
        | cons f fs =>
          rw [hww] at hhead hlive
          simp at hhead; subst hhead
          refine ⟨fs, by simpa [frames] using hlive, ?_⟩
          simp [withHead, hwr, hww, hh, ht]

end HttpServerStream
