/-
  The error frame: it carries exactly what the handler returned, it is sent unless the context ended, and the client that took it is closed.
-/
import Proofs.Lemmas.InprocRespDefs

namespace InprocStream

structure StatInv (s : St) : Prop where
  errEnq : ∀ e, Frame.err e ∈ s.respEnq → s.hRet = some (some e)
  errPend : ∀ e, Frame.err e ∈ pendFrames s → s.hRet = some (some e)
  errLast : ∀ e, s.last = some (.err e) → s.hRet = some (some e) ∨ (e = .status 13 ∧ s.respStream = false)
  errSent : s.ctx = none → ∀ e, s.hRet = some (some e) → Frame.err e ∈ s.respEnq ∨ Frame.err e ∈ pendFrames s
  errSeen : s.ctx = none → ∀ e, Frame.err e ∈ s.respDeq → lastIsErr s = true
  probeSingle : ∀ m, s.cRecv = some (.probe m) → s.respStream = false

theorem stat_init (c1 c2 : Nat) (rs : Bool) : StatInv (init c1 c2 rs) := by
  constructor <;> simp [init, pendData, pendFrames, held, frozen, lastIsErr, isFinish]

set_option maxHeartbeats 8000000 in
theorem stat_step (s : St) (a : Act) (s' : St) (evs : List Ev) (hb : Base s) (h : StatInv s)
    (hs : step s a = some (s', evs)) : StatInv s' := by
  obtain ⟨b1, b2, b3, b4, b5, b6, b7, b8, b9, b10, b11, b12, b13, b14, b15⟩ := hb
  obtain ⟨r1, r2, r3, r4, r5, r6⟩ := h
  cases a <;> simp only [step, finishWrite] at hs <;> (repeat' split at hs) <;>
    (try (simp only [Option.some.injEq, Prod.mk.injEq, reduceCtorEq] at hs)) <;>
    (try (obtain ⟨rfl, rfl⟩ := hs)) <;>
    (first | (exfalso; assumption)
           | (constructor <;>
               simp_all [pendData, pendFrames, held, frozen, lastIsErr, isFinish, svrCtxDone, prefix_app_right] <;>
               (try assumption)))
  all_goals (first | assumption | grind [dataOf_cons_split, pre_cut1, pre_cut2, pre_cut3, List.append_eq_nil_iff])

end InprocStream
