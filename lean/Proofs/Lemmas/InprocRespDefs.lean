/-
  Definitions shared by the response-direction invariants of the InprocStream system.
-/
import Proofs.Lemmas.InprocReq

namespace InprocStream

def dataOf : List Frame → List Nat
  | [] => []
  | .data m :: r => m :: dataOf r
  | _ :: r => dataOf r

@[simp] theorem dataOf_nil : dataOf [] = [] := rfl
@[simp] theorem dataOf_data (m : Nat) (r : List Frame) : dataOf (.data m :: r) = m :: dataOf r := rfl
@[simp] theorem dataOf_headers (m : List Nat) (r : List Frame) : dataOf (.headers m :: r) = dataOf r := rfl
@[simp] theorem dataOf_trailers (m : List Nat) (r : List Frame) : dataOf (.trailers m :: r) = dataOf r := rfl
@[simp] theorem dataOf_err (e : HErr) (r : List Frame) : dataOf (.err e :: r) = dataOf r := rfl
@[simp] theorem dataOf_append (a b : List Frame) : dataOf (a ++ b) = dataOf a ++ dataOf b := by
  induction a with
  | nil => simp
  | cons f r ih => cases f <;> simp [ih]

/-- messages the client has taken off the channel but not yet returned from a RecvMsg -/
def held (s : St) : List Nat :=
  (match s.last with | some (.data m) => [m] | _ => []) ++
  (match s.cRecv with | some (.probe m) => [m] | _ => [])

def lastIsErr (s : St) : Bool := match s.last with
  | some (.err _) => true
  | _ => false

/-- once the context is done, or the client has seen the final error, nothing more is delivered -/
def frozen (s : St) : Bool := s.ctx.isSome || lastIsErr s

def pendData (s : St) : List Nat := dataOf (pendFrames s)

theorem dataOf_cons_split (f : Frame) (r : List Frame) : dataOf (f :: r) = dataOf [f] ++ dataOf r := by
  cases f <;> simp

theorem pre_cut1 {a b c d x : List Nat} (h : a ++ (b ++ (c ++ d)) <+: x) : a ++ (b ++ c) <+: x := by
  have : a ++ (b ++ (c ++ d)) = (a ++ (b ++ c)) ++ d := by simp
  rw [this] at h
  exact (List.prefix_append _ _).trans h

theorem pre_cut2 {a b c x : List Nat} (h : a ++ (b ++ c) <+: x) : a ++ b <+: x := by
  have : a ++ (b ++ c) = (a ++ b) ++ c := by simp
  rw [this] at h
  exact (List.prefix_append _ _).trans h

theorem pre_cut3 {a b x : List Nat} (h : a ++ b <+: x) : a <+: x :=
  (List.prefix_append _ _).trans h

end InprocStream
