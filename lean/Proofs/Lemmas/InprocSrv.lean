/-
  Server side of the response direction: what the handler handed to SendMsg vs. the data frames put on the channel.
-/
import Proofs.Lemmas.InprocRespDefs

namespace InprocStream

structure SrvInv (s : St) : Prop where
  sPre : dataOf s.respEnq ++ pendData s <+: s.sOffered
  sLive : s.ctx = none → s.sOffered = dataOf s.respEnq ++ pendData s
  finNoData : isFinish s → pendData s = []

theorem srv_init (c1 c2 : Nat) (rs : Bool) : SrvInv (init c1 c2 rs) := by
  constructor <;> simp [init, pendData, pendFrames, held, frozen, lastIsErr, isFinish]

set_option maxHeartbeats 8000000 in
theorem srv_step (s : St) (a : Act) (s' : St) (evs : List Ev) (hb : Base s) (h : SrvInv s)
    (hs : step s a = some (s', evs)) : SrvInv s' := by
  obtain ⟨b1, b2, b3, b4, b5, b6, b7, b8, b9, b10, b11, b12, b13, b14, b15⟩ := hb
  obtain ⟨r1, r2, r3⟩ := h
  cases a <;> simp only [step, finishWrite] at hs <;> (repeat' split at hs) <;>
    (try (simp only [Option.some.injEq, Prod.mk.injEq, reduceCtorEq] at hs)) <;>
    (try (obtain ⟨rfl, rfl⟩ := hs)) <;>
    (first | (exfalso; assumption)
           | (constructor <;>
               simp_all [pendData, pendFrames, held, frozen, lastIsErr, isFinish, svrCtxDone, prefix_app_right] <;>
               (try assumption)))
  all_goals (first | assumption | grind [dataOf_cons_split, pre_cut1, pre_cut2, pre_cut3, List.append_eq_nil_iff])

end InprocStream
