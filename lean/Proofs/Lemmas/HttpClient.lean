/-
  Invariants of the HttpClientStream transition system (helper lemmas for the HTTP clauses of
  C01, C02, C04, C05, C08).
-/
import Model.HttpClientStream

namespace HttpClientStream
open InprocStream (Reason Res codeOf)

def Reachable (rs : Bool) (s : St) : Prop := ∃ acts, run (init rs) acts = some s

theorem run_induction (P : St → Prop)
    (hstep : ∀ s a s' evs, P s → step s a = some (s', evs) → P s') :
    ∀ (acts : List Act) (s0 s : St), P s0 → run s0 acts = some s → P s := by
  intro acts
  induction acts with
  | nil => intro s0 s h0 hr; simp [run] at hr; exact hr ▸ h0
  | cons a rest ih =>
    intro s0 s h0 hr
    simp only [run] at hr
    cases hs : step s0 a with
    | none => rw [hs] at hr; simp at hr
    | some p =>
      obtain ⟨s1, evs⟩ := p
      rw [hs] at hr
      exact ih s1 s (hstep s0 a s1 evs h0 hs) hr

theorem reachable_induction (rs : Bool) (P : St → Prop) (h0 : P (init rs))
    (hstep : ∀ s a s' evs, P s → step s a = some (s', evs) → P s') : ∀ s, Reachable rs s → P s := by
  intro s ⟨acts, hr⟩
  exact run_induction P hstep acts _ s h0 hr

/-- decodable data messages still in the body, in order -/
def dataOK : List Item → List Nat
  | [] => []
  | .data m true :: r => m :: dataOK r
  | _ :: r => dataOK r

@[simp] theorem dataOK_nil : dataOK [] = [] := rfl
@[simp] theorem dataOK_cons_ok (m : Nat) (r : List Item) : dataOK (.data m true :: r) = m :: dataOK r := rfl
@[simp] theorem dataOK_cons_bad (m : Nat) (r : List Item) : dataOK (.data m false :: r) = dataOK r := rfl
@[simp] theorem dataOK_cons_tr (c : Nat) (b : Bool) (r : List Item) : dataOK (.trailer c b :: r) = dataOK r := rfl
@[simp] theorem dataOK_cons_x (r : List Item) : dataOK (.bad :: r) = dataOK r := rfl
@[simp] theorem dataOK_append (a b : List Item) : dataOK (a ++ b) = dataOK a ++ dataOK b := by
  induction a with
  | nil => simp
  | cons f r ih => cases f with
    | data m ok => cases ok <;> simp [ih]
    | trailer c b => simp [ih]
    | bad => simp [ih]

def holdList (s : St) : List Nat := if s.pc = 2 ∧ s.holdingOK = true then [s.holding] else []

def isTr : Item → Bool | .trailer _ _ => true | _ => false
def hasTr (l : List Item) : Bool := l.any isTr
/-- is there a trailer item that is not the last item? -/
def trNotLast : List Item → Bool
  | [] => false
  | i :: r => (isTr i && !r.isEmpty) || trNotLast r

@[simp] theorem hasTr_nil : hasTr [] = false := rfl
@[simp] theorem hasTr_cons (i : Item) (r : List Item) : hasTr (i :: r) = (isTr i || hasTr r) := by simp [hasTr]
@[simp] theorem hasTr_append (a b : List Item) : hasTr (a ++ b) = (hasTr a || hasTr b) := by simp [hasTr, List.any_append]
@[simp] theorem trNotLast_nil : trNotLast [] = false := rfl
@[simp] theorem trNotLast_cons (i : Item) (r : List Item) : trNotLast (i :: r) = ((isTr i && !r.isEmpty) || trNotLast r) := rfl
@[simp] theorem isTr_t (c : Nat) (b : Bool) : isTr (.trailer c b) = true := rfl
@[simp] theorem isTr_d (m : Nat) (b : Bool) : isTr (.data m b) = false := rfl
@[simp] theorem isTr_b : isTr .bad = false := rfl
theorem trNotLast_snoc (l : List Item) (i : Item) : trNotLast (l ++ [i]) = (trNotLast l || hasTr l) := by
  induction l with
  | nil => simp
  | cons g r ih =>
    simp only [List.cons_append, trNotLast_cons, ih, hasTr_cons]
    cases isTr g <;> cases r <;> simp
    all_goals (rename_i a b; cases trNotLast (a :: b) <;> cases hasTr b <;> cases isTr a <;> simp)

theorem dataOK_single_not (i : Item) (h : ∀ m, ¬ i = .data m true) : dataOK [i] = [] := by
  cases i with
  | data m ok => cases ok <;> simp_all
  | trailer c b => simp
  | bad => simp

theorem isTr_not (i : Item) (h : ∀ c, ¬ i = .trailer c false ∧ ¬ i = .trailer c true) : isTr i = false := by
  cases i with
  | data m ok => simp
  | trailer c b => cases b <;> simp_all
  | bad => simp

theorem dataOK_cons_if (m : Nat) (ok : Bool) (r : List Item) : dataOK (.data m ok :: r) = (if ok = true then [m] else []) ++ dataOK r := by
  cases ok <;> simp

structure HInv (s : St) : Prop where
  closedDone : s.rChClosed = true → s.done = true
  noPanic : s.panicked = false
  exited : s.pc = 3 → s.rChClosed = true ∧ s.pipeClosed = true
  pcle : s.pc ≤ 3
  pc0 : s.pc = 0 → s.replied = false ∧ s.body = [] ∧ s.done = false ∧ s.supplied = [] ∧ s.delivered = [] ∧ s.dropped = false ∧ s.trailerSupplied = false ∧ s.sawTrailerOK = false ∧ s.rErr = none ∧ s.tr = none ∧ (s.cRecv = none ∨ s.cRecv = some .first)
  doneRecv : s.done = true → s.cRecv = none ∨ s.pc = 3
  droppedDone : s.dropped = true → s.done = true ∧ s.rErr.isSome = true
  doneTr : s.done = true → s.rErr = none → s.tr.isSome = true
  trOK : s.tr = some 0 → s.sawTrailerOK = true
  probeSingle : ∀ m, s.cRecv = some (.probe m) → s.respStream = false
  violSingle : s.cRecv = some .violation → s.respStream = false
  pre : s.respStream = true → s.delivered <+: s.supplied
  live : s.respStream = true → s.dropped = false → s.supplied = s.delivered ++ holdList s ++ dataOK s.body
  sawSup : s.sawTrailerOK = true → s.trailerSupplied = true ∧ s.pc = 3 ∧ s.body = []
  tsup : s.trailerSupplied = false → hasTr s.body = false
  tlast : trNotLast s.body = false
  rErrNotEof : s.rErr ≠ some .eof
  rdErrNotEof : s.rdErr ≠ some .eof

theorem hinv_init (rs : Bool) : HInv (init rs) := by
  constructor <;> simp [init, holdList]

theorem prefix_app_right' {α} {a b : List α} (c : List α) (h : a <+: b) : a <+: b ++ c :=
  h.trans (List.prefix_append b c)

set_option maxRecDepth 4096 in
set_option maxHeartbeats 8000000 in
theorem hinv_step (s : St) (a : Act) (s' : St) (evs : List Ev) (h : HInv s) (hs : step s a = some (s', evs)) :
    HInv s' := by
  obtain ⟨h1, h2, h3, h4, h5, h6, h7, h8, h9, h10, h10b, h11, h12, h13, h14, h15, h16, h17⟩ := h
  cases a <;> simp only [step, complete] at hs <;> (repeat' split at hs) <;>
    (try (simp only [Option.some.injEq, Prod.mk.injEq, reduceCtorEq] at hs)) <;>
    (try (obtain ⟨rfl, rfl⟩ := hs)) <;>
    (first | (exfalso; assumption)
           | (constructor <;> (try (simp_all [holdList, finalOf, ctxStatus, trNotLast_snoc, prefix_app_right', dataOK_single_not, isTr_not, dataOK_cons_if])) <;> (try assumption) <;> (try omega)))
  all_goals (first | (subst_vars; simp_all; done) | grind)

end HttpClientStream
