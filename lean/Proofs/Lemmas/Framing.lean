import Model.Framing

namespace Framing
open Prim

/-! ## byte order -/

theorem u8_ofNat_toNat (n : Nat) (h : n < 256) : (UInt8.ofNat n).toNat = n := by
  simp; omega

theorem be32_eq (n : Nat) : ∃ a b c d : UInt8, be32 n = [a, b, c, d] ∧ u32 a b c d = n % 4294967296 := by
  refine ⟨_, _, _, _, rfl, ?_⟩
  unfold u32
  rw [u8_ofNat_toNat _ (Nat.mod_lt _ (by decide)), u8_ofNat_toNat _ (Nat.mod_lt _ (by decide)),
      u8_ofNat_toNat _ (Nat.mod_lt _ (by decide)), u8_ofNat_toNat _ (Nat.mod_lt _ (by decide))]
  omega

theorem be32_length (n : Nat) : (be32 n).length = 4 := rfl

theorem u32_lt (a b c d : UInt8) : u32 a b c d < 4294967296 := by
  unfold u32
  have := a.toNat_lt; have := b.toNat_lt; have := c.toNat_lt; have := d.toNat_lt
  omega

theorem be32_u32 (a b c d : UInt8) : be32 (u32 a b c d) = [a, b, c, d] := by
  unfold be32 u32
  have ha := a.toNat_lt; have hb := b.toNat_lt; have hc := c.toNat_lt; have hd := d.toNat_lt
  have e1 : (a.toNat * 16777216 + b.toNat * 65536 + c.toNat * 256 + d.toNat) / 16777216 % 256 = a.toNat := by omega
  have e2 : (a.toNat * 16777216 + b.toNat * 65536 + c.toNat * 256 + d.toNat) / 65536 % 256 = b.toNat := by omega
  have e3 : (a.toNat * 16777216 + b.toNat * 65536 + c.toNat * 256 + d.toNat) / 256 % 256 = c.toNat := by omega
  have e4 : (a.toNat * 16777216 + b.toNat * 65536 + c.toNat * 256 + d.toNat) % 256 = d.toNat := by omega
  rw [e1, e2, e3, e4]
  simp

/-- reading the prefix of a frame written for a payload of length `n < 2^31` -/
theorem readSize_be32 (n : Nat) (rest : Bytes) (e : Ending) (hn : n < 2147483648) :
    readSize (be32 n ++ rest) e = .ok ((n : Int), rest) := by
  obtain ⟨a, b, c, d, h, hu⟩ := be32_eq n
  rw [h]
  show readSize (a :: b :: c :: d :: rest) e = _
  unfold readSize
  simp only
  have : n % 4294967296 = n := by omega
  rw [this] at hu
  unfold i32; rw [hu, if_pos hn]

/-- reading the prefix of the final frame written for a payload of length `0 < n ≤ 2^31` -/
theorem readSize_be32_neg (n : Nat) (rest : Bytes) (e : Ending) (h0 : 0 < n) (hn : n ≤ 2147483648) :
    readSize (be32 ((4294967296 - n) % 4294967296) ++ rest) e = .ok (-(n : Int), rest) := by
  obtain ⟨a, b, c, d, h, hu⟩ := be32_eq ((4294967296 - n) % 4294967296)
  rw [h]
  show readSize (a :: b :: c :: d :: rest) e = _
  unfold readSize
  simp only
  have : (4294967296 - n) % 4294967296 % 4294967296 = 4294967296 - n := by omega
  rw [this] at hu
  unfold i32; rw [hu, if_neg (by omega)]
  congr 2
  omega

theorem readFull_append (m rest : Bytes) (e : Ending) :
    readFull m.length (m ++ rest) e = .ok (m, rest) := by
  unfold readFull
  rw [if_pos (by simp)]
  simp

/-- a short read never succeeds -/
theorem readFull_short (n : Nat) (b : Bytes) (e : Ending) (h : b.length < n) :
    ∃ er, readFull n b e = .error er := by
  unfold readFull
  rw [if_neg (by omega)]
  cases e with
  | abrupt => exact ⟨_, rfl⟩
  | clean => simp only; split <;> exact ⟨_, rfl⟩

theorem readSize_short (b : Bytes) (e : Ending) (h : b.length < 4) :
    ∃ er, readSize b e = .error er := by
  match b, h with
  | [], _ => unfold readSize; cases e <;> simp
  | [_], _ => unfold readSize; cases e <;> simp
  | [_, _], _ => unfold readSize; cases e <;> simp
  | [_, _, _], _ => unfold readSize; cases e <;> simp
  | _ :: _ :: _ :: _ :: _, h => simp at h; omega

end Framing

namespace Framing
open Prim

/-! ## one step of the client loop -/

theorem maxSize_lt : Gen.maxMessageSize < 2147483648 := by decide

theorem guarded : clientDataGuarded = true := by decide

theorem clientStep_frame (m rest : Bytes) (e : Ending) (hm : m.length ≤ Gen.maxMessageSize) :
    clientStep (encodeFrame m ++ rest) e = .msg m rest [m.length] := by
  have hlt := maxSize_lt
  unfold clientStep encodeFrame
  rw [List.append_assoc, readSize_be32 _ _ _ (by omega)]
  simp only
  rw [if_neg (by omega)]
  have hg : ¬ ((clientDataGuarded && decide ((m.length : Int) > maxSize)) = true) := by
    unfold maxSize; simp; omega
  rw [if_neg hg]
  have : ((m.length : Nat) : Int).toNat = m.length := by omega
  rw [this, readFull_append]

theorem wrap32_neg_neg (n : Nat) (hn : n < 2147483648) : wrap32 (-(-(n : Int))) = (n : Int) := by
  unfold wrap32 two31 two32; omega

theorem clientStep_trailer (t rest : Bytes) (e : Ending) (h0 : 0 < t.length) (hm : t.length ≤ Gen.maxMessageSize) :
    clientStep (encodeTrailer t ++ rest) e = .done (.trailer t) [t.length] := by
  have hlt := maxSize_lt
  unfold clientStep encodeTrailer
  rw [List.append_assoc, readSize_be32_neg _ _ _ h0 (by omega)]
  simp only
  rw [if_pos (by omega), wrap32_neg_neg _ (by omega)]
  unfold readPayload
  rw [if_neg (by omega), if_neg (by unfold maxSize; omega)]
  have : ((t.length : Nat) : Int).toNat = t.length := by omega
  rw [this, readFull_append]

/-- shape of a successful size read -/
theorem readSize_ok (b : Bytes) (e : Ending) (sz : Int) (rest : Bytes) (h : readSize b e = .ok (sz, rest)) :
    ∃ a b1 c d, b = a :: b1 :: c :: d :: rest ∧ sz = i32 a b1 c d := by
  match b with
  | [] => unfold readSize at h; cases e <;> simp at h
  | [_] => unfold readSize at h; cases e <;> simp at h
  | [_, _] => unfold readSize at h; cases e <;> simp at h
  | [_, _, _] => unfold readSize at h; cases e <;> simp at h
  | a :: b1 :: c :: d :: r =>
    unfold readSize at h
    simp only [Except.ok.injEq, Prod.mk.injEq] at h
    exact ⟨a, b1, c, d, by rw [h.2], h.1.symm⟩

theorem readFull_ok (n : Nat) (b : Bytes) (e : Ending) (m rest : Bytes) (h : readFull n b e = .ok (m, rest)) :
    b = m ++ rest ∧ m.length = n := by
  unfold readFull at h
  split at h
  · rename_i hle
    simp only [Except.ok.injEq, Prod.mk.injEq] at h
    rw [← h.1, ← h.2]
    exact ⟨(List.take_append_drop n b).symm, by simp; omega⟩
  · cases e <;> simp at h
    split at h <;> simp at h

/-- a delivered message is exactly a frame at the head of the input; its allocation is its length,
    which is within the limit -/
theorem clientStep_msg (b : Bytes) (e : Ending) (m rest : Bytes) (al : List Nat)
    (h : clientStep b e = .msg m rest al) :
    b = encodeFrame m ++ rest ∧ al = [m.length] ∧ m.length ≤ Gen.maxMessageSize := by
  unfold clientStep at h
  cases hrs : readSize b e with
  | error er => rw [hrs] at h; simp at h
  | ok p =>
    obtain ⟨sz, r1⟩ := p
    rw [hrs] at h
    simp only at h
    obtain ⟨a, b1, c, d, hb, hsz⟩ := readSize_ok b e sz r1 hrs
    by_cases hneg : sz < 0
    · rw [if_pos hneg] at h
      split at h <;> simp at h
    · rw [if_neg hneg] at h
      by_cases hg : (clientDataGuarded && decide (sz > maxSize)) = true
      · rw [if_pos hg] at h; simp at h
      · rw [if_neg hg] at h
        cases hrf : readFull sz.toNat r1 e with
        | error er => rw [hrf] at h; simp at h
        | ok q =>
          obtain ⟨m', rest'⟩ := q
          rw [hrf] at h
          simp only [Step.msg.injEq] at h
          obtain ⟨rfl, rfl, rfl⟩ := h
          obtain ⟨hr1, hlen⟩ := readFull_ok _ _ _ _ _ hrf
          have hszle : sz ≤ maxSize := by
            rw [guarded] at hg; simp at hg; exact hg
          have hu : (u32 a b1 c d : Int) = sz := by
            rw [hsz]; unfold i32
            split
            · rfl
            · rename_i hge
              exfalso; rw [hsz] at hneg; unfold i32 at hneg; rw [if_neg hge] at hneg
              have := u32_lt a b1 c d; omega
          have hml : (m'.length : Int) = sz := by omega
          refine ⟨?_, by rw [hlen], by unfold maxSize at hszle; omega⟩
          unfold encodeFrame
          have : m'.length = u32 a b1 c d := by omega
          rw [this, be32_u32, hb, hr1]
          simp

/-- every allocation of one loop iteration is within the limit -/
theorem clientStep_alloc (b : Bytes) (e : Ending) :
    ∀ x, (∀ m r al, clientStep b e = .msg m r al → x ∈ al → x ≤ Gen.maxMessageSize) ∧
         (∀ o al, clientStep b e = .done o al → x ∈ al → x ≤ Gen.maxMessageSize) := by
  intro x
  constructor
  · intro m r al h hx
    obtain ⟨_, hal, hle⟩ := clientStep_msg b e m r al h
    rw [hal] at hx; simp at hx; omega
  · intro o al h hx
    unfold clientStep at h
    cases hrs : readSize b e with
    | error er => rw [hrs] at h; simp at h; rw [h.2] at hx; simp at hx
    | ok p =>
      obtain ⟨sz, r1⟩ := p
      rw [hrs] at h
      simp only at h
      by_cases hneg : sz < 0
      · rw [if_pos hneg] at h
        unfold readPayload at h
        by_cases h1 : wrap32 (-sz) < 0
        · rw [if_pos h1] at h; simp at h; rw [h.2] at hx; simp at hx
        · rw [if_neg h1] at h
          by_cases h2 : wrap32 (-sz) > maxSize
          · rw [if_pos h2] at h; simp at h; rw [h.2] at hx; simp at hx
          · rw [if_neg h2] at h
            have hal : al = [(wrap32 (-sz)).toNat] := by
              cases hrf : readFull (wrap32 (-sz)).toNat r1 e with
              | error er => rw [hrf] at h; simp at h; exact h.2.symm
              | ok q => rw [hrf] at h; simp at h; exact h.2.symm
            rw [hal] at hx; simp at hx
            unfold maxSize at h2; omega
      · rw [if_neg hneg] at h
        by_cases hg : (clientDataGuarded && decide (sz > maxSize)) = true
        · rw [if_pos hg] at h; simp at h; rw [h.2] at hx; simp at hx
        · rw [if_neg hg] at h
          have hszle : sz ≤ maxSize := by
            rw [guarded] at hg; simp at hg; exact hg
          have hal : al = [sz.toNat] := by
            cases hrf : readFull sz.toNat r1 e with
            | error er => rw [hrf] at h; simp at h; exact h.2.symm
            | ok q => rw [hrf] at h; simp at h
          rw [hal] at hx; simp at hx
          unfold maxSize at hszle; omega

end Framing

namespace Framing
open Prim

/-! ## the loop: fuel independence and unfolding equations -/

theorem encodeFrame_length (m : Bytes) : (encodeFrame m).length = 4 + m.length := by
  unfold encodeFrame; simp [be32_length]

theorem clientDecodeFuel_indep : ∀ (f1 f2 : Nat) (b : Bytes) (e : Ending),
    b.length < f1 → b.length < f2 → clientDecodeFuel f1 b e = clientDecodeFuel f2 b e := by
  intro f1
  induction f1 with
  | zero => intro f2 b e h; omega
  | succ n ih =>
    intro f2 b e h1 h2
    cases f2 with
    | zero => omega
    | succ k =>
      unfold clientDecodeFuel
      cases hs : clientStep b e with
      | done o al => rfl
      | msg m rest al =>
        obtain ⟨hb, _, _⟩ := clientStep_msg b e m rest al hs
        have hl : rest.length + 4 ≤ b.length := by
          rw [hb]; simp [encodeFrame_length]; omega
        simp only
        rw [ih k rest e (by omega) (by omega)]

theorem clientDecodeFuel_succ_msg (fuel : Nat) (b : Bytes) (e : Ending) (m rest : Bytes) (al : List Nat)
    (h : clientStep b e = .msg m rest al) :
    clientDecodeFuel (fuel + 1) b e =
      ⟨m :: (clientDecodeFuel fuel rest e).msgs, al ++ (clientDecodeFuel fuel rest e).allocs,
       (clientDecodeFuel fuel rest e).outcome⟩ := by
  show (match clientStep b e with
    | .done o al => (⟨[], al, o⟩ : Decoded)
    | .msg m rest al =>
      let r := clientDecodeFuel fuel rest e
      ⟨m :: r.msgs, al ++ r.allocs, r.outcome⟩) = _
  rw [h]

theorem clientDecode_done (b : Bytes) (e : Ending) (o : Outcome) (al : List Nat)
    (h : clientStep b e = .done o al) :
    clientDecode b e = ⟨[], al, o⟩ := by
  unfold clientDecode clientDecodeFuel
  rw [h]

theorem clientDecode_msg (b : Bytes) (e : Ending) (m rest : Bytes) (al : List Nat)
    (h : clientStep b e = .msg m rest al) :
    clientDecode b e = ⟨m :: (clientDecode rest e).msgs, al ++ (clientDecode rest e).allocs,
                         (clientDecode rest e).outcome⟩ := by
  obtain ⟨hb, _, _⟩ := clientStep_msg b e m rest al h
  have hl : rest.length + 4 ≤ b.length := by
    rw [hb]; simp [encodeFrame_length]; omega
  unfold clientDecode
  rw [clientDecodeFuel_succ_msg _ _ _ _ _ _ h]
  rw [clientDecodeFuel_indep b.length (rest.length + 1) rest e (by omega) (by omega)]

/-- induction principle: on the length of the remaining input -/
theorem clientDecode_induction (P : Bytes → Prop) (e : Ending)
    (hdone : ∀ b o al, clientStep b e = .done o al → P b)
    (hmsg : ∀ b m rest al, clientStep b e = .msg m rest al → P rest → P b) :
    ∀ b, P b := by
  intro b
  induction hn : b.length using Nat.strongRecOn generalizing b with
  | _ n ih =>
    cases hs : clientStep b e with
    | done o al => exact hdone b o al hs
    | msg m rest al =>
      obtain ⟨hb, _, _⟩ := clientStep_msg b e m rest al hs
      have hl : rest.length < n := by
        rw [← hn, hb]; simp [encodeFrame_length]; omega
      exact hmsg b m rest al hs (ih rest.length hl rest rfl)

end Framing

namespace Framing
open Prim
theorem readSize_cons4 (a b c d : UInt8) (rest : Bytes) (e : Ending) :
    readSize (a :: b :: c :: d :: rest) e = .ok (i32 a b c d, rest) := rfl
end Framing

namespace Framing
open Prim

theorem readPayload_frame (m rest : Bytes) (e : Ending) (h : m.length ≤ Gen.maxMessageSize) :
    readPayload (m.length : Int) (m ++ rest) e = (.ok (m, rest), [m.length]) := by
  unfold readPayload
  rw [if_neg (by omega), if_neg (by unfold maxSize; omega)]
  have h2 : ((m.length : Nat) : Int).toNat = m.length := by omega
  rw [h2, readFull_append]

/-- the server's first `RecvMsg` on a body that starts with a well-formed frame: the payload is
    read, then (single-request methods) the body is probed for a second prefix -/
theorem serverRecv_frame (cs : Bool) (bad : Bytes → Bool) (m rest : Bytes) (e : Ending)
    (h1 : m.length ≤ Gen.maxMessageSize) (hb : bad m = false) :
    serverRecv cs bad ⟨encodeFrame m ++ rest, 0⟩ e =
      if cs then (.ok m, ⟨rest, 1⟩, [m.length])
      else match readSize rest e with
        | .error .eof => (.ok m, ⟨rest, 1⟩, [m.length])
        | .error _ => (.error .extraRequest, ⟨rest, 1⟩, [m.length])
        | .ok (_, rest'') => (.error .extraRequest, ⟨rest'', 1⟩, [m.length]) := by
  have hlt := maxSize_lt
  have hrs : readSize (encodeFrame m ++ rest) e = .ok ((m.length : Int), m ++ rest) := by
    unfold encodeFrame
    rw [List.append_assoc, readSize_be32 _ _ _ (by omega)]
  unfold serverRecv
  have hc : (!cs && decide ((0 : Nat) > 0)) = false := by simp
  simp only [hc, Bool.false_eq_true, ↓reduceIte, hrs, readPayload_frame m rest e h1, hb]
  cases cs
  · cases hr : readSize rest e with
    | error er => cases er <;> simp
    | ok p => simp
  · simp

end Framing
