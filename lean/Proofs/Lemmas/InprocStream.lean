import Model.InprocStream

namespace InprocStream

/-- every state reachable from the initial state of a call by any sequence of enabled actions -/
def Reachable (capReq capResp : Nat) (respStream : Bool) (s : St) : Prop :=
  ∃ acts, run (init capReq capResp respStream) acts = some s

theorem run_induction (P : St → Prop)
    (hstep : ∀ s a s' evs, P s → step s a = some (s', evs) → P s') :
    ∀ (acts : List Act) (s0 s : St), P s0 → run s0 acts = some s → P s := by
  intro acts
  induction acts with
  | nil => intro s0 s h0 hr; simp [run] at hr; exact hr ▸ h0
  | cons a rest ih =>
    intro s0 s h0 hr
    simp only [run] at hr
    cases hs : step s0 a with
    | none => rw [hs] at hr; simp at hr
    | some p =>
      obtain ⟨s1, evs⟩ := p
      rw [hs] at hr
      exact ih s1 s (hstep s0 a s1 evs h0 hs) hr

/-- lifting an inductive invariant to every reachable state -/
theorem reachable_induction (c1 c2 : Nat) (rs : Bool) (P : St → Prop)
    (h0 : P (init c1 c2 rs))
    (hstep : ∀ s a s' evs, P s → step s a = some (s', evs) → P s') :
    ∀ s, Reachable c1 c2 rs s → P s := by
  intro s ⟨acts, hr⟩
  exact run_induction P hstep acts _ s h0 hr

def dataCount : List Frame → Nat
  | [] => 0
  | .data _ :: r => dataCount r + 1
  | _ :: r => dataCount r

def dc1 : Frame → Nat
  | .data _ => 1
  | _ => 0

@[simp] theorem dataCount_nil : dataCount [] = 0 := rfl
@[simp] theorem dataCount_cons (f : Frame) (r : List Frame) : dataCount (f :: r) = dc1 f + dataCount r := by
  cases f <;> simp [dataCount, dc1] <;> omega
@[simp] theorem dc1_data (m : Nat) : dc1 (.data m) = 1 := rfl
@[simp] theorem dc1_headers (m : List Nat) : dc1 (.headers m) = 0 := rfl
@[simp] theorem dc1_trailers (m : List Nat) : dc1 (.trailers m) = 0 := rfl
@[simp] theorem dc1_err (e : HErr) : dc1 (.err e) = 0 := rfl
theorem dc1_le (f : Frame) : dc1 f ≤ 1 := by cases f <;> simp [dc1]

theorem dataCount_append (a b : List Frame) : dataCount (a ++ b) = dataCount a + dataCount b := by
  induction a with
  | nil => simp
  | cons f r ih => simp [ih]; omega

theorem dataCount_le_length (a : List Frame) : dataCount a ≤ a.length := by
  induction a with
  | nil => simp
  | cons f r ih => have := dc1_le f; simp; omega

/-- the capacities never change -/
theorem caps_const (s s' : St) (a : Act) (evs : List Ev) (hs : step s a = some (s', evs)) :
    s'.capReq = s.capReq ∧ s'.capResp = s.capResp ∧ s'.respStream = s.respStream := by
  cases a <;> simp only [step, finishWrite] at hs <;> (repeat' split at hs) <;> simp_all <;>
    (try (obtain ⟨rfl, _⟩ := hs; simp_all))

end InprocStream
