/-
  Outcome invariant of the InprocUnary system: whatever Invoke decides is either the cancellation
  status of its (done) context or the complete real result of the handler.
-/
import Proofs.Lemmas.InprocUnary

namespace InprocUnary
open InprocStream (Reason HErr Res codeOf translate)

/-- the complete result of a successful call, as the caller observes it -/
def Complete (s : St) : Prop :=
  ∃ x, s.hRet = some (some x, none) ∧ s.respCopied = some x ∧ s.cHdr = mdOpt s.hHdr ∧ s.cTlr = mdOpt s.hTlr

/-- channel closed and drained with a live context: the caller has seen exactly the frames of
    `framesOf`, so if it has a response it has the complete result -/
theorem ok_complete (s : St) (hu : UInv s) (hctx : s.ctx = none) (hres : s.result = none)
    (hch : s.ch = []) (hcl : s.chClosed = true) (hgot : s.gotResponse = true) : Complete s := by
  obtain ⟨hpc, hfr⟩ := hu.closed hcl
  have hnr : s.returned = false := by
    cases h : s.returned with
    | false => rfl
    | true => have := hu.retRes h; simp [hres] at this
  have hsome := hu.pcRet (by omega)
  cases hr : s.hRet with
  | none => simp [hr] at hsome
  | some ve =>
    obtain ⟨v, e⟩ := ve
    have hlive := hu.live (by simp [svrCtxDone, hctx, hnr]) v e hr
    have hq := hu.q
    rw [hch] at hq
    simp at hq
    rw [hfr, hq] at hlive
    simp at hlive
    have h1 := hu.vRes hres
    have h2 := hu.vGot
    have h3 := hu.vResp
    have h4 := hu.vHdr
    have h5 := hu.vTlr
    rw [hlive] at h1 h2 h3 h4 h5
    rw [hgot] at h2
    unfold Complete
    rw [hr, h3, h4, h5]
    clear h3 h4 h5 hlive hq
    revert h1 h2
    generalize s.hHdr = H
    generalize s.hTlr = T
    intro h1 h2
    cases v <;> cases e <;> cases H <;> cases T <;>
      simp [framesOf, cview, cstep, mdOpt] at h1 h2 ⊢

/-- channel closed and drained with a live context and no response: impossible — the goroutine
    always writes a response or an error frame (so Invoke never reports a bare io.EOF) -/
theorem no_bare_eof (s : St) (hu : UInv s) (hctx : s.ctx = none) (hres : s.result = none)
    (hch : s.ch = []) (hcl : s.chClosed = true) (hgot : s.gotResponse = false) : False := by
  obtain ⟨hpc, hfr⟩ := hu.closed hcl
  have hnr : s.returned = false := by
    cases h : s.returned with
    | false => rfl
    | true => have := hu.retRes h; simp [hres] at this
  have hsome := hu.pcRet (by omega)
  cases hr : s.hRet with
  | none => simp [hr] at hsome
  | some ve =>
    obtain ⟨v, e⟩ := ve
    have hlive := hu.live (by simp [svrCtxDone, hctx, hnr]) v e hr
    have hq := hu.q
    rw [hch] at hq
    simp at hq
    rw [hfr, hq] at hlive
    simp at hlive
    have h1 := hu.vRes hres
    have h2 := hu.vGot
    rw [hlive] at h1 h2
    rw [hgot] at h2
    clear hlive hq
    revert h1 h2
    generalize s.hHdr = H
    generalize s.hTlr = T
    intro h1 h2
    cases v <;> cases e <;> cases H <;> cases T <;>
      simp [framesOf, cview, cstep] at h1 h2

theorem translate_ne_ok (e : HErr) : translate e ≠ .ok := by cases e <;> simp [translate]

structure UOk (s : St) : Prop where
  okc : s.result = some .ok → Complete s
  res : ∀ r, s.result = some r →
    (∃ rr, s.ctx = some rr ∧ r = ctxStatus rr) ∨ (∃ ret, s.hRet = some ret ∧ r = expectedU ret)

theorem uok_init (cap : Nat) : UOk (init cap) := by
  constructor <;> simp [init]

set_option maxHeartbeats 4000000 in
theorem uok_step (s : St) (a : Act) (s' : St) (evs : List Ev) (hu : UInv s) (hc : UCnt s) (h : UOk s)
    (hs : step s a = some (s', evs)) : UOk s' := by
  obtain ⟨o1, o2⟩ := h
  have hcomp := ok_complete s hu
  have hbare := no_bare_eof s hu
  have hq := hu.q
  have hmem := hu.mem
  have hpc0 := hu.pc0
  have hpcRet := hu.pcRet
  have hcnt := hc.cnt
  have hg1 := hu.g1
  have hg2 := hu.g2
  have hgot := hu.vGot
  have hcg := cview_got s.deq
  cases a <;> simp only [step] at hs <;> (repeat' split at hs) <;>
    (try (simp only [Option.some.injEq, Prod.mk.injEq, reduceCtorEq] at hs)) <;>
    (try (obtain ⟨rfl, rfl⟩ := hs)) <;>
    (first | (exfalso; assumption)
           | (constructor <;> simp_all [Complete, ctxStatus] <;> (try assumption)))
  all_goals (
    have hE : ∀ e rest, s.enq = s.deq ++ UFrame.err e :: rest → ∀ ret, s.hRet = some ret → translate e = expectedU ret := by
      intro e rest he ret hr
      obtain ⟨v, e0⟩ := ret
      exact err_mem_framesOf _ _ _ _ _ (hu.mem _ (Or.inl (by rw [he]; simp)) v e0 hr)
    have hC := ok_complete s hu
    have hSome := hu.pcRet
    cases hret : s.hRet <;> grind [translate_ne_ok, Complete, ctxStatus, expectedU])

end InprocUnary
