/-
  Request direction of the InprocStream system: what the handler's RecvMsg has returned is at
  every moment a prefix of what the client handed to SendMsg (helper lemmas for C01).
-/
import Proofs.Lemmas.InprocInv

namespace InprocStream

theorem prefix_app_right {α} {a b : List α} (c : List α) (h : a <+: b) : a <+: b ++ c :=
  h.trans (List.prefix_append b c)

/-- request-direction invariant.
    * `deliv`  : delivered ⊑ dequeued
    * `live`   : while the remote side is live (handler running, context not done) nothing has been
                 dropped or skipped: dequeued = delivered, offered = enqueued ++ pending
    * `pre`    : delivered ⊑ offered (the property) -/
structure ReqInv (s : St) : Prop where
  deliv : s.sDelivered <+: s.reqDeq
  live : remoteDone s = false → s.reqDeq = s.sDelivered ∧ s.cOffered = s.reqEnq ++ s.cSend.toList
  pre : s.sDelivered <+: s.cOffered

theorem req_init (c1 c2 : Nat) (rs : Bool) : ReqInv (init c1 c2 rs) := by
  constructor <;> simp [init, remoteDone, svrCtxDone]

set_option maxHeartbeats 4000000 in
theorem req_step (s : St) (a : Act) (s' : St) (evs : List Ev) (hb : Base s) (h : ReqInv s)
    (hs : step s a = some (s', evs)) : ReqInv s' := by
  obtain ⟨b1, b2, b3, b4, b5, b6, b7, b8, b9, b10, b11, b12, b13, b14, b15⟩ := hb
  obtain ⟨r1, r2, r3⟩ := h
  cases a <;> simp only [step, finishWrite] at hs <;> (repeat' split at hs) <;>
    (try (simp only [Option.some.injEq, Prod.mk.injEq, reduceCtorEq] at hs)) <;>
    (try (obtain ⟨rfl, rfl⟩ := hs)) <;>
    (first | (exfalso; assumption)
           | (constructor <;> simp_all [remoteDone, svrCtxDone, prefix_app_right]))
  all_goals (intro h1 h2; rename_i hor; rcases hor with h | h | h <;> simp_all)

theorem basereq_reachable (c1 c2 : Nat) (rs : Bool) (s : St) (h : Reachable c1 c2 rs s) : Base s ∧ ReqInv s :=
  reachable_induction c1 c2 rs (fun s => Base s ∧ ReqInv s) ⟨base_init c1 c2 rs, req_init c1 c2 rs⟩
    (fun s a s' evs hp hs => ⟨base_step s a s' evs hp.1 hs, req_step s a s' evs hp.1 hp.2 hs⟩) s h

end InprocStream
