/-
  Invariants of the InprocUnary transition system (helper lemmas for C02, C03, C04, C06, C08).
-/
import Model.InprocUnary

namespace InprocUnary
open InprocStream (Reason HErr Res codeOf translate)

def Reachable (cap : Nat) (s : St) : Prop := ∃ acts, run (init cap) acts = some s

theorem run_induction (P : St → Prop)
    (hstep : ∀ s a s' evs, P s → step s a = some (s', evs) → P s') :
    ∀ (acts : List Act) (s0 s : St), P s0 → run s0 acts = some s → P s := by
  intro acts
  induction acts with
  | nil => intro s0 s h0 hr; simp [run] at hr; exact hr ▸ h0
  | cons a rest ih =>
    intro s0 s h0 hr
    simp only [run] at hr
    cases hs : step s0 a with
    | none => rw [hs] at hr; simp at hr
    | some p =>
      obtain ⟨s1, evs⟩ := p
      rw [hs] at hr
      exact ih s1 s (hstep s0 a s1 evs h0 hs) hr

theorem reachable_induction (cap : Nat) (P : St → Prop) (h0 : P (init cap))
    (hstep : ∀ s a s' evs, P s → step s a = some (s', evs) → P s') : ∀ s, Reachable cap s → P s := by
  intro s ⟨acts, hr⟩
  exact run_induction P hstep acts _ s h0 hr

/-- the caller's receive loop as a pure function of the frames it has taken -/
structure CView where
  got : Bool := false
  resp : Option Nat := none
  hdr : Option (List Nat) := none
  tlr : Option (List Nat) := none
  res : Option Res := none
deriving DecidableEq, Repr

def cstep (v : CView) (f : UFrame) : CView :=
  if v.res.isSome then v else
  match f with
  | .err e => { v with res := some (translate e) }
  | .data x => if v.got then { v with res := some (.status 13) } else { v with got := true, resp := some x }
  | .headers md => { v with hdr := some md }
  | .trailers md => { v with tlr := some md }

def cview (l : List UFrame) : CView := l.foldl cstep {}

@[simp] theorem cview_nil : cview [] = {} := rfl
@[simp] theorem cview_snoc (l : List UFrame) (f : UFrame) : cview (l ++ [f]) = cstep (cview l) f := by
  simp [cview, List.foldl_append]

/-- what Invoke must report for a given handler result (live context) -/
def expectedU : Option Nat × Option HErr → Res
  | (_, some e) => translate e
  | (none, none) => .status 13
  | (some _, none) => .ok

def mdOpt (l : List Nat) : Option (List Nat) := if l.isEmpty then none else some l

structure UInv (s : St) : Prop where
  q : s.enq = s.deq ++ s.ch
  pc0 : s.pc = 0 → s.frames = [] ∧ s.enq = [] ∧ s.hRet = none ∧ s.chClosed = false
  pcle : s.pc ≤ 2
  pcRet : s.pc ≠ 0 → s.hRet.isSome = true
  live : svrCtxDone s = false → ∀ v e, s.hRet = some (v, e) → s.enq ++ s.frames = framesOf s.hHdr s.hTlr v e
  mem : ∀ f, (f ∈ s.enq ∨ f ∈ s.frames) → ∀ v e, s.hRet = some (v, e) → f ∈ framesOf s.hHdr s.hTlr v e
  retRes : s.returned = true → s.result.isSome = true
  vGot : s.gotResponse = (cview s.deq).got
  vResp : s.respCopied = (cview s.deq).resp
  vHdr : s.cHdr = (cview s.deq).hdr
  vTlr : s.cTlr = (cview s.deq).tlr
  vRes : s.result = none → (cview s.deq).res = none
  closed : s.chClosed = true → s.pc = 2 ∧ s.frames = []
  pc2 : s.pc = 2 → s.chClosed = true
  rd : s.reading = true → s.returned = false ∧ s.pc = 0
  rar : s.readAfterReturn = false
  g1 : s.guardDecode = true
  g2 : s.recheckClose = true

theorem uinv_init (cap : Nat) : UInv (init cap) := by
  constructor <;> simp [init, svrCtxDone]

set_option maxHeartbeats 4000000 in
theorem uinv_step (s : St) (a : Act) (s' : St) (evs : List Ev) (h : UInv s) (hs : step s a = some (s', evs)) :
    UInv s' := by
  obtain ⟨h1, h2, h3, h4, h5, h6, h7, h8, h9, h10, h11, h12, h13, h14, h15, h16, h17, h18⟩ := h
  cases a <;> simp only [step] at hs <;> (repeat' split at hs) <;>
    (try (simp only [Option.some.injEq, Prod.mk.injEq, reduceCtorEq] at hs)) <;>
    (try (obtain ⟨rfl, rfl⟩ := hs)) <;>
    (first | (exfalso; assumption)
           | (constructor <;> simp_all [svrCtxDone, cstep] <;> (try assumption)))
  all_goals (first | assumption | omega | grind [cstep])

theorem uinv_reachable (cap : Nat) (s : St) (h : Reachable cap s) : UInv s :=
  reachable_induction cap UInv (uinv_init cap) uinv_step s h

end InprocUnary

namespace InprocUnary
open InprocStream (Reason HErr Res codeOf translate)

def dataCount : List UFrame → Nat
  | [] => 0
  | .data _ :: r => dataCount r + 1
  | _ :: r => dataCount r

@[simp] theorem dataCount_nil : dataCount [] = 0 := rfl
@[simp] theorem dataCount_data (x : Nat) (r : List UFrame) : dataCount (.data x :: r) = dataCount r + 1 := rfl
@[simp] theorem dataCount_headers (x : List Nat) (r : List UFrame) : dataCount (.headers x :: r) = dataCount r := rfl
@[simp] theorem dataCount_trailers (x : List Nat) (r : List UFrame) : dataCount (.trailers x :: r) = dataCount r := rfl
@[simp] theorem dataCount_err (x : HErr) (r : List UFrame) : dataCount (.err x :: r) = dataCount r := rfl
@[simp] theorem dataCount_append (a b : List UFrame) : dataCount (a ++ b) = dataCount a + dataCount b := by
  induction a with
  | nil => simp
  | cons f r ih => cases f <;> simp [ih] <;> omega

theorem dataCount_framesOf (h t : List Nat) (v : Option Nat) (e : Option HErr) : dataCount (framesOf h t v e) ≤ 1 := by
  unfold framesOf
  cases v <;> cases e <;> cases h <;> cases t <;> simp

theorem foldl_got (l : List UFrame) : ∀ v0 : CView, (l.foldl cstep v0).got = true → v0.got = true ∨ 1 ≤ dataCount l := by
  induction l with
  | nil => intro v0 h; left; simpa using h
  | cons f r ih =>
    intro v0 h
    simp only [List.foldl_cons] at h
    rcases ih _ h with h1 | h1
    · unfold cstep at h1
      split at h1
      · left; exact h1
      · cases f <;> simp at h1 <;> (try (left; exact h1)) <;> (try (split at h1 <;> simp_all))
        all_goals (right; simp)
    · right; cases f <;> simp <;> omega

theorem cview_got (l : List UFrame) (h : (cview l).got = true) : 1 ≤ dataCount l := by
  rcases foldl_got l {} h with h1 | h1
  · simp at h1
  · exact h1

theorem err_mem_framesOf (h t : List Nat) (v : Option Nat) (e : Option HErr) (x : HErr)
    (hm : UFrame.err x ∈ framesOf h t v e) : translate x = expectedU (v, e) := by
  unfold framesOf at hm
  cases v <;> cases e <;> cases h <;> cases t <;> simp at hm <;> simp [hm, expectedU, translate]

/-- the server goroutine never puts more than one response on the channel -/
structure UCnt (s : St) : Prop where
  cnt : dataCount s.enq + dataCount s.frames ≤ 1

theorem ucnt_init (cap : Nat) : UCnt (init cap) := by constructor; simp [init]

theorem dataCount_cons_eq (f : UFrame) (r : List UFrame) : dataCount (f :: r) = dataCount [f] + dataCount r := by
  cases f <;> simp <;> omega

theorem ucnt_step (s : St) (a : Act) (s' : St) (evs : List Ev) (hu : UInv s) (h : UCnt s) (hs : step s a = some (s', evs)) :
    UCnt s' := by
  obtain ⟨h1⟩ := h
  have hpc0 := hu.pc0
  cases a <;> simp only [step] at hs <;> (repeat' split at hs) <;>
    (try (simp only [Option.some.injEq, Prod.mk.injEq, reduceCtorEq] at hs)) <;>
    (try (obtain ⟨rfl, rfl⟩ := hs)) <;>
    (first | (exfalso; assumption) | (constructor <;> simp_all))
  all_goals (first | omega | grind [dataCount_cons_eq, dataCount_framesOf])

end InprocUnary
