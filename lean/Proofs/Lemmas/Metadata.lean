/- base64 and header-mapping lemmas (helpers for C03) -/
import Model.Metadata

namespace Metadata

theorem dec6_enc6_fin : ∀ n : Fin 64, dec6 (enc6 n.val) = some n.val := by decide

theorem dec6_enc6 (n : Nat) (h : n < 64) : dec6 (enc6 n) = some n := dec6_enc6_fin ⟨n, h⟩

theorem enc6_props_fin : ∀ n : Fin 64, enc6 n.val ≠ pad ∧ enc6 n.val < 128 ∧ 32 < enc6 n.val := by decide

theorem enc6_ge (n : Nat) (h : ¬ n < 64) : enc6 n = 95 := by
  unfold enc6
  have h1 : ¬ n < 26 := by omega
  have h2 : ¬ n < 52 := by omega
  have h3 : ¬ n < 62 := by omega
  have h4 : ¬ n = 62 := by omega
  simp [h1, h2, h3, h4]

theorem enc6_ne_pad (n : Nat) : enc6 n ≠ pad := by
  by_cases h : n < 64
  · exact (enc6_props_fin ⟨n, h⟩).1
  · rw [enc6_ge n h]; simp [pad]

theorem enc6_safe (n : Nat) : enc6 n < 128 ∧ 32 < enc6 n := by
  by_cases h : n < 64
  · exact (enc6_props_fin ⟨n, h⟩).2
  · rw [enc6_ge n h]; omega

/-- `b64enc` by three bytes at a time -/
theorem b64enc_cons3 (a b c : Nat) (rest : B) :
    b64enc (a :: b :: c :: rest) =
      enc6 (a / 4) :: enc6 ((a % 4) * 16 + b / 16) :: enc6 ((b % 16) * 4 + c / 64) :: enc6 (c % 64) :: b64enc rest := by
  simp [b64enc]

/-- **base64 round trip**: every byte string decodes back to itself (URL alphabet, padded), whatever
    its length — in particular lengths 1 and 2 mod 3 (padding) and bytes 0x00, 0x0A, 0xFF. -/
theorem b64_roundtrip : ∀ (bs : B), (∀ x ∈ bs, x < 256) → b64dec (b64enc bs) = some bs
  | [], _ => by simp [b64enc, b64dec]
  | [a], h => by
    have ha : a < 256 := h a (by simp)
    simp only [b64enc, b64dec]
    have h0 := dec6_enc6 (a / 4) (by omega)
    have h1 := dec6_enc6 ((a % 4) * 16) (by omega)
    simp [h0, h1]
    omega
  | [a, b], h => by
    have ha : a < 256 := h a (by simp)
    have hb : b < 256 := h b (by simp)
    simp only [b64enc, b64dec]
    have h0 := dec6_enc6 (a / 4) (by omega)
    have h1 := dec6_enc6 ((a % 4) * 16 + b / 16) (by omega)
    have h2 := dec6_enc6 ((b % 16) * 4) (by omega)
    have hp := enc6_ne_pad ((b % 16) * 4)
    simp [h0, h1, h2, hp]
    omega
  | a :: b :: c :: rest, h => by
    have ha : a < 256 := h a (by simp)
    have hb : b < 256 := h b (by simp)
    have hc : c < 256 := h c (by simp)
    have ih := b64_roundtrip rest (fun x hx => h x (by simp [hx]))
    rw [b64enc_cons3]
    have h0 := dec6_enc6 (a / 4) (by omega)
    have h1 := dec6_enc6 ((a % 4) * 16 + b / 16) (by omega)
    have h2 := dec6_enc6 ((b % 16) * 4 + c / 64) (by omega)
    have h3 := dec6_enc6 (c % 64) (by omega)
    have hp2 := enc6_ne_pad ((b % 16) * 4 + c / 64)
    have hp3 := enc6_ne_pad (c % 64)
    cases hr : b64enc rest with
    | nil =>
      have : rest = [] := by
        cases rest with
        | nil => rfl
        | cons x xs =>
          cases xs with
          | nil => simp [b64enc] at hr
          | cons y ys => cases ys <;> simp [b64enc] at hr
      subst this
      simp [b64dec, h0, h1, h2, h3, hp2, hp3]
      omega
    | cons r0 rs =>
      rw [hr] at ih
      simp only [b64dec]
      simp [h0, h1, h2, h3, ih]
      omega

/-- **unpadded base64 round trip** (the X-GRPC-Details headers): every byte string, whatever its length -/
theorem b64raw_roundtrip : ∀ (bs : B), (∀ x ∈ bs, x < 256) → b64rawdec (b64rawenc bs) = some bs
  | [], _ => by simp [b64rawenc, b64rawdec]
  | [a], h => by
    have ha : a < 256 := h a (by simp)
    simp only [b64rawenc, b64rawdec]
    have h0 := dec6_enc6 (a / 4) (by omega)
    have h1 := dec6_enc6 ((a % 4) * 16) (by omega)
    simp [h0, h1]
    omega
  | [a, b], h => by
    have ha : a < 256 := h a (by simp)
    have hb : b < 256 := h b (by simp)
    simp only [b64rawenc, b64rawdec]
    have h0 := dec6_enc6 (a / 4) (by omega)
    have h1 := dec6_enc6 ((a % 4) * 16 + b / 16) (by omega)
    have h2 := dec6_enc6 ((b % 16) * 4) (by omega)
    simp [h0, h1, h2]
    omega
  | a :: b :: c :: rest, h => by
    have ha : a < 256 := h a (by simp)
    have hb : b < 256 := h b (by simp)
    have hc : c < 256 := h c (by simp)
    have ih := b64raw_roundtrip rest (fun x hx => h x (by simp [hx]))
    have h0 := dec6_enc6 (a / 4) (by omega)
    have h1 := dec6_enc6 ((a % 4) * 16 + b / 16) (by omega)
    have h2 := dec6_enc6 ((b % 16) * 4 + c / 64) (by omega)
    have h3 := dec6_enc6 (c % 64) (by omega)
    simp only [b64rawenc, b64rawdec]
    simp [h0, h1, h2, h3, ih]
    omega

theorem b64rawenc_safe : ∀ (bs : B), ∀ x ∈ b64rawenc bs, x < 128 ∧ 32 < x
  | [], x, hx => by simp [b64rawenc] at hx
  | [a], x, hx => by
    simp [b64rawenc] at hx
    rcases hx with rfl | rfl <;> exact enc6_safe _
  | [a, b], x, hx => by
    simp [b64rawenc] at hx
    rcases hx with rfl | rfl | rfl <;> exact enc6_safe _
  | a :: b :: c :: rest, x, hx => by
    simp only [b64rawenc] at hx
    simp at hx
    rcases hx with rfl | rfl | rfl | rfl | hx
    · exact enc6_safe _
    · exact enc6_safe _
    · exact enc6_safe _
    · exact enc6_safe _
    · exact b64rawenc_safe rest x hx

/-- the encoding uses only header-safe bytes (alphabet and '=') -/
theorem b64enc_safe : ∀ (bs : B), ∀ x ∈ b64enc bs, x < 128 ∧ 32 < x
  | [], x, hx => by simp [b64enc] at hx
  | [a], x, hx => by
    simp [b64enc] at hx
    rcases hx with rfl | rfl | rfl <;> first | exact enc6_safe _ | simp [pad]
  | [a, b], x, hx => by
    simp [b64enc] at hx
    rcases hx with rfl | rfl | rfl | rfl <;> first | exact enc6_safe _ | simp [pad]
  | a :: b :: c :: rest, x, hx => by
    rw [b64enc_cons3] at hx
    simp at hx
    rcases hx with rfl | rfl | rfl | rfl | hx
    · exact enc6_safe _
    · exact enc6_safe _
    · exact enc6_safe _
    · exact enc6_safe _
    · exact b64enc_safe rest x hx

/-! ### several keys -/

def keysOf (m : MD) : List B := m.map (·.1)

theorem addValFront_new (m : MD) (k v : B) (h : k ∉ keysOf m) : asMetadata.addValFront m k v = m ++ [(k, [v])] := by
  induction m with
  | nil => rfl
  | cons e r ih =>
    obtain ⟨k', vs⟩ := e
    simp [keysOf] at h
    have hne : ¬ k' = k := fun he => h.1 he.symm
    simp only [asMetadata.addValFront, hne, if_false, List.cons_append]
    rw [ih (by simpa [keysOf] using h.2)]

theorem addValFront_last (m : MD) (k v : B) (vs : List B) (h : k ∉ keysOf m) :
    asMetadata.addValFront (m ++ [(k, vs)]) k v = m ++ [(k, v :: vs)] := by
  induction m with
  | nil => simp [asMetadata.addValFront]
  | cons e r ih =>
    obtain ⟨k', vs'⟩ := e
    simp [keysOf] at h
    have hne : ¬ k' = k := fun he => h.1 he.symm
    simp only [List.cons_append, asMetadata.addValFront, hne, if_false]
    rw [ih (by simpa [keysOf] using h.2)]

theorem asMetadata_step (k ev dv : B) (hs : Headers) (m : MD) (hl : lower k = k)
    (hd : if isBin k = true then b64dec ev = some dv else ev = dv)
    (h : asMetadata hs = some m) : asMetadata ((k, ev) :: hs) = some (asMetadata.addValFront m k dv) := by
  simp only [asMetadata, h, hl]
  cases hb : isBin k with
  | false => simp [hb] at hd; simp [hd]
  | true => simp [hb] at hd; simp [hd]

/-- the header lines of one more key, in front of headers that decode to `m0` without that key -/
theorem asMetadata_block (k : B) (vs : List B) (hs : Headers) (m0 : MD) (hne : vs ≠ []) (hl : lower k = k)
    (hvs : isBin k = true → ∀ v ∈ vs, ∀ x ∈ v, x < 256) (h0 : asMetadata hs = some m0) (hk : k ∉ keysOf m0) :
    asMetadata ((vs.map fun v => (k, if isBin k then b64enc v else v)) ++ hs) = some (m0 ++ [(k, vs)]) := by
  induction vs with
  | nil => simp at hne
  | cons v rest ih =>
    have hdv : if isBin k = true then b64dec (if isBin k then b64enc v else v) = some v else (if isBin k then b64enc v else v) = v := by
      cases hb : isBin k with
      | false => simp
      | true => simpa using b64_roundtrip v (hvs hb v (by simp))
    cases rest with
    | nil =>
      simp only [List.map_cons, List.map_nil, List.cons_append, List.nil_append]
      rw [asMetadata_step k _ v hs m0 hl hdv h0, addValFront_new m0 k v hk]
    | cons v2 rest2 =>
      have ih' := ih (by simp) (fun hb w hw => hvs hb w (by simp [hw]))
      simp only [List.map_cons, List.cons_append] at ih' ⊢
      rw [asMetadata_step k _ v _ _ hl hdv ih', addValFront_last m0 k v (v2 :: rest2) hk]

/-- well-formed metadata as the property quantifies over it: distinct lower-case keys that are not
    reserved HTTP header names, at least one value per key, `-bin` values are byte strings -/
def WF (md : MD) : Prop :=
  (keysOf md).Nodup ∧ ∀ e ∈ md, lower e.1 = e.1 ∧ isReserved e.1 = false ∧ e.2 ≠ [] ∧ (isBin e.1 = true → ∀ v ∈ e.2, ∀ x ∈ v, x < 256)

theorem md_roundtrip (md : MD) (h : WF md) : asMetadata (toHeaders md []) = some md.reverse := by
  induction md with
  | nil => rfl
  | cons e rest ih =>
    obtain ⟨k, vs⟩ := e
    obtain ⟨hnd, hall⟩ := h
    simp only [keysOf, List.map_cons, List.nodup_cons] at hnd
    obtain ⟨hl, hr, hne, hb⟩ := hall (k, vs) (by simp)
    have ihr := ih ⟨by simpa [keysOf] using hnd.2, fun e he => hall e (by simp [he])⟩
    have hk : k ∉ keysOf rest.reverse := by
      simp only [keysOf, List.map_reverse, List.mem_reverse]; exact hnd.1
    have := asMetadata_block k vs (toHeaders rest []) rest.reverse hne hl hb ihr hk
    simp only at hl hr
    simpa [toHeaders, hr] using this

end Metadata

namespace Metadata

theorem asMetadata_cons_same (k ev dv : B) (hs : Headers) (rest : List B) (hl : lower k = k)
    (hd : if isBin k = true then b64dec ev = some dv else ev = dv)
    (h : asMetadata hs = some [(k, rest)]) : asMetadata ((k, ev) :: hs) = some [(k, dv :: rest)] := by
  simp only [asMetadata, h, hl]
  cases hb : isBin k with
  | false => simp [hb] at hd; simp [hd, asMetadata.addValFront]
  | true => simp [hb] at hd; simp [hd, asMetadata.addValFront]

theorem asMetadata_single (k ev dv : B) (hl : lower k = k)
    (hd : if isBin k = true then b64dec ev = some dv else ev = dv) : asMetadata [(k, ev)] = some [(k, [dv])] := by
  simp only [asMetadata, hl]
  cases hb : isBin k with
  | false => simp [hb] at hd; simp [hd, asMetadata.addValFront]
  | true => simp [hb] at hd; simp [hd, asMetadata.addValFront]

/-- one key, any number of values: `asMetadata (toHeaders [(k, vs)])` gives back exactly `[(k, vs)]` -/
theorem asMetadata_values (k : B) (vs : List B) (hne : vs ≠ []) (hl : lower k = k)
    (hvs : isBin k = true → ∀ v ∈ vs, ∀ x ∈ v, x < 256) :
    asMetadata (vs.map fun v => (k, if isBin k then b64enc v else v)) = some [(k, vs)] := by
  induction vs with
  | nil => simp at hne
  | cons v rest ih =>
    have hdv : if isBin k = true then b64dec (if isBin k then b64enc v else v) = some v else (if isBin k then b64enc v else v) = v := by
      cases hb : isBin k with
      | false => simp
      | true => simpa using b64_roundtrip v (hvs hb v (by simp))
    cases rest with
    | nil => exact asMetadata_single k _ v hl hdv
    | cons v2 rest2 =>
      have ih' := ih (by simp) (fun hb w hw => hvs hb w (by simp [hw]))
      exact asMetadata_cons_same k _ v _ (v2 :: rest2) hl hdv ih'

end Metadata
