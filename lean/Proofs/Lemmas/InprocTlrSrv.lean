/-
  Server side of the trailer and error frames in the InprocStream system: the trailers frame
  carries everything the handler set, there is at most one, and the error frame is the last frame
  (helper lemmas for C03; under a live context).
-/
import Proofs.Lemmas.InprocHdr
import Proofs.Lemmas.InprocSrv

namespace InprocStream

def isTlr : Frame → Bool | .trailers _ => true | _ => false
def isErr : Frame → Bool | .err _ => true | _ => false
def tlrCount (l : List Frame) : Nat := (l.filter isTlr).length
def hasErr (l : List Frame) : Bool := l.any isErr
/-- is there an error frame that is not the last frame? -/
def errThenMore : List Frame → Bool
  | [] => false
  | f :: r => (isErr f && !r.isEmpty) || errThenMore r

@[simp] theorem tlrCount_nil : tlrCount [] = 0 := rfl
@[simp] theorem tlrCount_cons (f : Frame) (r : List Frame) : tlrCount (f :: r) = (if isTlr f then 1 else 0) + tlrCount r := by
  unfold tlrCount; cases h : isTlr f <;> simp [List.filter, h]; omega
@[simp] theorem tlrCount_append (a b : List Frame) : tlrCount (a ++ b) = tlrCount a + tlrCount b := by
  simp [tlrCount, List.filter_append]
@[simp] theorem hasErr_nil : hasErr [] = false := rfl
@[simp] theorem hasErr_cons (f : Frame) (r : List Frame) : hasErr (f :: r) = (isErr f || hasErr r) := by simp [hasErr]
@[simp] theorem hasErr_append (a b : List Frame) : hasErr (a ++ b) = (hasErr a || hasErr b) := by simp [hasErr, List.any_append]
@[simp] theorem isTlr_t (m : List Nat) : isTlr (.trailers m) = true := rfl
@[simp] theorem isTlr_h (m : List Nat) : isTlr (.headers m) = false := rfl
@[simp] theorem isTlr_d (m : Nat) : isTlr (.data m) = false := rfl
@[simp] theorem isTlr_e (e : HErr) : isTlr (.err e) = false := rfl
@[simp] theorem isErr_t (m : List Nat) : isErr (.trailers m) = false := rfl
@[simp] theorem isErr_h (m : List Nat) : isErr (.headers m) = false := rfl
@[simp] theorem isErr_d (m : Nat) : isErr (.data m) = false := rfl
@[simp] theorem isErr_e (e : HErr) : isErr (.err e) = true := rfl

theorem errThenMore_snoc (l : List Frame) (f : Frame) : errThenMore (l ++ [f]) = (errThenMore l || hasErr l) := by
  induction l with
  | nil => simp [errThenMore]
  | cons g r ih =>
    simp only [List.cons_append, errThenMore, ih, hasErr_cons]
    cases isErr g <;> cases r <;> simp [errThenMore]
    all_goals (rename_i a b; cases errThenMore (a :: b) <;> cases hasErr b <;> cases isErr a <;> simp)

@[simp] theorem errThenMore_nil : errThenMore [] = false := rfl
@[simp] theorem errThenMore_cons (f : Frame) (r : List Frame) : errThenMore (f :: r) = ((isErr f && !r.isEmpty) || errThenMore r) := rfl
@[simp] theorem errThenMore_single (f : Frame) : errThenMore [f] = false := by simp [errThenMore]

structure TlrS (s : St) : Prop where
  ts : s.sReturned = false → s.sTrailers = s.tlrAll ∧ tlrOf s.respEnq = [] ∧ tlrCount (pendFrames s) = 0 ∧ tlrCount s.respEnq = 0 ∧ hasErr s.respEnq = false ∧ hasErr (pendFrames s) = false
  tp : ∀ md, Frame.trailers md ∈ pendFrames s → md = s.tlrAll
  tc : tlrCount (pendFrames s) + tlrCount s.respEnq ≤ 1
  tE : s.ctx = none → s.sReturned = true → tlrCount (pendFrames s) = 0 → tlrOf s.respEnq = s.tlrAll
  eP : hasErr s.respEnq = true → pendFrames s = []
  eO : errThenMore (pendFrames s) = false
  eE : errThenMore s.respEnq = false

set_option maxRecDepth 4096 in
theorem tlrs_init (c1 c2 : Nat) (rs : Bool) : TlrS (init c1 c2 rs) := by
  constructor <;> simp [init, pendFrames]

set_option maxRecDepth 4096 in
set_option maxHeartbeats 8000000 in
theorem tlrs_step (s : St) (a : Act) (s' : St) (evs : List Ev) (hb : Base s) (h : TlrS s)
    (hs : step s a = some (s', evs)) : TlrS s' := by
  have hT := h
  have b3 := hb.doneRet
  have b7 := hb.exitedEq
  have b8 := hb.closedW
  have b11 := hb.finRet
  have b12 := hb.retFin
  obtain ⟨r1, r2, r3, r4, r5, r6, r7⟩ := h
  cases a with
  | sReturn e =>
    simp only [step] at hs
    split at hs
    · simp at hs
    · rename_i hcond
      simp only [Option.some.injEq, Prod.mk.injEq] at hs
      obtain ⟨rfl, rfl⟩ := hs
      have hnr : s.sReturned = false := by
        cases hr : s.sReturned with
        | false => rfl
        | true => simp [hr] at hcond
      obtain ⟨t1, t2, t3, t4, t5, t6⟩ := r1 hnr
      constructor <;> simp only [pendFrames] <;>
        cases hh : (s.sState == 0 && !s.sHeaders.isEmpty) <;> cases ht : s.sTrailers <;> cases e <;>
        simp_all [isFinish] <;> (try (split <;> simp_all)) <;> (try omega)
  | _ =>
    simp only [step, finishWrite] at hs <;> (repeat' split at hs) <;>
    (try (simp only [Option.some.injEq, Prod.mk.injEq, reduceCtorEq] at hs)) <;>
    (try (obtain ⟨rfl, rfl⟩ := hs)) <;>
    (first | (exfalso; assumption)
           | (constructor <;>
               (try (simp_all [pendFrames, isFinish, svrCtxDone, errThenMore_snoc])) <;> (try assumption) <;> (try omega)))
    all_goals (first | omega | (subst_vars; simp_all; done) | (have h1 := hT.ts; simp_all [pendFrames]; done) | (have h1 := hT.ts; simp_all [pendFrames]; split <;> simp_all; done) | grind [isTlr, isErr])

end InprocStream
