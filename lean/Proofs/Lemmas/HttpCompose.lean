/-
  HTTP streams end to end: the reply the server model writes, fed frame by frame to the client
  model as the response body. Linking lemmas between HttpServerStream (wire) and HttpClientStream
  (supplied / delivered) for the composition theorems of C01 / C02.
-/
import Proofs.Lemmas.HttpClient
import Proofs.Lemmas.HttpServerStream

namespace HttpCompose
open HttpServerStream (Out)
open HttpClientStream (Item Act St)

/-- a frame on the wire as the client's decode loop meets it (the header block is not a body item;
    what the server wrote decodes on the client: same codec) -/
def itemOf : Out → Option Item
  | .head _ => none
  | .data m => some (.data m true)
  | .trailer c _ => some (.trailer c true)

def itemsOf (w : List Out) : List Item := w.filterMap itemOf

/-- the body items the transport supplied in an action sequence of the client model -/
def itemsIn : List Act → List Item
  | [] => []
  | .tItem i :: r => i :: itemsIn r
  | _ :: r => itemsIn r

/-- the messages of the data frames on the wire -/
def msgsOfWire : List Out → List Nat
  | [] => []
  | .data m :: r => m :: msgsOfWire r
  | _ :: r => msgsOfWire r

theorem dataOK_itemsOf (w : List Out) : HttpClientStream.dataOK (itemsOf w) = msgsOfWire w := by
  induction w with
  | nil => rfl
  | cons f r ih => cases f <;> simp [itemsOf, itemOf, msgsOfWire, List.filterMap_cons] at ih ⊢ <;> exact ih

theorem itemsIn_cons (a : Act) (r : List Act) : itemsIn (a :: r) = itemsIn [a] ++ itemsIn r := by
  cases a <;> simp [itemsIn]

/-- one step of the client model: `supplied` grows by exactly the decodable data items the transport
    supplied in that step -/
theorem step_supplied (s : St) (a : Act) (s' : St) (evs : List HttpClientStream.Ev)
    (h : HttpClientStream.step s a = some (s', evs)) :
    s'.supplied = s.supplied ++ HttpClientStream.dataOK (itemsIn [a]) := by
  cases a with
  | tItem i =>
    simp only [HttpClientStream.step] at h
    split at h
    · simp only [Option.some.injEq, Prod.mk.injEq] at h
      obtain ⟨rfl, rfl⟩ := h
      cases i with
      | data m ok => cases ok <;> simp [itemsIn]
      | trailer c ok => simp [itemsIn]
      | bad => simp [itemsIn]
    · simp at h
  | _ =>
    simp only [HttpClientStream.step, HttpClientStream.complete] at h <;> (repeat' split at h) <;>
    (try (simp only [Option.some.injEq, Prod.mk.injEq, reduceCtorEq] at h)) <;>
    (try (obtain ⟨rfl, rfl⟩ := h)) <;> (first | (exfalso; assumption) | simp_all [itemsIn])

theorem run_supplied (acts : List Act) : ∀ (s s' : St), HttpClientStream.run s acts = some s' →
    s'.supplied = s.supplied ++ HttpClientStream.dataOK (itemsIn acts) := by
  induction acts with
  | nil => intro s s' h; simp [HttpClientStream.run] at h; subst h; simp [itemsIn]
  | cons a rest ih =>
    intro s s' h
    simp only [HttpClientStream.run] at h
    split at h
    · rename_i s1 evs hs
      rw [ih s1 s' h, step_supplied s a s1 evs hs, itemsIn_cons a rest, HttpClientStream.dataOK_append, List.append_assoc]
    · simp at h

/-- the client has read a decodable OK trailer only if the transport supplied one -/
theorem step_sawTrailer (s : St) (a : Act) (s' : St) (evs : List HttpClientStream.Ev)
    (h : HttpClientStream.step s a = some (s', evs)) (hn : s'.sawTrailerOK = true) :
    s.sawTrailerOK = true ∨ (.trailer 0 true) ∈ s.body := by
  cases a <;> simp only [HttpClientStream.step, HttpClientStream.complete] at h <;> (repeat' split at h) <;>
    (try (simp only [Option.some.injEq, Prod.mk.injEq, reduceCtorEq] at h)) <;>
    (try (obtain ⟨rfl, rfl⟩ := h)) <;> (first | (exfalso; assumption) | (simp_all; done) | skip)
  all_goals (simp_all; rcases hn with hn | hn <;> simp_all)

/-- trailer items in the body come from the transport -/
theorem step_body_trailer (s : St) (a : Act) (s' : St) (evs : List HttpClientStream.Ev)
    (h : HttpClientStream.step s a = some (s', evs)) (c : Nat) (hm : (.trailer c true) ∈ s'.body) :
    (.trailer c true) ∈ s.body ∨ (.trailer c true) ∈ itemsIn [a] := by
  cases a with
  | tItem i =>
    simp only [HttpClientStream.step] at h
    split at h
    · simp only [Option.some.injEq, Prod.mk.injEq] at h
      obtain ⟨rfl, rfl⟩ := h
      simp at hm
      rcases hm with hm | hm
      · exact Or.inl hm
      · right; simp [itemsIn, hm]
    · simp at h
  | _ =>
    simp only [HttpClientStream.step, HttpClientStream.complete] at h <;> (repeat' split at h) <;>
    (try (simp only [Option.some.injEq, Prod.mk.injEq, reduceCtorEq] at h)) <;>
    (try (obtain ⟨rfl, rfl⟩ := h)) <;> (first | (exfalso; assumption) | simp_all [itemsIn])

theorem mem_itemsIn_cons (x : Item) (a : Act) (r : List Act) : x ∈ itemsIn (a :: r) ↔ x ∈ itemsIn [a] ∨ x ∈ itemsIn r := by
  rw [itemsIn_cons]; simp

theorem run_trailer (acts : List Act) : ∀ (s s' : St), HttpClientStream.run s acts = some s' →
    (∀ c, (.trailer c true) ∈ s'.body → (.trailer c true) ∈ s.body ∨ (.trailer c true) ∈ itemsIn acts) ∧
    (s'.sawTrailerOK = true → s.sawTrailerOK = true ∨ (.trailer 0 true) ∈ s.body ∨ (.trailer 0 true) ∈ itemsIn acts) := by
  induction acts with
  | nil =>
    intro s s' h
    simp [HttpClientStream.run] at h
    subst h
    exact ⟨fun c hc => Or.inl hc, fun hs => Or.inl hs⟩
  | cons a rest ih =>
    intro s s' h
    simp only [HttpClientStream.run] at h
    split at h
    · rename_i s1 evs hs
      obtain ⟨ib, it⟩ := ih s1 s' h
      refine ⟨?_, ?_⟩
      · intro c hc
        rcases ib c hc with h1 | h1
        · rcases step_body_trailer s a s1 evs hs c h1 with h2 | h2
          · exact Or.inl h2
          · right; rw [mem_itemsIn_cons]; exact Or.inl h2
        · right; rw [mem_itemsIn_cons]; exact Or.inr h1
      · intro hsaw
        rcases it hsaw with h1 | h1 | h1
        · rcases step_sawTrailer s a s1 evs hs h1 with h2 | h2
          · exact Or.inl h2
          · exact Or.inr (Or.inl h2)
        · rcases step_body_trailer s a s1 evs hs 0 h1 with h2 | h2
          · exact Or.inr (Or.inl h2)
          · right; right; rw [mem_itemsIn_cons]; exact Or.inl h2
        · right; right; rw [mem_itemsIn_cons]; exact Or.inr h1
    · simp at h

theorem itemsOf_data_snoc (fs : List Out) (c : Nat) (md : List Nat) (hfs : HttpServerStream.allData fs = true) :
    itemsOf (fs ++ [.trailer c md]) = (msgsOfWire fs).map (fun m => Item.data m true) ++ [.trailer c true] ∧
    msgsOfWire (fs ++ [.trailer c md]) = msgsOfWire fs := by
  induction fs with
  | nil => exact ⟨rfl, rfl⟩
  | cons f r ih =>
    rw [HttpServerStream.allData_cons, Bool.and_eq_true] at hfs
    obtain ⟨hf, hr⟩ := hfs
    obtain ⟨i1, i2⟩ := ih hr
    cases f with
    | data m =>
      refine ⟨?_, ?_⟩
      · show itemsOf (Out.data m :: (r ++ [Out.trailer c md])) = _
        unfold itemsOf at i1 ⊢
        rw [List.filterMap_cons]
        simp only [itemOf, msgsOfWire, List.map_cons, List.cons_append]
        rw [i1]
      · show msgsOfWire (Out.data m :: (r ++ [Out.trailer c md])) = _
        simp only [msgsOfWire]
        rw [i2]
    | head _ => simp [HttpServerStream.isData] at hf
    | trailer _ _ => simp [HttpServerStream.isData] at hf

/-- the wire of a complete reply as body items: its data frames, then its trailer -/
theorem itemsOf_complete (h : List Nat) (fs : List Out) (c : Nat) (md : List Nat) (hfs : HttpServerStream.allData fs = true) :
    itemsOf (.head h :: (fs ++ [.trailer c md])) = (msgsOfWire fs).map (fun m => Item.data m true) ++ [.trailer c true] ∧
    msgsOfWire (.head h :: (fs ++ [.trailer c md])) = msgsOfWire fs := by
  obtain ⟨i1, i2⟩ := itemsOf_data_snoc fs c md hfs
  refine ⟨?_, ?_⟩
  · unfold itemsOf at i1 ⊢
    rw [List.filterMap_cons]
    simp only [itemOf]
    exact i1
  · simp only [msgsOfWire]; exact i2

/-- a prefix of `datas ++ [trailer]` that contains a decodable trailer item is the whole list -/
theorem prefix_with_trailer (ms : List Nat) (c c' : Nat) : ∀ (p : List Item),
    p <+: ms.map (fun m => Item.data m true) ++ [.trailer c true] → (.trailer c' true) ∈ p →
    p = ms.map (fun m => Item.data m true) ++ [.trailer c true] ∧ c' = c := by
  induction ms with
  | nil =>
    intro p hp hm
    obtain ⟨t, ht⟩ := hp
    cases p with
    | nil => simp at hm
    | cons x xs =>
      simp only [List.map_nil, List.nil_append, List.cons_append, List.cons.injEq, List.append_eq_nil_iff] at ht
      obtain ⟨rfl, rfl, _⟩ := ht
      simp at hm
      exact ⟨rfl, hm⟩
  | cons m r ih =>
    intro p hp hm
    obtain ⟨t, ht⟩ := hp
    cases p with
    | nil => simp at hm
    | cons x xs =>
      simp only [List.map_cons, List.cons_append, List.cons.injEq] at ht
      obtain ⟨rfl, ht2⟩ := ht
      have hm2 : Item.trailer c' true ∈ xs := by simpa using hm
      obtain ⟨e1, e2⟩ := ih xs ⟨t, ht2⟩ hm2
      exact ⟨by simp [e1], e2⟩

/-- the trailer status the client holds comes from a trailer item the transport supplied, or from a
    non-OK reply status -/
theorem step_trcode (s : St) (a : Act) (s' : St) (evs : List HttpClientStream.Ev)
    (h : HttpClientStream.step s a = some (s', evs)) (c : Nat) (hn : s'.tr = some c) :
    s.tr = some c ∨ (.trailer c true) ∈ s.body ∨ a = .tReplyStatus c := by
  cases a <;> simp only [HttpClientStream.step, HttpClientStream.complete] at h <;> (repeat' split at h) <;>
    (try (simp only [Option.some.injEq, Prod.mk.injEq, reduceCtorEq] at h)) <;>
    (try (obtain ⟨rfl, rfl⟩ := h)) <;> (first | (exfalso; assumption) | (simp_all; done) | skip)
  all_goals (simp_all)

theorem run_trcode (acts : List Act) : ∀ (s s' : St), HttpClientStream.run s acts = some s' → ∀ c, s'.tr = some c →
    s.tr = some c ∨ (.trailer c true) ∈ s.body ∨ (.trailer c true) ∈ itemsIn acts ∨ Act.tReplyStatus c ∈ acts := by
  induction acts with
  | nil => intro s s' h c hc; simp [HttpClientStream.run] at h; subst h; exact Or.inl hc
  | cons a rest ih =>
    intro s s' h c hc
    simp only [HttpClientStream.run] at h
    split at h
    · rename_i s1 evs hs
      rcases ih s1 s' h c hc with h1 | h1 | h1 | h1
      · rcases step_trcode s a s1 evs hs c h1 with h2 | h2 | h2
        · exact Or.inl h2
        · exact Or.inr (Or.inl h2)
        · right; right; right; simp [h2]
      · rcases step_body_trailer s a s1 evs hs c h1 with h2 | h2
        · exact Or.inr (Or.inl h2)
        · right; right; left; rw [mem_itemsIn_cons]; exact Or.inl h2
      · right; right; left; rw [mem_itemsIn_cons]; exact Or.inr h1
      · right; right; right; simp [h1]
    · simp at h

theorem dataOK_prefix (a b : List Item) (h : a <+: b) : HttpClientStream.dataOK a <+: HttpClientStream.dataOK b := by
  obtain ⟨t, rfl⟩ := h
  rw [HttpClientStream.dataOK_append]
  exact List.prefix_append _ _

theorem dataOK_datas (ms : List Nat) (c : Nat) :
    HttpClientStream.dataOK (ms.map (fun m => Item.data m true) ++ [.trailer c true]) = ms := by
  induction ms with
  | nil => simp
  | cons m r ih => simp [ih]

/-- the messages of the handler's SendMsg calls that returned nil, in call order -/
def okSends : List HttpServerStream.Act → List InprocStream.Res → List Nat
  | .send m _ :: as, .ok :: rs => m :: okSends as rs
  | _ :: as, _ :: rs => okSends as rs
  | _, _ => []

theorem okSends_cons (a : HttpServerStream.Act) (as : List HttpServerStream.Act) (r : InprocStream.Res) (rs : List InprocStream.Res) :
    okSends (a :: as) (r :: rs) = okSends [a] [r] ++ okSends as rs := by
  cases a <;> cases r <;> simp [okSends]

theorem msgsOfWire_append (a b : List Out) : msgsOfWire (a ++ b) = msgsOfWire a ++ msgsOfWire b := by
  induction a with
  | nil => rfl
  | cons f r ih => cases f <;> simp [msgsOfWire, ih]

theorem msgsOfWire_withHead (s : HttpServerStream.St) : msgsOfWire (HttpServerStream.withHead s) = msgsOfWire s.wire := by
  unfold HttpServerStream.withHead
  split
  · rfl
  · rw [msgsOfWire_append]; simp [msgsOfWire]

/-- one step of the server model: the data frames on the wire grow by exactly the message of a
    SendMsg that returned nil -/
theorem step_msgs (s : HttpServerStream.St) (a : HttpServerStream.Act) (s' : HttpServerStream.St) (r : InprocStream.Res)
    (h : HttpServerStream.step s a = some (s', r)) : msgsOfWire s'.wire = msgsOfWire s.wire ++ okSends [a] [r] := by
  unfold HttpServerStream.step at h
  split at h
  · cases a <;> simp [HttpServerStream.stepFinished] at h
    obtain ⟨rfl, rfl⟩ := h; simp [okSends]
  · cases a <;> simp only [HttpServerStream.stepLive] at h <;> (repeat' split at h) <;> simp at h <;>
      (try (obtain ⟨rfl, rfl⟩ := h)) <;> simp [okSends, msgsOfWire_append, msgsOfWire_withHead, msgsOfWire]

theorem run_msgs (acts : List HttpServerStream.Act) : ∀ (s s' : HttpServerStream.St) (rs : List InprocStream.Res),
    HttpServerStream.run s acts = some (s', rs) → msgsOfWire s'.wire = msgsOfWire s.wire ++ okSends acts rs := by
  induction acts with
  | nil => intro s s' rs h; simp [HttpServerStream.run] at h; obtain ⟨rfl, rfl⟩ := h; simp [okSends]
  | cons a rest ih =>
    intro s s' rs h
    obtain ⟨s1, r, rs', hs, hr, rfl⟩ := HttpServerStream.run_cons h
    rw [ih s1 s' rs' hr, step_msgs s a s1 r hs, okSends_cons a rest r rs', List.append_assoc]

/-! ### request direction -/

def pend (s : St) : List Nat := match s.cSend with | some m => [m] | none => []

/-- what the client has put on the wire is, in order, what its SendMsg calls offered — with the
    message of a SendMsg still parked in the pipe as the only one outstanding; once a send has
    failed nothing more is offered -/
structure ReqInv (s : St) : Prop where
  eq : s.wErr = false → s.reqWritten ++ pend s = s.offered
  pre : s.reqWritten ++ pend s <+: s.offered

theorem reqinv_init (rs : Bool) : ReqInv (HttpClientStream.init rs) := by
  constructor <;> simp [HttpClientStream.init, pend]

theorem reqinv_step (s : St) (a : Act) (s' : St) (evs : List HttpClientStream.Ev) (hi : ReqInv s)
    (h : HttpClientStream.step s a = some (s', evs)) : ReqInv s' := by
  obtain ⟨h1, h2⟩ := hi
  cases a with
  | cSendBegin m =>
    simp only [HttpClientStream.step] at h
    split at h
    · simp at h
    · rename_i hnone
      have hc : s.cSend = none := by
        cases hcs : s.cSend with
        | none => rfl
        | some x => simp [hcs] at hnone
      split at h
      · simp only [Option.some.injEq, Prod.mk.injEq] at h; obtain ⟨rfl, rfl⟩ := h; exact ⟨h1, h2⟩
      · rename_i hdw
        have hw : s.wErr = false := by
          cases hww : s.wErr with
          | false => rfl
          | true => simp [hww] at hdw
        split at h
        · simp only [Option.some.injEq, Prod.mk.injEq] at h; obtain ⟨rfl, rfl⟩ := h
          refine ⟨by simp, ?_⟩
          simpa [pend, hc] using h2
        · simp only [Option.some.injEq, Prod.mk.injEq] at h; obtain ⟨rfl, rfl⟩ := h
          have he := h1 hw
          simp only [pend, hc, List.append_nil] at he
          refine ⟨fun _ => by simp [pend, he], by simp [pend, he]⟩
  | tReadReq =>
    simp only [HttpClientStream.step] at h
    split at h
    · rename_i m hcs
      simp only [Option.some.injEq, Prod.mk.injEq] at h; obtain ⟨rfl, rfl⟩ := h
      refine ⟨fun hw => ?_, ?_⟩
      · have := h1 hw; simpa [pend, hcs] using this
      · simpa [pend, hcs] using h2
    · simp at h
  | cSendPipeClosed =>
    simp only [HttpClientStream.step] at h
    split at h
    · rename_i m hcs
      split at h
      · simp only [Option.some.injEq, Prod.mk.injEq] at h; obtain ⟨rfl, rfl⟩ := h
        refine ⟨by simp, ?_⟩
        simp only [pend, hcs] at h2
        simpa [pend] using (List.prefix_append s.reqWritten [m]).trans h2
      · simp at h
    · simp at h
  | _ =>
    simp only [HttpClientStream.step, HttpClientStream.complete] at h <;> (repeat' split at h) <;>
    (try (simp only [Option.some.injEq, Prod.mk.injEq, reduceCtorEq] at h)) <;>
    (try (obtain ⟨rfl, rfl⟩ := h)) <;> (first | (exfalso; assumption) | (exact ⟨h1, h2⟩) | (constructor <;> simp_all [pend]))

theorem reqinv_run (rs : Bool) (acts : List Act) (s : St) (h : HttpClientStream.run (HttpClientStream.init rs) acts = some s) : ReqInv s :=
  HttpClientStream.run_induction ReqInv (fun s a s' evs hp hs => reqinv_step s a s' evs hp hs) acts _ s (reqinv_init rs) h

end HttpCompose
