/-
  All InprocStream invariants together, for every reachable state.
-/
import Proofs.Lemmas.InprocSrv
import Proofs.Lemmas.InprocCli
import Proofs.Lemmas.InprocStatus

namespace InprocStream

structure AllInv (s : St) : Prop where
  base : Base s
  req : ReqInv s
  srv : SrvInv s
  cli : CliInv s
  stat : StatInv s

theorem all_reachable (c1 c2 : Nat) (rs : Bool) (s : St) (h : Reachable c1 c2 rs s) : AllInv s :=
  reachable_induction c1 c2 rs AllInv
    ⟨base_init c1 c2 rs, req_init c1 c2 rs, srv_init c1 c2 rs, cli_init c1 c2 rs, stat_init c1 c2 rs⟩
    (fun s a s' evs hp hs =>
      ⟨base_step s a s' evs hp.base hs, req_step s a s' evs hp.base hp.req hs,
       srv_step s a s' evs hp.base hp.srv hs, cli_step s a s' evs hp.base hp.cli hs,
       stat_step s a s' evs hp.base hp.stat hs⟩) s h

/-- the successor of a reachable state is reachable -/
theorem reachable_step (c1 c2 : Nat) (rs : Bool) (s s' : St) (a : Act) (evs : List Ev)
    (h : Reachable c1 c2 rs s) (hs : step s a = some (s', evs)) : Reachable c1 c2 rs s' := by
  obtain ⟨acts, hr⟩ := h
  refine ⟨acts ++ [a], ?_⟩
  have : ∀ (acts : List Act) (s0 : St), run s0 acts = some s → run s0 (acts ++ [a]) = some s' := by
    intro acts
    induction acts with
    | nil => intro s0 h0; simp [run] at h0; subst h0; simp [run, hs]
    | cons b rest ih =>
      intro s0 h0
      simp only [run, List.cons_append] at h0 ⊢
      cases hb : step s0 b with
      | none => rw [hb] at h0; simp at h0
      | some p => rw [hb] at h0; simp only [] at h0 ⊢; exact ih p.1 h0
  exact this acts _ hr

end InprocStream
