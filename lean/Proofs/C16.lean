/-
  C16 — server interceptors wrap every handler once, in order, without side effects.
  Theorems over the InterceptServer model; handlers and interceptors are arbitrary functions
  (short-circuiting, failing, rewriting, calling onward several times are all instances).
-/
import Model.InterceptServer

namespace InterceptServer
open Prim

/-- **Composition equation (unary).** For every original application handler, every decorating
    interceptor `u` and every transport-supplied interceptor `t?`, the decorated method handler is
    `t (info, req, λ req'. u (info, req', app))` — transport first, decorating next, then the
    original; with no transport interceptor it is `u (info, req, app)`. Exactly-once, order,
    "handler runs iff every interceptor calls onward" and unchanged pass-through of requests,
    responses and errors are instances of this equation. -/
theorem C16_intercept_unary_eq (info : Bytes) (app : UHandler) (u : UInt) (req : Req) :
    decorateUnary u (generated info app) req none = u info req app ∧
    ∀ t : UInt, decorateUnary u (generated info app) req (some t)
        = t info req (fun req' => u info req' app) := by
  constructor
  · rfl
  · intro t; rfl

/-- **Nested decoration**: decorating twice runs the transport interceptor, then the outer (later)
    decoration, then the inner one, then the handler. -/
theorem C16_nested_decoration (info : Bytes) (app : UHandler) (u1 u2 : UInt) (t : UInt) (req : Req) :
    decorateUnary u2 (decorateUnary u1 (generated info app)) req (some t)
      = t info req (fun r1 => u2 info r1 (fun r2 => u1 info r2 app)) := rfl

/-- **Streams**: the decorated stream handler is `s (info, orig)`, and a carrier with a transport
    stream interceptor runs `t (info, λ. s (info, orig))`. The info carries the full method name
    "/service/stream" and the description's own streaming flags. -/
theorem C16_intercept_stream_eq (svc : Bytes) (sd : StreamDesc) (s : SInt) (orig : SHandler) :
    (dispatchStream none (streamInfo svc sd) (decorateStream s (streamInfo svc sd) orig)
        = s (streamInfo svc sd) orig) ∧
    (∀ t : SInt, dispatchStream (some t) (streamInfo svc sd) (decorateStream s (streamInfo svc sd) orig)
        = t (streamInfo svc sd) (fun _ => s (streamInfo svc sd) orig)) ∧
    (streamInfo svc sd).fullMethod = [47] ++ svc ++ [47] ++ sd.name ∧
    (streamInfo svc sd).isClientStream = sd.clientStreams ∧
    (streamInfo svc sd).isServerStream = sd.serverStreams := by
  have h1 : (Gen.serverStreamInfoFormat == "/%s/%s|ServiceName|StreamName") = true := by decide
  have h2 : (Gen.infoIsClientFrom == "ClientStreams") = true := by decide
  have h3 : (Gen.infoIsServerFrom == "ServerStreams") = true := by decide
  refine ⟨rfl, fun t => rfl, ?_, ?_, ?_⟩ <;> simp [streamInfo, h1, h2, h3]

/-- **No interceptors ⇒ the original description itself** (same addresses, heap untouched). -/
theorem C16_no_interceptors_identity (h : Heap) (d : Desc) (wrap : Nat → Nat) :
    interceptServer h d false false wrap = (h, d) := by
  have : (Gen.serverIdentityCond == "&&") = true := by decide
  unfold interceptServer; simp [this]

theorem get_alloc_other (h : Heap) (v : List Nat) (a : Nat) (ha : a < h.next) :
    (h.alloc v).1.get a = h.get a := by
  unfold Heap.alloc Heap.get
  simp only [List.find?_cons]
  have : (h.next == a) = false := by simp; omega
  simp [this]

theorem alloc_next (h : Heap) (v : List Nat) : (h.alloc v).1.next = h.next + 1 := rfl

/-- **The original description is left unmodified**: every slice that existed before decoration
    (in particular the original's method and stream slices) has the same contents afterwards,
    whatever interceptors are supplied. -/
theorem C16_original_untouched (h : Heap) (d : Desc) (hasU hasS : Bool) (wrap : Nat → Nat)
    (a : Nat) (ha : a < h.next) :
    (interceptServer h d hasU hasS wrap).1.get a = h.get a := by
  have hm : Gen.serverMethodsFresh = true := by decide
  have hs : Gen.serverStreamsFresh = true := by decide
  have hc : (Gen.serverIdentityCond == "&&") = true := by decide
  unfold interceptServer
  simp only [hm, hs, hc, ↓reduceIte]
  cases hasU <;> cases hasS <;> simp only [Bool.not_false, Bool.not_true, Bool.and_self, Bool.and_false,
    Bool.false_and, Bool.false_eq_true, ↓reduceIte]
  · exact get_alloc_other h _ a ha
  · exact get_alloc_other h _ a ha
  · rw [get_alloc_other _ _ a (by rw [alloc_next]; omega)]
    exact get_alloc_other h _ a ha

/-- …and the decorated description holds the wrapped handlers, element for element. -/
theorem C16_decorated_contents (h : Heap) (d : Desc) (wrap : Nat → Nat) (hd : d.methods < h.next) :
    let r := interceptServer h d true false wrap
    r.1.get r.2.methods = (h.get d.methods).map wrap ∧ r.2.streams = d.streams ∧ r.2.name = d.name := by
  have hm : Gen.serverMethodsFresh = true := by decide
  have hc : (Gen.serverIdentityCond == "&&") = true := by decide
  simp only [interceptServer, hm, hc, ↓reduceIte, Bool.not_true, Bool.false_and, Bool.false_eq_true]
  unfold Heap.alloc Heap.get
  simp

/-- Instance of the composition equation: logging pass-through interceptors log transport, then
    decoration, then the handler — each exactly once — and the response passes through unchanged. -/
theorem C16_pass_through_log (info : Bytes) (req : Req) :
    decorateUnary (dPass 0) (generated info appEcho) req (some tPass)
      = ([.transport info req, .decor 0 info req, .app req], req) := rfl

/-- Instance: a short-circuiting decoration stops the chain — the handler does not run. -/
theorem C16_short_circuit (info : Bytes) (req : Req) :
    decorateUnary (dShort 0) (generated info appEcho) req (some tPass)
      = ([.transport info req, .decor 0 info req], 99) := rfl

/-- regenerated from intercept.go: after its identity test `WithInterceptor` always stacks a new view holding exactly the
    interceptors it was given, and a view registers `InterceptServer(desc, its own interceptors)` with the registry below -/
theorem C16_registry_view_facts :
    Gen.registryViewRest = "return &interceptingRegistry{reg: reg, unaryInt: unaryInt, streamInt: streamInt}" ∧
    Gen.registryViewRegister = "{ r.reg.RegisterService(InterceptServer(desc, r.unaryInt, r.streamInt), srv) }" ∧
    (Gen.registryIdentityCond == "&&") = true := by decide

/-- **Nested registry views decorate like nested `InterceptServer` calls**: whatever interceptors (nil or not) the view
    next to the registry holds, a second view on top of it contributes its own unary interceptor — it is never dropped
    or merged away — and the view next to the registry is the outermost decoration. -/
theorem C16_nested_views_unary (u0 u1 : UInt) (s0 s1 : Option SInt) (h : MethodHandler) :
    (withInterceptor (withInterceptor .base (some u1) s1) (some u0) s0).registerUnary h
      = decorateUnary u1 (decorateUnary u0 h) ∧
    (withInterceptor (withInterceptor .base none s1) (some u0) s0).registerUnary h
      = decorateUnary u0 h := by
  have hc : (Gen.registryIdentityCond == "&&") = true := by decide
  constructor
  · simp [withInterceptor, hc, Reg.registerUnary]
  · cases s1 <;> simp [withInterceptor, hc, Reg.registerUnary]

/-- the same for streams -/
theorem C16_nested_views_stream (s0 s1 : SInt) (u0 u1 : Option UInt) (info : StreamInfo) (h : SHandler) :
    (withInterceptor (withInterceptor .base u1 (some s1)) u0 (some s0)).registerStream info h
      = decorateStream s1 info (decorateStream s0 info h) := by
  have hc : (Gen.registryIdentityCond == "&&") = true := by decide
  cases u0 <;> cases u1 <;> simp [withInterceptor, hc, Reg.registerStream]

/-- instance (the shape seeded change C16-m8 broke): the view next to the registry intercepts unary calls only, the one on
    top both kinds; a unary call logs transport, inner view, outer view, handler -/
example (info : Bytes) (req : Req) (s0 : SInt) :
    (withInterceptor (withInterceptor .base (some (dPass 1)) none) (some (dPass 0)) (some s0)).registerUnary
        (generated info appEcho) req (some tPass)
      = ([.transport info req, .decor 1 info req, .decor 0 info req, .app req], req) := by
  have hc : (Gen.registryIdentityCond == "&&") = true := by decide
  simp [withInterceptor, hc, Reg.registerUnary]
  rfl

end InterceptServer
