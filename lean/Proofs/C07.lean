/-
  C07 — HTTP framing decodes safely: bounded memory, no panic, truncation is an error.
  Property theorems only (helper lemmas: Proofs/Lemmas/Framing.lean). All statements are over
  arbitrary byte strings / message lists with no bound on length. `Gen.maxMessageSize` and the
  allocation-site guard facts are regenerated from /repo on every run.
-/
import Proofs.Lemmas.Framing

namespace Framing
open Prim

/-- Regenerated fact: every `make([]byte, n)` with a length read off the wire is preceded by a
    size guard no larger than the per-message limit, in all three decoding functions. -/
theorem C07_alloc_sites_guarded :
    ∀ s ∈ Gen.allocSites, s.2.1 = s.2.2.1 ∧ (s.2.1 = 0 ∨ s.2.2.2 ≤ Gen.maxMessageSize) := by
  decide

/-- **Totality / no panic.** The decode loop is a total function whose result does not depend on
    the iteration budget once it exceeds the input length (every iteration consumes ≥ 4 bytes):
    the "out of fuel" branch of the definition is unreachable. The result type has no panic
    outcome: every input yields messages plus a trailer or an error. -/
theorem C07_decode_total (b : Bytes) (e : Ending) (fuel : Nat) (h : b.length < fuel) :
    clientDecodeFuel fuel b e = clientDecode b e :=
  clientDecodeFuel_indep fuel (b.length + 1) b e h (by omega)

/-- **Bounded memory (client).** For every byte string and ending, every allocation the response
    decoder performs is at most the per-message limit. -/
theorem C07_client_alloc_bounded (b : Bytes) (e : Ending) :
    ∀ x ∈ (clientDecode b e).allocs, x ≤ Gen.maxMessageSize := by
  revert b
  apply clientDecode_induction (e := e)
  · intro b o al hs x hx
    rw [clientDecode_done b e o al hs] at hx
    exact ((clientStep_alloc b e x).2 o al hs) hx
  · intro b m rest al hs ih x hx
    rw [clientDecode_msg b e m rest al hs] at hx
    simp only [List.mem_append] at hx
    rcases hx with hx | hx
    · exact ((clientStep_alloc b e x).1 m rest al hs) hx
    · exact ih x hx

/-- **Bounded memory (server).** Same for one `RecvMsg` of the request decoder, in any state. -/
theorem C07_server_alloc_bounded (cs : Bool) (bad : Bytes → Bool) (s : SrvState) (e : Ending) :
    ∀ x ∈ (serverRecv cs bad s e).2.2, x ≤ Gen.maxMessageSize := by
  intro x hx
  unfold serverRecv at hx
  split at hx
  · simp at hx
  · cases hrs : readSize s.body e with
    | error er =>
      rw [hrs] at hx
      cases er <;> simp at hx
    | ok p =>
      obtain ⟨sz, rest⟩ := p
      rw [hrs] at hx
      simp only at hx
      have hal : ∀ y ∈ (readPayload sz rest e).2, y ≤ Gen.maxMessageSize := by
        intro y hy
        unfold readPayload at hy
        split at hy
        · simp at hy
        · split at hy
          · simp at hy
          · rename_i h1 h2
            simp at hy; unfold maxSize at h2; omega
      cases hrp : readPayload sz rest e with
      | mk res al =>
        rw [hrp] at hx hal
        cases res with
        | error er => simp at hx; exact hal x hx
        | ok q =>
          obtain ⟨m, rest'⟩ := q
          simp only at hx
          split at hx
          · exact hal x hx
          · split at hx
            · exact hal x hx
            · split at hx <;> exact hal x hx

/-- **Nothing fabricated.** For every byte string, the messages the decoder yields, re-framed,
    are exactly a prefix of the input: each is the contiguous slice following its own prefix. -/
theorem C07_client_no_fabrication (b : Bytes) (e : Ending) :
    (clientDecode b e).msgs.flatMap encodeFrame <+: b := by
  revert b
  apply clientDecode_induction (e := e)
  · intro b o al hs
    rw [clientDecode_done b e o al hs]
    exact List.nil_prefix
  · intro b m rest al hs ih
    rw [clientDecode_msg b e m rest al hs]
    obtain ⟨hb, _, _⟩ := clientStep_msg b e m rest al hs
    simp only [List.flatMap_cons]
    rw [hb]
    exact (List.prefix_append_right_inj _).mpr ih

/-- **Round trip.** Every sequence of messages within the size limit, followed by a non-empty
    trailer within the limit, decodes to exactly those messages and that trailer — whatever
    follows, and whatever the ending. -/
theorem C07_roundtrip (ms : List Bytes) (t : Bytes) (e : Ending)
    (hms : ∀ m ∈ ms, m.length ≤ Gen.maxMessageSize) (ht0 : 0 < t.length) (ht : t.length ≤ Gen.maxMessageSize) :
    (clientDecode (encodeStream ms t) e).msgs = ms ∧
    (clientDecode (encodeStream ms t) e).outcome = .trailer t := by
  unfold encodeStream
  induction ms with
  | nil =>
    simp only [List.flatMap_nil, List.nil_append]
    have := clientStep_trailer t [] e ht0 ht
    rw [List.append_nil] at this
    rw [clientDecode_done _ e _ _ this]
    exact ⟨rfl, rfl⟩
  | cons m ms ih =>
    simp only [List.flatMap_cons, List.append_assoc]
    have hm := hms m (by simp)
    have hs := clientStep_frame m (ms.flatMap encodeFrame ++ encodeTrailer t) e hm
    rw [clientDecode_msg _ e _ _ _ hs]
    have := ih (fun x hx => hms x (by simp [hx]))
    exact ⟨by rw [this.1], this.2⟩

/-- The zero-length trailer is the documented exception: its prefix is `0`, which reads back as an
    empty *message*, not as a trailer. (The server always writes a non-empty `HttpTrailer`:
    an OK status carries the message "OK".) -/
theorem C07_zero_trailer_is_a_message (e : Ending) :
    (clientDecode (encodeTrailer []) e).msgs = [[]] := by
  cases e <;> decide

/-- **Truncation.** A response cut at *any* offset before the end of the final trailer frame is
    never reported as complete: the outcome is an error, and the messages delivered before the cut
    are an intact prefix of those sent. -/
theorem C07_truncation (ms : List Bytes) (t : Bytes) (e : Ending)
    (hms : ∀ m ∈ ms, m.length ≤ Gen.maxMessageSize) (ht0 : 0 < t.length) (ht : t.length ≤ Gen.maxMessageSize)
    (k : Nat) (hk : k < (encodeStream ms t).length) :
    (clientDecode ((encodeStream ms t).take k) e).msgs <+: ms ∧
    ∃ er, (clientDecode ((encodeStream ms t).take k) e).outcome = .err er := by
  have hlt := maxSize_lt
  unfold encodeStream at hk ⊢
  induction ms generalizing k with
  | nil =>
    simp only [List.flatMap_nil, List.nil_append] at hk ⊢
    -- the cut lies inside the trailer frame
    unfold encodeTrailer at hk ⊢
    by_cases h4 : k < 4
    · have hl : ((be32 ((4294967296 - t.length) % 4294967296) ++ t).take k).length < 4 := by
        rw [List.length_take]; omega
      obtain ⟨er, her⟩ := readSize_short _ e hl
      have : clientStep ((be32 ((4294967296 - t.length) % 4294967296) ++ t).take k) e
          = .done (.err (eofToUnexpected er)) [] := by
        unfold clientStep; rw [her]
      rw [clientDecode_done _ e _ _ this]
      exact ⟨List.nil_prefix, _, rfl⟩
    · have htk : (be32 ((4294967296 - t.length) % 4294967296) ++ t).take k
          = be32 ((4294967296 - t.length) % 4294967296) ++ t.take (k - 4) := by
        rw [List.take_append, be32_length]
        have : (be32 ((4294967296 - t.length) % 4294967296)).take k = be32 ((4294967296 - t.length) % 4294967296) := by
          apply List.take_of_length_le; rw [be32_length]; omega
        rw [this]
      rw [htk]
      simp [be32_length] at hk
      have hshort : (t.take (k - 4)).length < t.length := by rw [List.length_take]; omega
      obtain ⟨er, her⟩ := readFull_short t.length (t.take (k - 4)) e hshort
      have : clientStep (be32 ((4294967296 - t.length) % 4294967296) ++ t.take (k - 4)) e
          = .done (.err (eofToUnexpected er)) [t.length] := by
        unfold clientStep
        rw [readSize_be32_neg _ _ _ ht0 (by omega)]
        simp only
        rw [if_pos (by omega), wrap32_neg_neg _ (by omega)]
        unfold readPayload
        rw [if_neg (by omega), if_neg (by unfold maxSize; omega)]
        have h2 : ((t.length : Nat) : Int).toNat = t.length := by omega
        rw [h2, her]
      rw [clientDecode_done _ e _ _ this]
      exact ⟨List.nil_prefix, _, rfl⟩
  | cons m ms ih =>
    have hm := hms m (by simp)
    simp only [List.flatMap_cons, List.append_assoc] at hk ⊢
    by_cases hfull : (encodeFrame m).length ≤ k
    · -- the first frame is intact: it is delivered, and the cut lies in the rest
      have htk : (encodeFrame m ++ (ms.flatMap encodeFrame ++ encodeTrailer t)).take k
          = encodeFrame m ++ (ms.flatMap encodeFrame ++ encodeTrailer t).take (k - (encodeFrame m).length) := by
        rw [List.take_append]
        rw [List.take_of_length_le hfull]
      rw [htk]
      have hs := clientStep_frame m ((ms.flatMap encodeFrame ++ encodeTrailer t).take (k - (encodeFrame m).length)) e hm
      rw [clientDecode_msg _ e _ _ _ hs]
      have hk' : k - (encodeFrame m).length < (ms.flatMap encodeFrame ++ encodeTrailer t).length := by
        simp only [List.length_append] at hk ⊢; omega
      obtain ⟨hp, er, her⟩ := ih (fun x hx => hms x (by simp [hx])) (k - (encodeFrame m).length) hk'
      exact ⟨(List.prefix_cons_inj m).mpr hp, er, her⟩
    · -- the cut lies inside the first frame: nothing is delivered and the outcome is an error
      have hfl := encodeFrame_length m
      have htk : (encodeFrame m ++ (ms.flatMap encodeFrame ++ encodeTrailer t)).take k = (encodeFrame m).take k := by
        rw [List.take_append]
        have : k - (encodeFrame m).length = 0 := by omega
        rw [this]; simp
      rw [htk]
      unfold encodeFrame at hfl ⊢
      by_cases h4 : k < 4
      · have hl : ((be32 m.length ++ m).take k).length < 4 := by rw [List.length_take]; omega
        obtain ⟨er, her⟩ := readSize_short _ e hl
        have : clientStep ((be32 m.length ++ m).take k) e = .done (.err (eofToUnexpected er)) [] := by
          unfold clientStep; rw [her]
        rw [clientDecode_done _ e _ _ this]
        exact ⟨List.nil_prefix, _, rfl⟩
      · have htk2 : (be32 m.length ++ m).take k = be32 m.length ++ m.take (k - 4) := by
          rw [List.take_append, be32_length]
          have : (be32 m.length).take k = be32 m.length := by
            apply List.take_of_length_le; rw [be32_length]; omega
          rw [this]
        rw [htk2]
        have hshort : (m.take (k - 4)).length < m.length := by
          rw [List.length_take]; unfold encodeFrame at hfull; simp [be32_length] at hfull; omega
        obtain ⟨er, her⟩ := readFull_short m.length (m.take (k - 4)) e hshort
        have : clientStep (be32 m.length ++ m.take (k - 4)) e = .done (.err (eofToUnexpected er)) [m.length] := by
          unfold clientStep
          rw [readSize_be32 _ _ _ (by omega)]
          simp only
          rw [if_neg (by omega)]
          have hg : ¬ ((clientDataGuarded && decide ((m.length : Int) > maxSize)) = true) := by
            unfold maxSize; simp; omega
          rw [if_neg hg]
          have h2 : ((m.length : Nat) : Int).toNat = m.length := by omega
          rw [h2, her]
        rw [clientDecode_done _ e _ _ this]
        exact ⟨List.nil_prefix, _, rfl⟩

/-- **Hostile prefixes.** `0x80000000` (whose negation overflows) and any size beyond the limit are
    rejected without allocating anything. -/
theorem C07_hostile_prefix_rejected (rest : Bytes) (e : Ending) :
    (clientDecode ([128, 0, 0, 0] ++ rest) e).allocs = [] ∧
    (clientDecode ([127, 255, 255, 255] ++ rest) e).allocs = [] ∧
    (clientDecode ([255, 255, 255, 255] ++ rest) e).allocs.all (· ≤ 1) = true := by
  refine ⟨?_, ?_, ?_⟩
  · have : clientStep ([128, 0, 0, 0] ++ rest) e = .done (.err .negativeSize) [] := by
      show clientStep (128 :: 0 :: 0 :: 0 :: rest) e = _
      unfold clientStep readSize
      simp only
      have h1 : i32 128 0 0 0 = -2147483648 := by decide
      rw [h1]
      have h2 : wrap32 (- -2147483648) = -2147483648 := by decide
      rw [if_pos (by decide), h2]
      rfl
    rw [clientDecode_done _ e _ _ this]
  · have : clientStep ([127, 255, 255, 255] ++ rest) e = .done (.err .tooLarge) [] := by
      show clientStep (127 :: 255 :: 255 :: 255 :: rest) e = _
      unfold clientStep readSize
      simp only
      have h1 : i32 127 255 255 255 = 2147483647 := by decide
      rw [h1, if_neg (by decide)]
      have : (clientDataGuarded && decide ((2147483647 : Int) > maxSize)) = true := by decide
      rw [if_pos this]
    rw [clientDecode_done _ e _ _ this]
  · have hb := C07_client_alloc_bounded ([255, 255, 255, 255] ++ rest) e
    have h1 : i32 255 255 255 255 = -1 := by decide
    cases hs : clientStep ([255, 255, 255, 255] ++ rest) e with
    | msg m r al =>
      exfalso
      have hs' := hs
      change clientStep (255 :: 255 :: 255 :: 255 :: rest) e = _ at hs'
      unfold clientStep readSize at hs'
      simp only at hs'
      rw [h1, if_pos (by decide)] at hs'
      split at hs' <;> simp at hs'
    | done o al =>
      rw [clientDecode_done _ e _ _ hs]
      change clientStep (255 :: 255 :: 255 :: 255 :: rest) e = _ at hs
      unfold clientStep readSize at hs
      simp only at hs
      rw [h1, if_pos (by decide)] at hs
      have h2 : wrap32 (-(-1)) = 1 := by decide
      rw [h2] at hs
      unfold readPayload at hs
      rw [if_neg (by decide), if_neg (by decide)] at hs
      have : al = [1] := by
        cases hrf : readFull (1 : Int).toNat rest e with
        | error er => rw [hrf] at hs; simp at hs; exact hs.2.symm
        | ok q => rw [hrf] at hs; simp at hs; exact hs.2.symm
      rw [this]; simp

/-- **Server: a second request message is rejected** on methods that take a single request
    (joint with C08): with two frames in the body the first `RecvMsg` fails with the
    "sent >1" error, and after a successful first receive every further `RecvMsg` is `EOF`. -/
theorem C07_server_second_request_rejected (bad : Bytes → Bool) (m1 m2 rest : Bytes) (e : Ending)
    (h1 : m1.length ≤ Gen.maxMessageSize) (hb : bad m1 = false) :
    (serverRecv false bad ⟨encodeFrame m1 ++ (encodeFrame m2 ++ rest), 0⟩ e).1 = .error .extraRequest ∧
    (∀ s : SrvState, 0 < s.recvd → (serverRecv false bad s e).1 = .error .eof) := by
  constructor
  · rw [serverRecv_frame false bad m1 (encodeFrame m2 ++ rest) e h1 hb]
    obtain ⟨a, b, c, d, h, _⟩ := be32_eq m2.length
    unfold encodeFrame
    rw [h, show ([a, b, c, d] ++ m2 ++ rest : Bytes) = a :: b :: c :: d :: (m2 ++ rest) by simp,
      readSize_cons4]
    simp
  · intro s hs
    unfold serverRecv
    have : (!false && decide (s.recvd > 0)) = true := by simp; omega
    rw [if_pos this]

/-- **Server round trip**: a request body made of frames within the limit is received as exactly
    those messages, then `EOF`, on a client-streaming method. -/
theorem C07_server_roundtrip (bad : Bytes → Bool) (m : Bytes) (rest : Bytes) (e : Ending)
    (h1 : m.length ≤ Gen.maxMessageSize) (hb : bad m = false) :
    serverRecv true bad ⟨encodeFrame m ++ rest, 0⟩ e = (.ok m, ⟨rest, 1⟩, [m.length]) ∧
    (∀ n, (serverRecv true bad ⟨[], n⟩ .clean).1 = .error .eof) := by
  constructor
  · rw [serverRecv_frame true bad m rest e h1 hb]; rfl
  · intro n; rfl

/-- non-vacuity: a concrete two-message stream -/
example : (clientDecode (encodeStream [[1, 2], []] [9]) .clean).msgs = [[1, 2], []] :=
  (C07_roundtrip [[1, 2], []] [9] .clean (by decide) (by decide) (by decide)).1

/-- regenerated from client.go / io.go: the only tests made on a size preface are the ones the model makes — negative
    (client: the trailer frame; decoder: refuse) and above the per-message limit. In particular a preface of exactly 0 is a
    data frame on the client (an empty message), never the trailer. -/
theorem C07_size_test_facts :
    Gen.clientSizeTests = ["sz < 0", "sz > maxMessageSize"] ∧ Gen.decoderSizeTests = ["sz < 0", "sz > maxMessageSize"] := by
  decide

end Framing
