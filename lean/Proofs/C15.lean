/-
  C15 — registry: exclusive, type-checked registration, faithful lookup and service info.
  Refinement of the registry to the abstract map `name ↦ first well-typed registration`,
  over all histories of registrations.
-/
import Model.Registry

namespace Registry
open Prim

/-- the abstract specification: the first well-typed registration under a name -/
def spec (hist : List Reg) (n : Bytes) : Option (Nat × Nat) :=
  (hist.find? (fun r => r.name == n && r.typeOK)).map fun r => (r.desc, r.handler)

/-- **Refusal.** An ill-typed handler or a second handler for a name panics and leaves every earlier
    registration intact. -/
theorem C15_register_refuses (s : State) (r : Reg) (h : r.typeOK = false ∨ has s r.name = true) :
    register s r = (s, true) := by
  unfold register
  rcases h with h | h
  · simp [h]
  · by_cases ht : r.typeOK
    · simp [ht, h]
    · simp [ht]

theorem C15_register_accepts (s : State) (r : Reg) (ht : r.typeOK = true) (hn : has s r.name = false) :
    register s r = (s ++ [(r.name, r.desc, r.handler)], false) := by
  unfold register; simp [ht, hn]

theorem query_append (s : State) (e : Entry) (n : Bytes) :
    query (s ++ [e]) n = if has s n then query s n else if e.1 == n then some e.2 else none := by
  unfold query has
  rw [List.find?_append]
  cases h : s.find? (·.1 == n) with
  | none =>
    have : s.any (·.1 == n) = false := by
      rw [List.find?_eq_none] at h
      simp only [List.any_eq_false]
      intro x hx; simpa using h x hx
    simp only [this, Option.none_or, Bool.false_eq_true, ↓reduceIte, List.find?_cons, List.find?_nil]
    split <;> simp_all
  | some x =>
    have : s.any (·.1 == n) = true := by
      simp only [List.any_eq_true]
      exact ⟨x, List.mem_of_find?_eq_some h, by simpa using List.find?_some h⟩
    simp [this]

theorem has_iff_query (s : State) (n : Bytes) : has s n = (query s n).isSome := by
  unfold has query
  cases h : s.find? (·.1 == n) with
  | none =>
    rw [List.find?_eq_none] at h
    simp only [Option.map_none, Option.isSome_none, List.any_eq_false]
    intro x hx; simpa using h x hx
  | some x =>
    simp only [Option.map_some, Option.isSome_some, List.any_eq_true]
    exact ⟨x, List.mem_of_find?_eq_some h, by simpa using List.find?_some h⟩

/-- one registration step refines the spec: the abstract map gains the entry iff it was free and
    the handler is well typed -/
theorem query_register (s : State) (r : Reg) (n : Bytes) :
    query (register s r).1 n =
      match query s n with
      | some v => some v
      | none => if r.name == n && r.typeOK then some (r.desc, r.handler) else none := by
  unfold register
  by_cases ht : r.typeOK
  · by_cases hh : has s r.name
    · simp only [ht, hh, Bool.not_true, Bool.false_eq_true, ↓reduceIte, Bool.and_true]
      cases hq : query s n with
      | some v => rfl
      | none =>
        simp only
        split
        · rename_i he
          have : r.name = n := by simpa using he
          rw [this, has_iff_query, hq] at hh; simp at hh
        · rfl
    · simp only [ht, hh, Bool.not_true, Bool.false_eq_true, ↓reduceIte, Bool.and_true]
      rw [query_append]
      cases hq : query s n with
      | some v =>
        have : has s n = true := by rw [has_iff_query, hq]; rfl
        simp [this]
      | none =>
        have : has s n = false := by rw [has_iff_query, hq]; rfl
        simp [this]
  · simp only [ht, Bool.not_false, ↓reduceIte, Bool.and_false, Bool.false_eq_true]
    cases query s n <;> rfl

/-- **Refinement over all histories.** After any sequence of registrations (valid, duplicate or
    ill-typed, in any order) looking up any name returns exactly the first well-typed registration
    under that name — and nothing for names never (successfully) registered. -/
theorem C15_query_after_history (hist : List Reg) (n : Bytes) :
    query (run [] hist) n = spec hist n := by
  suffices h : ∀ s : State, query (run s hist) n = match query s n with
      | some v => some v
      | none => spec hist n by
    have := h []
    simpa [query] using this
  induction hist with
  | nil => intro s; simp [run, spec]; cases query s n <;> rfl
  | cons r rest ih =>
    intro s
    show query (run (register s r).1 rest) n = _
    rw [ih, query_register]
    cases hq : query s n with
    | some v => rfl
    | none =>
      simp only
      unfold spec
      simp only [List.find?_cons]
      by_cases hc : (r.name == n && r.typeOK) = true
      · simp [hc]
      · have hc' : (r.name == n && r.typeOK) = false := by simpa using hc
        simp [hc']

/-- invariant: no two entries share a name -/
def NoDupNames (s : State) : Prop := (s.map (·.1)).Nodup

theorem register_nodup (s : State) (r : Reg) (h : NoDupNames s) : NoDupNames (register s r).1 := by
  unfold register
  split
  · exact h
  · split
    · exact h
    · rename_i _ hn
      unfold NoDupNames at *
      simp only [List.map_append, List.map_cons, List.map_nil]
      rw [List.nodup_append]
      refine ⟨h, by simp, ?_⟩
      intro a ha b hb
      simp at hb
      subst hb
      intro e; subst e
      apply hn
      unfold has
      simp only [List.any_eq_true]
      obtain ⟨x, hx, hxa⟩ := List.mem_map.mp ha
      exact ⟨x, hx, by simp [hxa]⟩

/-- **Iteration visits every registration exactly once**: after any history the iterated entries
    carry pairwise distinct names, and an entry is visited iff looking its name up returns it. -/
theorem C15_forEach_exactly_once (hist : List Reg) :
    NoDupNames (forEach (run [] hist)) ∧
    ∀ e, e ∈ forEach (run [] hist) ↔ query (run [] hist) e.1 = some e.2 := by
  have hnd : ∀ (s : State), NoDupNames s → NoDupNames (run s hist) := by
    induction hist with
    | nil => intro s h; exact h
    | cons r rest ih => intro s h; exact ih _ (register_nodup s r h)
  have h0 := hnd [] (by simp [NoDupNames])
  refine ⟨h0, ?_⟩
  generalize run [] hist = s at h0
  intro e
  unfold forEach query
  constructor
  · intro he
    induction s with
    | nil => simp at he
    | cons x t ih =>
      simp only [List.find?_cons]
      rcases List.mem_cons.mp he with rfl | he
      · simp
      · have hne : (x.1 == e.1) = false := by
          unfold NoDupNames at h0
          simp only [List.map_cons, List.nodup_cons] at h0
          have : e.1 ∈ t.map (·.1) := List.mem_map.mpr ⟨e, he, rfl⟩
          have : x.1 ≠ e.1 := fun h => h0.1 (h ▸ this)
          simpa using this
        simp only [hne]
        unfold NoDupNames at h0
        simp only [List.map_cons, List.nodup_cons] at h0
        exact ih h0.2 he
  · intro hq
    cases hf : s.find? (·.1 == e.1) with
    | none => rw [hf] at hq; simp at hq
    | some x =>
      rw [hf] at hq
      simp only [Option.map_some, Option.some.injEq] at hq
      have hx := List.mem_of_find?_eq_some hf
      have hn : x.1 = e.1 := by simpa using List.find?_some hf
      have : x = e := Prod.ext hn hq
      exact this ▸ hx

/-- **Service info is faithful**: it lists exactly the registered names with the descriptors they
    were registered with. -/
theorem C15_info_faithful (hist : List Reg) (n : Bytes) (d : Nat) :
    (n, d) ∈ info (run [] hist) ↔ ∃ h, (n, d, h) ∈ forEach (run [] hist) := by
  unfold info forEach
  simp only [List.mem_map]
  constructor
  · rintro ⟨e, he, heq⟩
    obtain ⟨a, b, c⟩ := e
    simp only [Prod.mk.injEq] at heq
    exact ⟨c, by rw [← heq.1, ← heq.2]; exact he⟩
  · rintro ⟨h, he⟩
    exact ⟨(n, d, h), he, rfl⟩

/-- non-vacuity: duplicate and ill-typed registrations in one history -/
example : query (run [] [⟨[1], 10, 20, false⟩, ⟨[1], 11, 21, true⟩, ⟨[1], 12, 22, true⟩, ⟨[2], 13, 23, true⟩]) [1] = some (11, 21) := by decide

end Registry
