/-
  C14 — every gRPC status code survives the unary HTTP mapping.
  Property theorems only; helper lemmas live in Proofs/Lemmas/Codes.lean.
  The tables come from Model/Gen/Codes.lean, regenerated from /repo on every
  run: each theorem is a decidable certificate over the regenerated data plus a
  table-independent lifting lemma, so a regenerated table that still satisfies
  the property re-checks without editing any proof.
-/
import Model.Gen.Wire
import Proofs.Lemmas.Codes

namespace Codes
open Prim

/-- Every documented row is what `httpStatusFromCode` returns. -/
theorem C14_forward_matches_doc :
    ∀ row ∈ Gen.docTable, httpStatusFromCode row.2.1 = row.2.2.1 := by
  decide

/-- The documented table covers every canonical non-OK code 1…16. -/
theorem C14_doc_covers_all_codes :
    ∀ c ∈ (List.range 17).tail, ∃ row ∈ Gen.docTable, row.2.1 = c := by
  decide

/-- For **every** code other than OK (all naturals — codes 17… included, by table + default)
    the forward mapping yields an HTTP error status. -/
theorem C14_forward_error_status (c : Nat) (hc : c ≠ OK) :
    400 ≤ httpStatusFromCode c ∧ httpStatusFromCode c ≤ 599 :=
  fwd_lift Gen.fwdTable Gen.fwdDefault (by decide) c hc

/-- The 499 rule: exactly the starred rows of the documentation are subject to it, it applies
    iff the request context is done, and what it writes is an error status. -/
theorem C14_rule_499 :
    (∀ row ∈ Gen.docTable, row.2.2.2 = Gen.clientClosedCodes.contains row.2.1) ∧
    Gen.clientClosedStatus = 499 ∧
    (∀ c, Gen.clientClosedCodes.contains c = true →
        defaultRendererStatus c true = Gen.clientClosedStatus ∧
        defaultRendererStatus c false = httpStatusFromCode c) ∧
    (∀ c b, Gen.clientClosedCodes.contains c = false → defaultRendererStatus c b = httpStatusFromCode c) := by
  refine ⟨by decide, by decide, ?_, ?_⟩
  · intro c hc
    unfold defaultRendererStatus
    rw [hc]; simp
  · intro c b hc
    unfold defaultRendererStatus
    rw [hc]; simp

/-- Whatever the request context, the default renderer writes an error status for every non-OK code. -/
theorem C14_rendered_error_status (c : Nat) (hc : c ≠ OK) (ctxDone : Bool) :
    400 ≤ defaultRendererStatus c ctxDone ∧ defaultRendererStatus c ctxDone ≤ 599 := by
  unfold defaultRendererStatus
  split
  · decide
  · exact C14_forward_error_status c hc

/-- The caller recovers exactly the handler's code from the status header, for every `uint32`
    code (in-range or not), every message, and *whatever* HTTP status and status text the
    renderer wrote (a custom renderer, or one that wrote nothing → 200). -/
theorem C14_client_recovers_code (c : Nat) (hc : c < 4294967296) (msg : Bytes)
    (httpStatus : Int) (statusText : Bytes) :
    clientCodeMsg httpStatus statusText (some (statusHeaderValue c msg)) = (c, msg) := by
  simp only [clientCodeMsg]
  unfold statusHeaderValue
  by_cases hlt : c < 2147483648
  · have hw : wrap32 (c : Int) = (c : Int) := by unfold wrap32 two31 two32; omega
    have hd : intToDec (wrap32 (c : Int)) = natToDec c := by
      rw [hw]; unfold intToDec; simp
    rw [hd, List.append_assoc]
    rw [show ([58] ++ msg : Bytes) = 58 :: msg from rfl]
    rw [splitN2_no_sep _ _ _ (natToDec_no_colon c)]
    obtain ⟨b, r, hbr, _⟩ := natToDec_head_isDigit c
    have hne : (natToDec c).isEmpty = false := by rw [hbr]; rfl
    have hp : parseCode (codeFromHttpStatus httpStatus) (natToDec c) = c := by
      unfold parseCode
      rw [parseInt_natToDec 32 c (by rw [limOf_32]; omega)]
      show (wrapU32 (c : Int)).toNat = c
      unfold wrapU32 two32; omega
    simp only [codeMsgOfParts, hne, hp]; rfl
  · -- codes ≥ 2^31 travel as a negative int32
    have hw : wrap32 (c : Int) = -((4294967296 - c : Nat) : Int) := by
      unfold wrap32 two31 two32; omega
    have hd : intToDec (wrap32 (c : Int)) = 45 :: natToDec (4294967296 - c) := by
      rw [hw]; unfold intToDec
      have : -((4294967296 - c : Nat) : Int) < 0 := by omega
      rw [if_pos this]; simp
    rw [hd, List.append_assoc]
    rw [show ([58] ++ msg : Bytes) = 58 :: msg from rfl]
    rw [splitN2_no_sep _ _ _ (by
      intro x hx
      rcases List.mem_cons.mp hx with rfl | hx
      · decide
      · exact natToDec_no_colon _ x hx)]
    have hp : parseCode (codeFromHttpStatus httpStatus) (45 :: natToDec (4294967296 - c)) = c := by
      unfold parseCode
      rw [parseInt_neg_natToDec 32 (4294967296 - c) (by rw [limOf_32]; omega)]
      show (wrapU32 (-((4294967296 - c : Nat) : Int))).toNat = c
      unfold wrapU32 two32; omega
    simp only [codeMsgOfParts, hp, List.isEmpty_cons]; rfl

/-- A handler error carrying code OK is never rendered as OK. -/
theorem C14_ok_code_rewritten (c : Nat) : renderedCode c ≠ OK := by
  unfold renderedCode OK Internal
  split <;> simp_all

/-- Without the status header the caller derives OK for 2xx only — for **every** integer status:
    exhaustively over `[0, 1000)` on the regenerated ranges, and by the lifting lemma outside. -/
theorem C14_fallback_ok_iff_2xx (s : Int) :
    codeFromHttpStatus s = OK ↔ (200 ≤ s ∧ s < 300) := by
  by_cases hin : 0 ≤ s ∧ s < 1000
  · have key : ∀ i ∈ List.range 1000,
        (codeFromHttpStatus (i : Int) == OK) = (decide (200 ≤ i) && decide (i < 300)) := by
      decide +kernel
    obtain ⟨h0, h1⟩ := hin
    have hi := key s.toNat (by simp; omega)
    have hs : ((s.toNat : Nat) : Int) = s := by omega
    rw [hs] at hi
    constructor
    · intro h
      have : (codeFromHttpStatus s == OK) = true := by simp [h]
      rw [hi] at this
      simp at this
      omega
    · intro h
      have : (decide (200 ≤ s.toNat) && decide (s.toNat < 300)) = true := by simp; omega
      rw [← hi] at this
      simpa using this
  · have hout : s < 0 ∨ 1000 ≤ s := by omega
    have := rangeLookup_outside Gen.revRanges Gen.revDefault 1000 (by decide) s hout
    unfold codeFromHttpStatus
    rw [this]
    have hd : Gen.revDefault ≠ OK := by decide
    constructor
    · intro h; exact absurd h hd
    · intro h; omega

/-- non-vacuity: concrete instances on today's tables -/
example : httpStatusFromCode 5 = 404 ∧ codeFromHttpStatus 503 = 14 ∧ codeFromHttpStatus 204 = 0 := by decide
example : clientCodeMsg 500 [] (some (statusHeaderValue 15 [97, 58, 98])) = (15, [97, 58, 98]) :=
  C14_client_recovers_code 15 (by omega) _ _ _

/-- regenerated from client.go: the status header value is taken apart at its FIRST colon, into at most two parts — which
    is what `splitN2 h 58` in `clientCodeMsg` models (so a message containing colons cannot disturb the code:
    `C14_client_recovers_code` holds for every message) -/
theorem C14_status_header_split_fact :
    Gen.statusHeaderSplit = "strings.SplitN(reply.Header.Get(\"X-GRPC-Status\"), \":\", 2)" := by decide

end Codes
