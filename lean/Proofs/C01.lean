/-
  C01 — every message is delivered exactly once, in order and intact (in-process streams).
  Theorems over the InprocStream transition system: for EVERY reachable state — any number of
  messages, any interleaving of client sender, client receiver, handler, and the cancellation
  instant, any channel capacities — what a receiver has obtained is a prefix of what its peer
  handed to SendMsg, and on a clean end the two sequences are equal.
  (Messages are opaque identities: content equality through Clone/Copy is C18's.)
-/
import Proofs.Lemmas.HttpClient
import Proofs.Lemmas.InprocAll
import Proofs.Lemmas.HttpServerStream

namespace InprocStream

/-- **Requests**: what the handler's RecvMsg calls have returned is, at every moment, a prefix of
    what the client handed to SendMsg (in SendMsg order). -/
theorem C01_request_prefix (c1 c2 : Nat) (rs : Bool) (s : St) (h : Reachable c1 c2 rs s) :
    s.sDelivered <+: s.cOffered :=
  (all_reachable c1 c2 rs s h).req.pre

/-- **Requests, clean end**: when the handler's RecvMsg reports end-of-stream (io.EOF), it has
    received exactly the messages the client sent, all of them, in order. -/
theorem C01_request_complete (c1 c2 : Nat) (rs : Bool) (s s' : St) (evs : List Ev)
    (h : Reachable c1 c2 rs s) (hs : step s .sRecvClosed = some (s', evs)) (hev : Ev.ret .h .eof ∈ evs) :
    s.sDelivered = s.cOffered := by
  obtain ⟨hb, hr, _, _, _⟩ := all_reachable c1 c2 rs s h
  simp only [step] at hs
  split at hs
  · rename_i hc
    split at hs
    · simp at hs; obtain ⟨_, rfl⟩ := hs; simp [svrCtxErr] at hev; split at hev <;> simp at hev
    · rename_i hctx
      simp [Bool.and_eq_true] at hc
      obtain ⟨⟨hrecv, hreq⟩, hclosed⟩ := hc
      have hnr : s.sReturned = false := by
        cases hsr : s.sReturned with
        | false => rfl
        | true => have := hb.retRecv hsr; simp [this] at hrecv
      have hlive : remoteDone s = false := by
        simp [remoteDone, hb.doneRet, hnr]
        simpa using hctx
      obtain ⟨h1, h2⟩ := hr.live hlive
      have hsc : s.sendClosed = true := by rw [← hb.closedEq]; exact hclosed
      have hcs := hb.closedSend hsc
      rw [h2, hb.reqQ, hreq, hcs, h1]; simp
  · simp at hs

/-- **Responses**: what the client's RecvMsg calls have returned is, at every moment, a prefix of
    what the handler handed to SendMsg. -/
theorem C01_response_prefix (c1 c2 : Nat) (rs : Bool) (s : St) (h : Reachable c1 c2 rs s) :
    s.cDelivered <+: s.sOffered := by
  obtain ⟨hb, _, hsv, hc, _⟩ := all_reachable c1 c2 rs s h
  have h1 : s.cDelivered <+: dataOf s.respDeq := pre_cut3 hc.cPre
  have h2 : dataOf s.respDeq <+: dataOf s.respEnq := by rw [hb.respQ]; simp
  have h3 : dataOf s.respEnq <+: s.sOffered := pre_cut3 hsv.sPre
  exact h1.trans (h2.trans h3)

/-- **Responses, clean end**: when the client's RecvMsg on a response-streaming method reports
    io.EOF and the context is live, the client has received exactly what the handler sent. -/
theorem C01_response_complete (c1 c2 : Nat) (rs : Bool) (s s' : St) (evs : List Ev)
    (h : Reachable c1 c2 rs s) (hctx : s.ctx = none)
    (hs : step s .cClosed = some (s', evs)) (hev : Ev.ret .cr .eof ∈ evs) :
    s.cDelivered = s.sOffered := by
  obtain ⟨hb, _, hsv, hc, _⟩ := all_reachable c1 c2 rs s h
  simp only [step] at hs
  split at hs
  · rename_i mode hm
    split at hs
    · rename_i hcl
      simp [hctx] at hs
      have hlast : s.last = none := hb.recvLast (by simp [hm])
      simp [Bool.and_eq_true] at hcl
      obtain ⟨hresp, hclosed⟩ := hcl
      obtain ⟨hw, _⟩ := hb.closedW hclosed
      cases mode with
      | header => simp at hs; obtain ⟨_, rfl⟩ := hs; simp at hev
      | probe m => simp at hs; obtain ⟨_, rfl⟩ := hs; simp at hev
      | first =>
        have hfr : frozen s = false := by simp [frozen, hctx, lastIsErr, hlast]
        have h1 := hc.cLive hfr
        have h2 := hsv.sLive hctx
        simp [held, hlast, hm] at h1
        simp [pendData, pendFrames, hw, hb.respQ, hresp] at h2
        rw [h2, h1]
    · simp at hs
  · simp at hs

/-- **Isolation**: a channel is a family of per-call states; a step of call `i` leaves the state of
    every other call untouched, so concurrent RPCs never observe each other's messages. -/
def stepAt (c : Nat → Option St) (i : Nat) (a : Act) : Option (Nat → Option St) :=
  match c i with
  | none => none
  | some s => (step s a).map fun (s', _) => fun j => if j = i then some s' else c j

theorem C01_isolation (c c' : Nat → Option St) (i j : Nat) (a : Act) (hij : j ≠ i)
    (hs : stepAt c i a = some c') : c' j = c j := by
  unfold stepAt at hs
  split at hs
  · simp at hs
  · simp at hs
    obtain ⟨s1, _, rfl⟩ := hs
    simp [hij]

/-- non-vacuity: a bidi call in which two requests and one response are delivered, then both sides
    see a clean end -/
example : ∃ s, run (init 1 1 true)
    [.cSendBegin 1, .cSendEnq, .sRecvBegin, .sRecvTake, .cSendBegin 2, .cSendEnq, .cCloseSend,
     .sRecvBegin, .sRecvTake, .sRecvBegin, .sRecvClosed, .sSendBegin 7, .sWriteEnq, .sReturn none,
     .sFinishEnd, .cRecvBegin, .cTake, .cRecvBegin, .cClosed] = some s ∧
    s.sDelivered = [1, 2] ∧ s.cOffered = [1, 2] ∧ s.cDelivered = [7] ∧ s.sOffered = [7] := by
  exact ⟨_, rfl, rfl, rfl, rfl, rfl⟩

end InprocStream

/-! ### HTTP/1.1 client stream (`httpgrpc` clientStream: reader goroutine, rCh hand-off, RecvMsg) -/
namespace HttpClientStream
open InprocStream (Reason Res codeOf)

theorem hinv_reachable (rs : Bool) (s : St) (h : Reachable rs s) : HInv s :=
  reachable_induction rs HInv (hinv_init rs) hinv_step s h

theorem respStream_const (rs : Bool) (s : St) (h : Reachable rs s) : s.respStream = rs :=
  reachable_induction rs (fun s => s.respStream = rs) rfl (fun s a s' evs hp hs => by
    cases a <;> simp only [step, complete] at hs <;> (repeat' split at hs) <;>
      (try (simp only [Option.some.injEq, Prod.mk.injEq, reduceCtorEq] at hs)) <;>
      (try (obtain ⟨rfl, rfl⟩ := hs)) <;> (try (exfalso; assumption)) <;> simp_all) s h

/-- **HTTP responses**: on a response-streaming call, what RecvMsg has returned is at every moment a
    prefix of the decodable data frames the transport has supplied, in order — for every
    interleaving of the transport, the reader goroutine, the receiver and the cancellation instant. -/
theorem C01_http_response_prefix (s : St) (h : Reachable true s) : s.delivered <+: s.supplied :=
  (hinv_reachable true s h).pre (respStream_const true s h)

/-- the final outcome is io.EOF exactly when no error was recorded and the trailer says OK -/
theorem final_eof (s : St) (hi : HInv s) (hd : s.done = true) (hf : finalOf s = .eof) :
    s.rErr = none ∧ s.tr = some 0 := by
  have hne := hi.rErrNotEof
  cases hr : s.rErr with
  | some e => simp [finalOf, hr] at hf; subst hf; exact absurd hr hne
  | none =>
    refine ⟨rfl, ?_⟩
    have := hi.doneTr hd hr
    cases ht : s.tr with
    | none => simp [ht] at this
    | some c =>
      cases c with
      | zero => rfl
      | succ n => simp [finalOf, hr, ht] at hf

/-- **HTTP responses, clean end**: when the call has completed with io.EOF, the reader has read an
    OK trailer frame, nothing was dropped, and the client has received every decodable data frame
    the transport supplied. -/
theorem C01_http_response_complete (s : St) (h : Reachable true s) (hd : s.done = true) (hf : finalOf s = .eof) :
    s.delivered = s.supplied ∧ s.sawTrailerOK = true := by
  have hi := hinv_reachable true s h
  obtain ⟨hre, htr⟩ := final_eof s hi hd hf
  have hsaw := hi.trOK htr
  obtain ⟨_, hpc, hbody⟩ := hi.sawSup hsaw
  have hnd : s.dropped = false := by
    cases hdr : s.dropped with
    | false => rfl
    | true => have := (hi.droppedDone hdr).2; simp [hre] at this
  have := hi.live (respStream_const true s h) hnd
  simp [holdList, hpc, hbody] at this
  exact ⟨this.symm, hsaw⟩

end HttpClientStream

namespace HttpServerStream
open InprocStream (HErr Reason Res codeOf)

/-- **Request direction over HTTP**: the messages a client-streaming handler has been given are, at
    every moment, a prefix of the decodable frames of the request body, in order. -/
theorem C01_http_server_request_prefix (req : List ReqItem) (acts : List Act) (s : St) (rs : List Res)
    (h : run (init true req) acts = some (s, rs)) (hcs : s.clientStreams = true) : msgsOf rs <+: dataOK req := by
  obtain ⟨hi, _, _, hm⟩ := run_facts req acts (init true req) s rs (inv_init true req) h
  simp only [init, List.nil_append] at hm
  rw [← hm, hi.multi hcs]
  obtain ⟨t, ht, _⟩ := hi.reqs
  rw [ht, dataOK_append]
  exact List.prefix_append _ _

end HttpServerStream
