/-
  C01 — every message is delivered exactly once, in order and intact (in-process streams).
  Theorems over the InprocStream transition system: for EVERY reachable state — any number of
  messages, any interleaving of client sender, client receiver, handler, and the cancellation
  instant, any channel capacities — what a receiver has obtained is a prefix of what its peer
  handed to SendMsg, and on a clean end the two sequences are equal.
  (Messages are opaque identities: content equality through Clone/Copy is C18's.)
-/
import Proofs.Lemmas.HttpClient
import Proofs.Lemmas.InprocAll
import Proofs.Lemmas.HttpServerStream
import Proofs.Lemmas.HttpCompose

namespace InprocStream

/-- **Requests**: what the handler's RecvMsg calls have returned is, at every moment, a prefix of
    what the client handed to SendMsg (in SendMsg order). -/
theorem C01_request_prefix (c1 c2 : Nat) (rs : Bool) (s : St) (h : Reachable c1 c2 rs s) :
    s.sDelivered <+: s.cOffered :=
  (all_reachable c1 c2 rs s h).req.pre

/-- **Requests, clean end**: when the handler's RecvMsg reports end-of-stream (io.EOF), it has
    received exactly the messages the client sent, all of them, in order. -/
theorem C01_request_complete (c1 c2 : Nat) (rs : Bool) (s s' : St) (evs : List Ev)
    (h : Reachable c1 c2 rs s) (hs : step s .sRecvClosed = some (s', evs)) (hev : Ev.ret .h .eof ∈ evs) :
    s.sDelivered = s.cOffered := by
  obtain ⟨hb, hr, _, _, _⟩ := all_reachable c1 c2 rs s h
  simp only [step] at hs
  split at hs
  · rename_i hc
    split at hs
    · simp at hs; obtain ⟨_, rfl⟩ := hs; simp [svrCtxErr] at hev; split at hev <;> simp at hev
    · rename_i hctx
      simp [Bool.and_eq_true] at hc
      obtain ⟨⟨hrecv, hreq⟩, hclosed⟩ := hc
      have hnr : s.sReturned = false := by
        cases hsr : s.sReturned with
        | false => rfl
        | true => have := hb.retRecv hsr; simp [this] at hrecv
      have hlive : remoteDone s = false := by
        simp [remoteDone, hb.doneRet, hnr]
        simpa using hctx
      obtain ⟨h1, h2⟩ := hr.live hlive
      have hsc : s.sendClosed = true := by rw [← hb.closedEq]; exact hclosed
      have hcs := hb.closedSend hsc
      rw [h2, hb.reqQ, hreq, hcs, h1]; simp
  · simp at hs

/-- **Responses**: what the client's RecvMsg calls have returned is, at every moment, a prefix of
    what the handler handed to SendMsg. -/
theorem C01_response_prefix (c1 c2 : Nat) (rs : Bool) (s : St) (h : Reachable c1 c2 rs s) :
    s.cDelivered <+: s.sOffered := by
  obtain ⟨hb, _, hsv, hc, _⟩ := all_reachable c1 c2 rs s h
  have h1 : s.cDelivered <+: dataOf s.respDeq := pre_cut3 hc.cPre
  have h2 : dataOf s.respDeq <+: dataOf s.respEnq := by rw [hb.respQ]; simp
  have h3 : dataOf s.respEnq <+: s.sOffered := pre_cut3 hsv.sPre
  exact h1.trans (h2.trans h3)

/-- **Responses, clean end**: when the client's RecvMsg on a response-streaming method reports
    io.EOF and the context is live, the client has received exactly what the handler sent. -/
theorem C01_response_complete (c1 c2 : Nat) (rs : Bool) (s s' : St) (evs : List Ev)
    (h : Reachable c1 c2 rs s) (hctx : s.ctx = none)
    (hs : step s .cClosed = some (s', evs)) (hev : Ev.ret .cr .eof ∈ evs) :
    s.cDelivered = s.sOffered := by
  obtain ⟨hb, _, hsv, hc, _⟩ := all_reachable c1 c2 rs s h
  simp only [step] at hs
  split at hs
  · rename_i mode hm
    split at hs
    · rename_i hcl
      simp [hctx] at hs
      have hlast : s.last = none := hb.recvLast (by simp [hm])
      simp [Bool.and_eq_true] at hcl
      obtain ⟨hresp, hclosed⟩ := hcl
      obtain ⟨hw, _⟩ := hb.closedW hclosed
      cases mode with
      | header => simp at hs; obtain ⟨_, rfl⟩ := hs; simp at hev
      | probe m => simp at hs; obtain ⟨_, rfl⟩ := hs; simp at hev
      | first =>
        have hfr : frozen s = false := by simp [frozen, hctx, lastIsErr, hlast]
        have h1 := hc.cLive hfr
        have h2 := hsv.sLive hctx
        simp [held, hlast, hm] at h1
        simp [pendData, pendFrames, hw, hb.respQ, hresp] at h2
        rw [h2, h1]
    · simp at hs
  · simp at hs

/-- **Isolation**: a channel is a family of per-call states; a step of call `i` leaves the state of
    every other call untouched, so concurrent RPCs never observe each other's messages. -/
def stepAt (c : Nat → Option St) (i : Nat) (a : Act) : Option (Nat → Option St) :=
  match c i with
  | none => none
  | some s => (step s a).map fun (s', _) => fun j => if j = i then some s' else c j

theorem C01_isolation (c c' : Nat → Option St) (i j : Nat) (a : Act) (hij : j ≠ i)
    (hs : stepAt c i a = some c') : c' j = c j := by
  unfold stepAt at hs
  split at hs
  · simp at hs
  · simp at hs
    obtain ⟨s1, _, rfl⟩ := hs
    simp [hij]

/-- non-vacuity: a bidi call in which two requests and one response are delivered, then both sides
    see a clean end -/
example : ∃ s, run (init 1 1 true)
    [.cSendBegin 1, .cSendEnq, .sRecvBegin, .sRecvTake, .cSendBegin 2, .cSendEnq, .cCloseSend,
     .sRecvBegin, .sRecvTake, .sRecvBegin, .sRecvClosed, .sSendBegin 7, .sWriteEnq, .sReturn none,
     .sFinishEnd, .cRecvBegin, .cTake, .cRecvBegin, .cClosed] = some s ∧
    s.sDelivered = [1, 2] ∧ s.cOffered = [1, 2] ∧ s.cDelivered = [7] ∧ s.sOffered = [7] := by
  exact ⟨_, rfl, rfl, rfl, rfl, rfl⟩

end InprocStream

/-! ### HTTP/1.1 client stream (`httpgrpc` clientStream: reader goroutine, rCh hand-off, RecvMsg) -/
namespace HttpClientStream
open InprocStream (Reason Res codeOf)

theorem hinv_reachable (rs : Bool) (s : St) (h : Reachable rs s) : HInv s :=
  reachable_induction rs HInv (hinv_init rs) hinv_step s h

theorem respStream_const (rs : Bool) (s : St) (h : Reachable rs s) : s.respStream = rs :=
  reachable_induction rs (fun s => s.respStream = rs) rfl (fun s a s' evs hp hs => by
    cases a <;> simp only [step, complete] at hs <;> (repeat' split at hs) <;>
      (try (simp only [Option.some.injEq, Prod.mk.injEq, reduceCtorEq] at hs)) <;>
      (try (obtain ⟨rfl, rfl⟩ := hs)) <;> (try (exfalso; assumption)) <;> simp_all) s h

/-- **HTTP responses**: on a response-streaming call, what RecvMsg has returned is at every moment a
    prefix of the decodable data frames the transport has supplied, in order — for every
    interleaving of the transport, the reader goroutine, the receiver and the cancellation instant. -/
theorem C01_http_response_prefix (s : St) (h : Reachable true s) : s.delivered <+: s.supplied :=
  (hinv_reachable true s h).pre (respStream_const true s h)

/-- the final outcome is io.EOF exactly when no error was recorded and the trailer says OK -/
theorem final_eof (s : St) (hi : HInv s) (hd : s.done = true) (hf : finalOf s = .eof) :
    s.rErr = none ∧ s.tr = some 0 := by
  have hne := hi.rErrNotEof
  cases hr : s.rErr with
  | some e => simp [finalOf, hr] at hf; subst hf; exact absurd hr hne
  | none =>
    refine ⟨rfl, ?_⟩
    have := hi.doneTr hd hr
    cases ht : s.tr with
    | none => simp [ht] at this
    | some c =>
      cases c with
      | zero => rfl
      | succ n => simp [finalOf, hr, ht] at hf

/-- **HTTP responses, clean end**: when the call has completed with io.EOF, the reader has read an
    OK trailer frame, nothing was dropped, and the client has received every decodable data frame
    the transport supplied. -/
theorem C01_http_response_complete (s : St) (h : Reachable true s) (hd : s.done = true) (hf : finalOf s = .eof) :
    s.delivered = s.supplied ∧ s.sawTrailerOK = true := by
  have hi := hinv_reachable true s h
  obtain ⟨hre, htr⟩ := final_eof s hi hd hf
  have hsaw := hi.trOK htr
  obtain ⟨_, hpc, hbody⟩ := hi.sawSup hsaw
  have hnd : s.dropped = false := by
    cases hdr : s.dropped with
    | false => rfl
    | true => have := (hi.droppedDone hdr).2; simp [hre] at this
  have := hi.live (respStream_const true s h) hnd
  simp [holdList, hpc, hbody] at this
  exact ⟨this.symm, hsaw⟩

end HttpClientStream

namespace HttpServerStream
open InprocStream (HErr Reason Res codeOf)

/-- **Request direction over HTTP**: the messages a client-streaming handler has been given are, at
    every moment, a prefix of the decodable frames of the request body, in order. -/
theorem C01_http_server_request_prefix (req : List ReqItem) (acts : List Act) (s : St) (rs : List Res)
    (h : run (init true req) acts = some (s, rs)) (hcs : s.clientStreams = true) : msgsOf rs <+: dataOK req := by
  obtain ⟨hi, _, _, hm⟩ := run_facts req acts (init true req) s rs (inv_init true req) h
  simp only [init, List.nil_append] at hm
  rw [← hm, hi.multi hcs]
  obtain ⟨t, ht, _⟩ := hi.reqs
  rw [ht, dataOK_append]
  exact List.prefix_append _ _

end HttpServerStream

namespace HttpCompose
open HttpClientStream (Act St finalOf)

/-- **HTTP response streams end to end, at every moment.** Take any handler program on the server
    (model HttpServerStream) and any execution of the client (model HttpClientStream: every
    interleaving of reader goroutine, RecvMsg, SendMsg, cancellation) in which the transport has so
    far delivered a prefix of what the server wrote. Then what the client's RecvMsg calls have
    returned is a prefix of the messages of the handler's successful SendMsg calls, in order. -/
theorem C01_http_end_to_end_prefix (cs : Bool) (req : List HttpServerStream.ReqItem)
    (hacts : List HttpServerStream.Act) (ss : HttpServerStream.St) (rs : List InprocStream.Res)
    (hsrv : HttpServerStream.run (HttpServerStream.init cs req) hacts = some (ss, rs))
    (cacts : List Act) (sc : St) (hcli : HttpClientStream.run (HttpClientStream.init true) cacts = some sc)
    (hfeed : itemsIn cacts <+: itemsOf ss.wire) :
    sc.delivered <+: okSends hacts rs := by
  have h1 := HttpClientStream.C01_http_response_prefix sc ⟨cacts, hcli⟩
  have h2 := run_supplied cacts _ sc hcli
  simp only [HttpClientStream.init, List.nil_append] at h2
  have h3 := dataOK_prefix _ _ hfeed
  rw [dataOK_itemsOf] at h3
  have h4 := run_msgs hacts _ ss rs hsrv
  simp only [HttpServerStream.init, msgsOfWire, List.nil_append] at h4
  rw [h2] at h1
  rw [← h4]
  exact h1.trans h3

/-- **…and at a clean end.** If, with the connection intact, the client reports io.EOF, then the
    transport had delivered the whole reply, the handler had returned nil, and the client has received
    every message the handler sent — no more, no fewer, in order. -/
theorem C01_http_end_to_end_complete (cs : Bool) (req : List HttpServerStream.ReqItem)
    (hacts : List HttpServerStream.Act) (s1 : HttpServerStream.St) (rs : List InprocStream.Res)
    (hsrv : HttpServerStream.run (HttpServerStream.init cs req) hacts = some (s1, rs))
    (e : Option InprocStream.HErr) (s2 : HttpServerStream.St) (r : InprocStream.Res)
    (hret : HttpServerStream.step s1 (.ret e) = some (s2, r)) (hw : s2.writeFailed = false) (hc : s2.connBroken = false)
    (cacts : List Act) (sc : St) (hcli : HttpClientStream.run (HttpClientStream.init true) cacts = some sc)
    (hfeed : itemsIn cacts <+: itemsOf s2.wire) (hd : sc.done = true) (hf : finalOf sc = .eof) :
    sc.delivered = okSends hacts rs ∧ e = none := by
  obtain ⟨hdel, hsaw⟩ := HttpClientStream.C01_http_response_complete sc ⟨cacts, hcli⟩ hd hf
  have hsup := run_supplied cacts _ sc hcli
  simp only [HttpClientStream.init, List.nil_append] at hsup
  have htr := (run_trailer cacts _ sc hcli).2 hsaw
  simp only [HttpClientStream.init] at htr
  have htr' : HttpClientStream.Item.trailer 0 true ∈ itemsIn cacts := by
    rcases htr with h | h | h
    · simp at h
    · simp at h
    · exact h
  obtain ⟨fs, hfs, hwire⟩ := HttpServerStream.reply_complete cs req hacts s1 rs e s2 r hsrv hret hw hc
  obtain ⟨hitems, hmsgs⟩ := itemsOf_complete (HttpServerStream.okHdr hacts rs) fs (HttpServerStream.trailerCode e) (HttpServerStream.trailersSet hacts) hfs
  rw [hwire, hitems] at hfeed
  obtain ⟨hall, hcode⟩ := prefix_with_trailer _ _ 0 _ hfeed htr'
  have he : e = none := HttpServerStream.trailerCode_zero e hcode.symm
  refine ⟨?_, he⟩
  rw [hdel, hsup, hall, dataOK_datas]
  -- the data frames of the reply are the handler's successful sends
  have h1 := run_msgs hacts _ s1 rs hsrv
  simp only [HttpServerStream.init, msgsOfWire, List.nil_append] at h1
  have h2 := step_msgs s1 (.ret e) s2 r hret
  simp only [okSends, List.append_nil] at h2
  rw [hwire, hmsgs] at h2
  rw [h2, h1]

/-- **HTTP request streams end to end.** For any execution of the client model and any handler
    program on the server model whose request body is what the client has put on the wire so far
    (possibly cut short inside a frame): the messages the handler's RecvMsg calls have returned are a
    prefix of the messages the client's SendMsg calls offered, in call order — and only messages whose
    SendMsg the transport accepted. -/
theorem C01_http_end_to_end_request_prefix (rsFlag : Bool) (cacts : List Act) (sc : St)
    (hcli : HttpClientStream.run (HttpClientStream.init rsFlag) cacts = some sc)
    (tail : List HttpServerStream.ReqItem) (htail : tail = [] ∨ tail = [.cut])
    (hacts : List HttpServerStream.Act) (ss : HttpServerStream.St) (rs : List InprocStream.Res)
    (hsrv : HttpServerStream.run (HttpServerStream.init true (sc.reqWritten.map (fun m => .data m true) ++ tail)) hacts = some (ss, rs))
    (hcs : ss.clientStreams = true) :
    HttpServerStream.msgsOf rs <+: sc.reqWritten ∧ sc.reqWritten <+: sc.offered := by
  have h1 := HttpServerStream.C01_http_server_request_prefix _ hacts ss rs hsrv hcs
  have hd : HttpServerStream.dataOK (sc.reqWritten.map (fun m => HttpServerStream.ReqItem.data m true) ++ tail) = sc.reqWritten := by
    rw [HttpServerStream.dataOK_append]
    have : HttpServerStream.dataOK tail = [] := by rcases htail with rfl | rfl <;> rfl
    rw [this, List.append_nil]
    induction sc.reqWritten with
    | nil => rfl
    | cons m r ih => simp [HttpServerStream.dataOK, ih]
  rw [hd] at h1
  have hi := reqinv_run rsFlag cacts sc hcli
  exact ⟨h1, (List.prefix_append _ _).trans hi.pre⟩

end HttpCompose
