/-
  C11 — the HTTP server runs handlers only for valid requests and always answers well-formed.
  Property theorems over the HttpServer decision model, for every request (all methods, media
  types, header/body conditions) and every handler behaviour / script.
-/
import Proofs.C14
import Model.HttpServer
import Proofs.Lemmas.HttpServerStream

namespace HttpServer
open Prim

/-- The registered handler is invoked at most once per request, the application method at most
    once and only through it. -/
theorem C11_handler_at_most_once (r : Req) (h : HandlerResult) (cd mo : Bool) :
    (handleMethod r h cd mo).descHandlerCalls ≤ 1 ∧
    (handleMethod r h cd mo).appCalls ≤ (handleMethod r h cd mo).descHandlerCalls := by
  unfold handleMethod
  split <;> try simp
  split <;> try simp
  split <;> try simp
  split <;> try simp
  split <;> try simp
  split
  · simp
  · split <;> simp

/-- The handler runs **only if** the method is POST, the media type is one the RPC kind supports,
    the headers decode and the body was read; application code additionally needs a decodable message. -/
theorem C11_handler_only_if_valid (r : Req) (h : HandlerResult) (cd mo : Bool) :
    ((handleMethod r h cd mo).descHandlerCalls = 1 →
        r.method = POST ∧ unaryAccepts r.mediaType = true ∧ r.headersDecode = true ∧ r.bodyReadOK = true) ∧
    ((handleMethod r h cd mo).appCalls = 1 → r.unmarshalOK = true) := by
  unfold handleMethod
  by_cases h1 : r.method != POST
  · simp [h1]
  · by_cases h2 : unaryAccepts r.mediaType
    · by_cases h3 : r.headersDecode
      · by_cases h4 : r.bodyReadOK
        · by_cases h5 : r.unmarshalOK
          · have : r.method = POST := by simpa using h1
            simp [h1, h2, h3, h4, h5, this]
          · have : r.method = POST := by simpa using h1
            simp [h1, h2, h3, h4, h5, this]
        · simp [h1, h2, h3, h4]
      · simp [h1, h2, h3]
    · simp [h1, h2]

/-- Conversely every valid request does reach the handler exactly once. -/
theorem C11_valid_runs_handler (r : Req) (h : HandlerResult) (cd mo : Bool)
    (hm : r.method = POST) (ha : unaryAccepts r.mediaType = true) (hh : r.headersDecode = true)
    (hb : r.bodyReadOK = true) :
    (handleMethod r h cd mo).descHandlerCalls = 1 := by
  unfold handleMethod
  simp only [hm, ha, hh, hb, bne_self_eq_false, Bool.false_eq_true, ↓reduceIte, Bool.not_true]
  split
  · rfl
  · split
    · rfl
    · split <;> rfl

/-- The refusals: 405 (+ `Allow: POST`), 415, 400 — in that order of precedence — without
    running any handler. -/
theorem C11_status_map (r : Req) (h : HandlerResult) (cd mo : Bool) :
    (r.method ≠ POST → (handleMethod r h cd mo).httpStatus = 405 ∧ (handleMethod r h cd mo).allowPost = true ∧
        (handleMethod r h cd mo).descHandlerCalls = 0) ∧
    (r.method = POST → unaryAccepts r.mediaType = false →
        (handleMethod r h cd mo).httpStatus = 415 ∧ (handleMethod r h cd mo).descHandlerCalls = 0) ∧
    (r.method = POST → unaryAccepts r.mediaType = true → r.headersDecode = false →
        (handleMethod r h cd mo).httpStatus = 400 ∧ (handleMethod r h cd mo).descHandlerCalls = 0) := by
  refine ⟨?_, ?_, ?_⟩
  · intro hm
    have : (r.method != POST) = true := by simpa using hm
    unfold handleMethod; simp [this]
  · intro hm ha
    unfold handleMethod; simp [hm, ha]
  · intro hm ha hh
    unfold handleMethod; simp [hm, ha, hh]

/-- An undecodable request message is answered with InvalidArgument (an HTTP error status) and
    never reaches application code. -/
theorem C11_bad_message_invalid_argument (r : Req) (h : HandlerResult) (cd mo : Bool)
    (hm : r.method = POST) (ha : unaryAccepts r.mediaType = true) (hh : r.headersDecode = true)
    (hb : r.bodyReadOK = true) (hu : r.unmarshalOK = false) :
    (handleMethod r h cd mo).grpcCode = some 3 ∧ (handleMethod r h cd mo).appCalls = 0 ∧
    400 ≤ (handleMethod r h cd mo).httpStatus ∧ (handleMethod r h cd mo).httpStatus ≤ 599 := by
  unfold handleMethod
  simp only [hm, ha, hh, hb, hu, bne_self_eq_false, Bool.false_eq_true, ↓reduceIte, Bool.not_true,
    Bool.not_false]
  exact ⟨trivial, trivial, Codes.C14_rendered_error_status 3 (by decide) cd⟩

/-- JSON is handled identically to protobuf: the decision depends on the media type only through
    membership in the accepted set, which contains both. -/
theorem C11_json_equals_proto (r : Req) (h : HandlerResult) (cd mo : Bool) :
    unaryAccepts Gen.unaryContentType = true ∧ unaryAccepts Gen.jsonContentType = true ∧
    handleMethod { r with mediaType := Gen.jsonContentType } h cd mo =
      handleMethod { r with mediaType := Gen.unaryContentType } h cd mo := by
  have h1 : unaryAccepts Gen.unaryContentType = true := by decide
  have h2 : unaryAccepts Gen.jsonContentType = true := by decide
  refine ⟨h1, h2, ?_⟩
  unfold handleMethod
  simp only [h1, h2]

/-- Streams are refused for anything but POST + the stream content type (JSON is *not* accepted). -/
theorem C11_stream_gate (r : Req) (script : List SOp) :
    ((handleStream r script).handlerCalls ≤ 1) ∧
    ((handleStream r script).handlerCalls = 1 →
        r.method = POST ∧ streamAccepts r.mediaType = true ∧ r.headersDecode = true) ∧
    (r.method ≠ POST → (handleStream r script).httpStatus = 405 ∧ (handleStream r script).allowPost = true) ∧
    streamAccepts Gen.jsonContentType = false ∧ streamAccepts Gen.streamContentType = true := by
  refine ⟨?_, ?_, ?_, by decide, by decide⟩
  · unfold handleStream
    split <;> try simp
    split <;> try simp
    split <;> try simp
    split <;> simp
  · unfold handleStream
    by_cases h1 : r.method != POST
    · simp [h1]
    · by_cases h2 : streamAccepts r.mediaType
      · by_cases h3 : r.headersDecode
        · have : r.method = POST := by simpa using h1
          intro _; exact ⟨this, h2, h3⟩
        · simp [h1, h2, h3]
      · simp [h1, h2]
  · intro hm
    have : (r.method != POST) = true := by simpa using hm
    unfold handleStream; simp [this]

/-- invariant of the write side: once a write failed nothing more is written; frames are data only -/
theorem stepS_frames_data (s : SState) (op : SOp) (h : ∀ f ∈ s.frames, f = .data) :
    ∀ f ∈ (stepS s op).frames, f = .data := by
  cases op with
  | send m w =>
    simp only [stepS]
    by_cases hw : s.writeFailed = true
    · rw [if_pos hw]; exact h
    · rw [if_neg hw]
      by_cases hmw : (m && w) = true
      · rw [if_pos hmw]
        intro f hf; simp at hf; rcases hf with hf | hf
        · exact h f hf
        · exact hf
      · rw [if_neg hmw]; exact h
  | setHeader => exact h
  | sendHeader => simp only [stepS]; split <;> exact h
  | setTrailer => exact h
  | recv => exact h

theorem foldl_frames_data (script : List SOp) (s : SState) (h : ∀ f ∈ s.frames, f = .data) :
    ∀ f ∈ (script.foldl stepS s).frames, f = .data := by
  induction script generalizing s with
  | nil => exact h
  | cons op rest ih => exact ih (stepS s op) (stepS_frames_data s op h)

/-- **A streaming reply is well formed** for every handler script: data frames only, followed by
    exactly one trailer frame at the very end — unless a write failed, in which case nothing more
    (in particular no trailer) is written. -/
theorem C11_stream_reply_well_formed (r : Req) (script : List SOp)
    (hm : r.method = POST) (ha : streamAccepts r.mediaType = true) (hh : r.headersDecode = true) :
    let rep := handleStream r script
    let s := script.foldl stepS {}
    (s.writeFailed = false → ∃ ds, rep.frames = ds ++ [.trailer] ∧ ∀ f ∈ ds, f = .data) ∧
    (s.writeFailed = true → ∀ f ∈ rep.frames, f = .data) := by
  intro rep s
  have hd : ∀ f ∈ s.frames, f = .data := foldl_frames_data script {} (by simp)
  have hrep : rep = if s.writeFailed then ⟨200, false, 1, s.frames⟩ else ⟨200, false, 1, s.frames ++ [.trailer]⟩ := by
    show handleStream r script = _
    unfold handleStream
    simp only [hm, ha, hh, bne_self_eq_false, Bool.false_eq_true, ↓reduceIte, Bool.not_true]
    rfl
  constructor
  · intro hw
    rw [hrep, hw]
    exact ⟨s.frames, rfl, hd⟩
  · intro hw
    rw [hrep, hw]
    exact hd

/-- non-vacuity -/
example : (handleMethod ⟨POST, "application/x-protobuf", true, true, true⟩ none false true).httpStatus = 200 := by decide
example : (handleStream ⟨POST, "application/x-httpgrpc-proto+v1", true, true, true⟩ [.send true true, .send true true]).frames
    = [.data, .data, .trailer] := by decide

end HttpServer

namespace HttpServerStream
open InprocStream (HErr Reason Res codeOf)

/-- **Shape of every streaming reply, in every reachable state** (also with failed writes and broken
    connections): nothing, or the header block followed by data frames and at most one trailer
    frame, which is last. -/
theorem C11_http_server_reply_shape (cs : Bool) (req : List ReqItem) (acts : List Act) (s : St) (rs : List Res)
    (h : run (init cs req) acts = some (s, rs)) : wellFormed s.wire = true :=
  (run_facts req acts (init cs req) s rs (inv_init cs req) h).1.wf

/-- **…and a reply over an intact connection ends with exactly one trailer frame** -/
theorem C11_http_server_reply_ends_with_trailer (cs : Bool) (req : List ReqItem) (acts : List Act) (s1 : St) (rs : List Res)
    (e : Option HErr) (s : St) (r : Res) (h1 : run (init cs req) acts = some (s1, rs)) (h2 : step s1 (.ret e) = some (s, r))
    (hw : s.writeFailed = false) (hc : s.connBroken = false) :
    ∃ h fs c md, allData fs = true ∧ s.wire = .head h :: (fs ++ [.trailer c md]) := by
  obtain ⟨fs, hfs, hwire⟩ := reply_complete cs req acts s1 rs e s r h1 h2 hw hc
  exact ⟨_, fs, _, _, hfs, hwire⟩

/-- nothing is written after the handler has returned -/
theorem C11_http_server_nothing_after_return (s : St) (a : Act) (s' : St) (r : Res) (hf : s.finished = true)
    (h : step s a = some (s', r)) : s'.wire = s.wire := by
  unfold step at h
  simp only [hf, if_true] at h
  cases a <;> simp [stepFinished] at h
  obtain ⟨rfl, rfl⟩ := h; rfl

end HttpServerStream

namespace HttpServerStream

/-- the sites the stream model builds in, regenerated from httpgrpc/server.go on every run: the
    trailer frame is skipped only after a failed write; SendMsg answers io.EOF after a failed write,
    commits the headers and remembers a failure; setHeader refuses once the headers are committed
    before touching the header map; SetTrailer accumulates copies; the single-request probe -/
theorem C11_http_stream_facts :
    Gen.streamTrailerSkipConds = ["str.writeFailed"] ∧ Gen.serverSendShape = true ∧ Gen.serverHeaderGuardFirst = true ∧
    Gen.serverTrailerAppends = true ∧ Gen.serverSingleRequestProbe = true := by decide

end HttpServerStream

namespace HttpServer

/-- regenerated from httpgrpc/server.go: `Server.ServeHTTP` hands the request to the mux as it is — no rewriting of the
    path in front of it, so only the exact registered paths reach the gate modelled here (404 otherwise) -/
theorem C11_serve_http_dispatches_unchanged : Gen.serveHTTPBody = "{ s.mux.ServeHTTP(w, r) }" := by decide

end HttpServer
