/-
  C04 — cancellation and deadlines end calls with the right code and reach the handler
  (in-process streams; the unary race is in Proofs/C04 part 2 over InprocUnary).
  Cancellation / deadline expiry is the environment action `cancel r`, enabled in every state, so
  quantifying over all action sequences covers every placement of the instant.
-/
import Proofs.C01
import Proofs.Lemmas.InprocAll
import Proofs.Lemmas.InprocUnaryAll
import Proofs.Lemmas.HttpUnary
import Proofs.Lemmas.HttpServerStream

namespace InprocStream

/-- a step that completes a client `RecvMsg` (not `Header()`/`Trailer()`) -/
def isRecvStep (s : St) (a : Act) : Prop :=
  a = .cRecvBegin ∨ ((a = .cTake ∨ a = .cClosed ∨ a = .cCtx) ∧ s.cRecv ≠ some .header)

/-- **After the context ended, a receive is the cancellation status.** In every state whose
    context is done with reason `r`, every completion of a pending or later RecvMsg returns
    `status(Canceled | DeadlineExceeded)` — never nil, never a message, never io.EOF, never a
    non-status error — unless the client had already been handed the call's real final error
    (then that complete real result is repeated). -/
theorem C04_after_cancel_receive_is_status (s s' : St) (a : Act) (evs : List Ev) (r : Reason) (res : Res)
    (hctx : s.ctx = some r) (ha : isRecvStep s a) (hs : step s a = some (s', evs))
    (hev : Ev.ret .cr res ∈ evs) :
    res = .status (codeOf r) ∨ (∃ e, s.last = some (.err e) ∧ res = translate e) := by
  rcases ha with rfl | ⟨rfl | rfl | rfl, hmode⟩ <;>
    simp only [step] at hs <;> (repeat' split at hs) <;>
    (try (simp only [Option.some.injEq, Prod.mk.injEq, reduceCtorEq] at hs)) <;>
    (try (obtain ⟨rfl, rfl⟩ := hs)) <;> (try (exfalso; assumption)) <;> simp_all

/-- **Promptly**: a pending RecvMsg (or Header) needs no step of the peer once the context is done:
    its own context branch is enabled. Likewise a pending client SendMsg, a handler RecvMsg and a
    pending handler write. -/
theorem C04_cancel_unblocks (s : St) (r : Reason) (hctx : s.ctx = some r) :
    (s.cRecv.isSome → (step s .cCtx).isSome) ∧
    (s.cSend.isSome → (step s .cSendCtx).isSome) ∧
    (s.sRecv = true → (step s .sRecvCtx).isSome) ∧
    (∀ f fs k, s.sWrite = some ⟨f :: fs, k⟩ → (step s .sWriteCtx).isSome) := by
  refine ⟨?_, ?_, ?_, ?_⟩
  · intro h; cases hm : s.cRecv with
    | none => simp [hm] at h
    | some m => cases m <;> simp [step, hm, hctx]
  · intro h; cases hm : s.cSend with
    | none => simp [hm] at h
    | some m => simp [step, hm, hctx]
  · intro h; simp [step, h, svrCtxDone, hctx]
  · intro f fs k h; cases k <;> simp [step, h, svrCtxDone, hctx, finishWrite]

/-- **The handler's context is cancelled as well** (it is a child of the call's context), and from
    then on the handler receives no further message: every completion of its RecvMsg is the
    context error. -/
theorem C04_handler_ctx_cancelled (s s' : St) (a : Act) (evs : List Ev) (r : Reason) (res : Res)
    (hctx : s.ctx = some r) :
    svrCtxDone s = true ∧
    ((a = .sRecvTake ∨ a = .sRecvClosed ∨ a = .sRecvCtx) → step s a = some (s', evs) →
      Ev.ret .h res ∈ evs → res = .ctxErr r) := by
  refine ⟨by simp [svrCtxDone, hctx], ?_⟩
  rintro (rfl | rfl | rfl) hs hev <;>
    simp only [step] at hs <;> (repeat' split at hs) <;>
    (try (simp only [Option.some.injEq, Prod.mk.injEq, reduceCtorEq] at hs)) <;>
    (try (obtain ⟨rfl, rfl⟩ := hs)) <;> (try (exfalso; assumption)) <;>
    simp_all [svrCtxDone, svrCtxErr]

/-- **A handler that returns its context error**: the client sees the matching code (through the
    error frame and `TranslateContextError`). -/
theorem C04_handler_ctx_error_maps (r : Reason) :
    translate (.ctx r) = .status (codeOf r) ∧ codeOf .canceled = 1 ∧ codeOf .deadline = 4 := by
  simp [translate, codeOf]

/-- **Nothing is delivered after the context ended**: the receiver's view is frozen. -/
theorem C04_no_delivery_after_cancel (s s' : St) (a : Act) (evs : List Ev) (r : Reason)
    (hctx : s.ctx = some r) (hs : step s a = some (s', evs)) :
    s'.cDelivered = s.cDelivered ∧ s'.sDelivered = s.sDelivered := by
  cases a <;> simp only [step, finishWrite] at hs <;> (repeat' split at hs) <;>
    (try (simp only [Option.some.injEq, Prod.mk.injEq, reduceCtorEq] at hs)) <;>
    (try (obtain ⟨rfl, rfl⟩ := hs)) <;> (try (exfalso; assumption)) <;> simp_all [svrCtxDone]

/-- non-vacuity, and the schedule of fix b66e58b: a message peeked by Header(), then cancel, then
    RecvMsg: the result is Canceled, not the peeked message -/
example : ∃ s, run (init 1 1 true) [.sSendBegin 9, .sWriteEnq, .cHeaderBegin, .cTake, .cancel .canceled] = some s ∧
    s.last = some (.data 9) ∧ step s .cRecvBegin = some (s, [.ret .cr (.status 1)]) := by
  exact ⟨_, rfl, rfl, rfl⟩

end InprocStream

/-! ### the unary call (`Channel.Invoke`): cancellation racing completion -/
namespace InprocUnary
open InprocStream (Reason HErr Res codeOf translate)

/-- **Never a mixture.** For every interleaving of the server goroutine's frame writes (each a
    choice between enqueue and skip-on-done), the caller's loop and the cancellation instant:
    whatever `Invoke` returns is either the cancellation status of its (done) context, or the
    handler's real result — and if that result is success, the caller holds the response and ALL
    headers and trailers the handler set. -/
theorem C04_unary_race_no_mixture (cap : Nat) (s : St) (h : Reachable cap s) (r : Res) (hr : s.result = some r) :
    (∃ rr, s.ctx = some rr ∧ r = ctxStatus rr) ∨
    (∃ ret, s.hRet = some ret ∧ r = expectedU ret ∧ (r = .ok → Complete s)) := by
  obtain ⟨_, _, hok⟩ := all_unary cap s h
  rcases hok.res r hr with h1 | ⟨ret, h1, h2⟩
  · exact Or.inl h1
  · exact Or.inr ⟨ret, h1, h2, fun hrk => hok.okc (hrk ▸ hr)⟩

theorem translate_ne_eof (e : HErr) : translate e ≠ .eof := by cases e <;> simp [translate]
theorem translate_ne_ctxErr (e : HErr) (rr : Reason) : translate e ≠ .ctxErr rr := by cases e <;> simp [translate]
theorem expectedU_ne_eof (ret : Option Nat × Option HErr) : expectedU ret ≠ .eof := by
  obtain ⟨v, e⟩ := ret
  cases v <;> cases e <;> simp [expectedU, translate_ne_eof]
theorem expectedU_ne_ctxErr (ret : Option Nat × Option HErr) (rr : Reason) : expectedU ret ≠ .ctxErr rr := by
  obtain ⟨v, e⟩ := ret
  cases v <;> cases e <;> simp [expectedU, translate_ne_ctxErr]

/-- **Never a bare io.EOF, never a non-status context error.** -/
theorem C04_unary_never_bare_eof (cap : Nat) (s : St) (h : Reachable cap s) :
    s.result ≠ some .eof ∧ ∀ rr, s.result ≠ some (.ctxErr rr) := by
  obtain ⟨_, _, hok⟩ := all_unary cap s h
  refine ⟨?_, ?_⟩
  · intro hr
    rcases hok.res _ hr with ⟨rr, _, h2⟩ | ⟨ret, _, h2⟩
    · simp [ctxStatus] at h2
    · exact expectedU_ne_eof ret h2.symm
  · intro rr hr
    rcases hok.res _ hr with ⟨r2, _, h2⟩ | ⟨ret, _, h2⟩
    · simp [ctxStatus] at h2
    · exact expectedU_ne_ctxErr ret rr h2.symm

/-- **Promptly**: once the context is done, the caller's loop can return without the server. -/
theorem C04_unary_cancel_unblocks (s : St) (r : Reason) (hctx : s.ctx = some r) (hres : s.result = none) :
    step s .cCtx = some ({ s with result := some (.status (codeOf r)) }, []) := by
  simp [step, hres, hctx, ctxStatus]

/-- The defect repaired by 313140f, kept as a counterexample on the pre-repair model: the trailers
    frame is skipped after the cancellation, the caller's loop happens to see the closed channel,
    and `Invoke` reports success without the trailers. -/
theorem C04_old_code_mixture : ∃ s, run (initOld 1)
    [.hSetTrailer 7, .hReturn (some 5) none, .wEnq, .cTake, .cancel .canceled, .wSkip, .wClose, .cClosed] = some s ∧
    s.result = some .ok ∧ s.cTlr = none ∧ s.hTlr = [7] := by
  exact ⟨_, rfl, rfl, rfl, rfl⟩

/-- …the same schedule on the repaired model yields the cancellation status. -/
example : ∃ s, run (init 1)
    [.hSetTrailer 7, .hReturn (some 5) none, .wEnq, .cTake, .cancel .canceled, .wSkip, .wClose, .cClosed] = some s ∧
    s.result = some (.status 1) := by
  exact ⟨_, rfl, rfl⟩

end InprocUnary

/-! ### HTTP/1.1 client stream -/
namespace HttpClientStream
open InprocStream (Reason Res codeOf)

/-- **HTTP: after the context ended, a receive is the cancellation status or the call's completed
    final outcome** — never a non-status context error (the defect repaired by 81f3c90: the reader
    records the context's status, not the I/O error the cancellation provoked). -/
theorem C04_http_recv_after_cancel (s s' : St) (a : Act) (evs : List Ev) (r : Reason) (res : Res)
    (hctx : s.ctx = some r) (ha : a = .cRecvBegin ∨ a = .cRecvCtx ∨ a = .cRecvClosed)
    (hs : step s a = some (s', evs)) (hev : Ev.ret .cr res ∈ evs) :
    res = .status (codeOf r) ∨ (s.done = true ∧ (res = finalOf s ∨ ∃ m, res = .msg m)) := by
  rcases ha with rfl | rfl | rfl <;>
    simp only [step] at hs <;> (repeat' split at hs) <;>
    (try (simp only [Option.some.injEq, Prod.mk.injEq, reduceCtorEq] at hs)) <;>
    (try (obtain ⟨rfl, rfl⟩ := hs)) <;> (try (exfalso; assumption)) <;> simp_all [ctxStatus]

/-- the completion `defer`: an I/O error observed after the context ended is recorded as the
    context's status -/
theorem C04_http_complete_records_ctx_status (s : St) (e : Res) (r : Reason) (hre : s.rErr = none)
    (hrd : s.rdErr = some e) (hctx : s.ctx = some r) : (complete s).rErr = some (.status (codeOf r)) := by
  simp [complete, hre, hrd, hctx, ctxStatus]

/-- **Promptly**: with the context done, a pending RecvMsg and a reader parked at the hand-off both
    have their context branch enabled. -/
theorem C04_http_cancel_unblocks (s : St) (r : Reason) (hctx : s.ctx = some r) :
    (∀ m, s.cRecv = some m → m ≠ .violation → (step s .cRecvCtx).isSome) ∧ (s.pc = 2 → (step s .rdCtx).isSome) := by
  refine ⟨?_, ?_⟩
  · intro m hm hv
    cases m with
    | first => simp [step, hm, hctx]
    | probe x => simp [step, hm, hctx]
    | violation => exact absurd rfl hv
  · intro h; simp [step, h, hctx]

end HttpClientStream

namespace HttpUnary
open InprocStream (HErr Reason Res codeOf)

/-- **Unary calls over HTTP whose context ends**: wherever the end of the context falls — before the
    reply, or after the reply headers while the body is being read, whichever branch the final
    select takes — `Invoke` returns the Canceled / DeadlineExceeded status, or the complete real
    result of an error reply; never a bare context error, io.EOF or another non-status error.
    (Depends on the regenerated fact that a body-read error met after the select is translated;
    the code before the repair 8686b2a returned it raw: 11 of 60 runs of the harness's
    `unaryCancelAfterReplyHeaders`.) -/
theorem C04_http_unary_cancel_is_status (r : Reply) (at_ : CancelAt) (reason : Reason) :
    clientCancelled r at_ reason = .status (codeOf reason) ∨
    ∃ c, c ≠ 0 ∧ clientCancelled r at_ reason = .status c ∧ (client r).result = .status c := by
  cases at_ with
  | beforeReply => left; rfl
  | afterHeaders took =>
    unfold clientCancelled client
    generalize replyCode r = code
    by_cases h0 : code = 0
    · left; cases took <;> simp [h0, Gen.unaryBodyErrTranslated]
    · right; exact ⟨code, h0, by simp [h0], by simp [h0]⟩

theorem C04_http_unary_body_error_fact : Gen.unaryBodyErrTranslated = true := by decide

end HttpUnary

namespace HttpServerStream
open InprocStream (HErr Reason Res codeOf)

/-- on a single-request method, once a message has been handed to the handler nothing of the request is left unread -/
def ReadToEnd (s : St) : Prop := s.clientStreams = false → s.received ≠ [] → s.req = []

theorem readToEnd_step (s : St) (a : Act) (s' : St) (r : Res) (hP : ReadToEnd s) (hcs : s.clientStreams = false)
    (hst : step s a = some (s', r)) : ReadToEnd s' ∧ s'.clientStreams = false := by
  unfold ReadToEnd at *
  unfold step at hst
  split at hst
  · cases a <;> simp [stepFinished] at hst
    obtain ⟨rfl, rfl⟩ := hst
    exact ⟨by simpa using hP, hcs⟩
  · cases a <;> simp only [stepLive] at hst <;> (repeat' split at hst) <;> simp at hst <;>
      (try (obtain ⟨rfl, rfl⟩ := hst)) <;> simp_all

theorem readToEnd_run (acts : List Act) : ∀ (s s' : St) (rs : List Res), ReadToEnd s → s.clientStreams = false →
    run s acts = some (s', rs) → ReadToEnd s' ∧ s'.clientStreams = false := by
  induction acts with
  | nil => intro s s' rs hP hcs h; simp [run] at h; obtain ⟨rfl, rfl⟩ := h; exact ⟨hP, hcs⟩
  | cons a acts ih =>
    intro s s' rs hP hcs h
    obtain ⟨s1, r, rs', hs, hr, rfl⟩ := run_cons h
    obtain ⟨hP1, hcs1⟩ := readToEnd_step s a s1 r hP hcs hs
    exact ih s1 s' rs' hP1 hcs1 hr

/-- **The library itself reads a single-request body to its end** (HTTP server, methods that take one request
    message): for every request body and every handler behaviour, as soon as the handler has been given its
    message the whole request has been consumed. This is what lets net/http watch the connection from then on
    and cancel the handler's context when the caller goes away (the runtime part, checked on a loopback
    connection by the harness); a handler of such a method never has to drain anything itself.
    (For client-streaming methods no such statement holds — known finding C04-F7.) -/
theorem C04_http_server_single_request_read_to_end (req : List ReqItem) (acts : List Act) (s : St) (rs : List Res)
    (h : run (init false req) acts = some (s, rs)) (hm : msgsOf rs ≠ []) : s.req = [] := by
  obtain ⟨hP, hcs⟩ := readToEnd_run acts (init false req) s rs (by simp [ReadToEnd, init]) (by simp [init]) h
  obtain ⟨_, _, _, hrec⟩ := run_facts req acts (init false req) s rs (inv_init false req) h
  simp only [init, List.nil_append] at hrec
  exact hP hcs (by rw [hrec]; exact hm)

/-- with several request messages allowed the request may well be unread while the handler holds a message
    (witness for C04-F7: one message taken, one still in the body) -/
theorem C04_http_server_client_stream_may_leave_request_unread :
    ∃ s rs, run (init true [.data 1 true, .data 2 true]) [.recv] = some (s, rs) ∧ msgsOf rs = [1] ∧ s.req ≠ [] := by
  refine ⟨_, _, rfl, by decide, by decide⟩

/-- non-vacuity: a one-frame body, one RecvMsg -/
example : ∃ s rs, run (init false [.data 7 true]) [.recv] = some (s, rs) ∧ msgsOf rs = [7] ∧ s.req = [] :=
  ⟨_, _, rfl, by decide, by decide⟩

end HttpServerStream
