/-
  C20 — in-process streams apply backpressure with a small fixed buffer.
  Invariants of the InprocStream transition system, for every reachable state: any number of
  attempted sends, every interleaving of the client sender, client receiver, handler and the
  cancellation instant; stated for arbitrary channel capacities and instantiated with the
  capacities regenerated from the source.
-/
import Proofs.Lemmas.InprocStream

namespace InprocStream

/-- The property's "one buffered message per direction": both frame channels have capacity 1
    (facts regenerated from `make(chan frame, n)` in NewStream). -/
theorem C20_cap_is_one : Gen.capReq = 1 ∧ Gen.capResp = 1 := by decide

/-- the bookkeeping invariant: what was enqueued is what was dequeued plus what is buffered, the
    buffers respect their capacity, completed sends have enqueued their message -/
def Inv (s : St) : Prop :=
  s.req.length ≤ s.capReq ∧ s.resp.length ≤ s.capResp ∧
  s.reqEnq = s.reqDeq ++ s.req ∧ s.respEnq = s.respDeq ++ s.resp ∧
  s.sendsDone ≤ s.reqDeq.length + s.req.length ∧ s.sSendsDone ≤ dataCount s.respDeq + dataCount s.resp ∧
  (∀ fs, s.sWrite = some ⟨fs, .sendMsg⟩ → (∃ m, fs = [.data m]) ∨ (∃ h m, fs = [.headers h, .data m]))

/-- shape of a pending server `SendMsg`: an optional header frame, then exactly the data frame -/
def SendShape (s : St) : Prop :=
  ∀ fs, s.sWrite = some ⟨fs, .sendMsg⟩ → (∃ m, fs = [.data m]) ∨ (∃ h m, fs = [.headers h, .data m])

set_option maxHeartbeats 1000000 in
theorem shape_step (s : St) (a : Act) (s' : St) (evs : List Ev) (h : SendShape s) (hs : step s a = some (s', evs)) :
    SendShape s' := by
  unfold SendShape at *
  cases a <;> simp only [step, finishWrite] at hs <;> (repeat' split at hs) <;> simp_all <;>
    (try (obtain ⟨rfl, _⟩ := hs; simp_all))
  all_goals (try (intro hk; subst hk; rcases h with ⟨m, hm⟩ | ⟨hh, m, hm⟩ <;> simp_all))

set_option maxHeartbeats 1000000 in
theorem inv_step (s : St) (a : Act) (s' : St) (evs : List Ev) (h : Inv s) (hs : step s a = some (s', evs)) : Inv s' := by
  obtain ⟨h1, h2, h3, h4, h5, h6, h7⟩ := h
  have hshape := shape_step s a s' evs h7 hs
  refine ⟨?_, ?_, ?_, ?_, ?_, ?_, hshape⟩ <;>
  (cases a <;> simp only [step, finishWrite] at hs <;> (repeat' split at hs) <;> simp_all <;>
    (try (obtain ⟨rfl, _⟩ := hs; simp_all)) <;> (try simp [dataCount_append]) <;> (try omega))
  all_goals (obtain ⟨m, rfl⟩ := h7; simp; omega)

theorem inv_reachable (c1 c2 : Nat) (rs : Bool) (s : St) (h : Reachable c1 c2 rs s) : Inv s :=
  reachable_induction c1 c2 rs Inv (by simp [Inv, init, SendShape]) inv_step s h

/-- **Sends ahead are bounded**, in every reachable state, for any number of attempted sends:
    the client's completed sends never exceed what the handler has dequeued by more than the
    request buffer's capacity, and the handler's completed sends never exceed the data frames the
    client has dequeued by more than the response buffer's capacity. -/
theorem C20_sends_ahead_bounded (c1 c2 : Nat) (rs : Bool) (s : St) (h : Reachable c1 c2 rs s) :
    s.sendsDone ≤ s.reqDeq.length + s.capReq ∧ s.sSendsDone ≤ dataCount s.respDeq + s.capResp := by
  obtain ⟨h1, h2, h3, h4, h5, h6, _⟩ := inv_reachable c1 c2 rs s h
  constructor
  · omega
  · have := dataCount_le_length s.resp
    omega

/-- …with the code's capacities: at most one message ahead per direction. -/
theorem C20_one_message_ahead (rs : Bool) (s : St) (h : Reachable Gen.capReq Gen.capResp rs s) :
    s.sendsDone ≤ s.reqDeq.length + 1 ∧ s.sSendsDone ≤ dataCount s.respDeq + 1 := by
  have hc : s.capReq = 1 ∧ s.capResp = 1 := by
    have := reachable_induction Gen.capReq Gen.capResp rs (fun s => s.capReq = Gen.capReq ∧ s.capResp = Gen.capResp)
      ⟨rfl, rfl⟩ (fun s a s' evs hp hs => by
        obtain ⟨e1, e2, _⟩ := caps_const s s' a evs hs
        exact ⟨e1 ▸ hp.1, e2 ▸ hp.2⟩) s h
    exact ⟨this.1.trans C20_cap_is_one.1, this.2.trans C20_cap_is_one.2⟩
  have := C20_sends_ahead_bounded _ _ rs s h
  rw [hc.1, hc.2] at this
  exact this

/-- **A further send blocks**: with a full buffer, a live context and the peer still running, none
    of the sender's completions is enabled — the pending `SendMsg` cannot return. -/
theorem C20_blocked_when_full (s : St) (m : Nat) (hp : s.cSend = some m) (hfull : s.req.length = s.capReq)
    (hctx : s.ctx = none) (hrem : s.svrDone = false ∧ s.svrExited = false) :
    step s .cSendEnq = none ∧ step s .cSendCtx = none ∧ step s .cSendRemote = none := by
  refine ⟨?_, ?_, ?_⟩
  · simp [step, hp, hfull]
  · simp [step, hp, hctx]
  · simp [step, hp, remoteDone, svrCtxDone, hctx, hrem.1, hrem.2]

/-- **…until the peer receives, the peer finishes, or the context ends**: any action after which
    the blocked sender can complete is a receive by the handler, the handler's return (or exit), or
    a cancellation / deadline. -/
theorem C20_blocked_until (s s' : St) (a : Act) (evs : List Ev) (m : Nat)
    (hp : s.cSend = some m) (hfull : s.req.length = s.capReq) (hctx : s.ctx = none)
    (hrem : s.svrDone = false ∧ s.svrExited = false)
    (hs : step s a = some (s', evs))
    (hen : (step s' .cSendEnq).isSome ∨ (step s' .cSendCtx).isSome ∨ (step s' .cSendRemote).isSome) :
    a = .sRecvTake ∨ (∃ e, a = .sReturn e) ∨ (∃ r, a = .cancel r) ∨ a = .sFinishEnd := by
  cases a <;> simp only [step, finishWrite] at hs <;> (repeat' split at hs) <;> simp_all <;>
    (try (obtain ⟨rfl, _⟩ := hs; simp_all [step, remoteDone, svrCtxDone]))

/-- **Memory held by a stalled stream is a constant number of messages**: per direction at most
    the buffer, one message in a pending send and one peeked message. -/
theorem C20_held_messages_bounded (c1 c2 : Nat) (rs : Bool) (s : St) (h : Reachable c1 c2 rs s) :
    s.req.length + (if s.cSend.isSome then 1 else 0) ≤ s.capReq + 1 ∧
    s.resp.length + (if s.last.isSome then 1 else 0) + (match s.sWrite with | some p => p.frames.length | none => 0)
      ≤ s.capResp + 1 + (match s.sWrite with | some p => p.frames.length | none => 0) := by
  obtain ⟨h1, h2, _⟩ := inv_reachable c1 c2 rs s h
  constructor
  · split <;> omega
  · split <;> split <;> omega

/-- non-vacuity: two sends with no receive — the first completes, the second is pending and blocked -/
example : ∃ s, run (init 1 1 true) [.cSendBegin 1, .cSendEnq, .cSendBegin 2] = some s ∧
    s.sendsDone = 1 ∧ s.cSend = some 2 ∧ step s .cSendEnq = none := by
  exact ⟨_, rfl, rfl, rfl, rfl⟩

end InprocStream
