/-
  C17 — client interceptors see every call once and wrap transparently.
  Theorems over the InterceptClient model; interceptors are arbitrary functions (they may
  short-circuit, fail, alter options, call onward several times). Which expression supplies the
  `cc` argument and the "both nil" test are facts regenerated from /repo.
-/
import Model.InterceptClient

namespace InterceptClient

theorem facts : Gen.unaryCCUsesUnwrap = true ∧ Gen.streamCCUsesUnwrap = true ∧
    (Gen.clientIdentityCond == "&&") = true := by decide

/-- With no interceptors the original channel is returned. -/
theorem C17_no_interceptors_identity (ch : Chan) : intercept ch none none = ch := by
  unfold intercept; simp [facts.2.2]

/-- Otherwise unwrapping yields the wrapped channel. -/
theorem C17_unwrap_yields_wrapped (ch : Chan) (u s : Option Interceptor) (h : u.isSome ∨ s.isSome) :
    unwrapOne (intercept ch u s) = some ch := by
  unfold intercept
  rw [if_pos facts.2.2]
  have : (u.isNone && s.isNone) = false := by
    rcases h with h | h
    · cases u <;> simp_all
    · cases s <;> simp_all
  rw [this]; rfl

/-- the root is unchanged by wrapping — at every depth -/
theorem root_intercept (ch : Chan) (u s : Option Interceptor) : root (intercept ch u s) = root ch := by
  unfold intercept
  split
  · split <;> rfl
  · split <;> rfl

/-- **Unary calls** go through the unary interceptor exactly as
    `u (root connection or nil) call (onward = the wrapped channel's Invoke)`: once, before the
    wrapped channel, with the call passed unchanged and the interceptor's result returned unchanged.
    A wrapper without a unary interceptor forwards straight to the wrapped channel. -/
theorem C17_client_unary_once (ch : Chan) (u : Interceptor) (s : Option Interceptor) (c : Call) :
    invoke (intercept ch (some u) s) c = u (grpcId (root ch)) c (invoke ch) ∧
    (∀ s', invoke (intercept ch none (some s')) c = invoke ch c) := by
  constructor
  · unfold intercept
    rw [if_pos facts.2.2]
    simp only [Option.isNone_some, Bool.false_and, Bool.false_eq_true, ↓reduceIte]
    show u (ccOf Gen.unaryCCUsesUnwrap ch) c (invoke ch) = _
    unfold ccOf; rw [facts.1]; rfl
  · intro s'
    unfold intercept
    rw [if_pos facts.2.2]
    rfl

/-- **Stream creation**, symmetrically. -/
theorem C17_client_stream_once (ch : Chan) (u : Option Interceptor) (s : Interceptor) (c : Call) :
    newStream (intercept ch u (some s)) c = s (grpcId (root ch)) c (newStream ch) ∧
    (∀ u', newStream (intercept ch (some u') none) c = newStream ch c) := by
  constructor
  · unfold intercept
    rw [if_pos facts.2.2]
    simp only [Option.isNone_some, Bool.and_false, Bool.false_eq_true, ↓reduceIte]
    show s (ccOf Gen.streamCCUsesUnwrap ch) c (newStream ch) = _
    unfold ccOf; rw [facts.2.1]; rfl
  · intro u'
    unfold intercept
    rw [if_pos facts.2.2]
    rfl

/-- **The cc argument at any depth**: every interceptor of a stack of wrappers, however deep, is
    handed the underlying standard connection of the *root* channel (nil when the root is not one). -/
theorem C17_cc_argument (base : Chan) (layers : List (Option Interceptor × Option Interceptor)) :
    grpcId (root (layers.foldl (fun ch l => intercept ch l.1 l.2) base)) = grpcId (root base) := by
  induction layers generalizing base with
  | nil => rfl
  | cons l rest ih =>
    simp only [List.foldl_cons]
    rw [ih, root_intercept]

theorem logPass_apply (st : Bool) (i : Nat) (cc : Option Nat) (c : Call) (inv : Invoker) :
    logPass st i cc c inv = (Ev.int st i cc c :: (inv c).1, (inv c).2) := rfl

/-- Exactly once, outermost first: a stack of logging pass-through interceptors (any depth, layer
    `i` logging `i`) produces the log `outermost … innermost, base`, each layer once, each with the
    root's connection. -/
theorem C17_outermost_first (g : Bool) (id : Nat) (c : Call) (n : Nat) :
    invoke ((List.range n).foldl (fun ch i => intercept ch (some (logPass false i)) none) (.base g id)) c
      = (((List.range n).reverse.map fun i => Ev.int false i (grpcId (.base g id)) c) ++ [.base false id c], 0) := by
  induction n with
  | zero => rfl
  | succ k ih =>
    rw [List.range_succ, List.foldl_append]
    simp only [List.foldl_cons, List.foldl_nil]
    rw [(C17_client_unary_once _ _ none c).1]
    have hroot : grpcId (root ((List.range k).foldl (fun ch i => intercept ch (some (logPass false i)) none) (.base g id)))
        = grpcId (.base g id) := by
      have := C17_cc_argument (.base g id) ((List.range k).map fun i => (some (logPass false i), none))
      rw [List.foldl_map] at this
      exact this
    rw [hroot, logPass_apply, ih]
    simp

/-- non-vacuity: depth 2 over a standard connection, a short-circuit in the outer layer -/
example : invoke (intercept (intercept (.base true 7) (some (logPass false 0)) none) (some (logShort false 1)) none) ⟨1, 0⟩
    = ([.int false 1 (some 7) ⟨1, 0⟩], 1) := by decide

end InterceptClient

namespace InterceptClient

/-- regenerated from intercept.go on every run: the continuation handed to a client interceptor is the
    wrapper's own method value, and that method forwards the call to the wrapped channel with exactly
    the options the interceptor passed — which is what `invoke inner` / `newStream inner` as the
    continuation of the model mean (`C17_client_unary_once`, `C17_client_stream_once`) -/
theorem C17_continuation_facts :
    Gen.clientUnaryContinuation = ("intch.unaryInvoker", "{ return intch.ch.Invoke(ctx, methodName, req, resp, opts...) }") ∧
    Gen.clientStreamContinuation = ("intch.streamer", "{ return intch.ch.NewStream(ctx, desc, methodName, opts...) }") := by
  decide

/-- regenerated from intercept.go: `Invoke` / `NewStream` of the wrapper return the interceptor call itself, so the
    interceptor's results (the error value included) reach the caller untouched — which is what the model's
    `invoke (.wrapped inner (some u) _) c = u … ` (no post-processing of the `Out`) means -/
theorem C17_results_direct_facts : Gen.clientUnaryResultDirect = true ∧ Gen.clientStreamResultDirect = true := by decide

/-- whatever an interceptor returns without calling onward is the result of the call, through any wrapper -/
theorem C17_short_circuit_result_unchanged (inner : Chan) (u s : Option Interceptor) (c : Call) (out : Out) :
    invoke (.wrapped inner (some fun _ _ _ => out) s) c = out ∧
    newStream (.wrapped inner u (some fun _ _ _ => out)) c = out := by
  constructor <;> simp [invoke, newStream]

/-- an interceptor that forwards without options reaches the next layer without options, whatever the caller passed -/
theorem C17_dropped_options_stay_dropped (inner : Chan) (s : Option Interceptor) (c : Call) (layer : Nat) :
    invoke (.wrapped inner (some (logDrop false layer)) s) c =
      ((.int false layer (ccOf Gen.unaryCCUsesUnwrap inner) c) :: (invoke inner { c with opts := 0 }).1, (invoke inner { c with opts := 0 }).2) := by
  simp [invoke, logDrop]

/-- an interceptor that forwards under another method name reaches the next layer (and, through any
    number of pass-through layers, the base channel) under that name — unary and stream alike -/
theorem C17_renamed_method_reaches_next (inner : Chan) (u s : Option Interceptor) (c : Call) (layer : Nat) :
    invoke (.wrapped inner (some (logRename false layer)) s) c =
      ((.int false layer (ccOf Gen.unaryCCUsesUnwrap inner) c) :: (invoke inner { c with method := c.method + 1 }).1,
        (invoke inner { c with method := c.method + 1 }).2) ∧
    newStream (.wrapped inner u (some (logRename true layer))) c =
      ((.int true layer (ccOf Gen.streamCCUsesUnwrap inner) c) :: (newStream inner { c with method := c.method + 1 }).1,
        (newStream inner { c with method := c.method + 1 }).2) := by
  constructor <;> simp [invoke, newStream, logRename]

/-- witness: the base of a two-layer stack sees the name the outer layer forwarded, not the caller's -/
example : newStream (intercept (intercept (.base false 3) none (some (logPass true 0))) none (some (logRename true 1))) ⟨0, 2⟩
    = ([.int true 1 none ⟨0, 2⟩, .int true 0 none ⟨1, 2⟩, .base true 3 ⟨1, 2⟩], 0) := by decide

end InterceptClient
