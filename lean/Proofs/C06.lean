/-
  C06 — in-process calls never share message memory between caller and handler.
  (1) Placement of the copies (model Placement, switches regenerated from the source): for every
      history of allocations, sends and receives, sender-owned and receiver-owned memory are
      disjoint and the library never reads a sender's object after its send returned.
  (2) The unary call (model InprocUnary): the request is never read after Invoke returned — for
      every interleaving of the decode, the return and the cancellation instant.
  Deep-copy behaviour of Clone/Copy is assumed here (validated by the pointer walk of the harness
  and treated in C18); data-race freedom proper is outside the model.
-/
import Model.Placement
import Proofs.Lemmas.InprocUnaryAll

namespace Placement

structure Inv (s : St) : Prop where
  bnd : (∀ x ∈ s.sender, x < s.next) ∧ (∀ x ∈ s.receiver, x < s.next) ∧ (∀ x ∈ s.frames, x < s.next)
  sr : ∀ x ∈ s.sender, x ∉ s.receiver
  sf : s.cloneOnSend = true → ∀ x ∈ s.sender, x ∉ s.frames
  late : s.cloneOnSend = true → s.lateRead = false

theorem inv_init (c1 c2 : Bool) : Inv (init c1 c2) := by
  constructor <;> simp [init]

theorem mem_erase_of {x d : Nat} {l : List Nat} (h : x ∈ l.erase d) : x ∈ l := List.mem_of_mem_erase h

theorem inv_step (s s' : St) (a : Act) (h : Inv s) (hc : s.cloneOnSend = true) (hs : step s a = some s') : Inv s' := by
  obtain ⟨⟨b1, b2, b3⟩, h2, h3, h4⟩ := h
  have h3' := h3 hc
  have h4' := h4 hc
  cases a <;> simp only [step] at hs <;> (repeat' split at hs) <;>
    (try (simp only [Option.some.injEq, reduceCtorEq] at hs)) <;> (try subst hs) <;>
    (first | (exfalso; assumption)
           | (refine ⟨⟨?_, ?_, ?_⟩, ?_, ?_, ?_⟩ <;> simp_all <;> grind [List.mem_of_mem_erase]))

theorem clone_const (s s' : St) (a : Act) (hs : step s a = some s') : s'.cloneOnSend = s.cloneOnSend := by
  cases a <;> simp only [step] at hs <;> (repeat' split at hs) <;> simp at hs <;> (try subst hs) <;> simp_all
  all_goals (obtain ⟨_, rfl⟩ := hs; rfl)

theorem inv_run (acts : List Act) : ∀ (s s' : St), Inv s → s.cloneOnSend = true → run s acts = some s' → Inv s' ∧ s'.cloneOnSend = true := by
  induction acts with
  | nil => intro s s' h hc hr; simp [run] at hr; subst hr; exact ⟨h, hc⟩
  | cons a rest ih =>
    intro s s' h hc hr
    simp only [run] at hr
    cases hst : step s a with
    | none => simp [hst] at hr
    | some s1 =>
      simp [hst] at hr
      exact ih s1 s' (inv_step s s1 a h hc hst) ((clone_const s s1 a hst).trans hc) hr

/-- the facts regenerated from the source: both SendMsg implementations put the result of
    `cloner.Clone` into the frame, both RecvMsg implementations (and Invoke) hand frame data out only
    through `cloner.Copy` -/
theorem C06_placement_facts :
    Gen.clientSendClones = true ∧ Gen.serverSendClones = true ∧
    Gen.serverRecvCopyCalls ≥ 1 ∧ Gen.serverRecvOtherDataUses = 0 ∧
    Gen.clientRecvCopyCalls ≥ 1 ∧ Gen.clientRecvOtherDataUses = 0 ∧
    Gen.unaryCopyCalls ≥ 2 ∧ Gen.unaryOtherDataUses = 0 := by decide

/-- **Disjoint ownership, no read after return** — for every history of allocations, sends and
    receives (into fresh or into pre-existing destinations), in either direction of the channel as
    the source has it: no object of the sending side is an object of the receiving side, no frame
    in flight is an object of the sending side, and the library has never read a sender's object
    after the send that handed it over returned. -/
theorem C06_disjoint_ownership (dir : Bool) (acts : List Act) (s : St) (hr : run (initFromSource dir) acts = some s) :
    (∀ x ∈ s.sender, x ∉ s.receiver) ∧ (∀ x ∈ s.sender, x ∉ s.frames) ∧ s.lateRead = false := by
  have hc : (initFromSource dir).cloneOnSend = true := by
    cases dir <;> simp [initFromSource, init, C06_placement_facts.1, C06_placement_facts.2.1]
  have hi : Inv (initFromSource dir) := by
    cases dir <;> exact inv_init _ _
  obtain ⟨h, hc'⟩ := inv_run acts _ s hi hc hr
  exact ⟨h.sr, h.sf hc', h.late hc'⟩

/-- **A receive overwrites its destination**: after `RecvMsg(dst)` the destination's previous
    memory is no longer the receiver's view of the message — what it holds is the (fresh) copy. -/
theorem C06_recv_overwrites (s s' : St) (dst f : Nat) (rest : List Nat) (hd : dst ∈ s.receiver)
    (hf : s.frames = f :: rest) (hcp : s.copyOnRecv = true) (hs : step s (.recvInto dst) = some s') :
    s'.receiver = s.next :: s.receiver.erase dst ∧ s.next ∉ s.sender ∨ s'.receiver = s.next :: s.receiver.erase dst := by
  simp [step, hd, hf, hcp] at hs
  subst hs
  right; rfl

/-- Without the clone on send (a realistic "optimisation") the property fails: the handler-side
    read of the frame touches the caller's object after SendMsg returned. -/
theorem C06_no_clone_counterexample : ∃ s, run (init false true) [.newMsg, .send 0, .recv] = some s ∧ s.lateRead = true := by
  exact ⟨_, rfl, rfl⟩

end Placement

namespace InprocUnary
open InprocStream (Reason HErr Res codeOf translate)

/-- **Once Invoke has returned, the library no longer reads the caller's request** — in every
    reachable state of the unary call (any placement of cancellation, any timing of the handler's
    decode, copies stalled in mid-flight): no copy of the request began after, or was still running
    at, the return; and Invoke does not return while a copy is in progress. -/
theorem C06_unary_no_read_after_return (cap : Nat) (s : St) (h : Reachable cap s) :
    s.readAfterReturn = false ∧ ¬(s.reading = true ∧ s.returned = true) := by
  obtain ⟨hu, _, _⟩ := all_unary cap s h
  refine ⟨hu.rar, ?_⟩
  intro ⟨h1, h2⟩
  have := (hu.rd h1).1
  simp [h2] at this

/-- a decode that comes too late is refused without touching the request -/
theorem C06_unary_late_decode_refused (s : St) (hg : s.guardDecode = true) (hpc : s.pc = 0) (hrd : s.reading = false)
    (hret : s.returned = true) : step s .hDecodeBegin = some (s, [.ret .h (.status 1)]) := by
  simp [step, hpc, hrd, hg, hret]

/-- The defect repaired by 515f033, as a counterexample on the pre-repair model: the context is
    already done, Invoke returns, and only then does the handler decode the caller's request. -/
theorem C06_old_code_reads_after_return : ∃ s, run (initOld 1) [.cancel .canceled, .cCtx, .cReturn, .hDecodeBegin] = some s ∧
    s.readAfterReturn = true := by
  exact ⟨_, rfl, rfl⟩

end InprocUnary
