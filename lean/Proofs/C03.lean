/-
  C03 — request metadata, response headers and trailers arrive complete and unaltered.
  * base64 (`-bin` values) round trip for every byte string; header-safe output
  * metadata → HTTP headers → metadata, per key with any number of values
  * in-process streams: Header()/Trailer() are exactly the frames taken; trailers are complete with the final status / io.EOF; setting
    headers after they were sent fails
  * in-process unary: a call that reports success has delivered every header and trailer
  (net/http's own treatment of header values — canonicalisation, trimming — is external.)
-/
import Proofs.Lemmas.Metadata
import Proofs.Lemmas.InprocAll
import Proofs.Lemmas.InprocTlrSrv
import Proofs.Lemmas.InprocHdrSrv
import Proofs.Lemmas.InprocUnaryAll
import Proofs.Lemmas.HttpServerStream
import Proofs.Lemmas.HttpUnary
import Model.TrailerSplit

namespace Metadata

/-- **`-bin` values are byte-exact**: every byte string (any length, any bytes, 0x00 / 0x0A / 0xFF
    included) survives encode-then-decode with the padded URL alphabet both sites use. -/
theorem C03_b64_roundtrip (bs : B) (h : ∀ x ∈ bs, x < 256) : b64dec (b64enc bs) = some bs :=
  b64_roundtrip bs h

/-- the encoded form contains only printable, header-safe ASCII -/
theorem C03_b64_header_safe (bs : B) : ∀ x ∈ b64enc bs, 32 < x ∧ x < 128 := by
  intro x hx; have := b64enc_safe bs x hx; exact ⟨this.2, this.1⟩

/-- the encode site (`toHeaders`) and the decode site (`asMetadata`) use the same, padded URL
    variant — regenerated from the source on every run -/
theorem C03_codec_sites : sitesPaired = true := by decide

/-- **Multi-valued keys keep all values in order, `-bin` values byte-exact**: for a lower-case,
    non-reserved key with any number of values, `asMetadata (toHeaders {k: vs})` is `{k: vs}`. -/
theorem C03_md_key_roundtrip (k : B) (vs : List B) (hne : vs ≠ []) (hl : lower k = k) (hr : isReserved k = false)
    (hvs : isBin k = true → ∀ v ∈ vs, ∀ x ∈ v, x < 256) :
    asMetadata (toHeaders [(k, vs)] []) = some [(k, vs)] := by
  have := asMetadata_values k vs hne hl hvs
  simpa [toHeaders, hr] using this

/-- **Whole metadata maps survive the header encoding**: for any number of keys (distinct, lower-case,
    not reserved), each with any number of values, `-bin` values arbitrary byte strings, plain values
    any bytes: decoding the header lines `toHeaders` emits gives back every key with all its values in
    order (`md.reverse`: the same map — the order of *keys* is not observable in a Go map). -/
theorem C03_md_roundtrip (md : MD) (h : WF md) : asMetadata (toHeaders md []) = some md.reverse :=
  md_roundtrip md h

/-- non-vacuity: two keys, one of them `-bin` with two values -/
example : WF [([97], [[1, 2]]), ([116, 45, 98, 105, 110], [[0, 10, 255], [7]])] := by
  refine ⟨by decide, ?_⟩
  intro e he
  simp at he
  rcases he with rfl | rfl
  · refine ⟨by decide, by decide +kernel, by simp, ?_⟩
    intro hb; exact absurd hb (by decide)
  · refine ⟨by decide, by decide +kernel, by simp, ?_⟩
    intro _ v hv x hx
    simp at hv
    rcases hv with rfl | rfl <;> simp at hx <;> omega

/-- reserved keys are dropped by the transport (documented: they belong to HTTP itself) -/
theorem C03_reserved_dropped (k : B) (vs : List B) (hr : isReserved k = true) : toHeaders [(k, vs)] [] = [] := by
  simp [toHeaders, hr]

example : b64enc [0, 10, 255, 7] = [65, 65, 114, 95, 66, 119, 61, 61] ∧ b64dec (b64enc [0, 10, 255, 7]) = some [0, 10, 255, 7] := by decide

/-- non-vacuity of the key round trip: a `-bin` key with two values, one of them of length 1 (padding) -/
example : asMetadata [([116, 45, 98, 105, 110], b64enc [0, 10, 255]), ([116, 45, 98, 105, 110], b64enc [7])] =
    some [([116, 45, 98, 105, 110], [[0, 10, 255], [7]])] := by decide

end Metadata

namespace InprocStream

/-- the frame orders of `finish` and of the unary server goroutine, regenerated from the source:
    headers first, trailers before the error -/
theorem C03_frame_order_facts :
    Gen.finishFrameOrder = ["headers", "trailers", "err"] ∧ Gen.unaryFrameOrder = ["headers", "data", "trailers", "err"] := by
  decide

structure HInv (s : St) : Prop where
  base : Base s
  srv : SrvInv s
  stat : StatInv s
  hc : HdrCli s
  ts : TlrS s

theorem hinv_reachable (c1 c2 : Nat) (rs : Bool) (s : St) (h : Reachable c1 c2 rs s) : HInv s :=
  reachable_induction c1 c2 rs HInv
    ⟨base_init c1 c2 rs, srv_init c1 c2 rs, stat_init c1 c2 rs, hdrcli_init c1 c2 rs, tlrs_init c1 c2 rs⟩
    (fun s a s' evs hp hst =>
      ⟨base_step s a s' evs hp.base hst, srv_step s a s' evs hp.base hp.srv hst, stat_step s a s' evs hp.base hp.stat hst,
       hdrcli_step s a s' evs hp.hc hst, tlrs_step s a s' evs hp.base hp.ts hst⟩) s h

/-- **Header() and Trailer() are exactly the frames taken**: with a live context, in every reachable
    state the client's `Header()` holds the metadata of the (last) headers frame it has taken off the
    channel and `Trailer()` that of the trailers frame — nothing dropped, nothing altered, values in
    order. (That the handler's header frame precedes every other frame and carries everything the
    handler set is `C03_headers_before_first_message`.) -/
theorem C03_client_metadata_is_frames (c1 c2 : Nat) (rs : Bool) (s : St) (h : Reachable c1 c2 rs s)
    (hctx : s.ctx = none) : s.cHeaders = hdrOf s.respDeq ∧ s.cTrailers = tlrOf s.respDeq := by
  obtain ⟨_, _, _, hc, _⟩ := hinv_reachable c1 c2 rs s h
  exact ⟨hc.cH hctx, hc.cT hctx⟩

theorem tlrOf_append_err (a : List Frame) (e : HErr) : tlrOf (a ++ [Frame.err e]) = tlrOf a := by simp

theorem errThenMore_mid (a rest : List Frame) (e : HErr) (h : errThenMore (a ++ Frame.err e :: rest) = false) : rest = [] := by
  induction a with
  | nil => cases rest <;> simp [errThenMore] at h ⊢
  | cons f r ih => simp [errThenMore] at h; exact ih h.2

/-- **Trailers no later than the final status.** With a live context, at the moment the client's
    RecvMsg takes the error frame (and returns the handler's status), `Trailer()` already holds
    exactly the trailers the handler set — all of them, in order. -/
theorem C03_trailers_with_final_status (c1 c2 : Nat) (rs : Bool) (s : St) (h : Reachable c1 c2 rs s)
    (hctx : s.ctx = none) (e : HErr) (rest : List Frame) (hr : s.resp = .err e :: rest) :
    s.cTrailers = s.tlrAll := by
  obtain ⟨hb, _, hst, hc, ht⟩ := hinv_reachable c1 c2 rs s h
  rw [hc.cT hctx]
  have hq := hb.respQ
  rw [hr] at hq
  have hE : hasErr s.respEnq = true := by rw [hq]; simp
  have hp := ht.eP hE
  have hret : s.sReturned = true := by
    have := hst.errEnq e (by rw [hq]; simp)
    have h2 := hb.hret
    rw [this] at h2
    simpa using h2.symm
  have h1 := ht.tE hctx hret (by rw [hp]; simp)
  have h2 := ht.eE
  rw [hq] at h1 h2
  have hrest := errThenMore_mid _ _ _ h2
  subst hrest
  rw [← h1]
  simp

/-- **…and with a clean end**: when the client's RecvMsg sees the closed, drained channel (io.EOF
    — the call reports success), `Trailer()` holds every trailer the handler set. -/
theorem C03_success_has_all_trailers (c1 c2 : Nat) (rs : Bool) (s : St) (h : Reachable c1 c2 rs s)
    (hctx : s.ctx = none) (hr : s.resp = []) (hcl : s.respClosed = true) : s.cTrailers = s.tlrAll := by
  obtain ⟨hb, _, _, hc, ht⟩ := hinv_reachable c1 c2 rs s h
  rw [hc.cT hctx]
  obtain ⟨hw, hret⟩ := hb.closedW hcl
  have h1 := ht.tE hctx hret (by simp [pendFrames, hw])
  have hq := hb.respQ
  rw [hr] at hq
  simp at hq
  rw [← hq]; exact h1

theorem hdrs_reachable (c1 c2 : Nat) (rs : Bool) (s : St) (h : Reachable c1 c2 rs s) : Base s ∧ HdrS s :=
  reachable_induction c1 c2 rs (fun s => Base s ∧ HdrS s)
    ⟨base_init c1 c2 rs, hdrs_init c1 c2 rs⟩
    (fun s a s' evs hp hst => ⟨base_step s a s' evs hp.1 hst, hdrs_step s a s' evs hp.1 hp.2 hst⟩) s h

/-- **Headers no later than the first message (or any later frame).** With a live context, once the
    client has taken *any* frame other than the headers frame off the channel — a message, the
    trailers, the final status — `Header()` holds exactly the metadata of the handler's successful
    SetHeader / SendHeader calls, all of them, in order: the header frame is the first frame of the
    stream and the only one of its kind, for every interleaving of handler and client. -/
theorem C03_headers_before_first_message (c1 c2 : Nat) (rs : Bool) (s : St) (h : Reachable c1 c2 rs s)
    (hctx : s.ctx = none) (f : Frame) (hf : f ∈ s.respDeq) (hnh : isHdr f = false) : s.cHeaders = s.hdrAll := by
  obtain ⟨hb, hs⟩ := hdrs_reachable c1 c2 rs s h
  have hc := (hinv_reachable c1 c2 rs s h).hc
  rw [hc.cH hctx]
  have hq := hb.respQ
  have hne : s.respDeq ≠ [] := by intro he; simp [he] at hf
  by_cases h0 : s.sState = 0
  · obtain ⟨e1, e2, e3⟩ := hs.a1 hctx h0
    have hret : s.sReturned = true := by
      cases hr : s.sReturned with
      | true => rfl
      | false =>
        have := hs.a5 hctx h0 hr
        rw [hq] at this
        simp at this; exact absurd this.1 hne
    have hpend : nHdr (pendFrames s) = true := by
      rcases e3 with e3 | e3
      · rw [hq] at e3; simp at e3; exact absurd e3.1 hne
      · exact e3
    rw [hs.a4 hctx h0 hret hpend]
    rw [hq] at e1; simp at e1
    exact hdrOf_nHdr _ e1.1
  · rcases hs.b2 hctx h0 with ⟨e1, e2⟩ | e2
    · rw [e1]; rw [hq] at e2; simp at e2; exact hdrOf_nHdr _ e2.1
    · rw [hq] at e2
      exact hdrOf_hdrHead _ _ (hdrHead_prefix _ _ _ e2 hne)

/-- **…and with a clean end**: when the client sees the closed, drained channel, `Header()` holds every
    header the handler set (also when nothing at all was sent). -/
theorem C03_success_has_all_headers (c1 c2 : Nat) (rs : Bool) (s : St) (h : Reachable c1 c2 rs s)
    (hctx : s.ctx = none) (hr : s.resp = []) (hcl : s.respClosed = true) : s.cHeaders = s.hdrAll := by
  obtain ⟨hb, hs⟩ := hdrs_reachable c1 c2 rs s h
  have hc := (hinv_reachable c1 c2 rs s h).hc
  rw [hc.cH hctx]
  obtain ⟨hw, hret⟩ := hb.closedW hcl
  have hq := hb.respQ
  rw [hr, List.append_nil] at hq
  have hp : pendFrames s = [] := by simp [pendFrames, hw]
  by_cases h0 : s.sState = 0
  · obtain ⟨e1, _, _⟩ := hs.a1 hctx h0
    rw [hs.a4 hctx h0 hret (by simp [hp]), ← hq]
    exact hdrOf_nHdr _ e1
  · rcases hs.b2 hctx h0 with ⟨e1, e2⟩ | e2
    · rw [e1, ← hq]; exact hdrOf_nHdr _ e2
    · rw [← hq]; exact hdrOf_hdrHead _ _ e2

/-- **Setting headers after they were sent fails** (in-process stream): once a header frame or a
    message has gone out, SetHeader and SendHeader return an error and change nothing. -/
theorem C03_set_header_after_send_fails (s : St) (md : Nat) (hst : s.sState ≠ 0) (hw : s.sWrite = none) (hr : s.sReturned = false) :
    step s (.sSetHeader md) = some (s, [.ret .h .plainErr]) ∧ step s (.sSendHeader md) = some (s, [.ret .h .plainErr]) := by
  simp [step, hw, hr, hst]

end InprocStream

namespace InprocUnary
open InprocStream (Reason HErr Res codeOf translate)

/-- **A call that reports success has delivered all of them** (unary): nil from `Invoke` implies the
    grpc.Header / grpc.Trailer targets hold every header and every trailer the handler set — for
    every interleaving of the server goroutine's frame writes with the cancellation instant (the
    'success with missing trailers' defect repaired by 313140f is `C04_old_code_mixture`). -/
theorem C03_unary_success_has_all_metadata (cap : Nat) (s : St) (h : Reachable cap s) (hr : s.result = some .ok) :
    s.cHdr = mdOpt s.hHdr ∧ s.cTlr = mdOpt s.hTlr := by
  obtain ⟨_, _, _, h3, h4⟩ := (all_unary cap s h).2.2.okc hr
  exact ⟨h3, h4⟩

/-- setting headers after SendHeader fails (UnaryServerTransportStream) -/
theorem C03_unary_set_header_after_send_fails (s : St) (md : Nat) (hpc : s.pc = 0) (hrd : s.reading = false) (hs : s.hdrsSent = true) :
    step s (.hSetHeader md) = some (s, [.ret .h .plainErr]) ∧ step s (.hSendHeader md) = some (s, [.ret .h .plainErr]) := by
  simp [step, hpc, hrd, hs]

end InprocUnary

namespace HttpServerStream
open InprocStream (HErr Reason Res codeOf)

/-- **HTTP server streams: headers and trailers reach the wire complete and in place.** For every
    request body, every handler program `acts` (any mix of SetHeader / SendHeader / SetTrailer /
    SendMsg / RecvMsg, encodable or not) with results `rs`, and every return value `e`: if the
    connection held, the reply is the header block carrying exactly the metadata of the
    SetHeader/SendHeader calls that returned nil, then data frames only, then one trailer frame
    carrying every SetTrailer metadata in call order — together with the final status. -/
theorem C03_http_server_reply_metadata (cs : Bool) (req : List ReqItem) (acts : List Act) (s1 : St) (rs : List Res)
    (e : Option HErr) (s : St) (r : Res) (h1 : run (init cs req) acts = some (s1, rs)) (h2 : step s1 (.ret e) = some (s, r))
    (hw : s.writeFailed = false) (hc : s.connBroken = false) :
    ∃ fs, allData fs = true ∧ s.wire = .head (okHdr acts rs) :: (fs ++ [.trailer (trailerCode e) (trailersSet acts)]) :=
  reply_complete cs req acts s1 rs e s r h1 h2 hw hc

/-- once the header block is committed (SendHeader or the first SendMsg), SetHeader and SendHeader
    fail and change nothing -/
theorem C03_http_server_set_header_after_send_fails (s : St) (md : Nat) (hf : s.finished = false) (hs : s.headersSent = true) :
    step s (.setHeader md) = some (s, .plainErr) ∧ step s (.sendHeader md) = some (s, .plainErr) := by
  simp [step, stepLive, hf, hs]

/-- in every reachable state the header block on the wire is the successfully set metadata -/
theorem C03_http_server_header_block (cs : Bool) (req : List ReqItem) (acts : List Act) (s : St) (rs : List Res)
    (h : run (init cs req) acts = some (s, rs)) (h' : List Nat) (fs : List Out) (hw : s.wire = .head h' :: fs) :
    h' = okHdr acts rs := by
  obtain ⟨hi, _, hh, _⟩ := run_facts req acts (init cs req) s rs (inv_init cs req) h
  have hwr : s.headWritten = true := by have := hi.hw; simp [hw] at this; exact this
  have := hi.head hwr
  simp [hw, init] at this hh
  rw [this, hh]

-- non-vacuity: a handler that sets a header, sends, sets two trailers and fails with code 5
example : (run (init true [.data 7 true]) [.recv, .setHeader 1, .send 9 true, .setHeader 2, .setTrailer 3, .setTrailer 4, .ret (some (.status 5))]).map (·.1.wire) =
    some [.head [1], .data 9, .trailer 5 [3, 4]] := by decide

end HttpServerStream

namespace HttpUnary
open InprocStream (HErr Reason Res codeOf)

/-- **Unary calls over HTTP deliver all metadata, on success and on failure alike**: for every handler
    program (any mix of SetHeader / SendHeader / SetTrailer) and every outcome (a response, a response
    that cannot be marshalled, any error), the caller's `grpc.Header` target ends up with exactly the
    metadata of the calls that returned nil and the `grpc.Trailer` target with every SetTrailer
    metadata, in call order. -/
theorem C03_http_unary_metadata (ops : List HOp) (ret : Ret) (ctxDone : Bool) :
    (client (serve ops ret ctxDone).1).hdr = okHdr ops (serve ops ret ctxDone).2 ∧
    (client (serve ops ret ctxDone).1).tlr = trailersSet ops := by
  have h := runOps_facts ops {}
  simp only [List.nil_append] at h
  unfold serve client
  cases ret with
  | err e => simpa [Gen.unaryClientMetadataBeforeStatus] using h
  | resp m enc => cases enc <;> simpa [Gen.unaryClientMetadataBeforeStatus] using h

/-- SetHeader / SendHeader after SendHeader fail and change nothing -/
theorem C03_http_unary_set_header_after_send_fails (s : Sts) (md : Nat) (h : s.hdrsSent = true) :
    hstep s (.setHeader md) = (s, .plainErr) ∧ hstep s (.sendHeader md) = (s, .plainErr) := by
  simp [hstep, h]

example : client (serve [.setHeader 1, .sendHeader 2, .setHeader 3, .setTrailer 4] (.err (.status 5)) false).1 =
    { result := .status 5, hdr := [1, 2], tlr := [4] } := by decide

end HttpUnary

namespace HttpUnary

/-- regenerated from the source: `handleMethod` writes headers and trailers before it looks at the
    handler's error, and `Channel.Invoke` copies them to the call options before it looks at the status -/
theorem C03_http_unary_order_facts :
    Gen.unaryMetadataBeforeOutcome = true ∧ Gen.unaryClientMetadataBeforeStatus = true := by decide

end HttpUnary

namespace Metadata

/-- regenerated from httpgrpc/io.go: `asMetadata` does nothing to a header value but base-64-decode a `-bin` one and
    append it — it never splits, trims or joins values (the functions it calls, sorted). This is what the model's
    per-value decoding (`md_roundtrip`) assumes of the decoder's control flow. -/
theorem C03_as_metadata_keeps_values_whole :
    Gen.asMetadataCalls = ["DecodeString", "HasSuffix", "ToLower", "append", "string"] := by decide

end Metadata

namespace TrailerSplit
open Prim

theorem isTrailerKey_pfx_append (k : Key) (hk : k ≠ []) : isTrailerKey (pfx ++ k) = true := by
  unfold isTrailerKey
  have h1 : pfx.isPrefixOf (pfx ++ k) = true := by
    rw [List.isPrefixOf_iff_prefix]; exact List.prefix_append _ _
  have h2 : (pfx ++ k).drop pfx.length = k := by simp
  rw [h1, h2]
  cases k with
  | nil => exact absurd rfl hk
  | cons a r => rfl

/-- **Headers and trailers of a unary HTTP reply come apart again exactly** — for every header map and every trailer map
    (any number of keys, any values), as long as no *header* key lies under the protocol's own trailer prefix and no trailer
    key is empty: the client's headers are the handler's headers, the client's trailers the handler's trailers.
    (`_partial`: without the hypothesis on header keys the statement is false — next theorem; same root as known finding
    C02-F2 / C14-F1, the reply's header block is one name space shared by protocol and application.) -/
theorem C03_unary_trailer_split_roundtrip_partial (h t : MD)
    (hh : ∀ kv ∈ h, isTrailerKey kv.1 = false) (ht : ∀ kv ∈ t, kv.1 ≠ []) :
    clientHeaders (serverMerge h t) = h ∧ clientTrailers (serverMerge h t) = t := by
  unfold clientHeaders clientTrailers serverMerge
  have hf1 : h.filter (fun kv => !isTrailerKey kv.1) = h := by
    apply List.filter_eq_self.mpr; intro kv hkv; simp [hh kv hkv]
  have hf2 : h.filter (fun kv => isTrailerKey kv.1) = [] := by
    apply List.filter_eq_nil_iff.mpr; intro kv hkv; simp [hh kv hkv]
  have ht1 : (t.map (fun kv => (pfx ++ kv.1, kv.2))).filter (fun kv => !isTrailerKey kv.1) = [] := by
    apply List.filter_eq_nil_iff.mpr
    intro kv hkv
    obtain ⟨x, hx, rfl⟩ := List.mem_map.mp hkv
    simp [isTrailerKey_pfx_append x.1 (ht x hx)]
  have ht2 : (t.map (fun kv => (pfx ++ kv.1, kv.2))).filter (fun kv => isTrailerKey kv.1) = t.map (fun kv => (pfx ++ kv.1, kv.2)) := by
    apply List.filter_eq_self.mpr
    intro kv hkv
    obtain ⟨x, hx, rfl⟩ := List.mem_map.mp hkv
    exact isTrailerKey_pfx_append x.1 (ht x hx)
  constructor
  · rw [List.filter_append, hf1, ht1, List.append_nil]
  · rw [List.filter_append, hf2, ht2, List.nil_append, List.map_map]
    have : ((fun kv : Key × List Nat => (kv.1.drop pfx.length, kv.2)) ∘ fun kv => (pfx ++ kv.1, kv.2)) = id := by
      funext kv; simp
    rw [this, List.map_id]

/-- the excluded case is real: header metadata under `x-grpc-trailer-k` reaches the caller as *trailer* `k` -/
theorem C03_unary_header_under_trailer_prefix_becomes_trailer :
    clientTrailers (serverMerge [(pfx ++ [107], [1])] []) = [([107], [1])] ∧
    clientHeaders (serverMerge [(pfx ++ [107], [1])] []) = [] := by
  constructor <;> decide +kernel

/-- server and client agree on the prefix up to the case the client folds away (regenerated from both files) -/
theorem C03_trailer_prefix_sites : Prim.toLower (Prim.str Gen.trailerPrefixServer) = Prim.str Gen.trailerPrefixClient := by
  decide +kernel

/-- non-vacuity: two headers, two trailers (one multi-valued) -/
example : clientHeaders (serverMerge [([97], [1]), ([98], [2, 3])] [([99], [4]), ([100], [5, 6])]) = [([97], [1]), ([98], [2, 3])] ∧
    clientTrailers (serverMerge [([97], [1]), ([98], [2, 3])] [([99], [4]), ([100], [5, 6])]) = [([99], [4]), ([100], [5, 6])] :=
  C03_unary_trailer_split_roundtrip_partial _ _ (by decide +kernel) (by decide)

end TrailerSplit
