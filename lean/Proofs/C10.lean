/-
  C10 — in-process handlers get metadata, peer, deadline, but no caller context values.
  Theorems over the CtxValues model for every caller context chain and every key.
-/
import Model.CtxValues

namespace CtxValues

theorem layers_eq : Gen.serverCtxLayers =
    ["wrap:noValuesContext", "if(FromOutgoingContext):metadata.NewIncomingContext", "peer.NewContext",
     "context.WithValue:clientContextKey:ctx"] := by decide

theorem noValues_nil : (Gen.noValuesValueReturns != "nil") = false := by decide

theorem shapes : Gen.invokeHandlerCtx = "sts(makeServerContext)" ∧ Gen.newStreamHandlerCtx = "sts(var svrCtx)" := by decide

/-- the server context, unfolded -/
theorem makeServerContext_eq (c : Ctx) (cid : Nat) :
    makeServerContext c cid =
      .withValue (.withValue (incomingLayer c (.noValues c false)) .peer .peerInproc) .clientCtx (.ctxRef cid) := by
  unfold makeServerContext
  rw [layers_eq]
  simp only [List.foldl_cons, List.foldl_nil, applyLayer, noValues_nil]
  simp only [beq_self_eq_true, ↓reduceIte]
  have h1 : ("if(FromOutgoingContext):metadata.NewIncomingContext" == "wrap:noValuesContext") = false := by decide
  have h2 : ("peer.NewContext" == "wrap:noValuesContext") = false := by decide
  have h3 : ("peer.NewContext" == "if(FromOutgoingContext):metadata.NewIncomingContext") = false := by decide
  have h4 : ("context.WithValue:clientContextKey:ctx" == "wrap:noValuesContext") = false := by decide
  have h5 : ("context.WithValue:clientContextKey:ctx" == "if(FromOutgoingContext):metadata.NewIncomingContext") = false := by decide
  have h6 : ("context.WithValue:clientContextKey:ctx" == "peer.NewContext") = false := by decide
  simp only [h1, h2, h3, h4, h5, h6, Bool.false_eq_true, ↓reduceIte]

/-- **No caller values.** For every caller context chain (including ones that carry gRPC's own
    keys: outgoing metadata, an enclosing handler's incoming metadata, peer, transport stream) and
    every key other than the four the library binds itself, the handler's context has no value. -/
theorem C10_no_caller_values (c : Ctx) (cid : Nat) (k : Key)
    (hk : k ≠ .incomingMD ∧ k ≠ .peer ∧ k ≠ .clientCtx ∧ k ≠ .transportStream) :
    value (handlerCtx c cid) k = none := by
  obtain ⟨h1, h2, h3, h4⟩ := hk
  unfold handlerCtx
  rw [makeServerContext_eq]
  simp only [value]
  rw [if_neg (Ne.symm h4), if_neg (Ne.symm h3), if_neg (Ne.symm h2)]
  unfold incomingLayer
  split
  · simp only [value, if_neg (Ne.symm h1), Bool.false_eq_true, ↓reduceIte]
  · simp only [value, Bool.false_eq_true, ↓reduceIte]

/-- **The four bound keys carry the library's values**, whatever the caller's chain holds under
    them: incoming metadata = the caller's *outgoing* metadata (absent if there is none — never the
    caller's own incoming metadata), an in-process peer, the client-context accessor pointing at the
    caller's context, and a fresh server transport stream (never an enclosing handler's). -/
theorem C10_bound_values (c : Ctx) (cid : Nat) :
    value (handlerCtx c cid) .incomingMD = value c .outgoingMD ∧
    value (handlerCtx c cid) .peer = some .peerInproc ∧
    value (handlerCtx c cid) .clientCtx = some (.ctxRef cid) ∧
    value (handlerCtx c cid) .transportStream = some .stsNew := by
  unfold handlerCtx
  rw [makeServerContext_eq]
  have hv : value (.withCancel c 0) .outgoingMD = value c .outgoingMD := rfl
  refine ⟨?_, ?_, ?_, ?_⟩
  · unfold incomingLayer
    rw [hv]
    cases h : value c .outgoingMD with
    | none => simp [value]
    | some v => simp [value]
  · simp [value]
  · simp [value]
  · simp [value]

theorem deadline_server (c : Ctx) (cid : Nat) : deadline (makeServerContext c cid) = deadline c := by
  rw [makeServerContext_eq]
  unfold incomingLayer
  simp only [deadline]
  split <;> simp [deadline]

theorem cancelled_server (fired : List Nat) (c : Ctx) (cid : Nat) :
    cancelled fired (makeServerContext c cid) = cancelled fired c := by
  rw [makeServerContext_eq]
  unfold incomingLayer
  simp only [cancelled]
  split <;> simp [cancelled]

/-- **Deadline and cancellation pass through**: the handler's deadline is the caller's, and the
    handler's context is done exactly when the caller's is or the call's own scope was cancelled. -/
theorem C10_deadline_cancel_pass_through (c : Ctx) (cid : Nat) (fired : List Nat) :
    deadline (handlerCtx c cid) = deadline c ∧
    cancelled fired (handlerCtx c cid) = (fired.contains 0 || cancelled fired c) := by
  unfold handlerCtx
  simp only [deadline, cancelled, deadline_server, cancelled_server]
  exact ⟨trivial, trivial⟩

/-- non-vacuity: a nested call — the caller is itself a handler context with incoming metadata,
    a transport stream, a user value and outgoing metadata -/
example :
    let caller := Ctx.withValue (.withValue (.withValue (.withValue .background .incomingMD (.md 1)) .transportStream (.stsCaller 9)) (.user 5) (.user 55)) .outgoingMD (.md 2)
    value (handlerCtx caller 7) (.user 5) = none ∧ value (handlerCtx caller 7) .incomingMD = some (.md 2) ∧
    value (handlerCtx caller 7) .transportStream = some .stsNew ∧ value (handlerCtx caller 7) .outgoingMD = none := by
  decide

end CtxValues
