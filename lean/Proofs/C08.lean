/-
  C08 — single-response methods yield exactly one response or an error (in-process stream API;
  the unary call path is InprocUnary, the HTTP server's second-request probe is Framing/C07).
-/
import Proofs.C01
import Proofs.C02
import Proofs.Lemmas.InprocAll
import Proofs.Lemmas.InprocUnaryAll
import Proofs.Lemmas.HttpServerStream

namespace InprocStream

theorem translate_ne_msg (e : HErr) (m : Nat) : translate e ≠ .msg m := by
  cases e <;> simp [translate]

theorem msg_ne_translate (e : HErr) (m : Nat) : Res.msg m ≠ translate e := fun h => translate_ne_msg e m h.symm

/-- **Exactly one, and only with success**: on a single-response method (`respStream = false`) with a
    live context, a RecvMsg that returns a message `m` implies that the handler handed exactly that
    one message to SendMsg and returned nil — for every reachable state, i.e. any handler script
    and any timing of an extra message relative to the client's look-ahead. -/
theorem C08_single_response (c1 c2 : Nat) (s s' : St) (a : Act) (evs : List Ev) (m : Nat)
    (h : Reachable c1 c2 false s) (hctx : s.ctx = none)
    (hs : step s a = some (s', evs)) (hev : Ev.ret .cr (.msg m) ∈ evs) :
    s.sOffered = [m] ∧ s.hRet = some none := by
  obtain ⟨hb, _, hsv, hc, hst⟩ := all_reachable c1 c2 false s h
  have hrs : s.respStream = false := by
    have := reachable_induction c1 c2 false (fun s => s.respStream = false) rfl
      (fun s a s' evs hp hs => (caps_const s s' a evs hs).2.2 ▸ hp) s h
    exact this
  -- the only step that returns a message on a single-response method is `cClosed` in probe mode
  cases a <;> simp only [step, finishWrite] at hs <;> (repeat' split at hs) <;>
    (try (simp only [Option.some.injEq, Prod.mk.injEq, reduceCtorEq] at hs)) <;>
    (try (obtain ⟨rfl, rfl⟩ := hs)) <;> (try (exfalso; assumption)) <;>
    (try (simp_all [svrCtxErr, translate_ne_msg, msg_ne_translate]; done))
  all_goals (
    have hm := ‹s.cRecv = some (RecvMode.probe _)›
    have hcl := ‹(s.resp.isEmpty && s.respClosed) = true›
    simp [Bool.and_eq_true] at hcl
    obtain ⟨hresp, hclosed⟩ := hcl
    simp at hev
    subst hev
    have hlast : s.last = none := hb.recvLast (by simp [hm])
    obtain ⟨hw, hret⟩ := hb.closedW hclosed
    have hfr : frozen s = false := by simp [frozen, hctx, lastIsErr, hlast]
    have h1 := hc.cLive hfr
    simp [held, hlast, hm] at h1
    have hnil : s.cDelivered = [] := by
      cases hd : s.cDelivered with
      | nil => rfl
      | cons x xs =>
        have := (hc.single hrs (by simp [hd])).2.2
        simp [held, hlast, hm] at this
    have h2 := hsv.sLive hctx
    simp [pendData, pendFrames, hw, hb.respQ, hresp] at h2
    refine ⟨by rw [h2, h1, hnil]; simp, ?_⟩
    have hsome : s.hRet.isSome = true := by rw [hb.hret]; exact hret
    cases hr : s.hRet with
    | none => simp [hr] at hsome
    | some ret =>
      cases ret with
      | none => rfl
      | some e =>
        exfalso
        rcases hst.errSent hctx e hr with h3 | h3
        · rw [hb.respQ, hresp] at h3
          simp at h3
          have := hst.errSeen hctx e h3
          simp [lastIsErr, hlast] at this
        · simp [pendFrames, hw] at h3)

/-- **A second response is an error**: while the client looks ahead after the first message, a
    further data frame makes RecvMsg fail with Internal (13), whatever the timing. -/
theorem C08_second_response_is_error (s : St) (m m' : Nat) (rest : List Frame)
    (hm : s.cRecv = some (.probe m)) (hr : s.resp = .data m' :: rest) (hctx : s.ctx = none) :
    ∃ s', step s .cTake = some (s', [.ret .cr (.status 13)]) ∧ s'.cDelivered = s.cDelivered := by
  simp [step, hm, hr, hctx]

/-- **A failure after the single response is reported** (the defect fixed by 03df1bb): an error
    frame that follows the first message is the outcome, not success. -/
theorem C08_error_after_response_is_error (s : St) (m : Nat) (e : HErr) (rest : List Frame)
    (hm : s.cRecv = some (.probe m)) (hr : s.resp = .err e :: rest) (hctx : s.ctx = none) :
    ∃ s', step s .cTake = some (s', [.ret .cr (translate e)]) ∧ s'.cDelivered = s.cDelivered := by
  simp [step, hm, hr, hctx]

/-- **No response is not a message**: with nothing sent, RecvMsg on a single-response method never
    returns a message (it returns io.EOF or the handler's error). -/
theorem C08_no_response_no_message (c1 c2 : Nat) (s s' : St) (a : Act) (evs : List Ev) (m : Nat)
    (h : Reachable c1 c2 false s) (hctx : s.ctx = none) (hnone : s.sOffered = [])
    (hs : step s a = some (s', evs)) : Ev.ret .cr (.msg m) ∉ evs := by
  intro hev
  have := (C08_single_response c1 c2 s s' a evs m h hctx hs hev).1
  rw [hnone] at this
  simp at this

/-- non-vacuity: handler sends 201 and returns nil -> the client's single RecvMsg returns 201 -/
example : ∃ s s', run (init 1 1 false) [.sSendBegin 201, .sWriteEnq, .sReturn none, .sFinishEnd, .cRecvBegin, .cTake] = some s ∧
    step s .cClosed = some (s', [.ret .cr (.msg 201)]) ∧ s.sOffered = [201] ∧ s.hRet = some none := by
  exact ⟨_, _, rfl, rfl, rfl, rfl⟩

end InprocStream

/-! ### the unary call (`Channel.Invoke`) -/
namespace InprocUnary
open InprocStream (Reason HErr Res codeOf translate)

/-- **Unary: exactly one response or an error.** `Invoke` returns nil only if the handler returned
    exactly one response and no error, and the caller has been given that response. -/
theorem C08_unary_exactly_one (cap : Nat) (s : St) (h : Reachable cap s) (hr : s.result = some .ok) :
    ∃ x, s.hRet = some (some x, none) ∧ s.respCopied = some x ∧ dataCount s.enq ≤ 1 := by
  obtain ⟨_, hc, hok⟩ := all_unary cap s h
  obtain ⟨x, h1, h2, _⟩ := hok.okc hr
  exact ⟨x, h1, h2, by have := hc.cnt; omega⟩

/-- **A handler that returns neither a response nor an error** is reported as Internal. -/
theorem C08_unary_no_response_is_internal : expectedU (none, none) = .status 13 := rfl

/-- a second response frame — which the server goroutine never writes — would be Internal too -/
theorem C08_unary_second_response_is_error (s : St) (v : Nat) (rest : List UFrame)
    (hres : s.result = none) (hch : s.ch = .data v :: rest) (hgot : s.gotResponse = true) :
    ∃ s', step s .cTake = some (s', []) ∧ s'.result = some (.status 13) := by
  simp [step, hres, hch, hgot]

end InprocUnary

/-! ### HTTP/1.1 client stream -/
namespace HttpClientStream
open InprocStream (Reason Res codeOf)

/-- the recorded error is never a message -/
theorem rErr_not_msg (rs : Bool) (s : St) (h : Reachable rs s) (y : Nat) : s.rErr ≠ some (.msg y) ∧ s.rdErr ≠ some (.msg y) :=
  reachable_induction rs (fun s => s.rErr ≠ some (.msg y) ∧ s.rdErr ≠ some (.msg y)) (by simp [init])
    (fun s a s' evs hp hs => by
      obtain ⟨h1, h2⟩ := hp
      cases a <;> simp only [step, complete] at hs <;> (repeat' split at hs) <;>
        (try (simp only [Option.some.injEq, Prod.mk.injEq, reduceCtorEq] at hs)) <;>
        (try (obtain ⟨rfl, rfl⟩ := hs)) <;> (try (exfalso; assumption)) <;> simp_all [ctxStatus]
      all_goals (first | (subst_vars; simp_all; done) | grind)) s h

theorem rErr_not_ok (rs : Bool) (s : St) (h : Reachable rs s) : s.rErr ≠ some .ok :=
  (reachable_induction rs (fun s => s.rErr ≠ some .ok ∧ s.rdErr ≠ some .ok) (by simp [init])
    (fun s a s' evs hp hs => by
      obtain ⟨h1, h2⟩ := hp
      cases a <;> simp only [step, complete] at hs <;> (repeat' split at hs) <;>
        (try (simp only [Option.some.injEq, Prod.mk.injEq, reduceCtorEq] at hs)) <;>
        (try (obtain ⟨rfl, rfl⟩ := hs)) <;> (try (exfalso; assumption)) <;> simp_all [ctxStatus]
      all_goals (first | (subst_vars; simp_all; done) | grind)) s h).1

/-- **HTTP single response: a second message is an error**, whatever its timing relative to the
    client's look-ahead: once the look-ahead has received it, RecvMsg returns Internal — or, if the
    reader goroutine recorded an error of its own first, that error; never success. When it records
    Internal itself, the stream cancels its own context so that the reader cannot hang. -/
theorem C08_http_second_response_is_error (rs : Bool) (s : St) (h : Reachable rs s) (hm : s.cRecv = some .violation) :
    ∃ s' r, step s .cViolation = some (s', [.ret .cr r]) ∧ r ≠ .eof ∧ (∀ x, r ≠ .msg x) ∧ r ≠ .ok ∧
      s'.delivered = s.delivered ∧ (s.rErr = none → r = .status 13 ∧ s'.done = true ∧ s'.ctx.isSome = true) := by
  have hi := hinv_reachable rs s h
  cases hr : s.rErr with
  | some e =>
    refine ⟨{ s with cRecv := none }, e, by simp [step, hm, hr], ?_, ?_, ?_, rfl, by simp⟩
    · intro he; exact hi.rErrNotEof (he ▸ hr)
    · intro x he; exact (rErr_not_msg rs s h x).1 (he ▸ hr)
    · intro he; exact (rErr_not_ok rs s h) (he ▸ hr)
  | none =>
    refine ⟨{ s with cRecv := none, done := true, rErr := some (.status 13),
                     ctx := (match s.ctx with | some r => some r | none => some .canceled) },
            .status 13, (by simp only [step, hm, hr]; rfl), by simp, by simp, by simp, rfl, ?_⟩
    intro _
    refine ⟨rfl, rfl, ?_⟩
    cases s.ctx <;> simp

/-- **…and the single message is returned only with a clean OK end**: in the look-ahead, the closed
    channel yields the message exactly when the final outcome is io.EOF — i.e. (C02) an OK trailer
    was read; any other outcome takes precedence over the message. -/
theorem C08_http_single_response_needs_ok (rs : Bool) (s s' : St) (evs : List Ev) (m x : Nat)
    (h : Reachable rs s) (hm : s.cRecv = some (.probe m))
    (hs : step s .cRecvClosed = some (s', evs)) (hev : Ev.ret .cr (.msg x) ∈ evs) :
    x = m ∧ finalOf s = .eof ∧ s.sawTrailerOK = true := by
  have hi := hinv_reachable rs s h
  simp only [step, hm] at hs
  split at hs
  · rename_i hcl
    have hd := hi.closedDone hcl
    simp [hd] at hs
    split at hs
    · rename_i hf
      simp at hs; obtain ⟨_, rfl⟩ := hs; simp at hev
      have hfe : finalOf s = .eof := by simpa using hf
      exact ⟨hev, hfe, C02_http_eof_only_with_ok_trailer rs s h hd hfe⟩
    · rename_i hf
      simp at hs; obtain ⟨_, rfl⟩ := hs; simp at hev
      rw [← hev] at hf
      -- the outcome would have to be a message, but `finalOf` never is one
      exfalso
      have : ∀ y, finalOf s ≠ .msg y := by
        intro y
        have hne : s.rErr ≠ some (.msg y) := by
          intro hr
          exact (rErr_not_msg rs s h y).1 hr
        unfold finalOf
        cases hr : s.rErr with
        | some e => simp; intro he; subst he; exact hne hr
        | none => cases s.tr with
          | none => simp
          | some c => cases c <;> simp
      exact this x hev.symm
  · simp at hs

end HttpClientStream

namespace HttpServerStream
open InprocStream (HErr Reason Res codeOf)

/-- **Over HTTP the server rejects a second request message on single-request methods**: whatever
    the request body holds and however often the handler calls RecvMsg, it is given at most one
    message, and it is given one only if the body consists of exactly that one decodable frame. -/
theorem C08_http_server_single_request (req : List ReqItem) (acts : List Act) (s : St) (rs : List Res)
    (h : run (init false req) acts = some (s, rs)) :
    msgsOf rs = [] ∨ ∃ m, msgsOf rs = [m] ∧ req = [.data m true] := by
  obtain ⟨hi, _, _, hm⟩ := run_facts req acts (init false req) s rs (inv_init false req) h
  have hcs : s.clientStreams = false := by
    have : ∀ (acts : List Act) (s0 s : St) (rs : List Res), run s0 acts = some (s, rs) → s.clientStreams = s0.clientStreams := by
      intro acts
      induction acts with
      | nil => intro s0 s rs h; simp [run] at h; rw [h.1]
      | cons a acts ih =>
        intro s0 s rs h
        obtain ⟨s1, r, rs', hs, hr, _⟩ := run_cons h
        rw [ih s1 s rs' hr]
        unfold step at hs
        split at hs
        · cases a <;> simp [stepFinished] at hs; rw [← hs.1]
        · cases a <;> simp only [stepLive] at hs <;> (repeat' split at hs) <;> simp at hs <;> (try (rw [← hs.1]))
    simpa [init] using this acts _ s rs h
  simp only [init, List.nil_append] at hm
  rw [← hm]
  exact hi.single hcs

/-- the second frame makes the first RecvMsg fail with InvalidArgument, and later calls see io.EOF -/
theorem C08_http_server_second_request_rejected (s : St) (m : Nat) (x : ReqItem) (rest : List ReqItem)
    (hf : s.finished = false) (hcs : s.clientStreams = false) (h0 : s.recvd = 0) (hreq : s.req = .data m true :: x :: rest) :
    ∃ s', step s .recv = some (s', .status 3) ∧ step s' .recv = some (s', .eof) := by
  refine ⟨_, by simp [step, stepLive, hf, hcs, h0, hreq]; rfl, by simp [step, stepLive, hf, hcs]⟩

end HttpServerStream
