/-
  C08 — single-response methods yield exactly one response or an error (in-process stream API;
  the unary call path is InprocUnary, the HTTP server's second-request probe is Framing/C07).
-/
import Proofs.Lemmas.InprocAll
import Proofs.Lemmas.InprocUnaryAll

namespace InprocStream

theorem translate_ne_msg (e : HErr) (m : Nat) : translate e ≠ .msg m := by
  cases e <;> simp [translate]

theorem msg_ne_translate (e : HErr) (m : Nat) : Res.msg m ≠ translate e := fun h => translate_ne_msg e m h.symm

/-- **Exactly one, and only with success**: on a single-response method (`respStream = false`) with a
    live context, a RecvMsg that returns a message `m` implies that the handler handed exactly that
    one message to SendMsg and returned nil — for every reachable state, i.e. any handler script
    and any timing of an extra message relative to the client's look-ahead. -/
theorem C08_single_response (c1 c2 : Nat) (s s' : St) (a : Act) (evs : List Ev) (m : Nat)
    (h : Reachable c1 c2 false s) (hctx : s.ctx = none)
    (hs : step s a = some (s', evs)) (hev : Ev.ret .cr (.msg m) ∈ evs) :
    s.sOffered = [m] ∧ s.hRet = some none := by
  obtain ⟨hb, _, hsv, hc, hst⟩ := all_reachable c1 c2 false s h
  have hrs : s.respStream = false := by
    have := reachable_induction c1 c2 false (fun s => s.respStream = false) rfl
      (fun s a s' evs hp hs => (caps_const s s' a evs hs).2.2 ▸ hp) s h
    exact this
  -- the only step that returns a message on a single-response method is `cClosed` in probe mode
  cases a <;> simp only [step, finishWrite] at hs <;> (repeat' split at hs) <;>
    (try (simp only [Option.some.injEq, Prod.mk.injEq, reduceCtorEq] at hs)) <;>
    (try (obtain ⟨rfl, rfl⟩ := hs)) <;> (try (exfalso; assumption)) <;>
    (try (simp_all [svrCtxErr, translate_ne_msg, msg_ne_translate]; done))
  all_goals (
    have hm := ‹s.cRecv = some (RecvMode.probe _)›
    have hcl := ‹(s.resp.isEmpty && s.respClosed) = true›
    simp [Bool.and_eq_true] at hcl
    obtain ⟨hresp, hclosed⟩ := hcl
    simp at hev
    subst hev
    have hlast : s.last = none := hb.recvLast (by simp [hm])
    obtain ⟨hw, hret⟩ := hb.closedW hclosed
    have hfr : frozen s = false := by simp [frozen, hctx, lastIsErr, hlast]
    have h1 := hc.cLive hfr
    simp [held, hlast, hm] at h1
    have hnil : s.cDelivered = [] := by
      cases hd : s.cDelivered with
      | nil => rfl
      | cons x xs =>
        have := (hc.single hrs (by simp [hd])).2.2
        simp [held, hlast, hm] at this
    have h2 := hsv.sLive hctx
    simp [pendData, pendFrames, hw, hb.respQ, hresp] at h2
    refine ⟨by rw [h2, h1, hnil]; simp, ?_⟩
    have hsome : s.hRet.isSome = true := by rw [hb.hret]; exact hret
    cases hr : s.hRet with
    | none => simp [hr] at hsome
    | some ret =>
      cases ret with
      | none => rfl
      | some e =>
        exfalso
        rcases hst.errSent hctx e hr with h3 | h3
        · rw [hb.respQ, hresp] at h3
          simp at h3
          have := hst.errSeen hctx e h3
          simp [lastIsErr, hlast] at this
        · simp [pendFrames, hw] at h3)

/-- **A second response is an error**: while the client looks ahead after the first message, a
    further data frame makes RecvMsg fail with Internal (13), whatever the timing. -/
theorem C08_second_response_is_error (s : St) (m m' : Nat) (rest : List Frame)
    (hm : s.cRecv = some (.probe m)) (hr : s.resp = .data m' :: rest) (hctx : s.ctx = none) :
    ∃ s', step s .cTake = some (s', [.ret .cr (.status 13)]) ∧ s'.cDelivered = s.cDelivered := by
  simp [step, hm, hr, hctx]

/-- **A failure after the single response is reported** (the defect fixed by 03df1bb): an error
    frame that follows the first message is the outcome, not success. -/
theorem C08_error_after_response_is_error (s : St) (m : Nat) (e : HErr) (rest : List Frame)
    (hm : s.cRecv = some (.probe m)) (hr : s.resp = .err e :: rest) (hctx : s.ctx = none) :
    ∃ s', step s .cTake = some (s', [.ret .cr (translate e)]) ∧ s'.cDelivered = s.cDelivered := by
  simp [step, hm, hr, hctx]

/-- **No response is not a message**: with nothing sent, RecvMsg on a single-response method never
    returns a message (it returns io.EOF or the handler's error). -/
theorem C08_no_response_no_message (c1 c2 : Nat) (s s' : St) (a : Act) (evs : List Ev) (m : Nat)
    (h : Reachable c1 c2 false s) (hctx : s.ctx = none) (hnone : s.sOffered = [])
    (hs : step s a = some (s', evs)) : Ev.ret .cr (.msg m) ∉ evs := by
  intro hev
  have := (C08_single_response c1 c2 s s' a evs m h hctx hs hev).1
  rw [hnone] at this
  simp at this

/-- non-vacuity: handler sends 201 and returns nil -> the client's single RecvMsg returns 201 -/
example : ∃ s s', run (init 1 1 false) [.sSendBegin 201, .sWriteEnq, .sReturn none, .sFinishEnd, .cRecvBegin, .cTake] = some s ∧
    step s .cClosed = some (s', [.ret .cr (.msg 201)]) ∧ s.sOffered = [201] ∧ s.hRet = some none := by
  exact ⟨_, _, rfl, rfl, rfl, rfl⟩

end InprocStream

/-! ### the unary call (`Channel.Invoke`) -/
namespace InprocUnary
open InprocStream (Reason HErr Res codeOf translate)

/-- **Unary: exactly one response or an error.** `Invoke` returns nil only if the handler returned
    exactly one response and no error, and the caller has been given that response. -/
theorem C08_unary_exactly_one (cap : Nat) (s : St) (h : Reachable cap s) (hr : s.result = some .ok) :
    ∃ x, s.hRet = some (some x, none) ∧ s.respCopied = some x ∧ dataCount s.enq ≤ 1 := by
  obtain ⟨_, hc, hok⟩ := all_unary cap s h
  obtain ⟨x, h1, h2, _⟩ := hok.okc hr
  exact ⟨x, h1, h2, by have := hc.cnt; omega⟩

/-- **A handler that returns neither a response nor an error** is reported as Internal. -/
theorem C08_unary_no_response_is_internal : expectedU (none, none) = .status 13 := rfl

/-- a second response frame — which the server goroutine never writes — would be Internal too -/
theorem C08_unary_second_response_is_error (s : St) (v : Nat) (rest : List UFrame)
    (hres : s.result = none) (hch : s.ch = .data v :: rest) (hgot : s.gotResponse = true) :
    ∃ s', step s .cTake = some (s', []) ∧ s'.result = some (.status 13) := by
  simp [step, hres, hch, hgot]

end InprocUnary
