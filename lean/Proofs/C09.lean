/-
  C09 — deadlines cross the HTTP transport without being extended or spuriously expired.
  Property theorems only. Facts (`Gen.unitTable`, divisor, floor rule, suffix,
  ParseInt bit size, saturation) are regenerated from /repo on every run.
-/
import Proofs.Lemmas.Codes
import Model.Timeout

namespace Timeout
open Prim Codes

/-- The unit table is the gRPC wire format's: H, M, S, m, u, n with their nanosecond values;
    any other suffix byte selects no unit. -/
theorem C09_units :
    unitOf 72 = 3600000000000 ∧ unitOf 77 = 60000000000 ∧ unitOf 83 = 1000000000 ∧
    unitOf 109 = 1000000 ∧ unitOf 117 = 1000 ∧ unitOf 110 = 1 ∧
    (∀ b : UInt8, b ∉ [72, 77, 83, 109, 117, 110] → unitOf b = 0) := by
  refine ⟨by decide, by decide, by decide, by decide, by decide, by decide, ?_⟩
  have key : ∀ k ∈ List.range 256,
      (UInt8.ofNat k ∈ [72, 77, 83, 109, 117, 110] ∨ unitOf (UInt8.ofNat k) = 0) := by decide +kernel
  intro b hb
  have := key b.toNat (by simp; exact b.toNat_lt)
  rw [UInt8.ofNat_toNat] at this
  rcases this with h | h
  · exact absurd h hb
  · exact h

/-- Why the saturation matters: the legal 8-digit value `99999999H` overflows int64. -/
theorem C09_wraps_without_saturation : wrap64 (99999999 * 3600000000000) < 0 := by decide

private theorem dropLast_append_singleton (ds : Bytes) (u : UInt8) : (ds ++ [u]).dropLast = ds := by
  simp

private theorem byteAt_last (ds : Bytes) (u : UInt8) :
    byteAt (ds ++ [u]) (((ds ++ [u]).length : Int) - 1) = some u := by
  unfold byteAt
  have hlen : (ds ++ [u]).length = ds.length + 1 := by simp
  rw [hlen]
  have : (0 : Int) ≤ ((ds.length + 1 : Nat) : Int) - 1 ∧ ((ds.length + 1 : Nat) : Int) - 1 < ((ds.length + 1 : Nat) : Int) := by omega
  rw [if_pos this]
  have : (((ds.length + 1 : Nat) : Int) - 1).toNat = ds.length := by omega
  rw [this]
  simp

/-- **Valid values.** For every digit string `ds` (any length, leading zeros allowed) and every
    unit byte `u` of the table, with `v` the value of `ds` and `n` the unit's nanoseconds:
    * if `v·n` fits in int64 the handler gets exactly `v·n`;
    * otherwise it gets the furthest representable deadline (`MaxInt64`) or — when `v` itself
      exceeds int64 — no deadline at all; never a smaller or negative one. -/
theorem C09_parse_valid (ds : Bytes) (hd : allDigits ds = true) (u : UInt8) (hu : unitOf u ≠ 0) :
    ((digitsVal ds : Int) * (unitOf u : Int) ≤ maxInt64 →
        parseTimeout (ds ++ [u]) = .deadline ((digitsVal ds : Int) * (unitOf u : Int))) ∧
    ((digitsVal ds : Int) * (unitOf u : Int) > maxInt64 →
        parseTimeout (ds ++ [u]) = .deadline maxInt64 ∨ parseTimeout (ds ++ [u]) = .noDeadline) := by
  generalize hv : (digitsVal ds : Int) = v
  generalize hn : (unitOf u : Int) = n
  have hsat : Gen.timeoutSaturates = true := by decide
  have hbits : Gen.timeoutParseBits = 64 := by decide
  have hnpos : (0 : Int) < n := by
    have : 0 < unitOf u := Nat.pos_of_ne_zero hu
    omega
  have hvnn : (0 : Int) ≤ v := by omega
  have hne : (ds ++ [u]).isEmpty = false := by simp
  have hpt : parseTimeout (ds ++ [u]) = parseBody (ds ++ [u]) u := by
    unfold parseTimeout
    rw [hne, byteAt_last]; rfl
  have hpi : parseInt Gen.timeoutParseBits (ds ++ [u]).dropLast =
      if v < 9223372036854775808 then some v else none := by
    rw [dropLast_append_singleton, parseInt_digits ds hd, hbits, limOf_64, hv]
  have hmul : mulDur v (unitOf u) = if v ≤ maxInt64 / n then wrap64 (v * n) else maxInt64 := by
    simp only [mulDur, hsat, hn, if_true]
  have hiff : v ≤ maxInt64 / n ↔ v * n ≤ maxInt64 := Int.le_ediv_iff_mul_le hnpos
  have hvle : v ≤ v * n := by
    have := Int.mul_le_mul_of_nonneg_left (show (1:Int) ≤ n by omega) hvnn
    simpa using this
  rw [hpt]
  unfold parseBody
  rw [hpi]
  constructor
  · intro hfit
    have hvlt : v < 9223372036854775808 := by unfold maxInt64 at hfit; omega
    rw [if_pos hvlt]
    simp only [applyUnit, if_neg hu]
    rw [hmul, if_pos (hiff.mpr hfit)]
    have hp0 : 0 ≤ v * n := Int.mul_nonneg hvnn (by omega)
    have : wrap64 (v * n) = v * n := by
      unfold wrap64 two63 two64; unfold maxInt64 at hfit; omega
    rw [this]
  · intro hbig
    by_cases hvlt : v < 9223372036854775808
    · rw [if_pos hvlt]
      simp only [applyUnit, if_neg hu]
      rw [hmul, if_neg (fun h => absurd (hiff.mp h) (by omega))]
      left; rfl
    · rw [if_neg hvlt]; right; rfl

/-- **No crash**: for every header string whatsoever the parser returns without a panic
    (the `timeout[len(timeout)-1]` index is in range whenever the string is non-empty). -/
theorem C09_parse_total (s : Bytes) : parseTimeout s ≠ .panic := by
  unfold parseTimeout
  cases hs : s.isEmpty with
  | true => simp
  | false =>
    simp only [Bool.false_eq_true, ↓reduceIte]
    have hlen : 0 < s.length := by
      cases s with
      | nil => simp at hs
      | cons a t => simp
    have hin : (0 : Int) ≤ (s.length : Int) - 1 ∧ (s.length : Int) - 1 < (s.length : Int) := by omega
    unfold byteAt
    rw [if_pos hin]
    have hidx : ((s.length : Int) - 1).toNat < s.length := by omega
    rw [List.getElem?_eq_getElem hidx]
    simp only
    unfold parseBody applyUnit
    split
    · simp
    · split <;> simp

/-- A missing or empty header never produces a deadline. -/
theorem C09_no_header_no_deadline : parseTimeout [] = .noDeadline := by decide

/-- **No caller deadline ⇒ no header.** -/
theorem C09_no_deadline_none : clientHeaderOpt none = none := rfl

/-- **Client encoding.** For every remaining duration `d` (ns) the header is the decimal
    rendering of `max 1 (d / 10⁶)` followed by `m`, and the encoded duration `e` satisfies
    `d − 1ms < e ≤ d` when `d ≥ 1ms` (never later than the caller's, never earlier by more than the
    granularity) and is exactly the 1 ms floor otherwise. -/
theorem C09_client_encoding (d : Int) :
    clientHeader d = intToDec (clientMillis d) ++ [109] ∧
    1 ≤ clientMillis d ∧
    (1000000 ≤ d → d - 1000000 < clientMillis d * 1000000 ∧ clientMillis d * 1000000 ≤ d) ∧
    (d < 1000000 → clientMillis d = 1) := by
  have hdiv : Gen.clientDivisor = 1000000 := by decide
  have hcmp : (Gen.clientFloorCmp == "<=0") = true := by decide
  have hmin : Gen.clientMinimum = 1 := by decide
  have hsuf : clientSuffix = [109] := by
    decide +kernel
  have hm : clientMillis d = if Int.tdiv d 1000000 ≤ 0 then 1 else Int.tdiv d 1000000 := by
    unfold clientMillis; rw [hcmp, hdiv, hmin]; rfl
  refine ⟨by unfold clientHeader; rw [hsuf], ?_, ?_, ?_⟩
  · rw [hm]; split <;> omega
  · intro hd
    have h0 : 0 ≤ d := by omega
    have ht : Int.tdiv d 1000000 = d / 1000000 := Int.tdiv_eq_ediv_of_nonneg h0
    rw [hm, ht]
    have : ¬ d / 1000000 ≤ 0 := by omega
    rw [if_neg this]; omega
  · intro hd
    rw [hm]
    by_cases h0 : 0 ≤ d
    · have ht : Int.tdiv d 1000000 = d / 1000000 := Int.tdiv_eq_ediv_of_nonneg h0
      rw [ht]
      have : d / 1000000 ≤ 0 := by omega
      rw [if_pos this]
    · have : Int.tdiv d 1000000 ≤ 0 := by
        have h2 : Int.tdiv d 1000000 = -(Int.tdiv (-d) 1000000) := by
          rw [Int.neg_tdiv, Int.neg_neg]
        have h3 : 0 ≤ Int.tdiv (-d) 1000000 := Int.tdiv_nonneg (by omega) (by omega)
        omega
      rw [if_pos this]

/-- **Client → server round trip**: what the server decodes from the client's own header is
    exactly `clientMillis d` milliseconds, for every remaining duration representable in int64. -/
theorem C09_client_server_roundtrip (d : Int) (hd : d ≤ maxInt64) :
    parseTimeout (clientHeader d) = .deadline (clientMillis d * 1000000) := by
  obtain ⟨hh, h1, hge, hlt⟩ := C09_client_encoding d
  rw [hh]
  have hpos : 0 ≤ clientMillis d := by omega
  have hdec : intToDec (clientMillis d) = natToDec (clientMillis d).natAbs := by
    unfold intToDec; rw [if_neg (by omega)]
  rw [hdec]
  have hu : unitOf 109 ≠ 0 := by decide
  have hn : ((unitOf 109 : Nat) : Int) = 1000000 := by decide
  have key := C09_parse_valid (natToDec (clientMillis d).natAbs) (natToDec_allDigits _) 109 hu
  rw [digitsVal_natToDec] at key
  have hv : (((clientMillis d).natAbs : Nat) : Int) = clientMillis d := by omega
  rw [hv, hn] at key
  apply key.1
  unfold maxInt64 at *
  by_cases hc : 1000000 ≤ d
  · have := (hge hc).2; omega
  · have := hlt (by omega); rw [this]; omega

/-- non-vacuity -/
example : parseTimeout (natToDec 15 ++ [83]) = .deadline (15 * 1000000000) := by
  have h := (C09_parse_valid (natToDec 15) (natToDec_allDigits _) 83 (by decide)).1
  rw [digitsVal_natToDec] at h
  exact h (by decide)

/-- **The header applies whatever the request context already carries**: for every header value that
    decodes to a duration `d`, and every deadline (or none) already on the request's context, the
    handler's deadline exists, is never later than `now + d` (so never later than the caller's by more
    than transit and granularity), never later than the server's own bound, and *is* `now + d` when the
    server's bound is absent or later. The guard and the extended context are regenerated facts. -/
theorem C09_deadline_under_bounded_parent (parent : Option Int) (now : Int) (s : Bytes) (d : Int)
    (hp : parseTimeout s = .deadline d) :
    ∃ x, handlerDeadline parent now s = some x ∧ x ≤ now + d ∧
      (∀ p, parent = some p → x ≤ p) ∧
      ((parent = none ∨ ∃ p, parent = some p ∧ now + d ≤ p) → x = now + d) := by
  have hsite : applySiteAsModelled = true := by decide
  unfold handlerDeadline
  rw [hp]
  simp only [hsite, if_true]
  refine ⟨_, rfl, ?_, ?_, ?_⟩
  · unfold withTimeout; cases parent with
    | none => simp
    | some p => simp only; omega
  · intro p hp'; subst hp'; unfold withTimeout; simp only; omega
  · intro h
    rcases h with h | ⟨p, h, hle⟩
    · subst h; rfl
    · subst h; unfold withTimeout; simp only; omega

/-- without a (valid) header the handler keeps exactly the request context's deadline: the transport adds none -/
theorem C09_no_header_keeps_parent (parent : Option Int) (now : Int) :
    handlerDeadline parent now [] = parent := by
  unfold handlerDeadline; rw [C09_no_header_no_deadline]

/-- non-vacuity: "5S" under a server-wide bound one hour away gives the caller's five seconds -/
example : handlerDeadline (some 3600000000000) 0 (natToDec 5 ++ [83]) = some 5000000000 := by
  have h := (C09_parse_valid (natToDec 5) (natToDec_allDigits _) 83 (by decide)).1
  rw [digitsVal_natToDec] at h
  have hp := h (by decide)
  obtain ⟨x, hx, _, _, heq⟩ := C09_deadline_under_bounded_parent (some 3600000000000) 0 _ _ hp
  rw [hx, heq (Or.inr ⟨_, rfl, by decide⟩)]
  decide

end Timeout
