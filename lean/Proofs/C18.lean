/-
  C18 — every cloner adapter produces equal, deep and independent copies.
  The adapters' logic is proved under the stated behaviour of the protobuf primitives
  (Model/Cloner.lean, "assumed"); those assumptions are validated against the real libraries by the
  correspondence run, which is where the deviations for dynamic messages and the codec adapter's
  missing type check are found (recorded in known_findings.json).
-/
import Model.Cloner

namespace Cloner

/-- **Copy: equal, fresh, replacing.** For every adapter, whenever `Copy(out, in)` succeeds the
    destination's content is exactly the source's — whatever it held before — and all memory
    reachable from it was allocated by this call (so none is shared with the source or with
    anything that existed before). -/
theorem C18_copy_equal_fresh_replaced (a : Adapter) (n : Nat) (out inn out' : Msg) (n' : Nat)
    (h : a.copy n out inn = .ok (out', n')) :
    out'.val = inn.val ∧ (∀ id ∈ out'.mem, n ≤ id ∧ id < n') ∧ out'.typ = out.typ := by
  cases a
  · -- proto
    simp only [Adapter.copy, protoCopy] at h
    split at h
    · simp only [copyMessage] at h
      split at h; · simp at h
      split at h; · simp at h
      split at h; · simp at h
      simp only [R.ok.injEq, Prod.mk.injEq] at h
      obtain ⟨rfl, rfl⟩ := h
      simp
    · simp only [codecCopy, marshal] at h
      split at h; · simp at h
      rename_i b hb
      split at hb <;> simp at hb
      simp only [unmarshal] at h
      split at h; · simp at h
      split at h; · simp at h
      split at h; · simp at h
      simp only [R.ok.injEq, Prod.mk.injEq] at h
      obtain ⟨rfl, rfl⟩ := h
      simp [hb]
  · -- codec
    simp only [Adapter.copy, codecCopy, marshal] at h
    split at h; · simp at h
    rename_i b hb
    split at hb <;> simp at hb
    simp only [unmarshal] at h
    split at h; · simp at h
    split at h; · simp at h
    split at h; · simp at h
    simp only [R.ok.injEq, Prod.mk.injEq] at h
    obtain ⟨rfl, rfl⟩ := h
    simp [hb]
  · -- clone-func
    simp only [Adapter.copy, cloneFuncCopy, cloneMessage] at h
    split at h
    · rename_i c nn hc
      split at hc; · simp at hc
      simp only [pClone, R.ok.injEq, Prod.mk.injEq] at hc
      obtain ⟨rfl, rfl⟩ := hc
      split at h; · simp at h
      simp only [R.ok.injEq, Prod.mk.injEq] at h
      obtain ⟨rfl, rfl⟩ := h
      simp
    · simp at h
    · simp at h
  · -- copy-func
    simp only [Adapter.copy, copyMessage] at h
    split at h; · simp at h
    split at h; · simp at h
    split at h; · simp at h
    simp only [R.ok.injEq, Prod.mk.injEq] at h
    obtain ⟨rfl, rfl⟩ := h
    simp

/-- **Clone: equal and fresh**, same statement for `Clone`. -/
theorem C18_clone_equal_fresh (a : Adapter) (n : Nat) (inn c : Msg) (n' : Nat)
    (h : a.clone n inn = .ok (c, n')) :
    c.val = inn.val ∧ c.typ = inn.typ ∧ (∀ id ∈ c.mem, n ≤ id ∧ id < n') := by
  cases a
  · simp only [Adapter.clone, protoClone] at h
    split at h
    · simp only [cloneMessage] at h
      split at h; · simp at h
      simp only [pClone, R.ok.injEq, Prod.mk.injEq] at h
      obtain ⟨rfl, rfl⟩ := h; simp
    · rename_i hp
      simp only [codecClone, copyFuncClone, codecCopy, marshal] at h
      simp [hp] at h
  · simp only [Adapter.clone, codecClone, copyFuncClone, codecCopy, marshal] at h
    split at h; · simp at h
    rename_i b hb
    split at hb <;> simp at hb
    rename_i hp
    have hp' : isProto inn = true := hp
    cases hd : inn.dyn
    · simp [unmarshal, reflectNew, isProto, hd] at h
      have ht : inn.typ ≠ 0 := by simpa [isProto] using hp'
      simp [ht] at h
      obtain ⟨rfl, rfl⟩ := h
      simp [hb]
    · simp [unmarshal, reflectNew, isProto, hd] at h
      have ht : inn.typ ≠ 0 := by simpa [isProto] using hp'
      simp [ht] at h
  · simp only [Adapter.clone, cloneMessage] at h
    split at h; · simp at h
    simp only [pClone, R.ok.injEq, Prod.mk.injEq] at h
    obtain ⟨rfl, rfl⟩ := h; simp
  · simp only [Adapter.clone, copyFuncClone, copyMessage, reflectNew] at h
    by_cases ht : inn.typ = 0
    · simp [isProto, ht] at h
    · cases hd : inn.dyn
      · simp [isProto, ht, hd] at h
        obtain ⟨rfl, rfl⟩ := h; simp
      · simp [isProto, ht, hd] at h

/-- Hence no memory is shared with the source (or anything allocated earlier). -/
theorem C18_copy_fresh (a : Adapter) (n : Nat) (out inn out' : Msg) (n' : Nat)
    (h : a.copy n out inn = .ok (out', n')) (hin : ∀ id ∈ inn.mem, id < n) :
    ∀ id ∈ out'.mem, id ∉ inn.mem := by
  intro id hid hmem
  have := (C18_copy_equal_fresh_replaced a n out inn out' n' h).2.1 id hid
  have := hin id hmem
  omega

/-- **A pointer to something that is not a protobuf message is refused** by every adapter,
    as source of `Copy`, as source of `Clone`, with an error (not a shallow copy, not a panic). -/
theorem C18_refuses_non_proto (a : Adapter) (n : Nat) (out inn : Msg) (h : inn.typ = 0) (hu : inn.dyn = false) :
    (∃ x, a.copy n out inn = x ∧ (x matches .error)) ∧ (∃ x, a.clone n inn = x ∧ (x matches .error)) := by
  have hp : isProto inn = false := by simp [isProto, h]
  cases a <;>
    simp [Adapter.copy, Adapter.clone, protoCopy, protoClone, codecCopy, codecClone, copyFuncClone, cloneFuncCopy,
      cloneMessage, copyMessage, marshal, reflectNew, isProto, h, hu]

/-- **A destination of a different message type is refused** by the protobuf default, the
    clone-function and the copy-function adapters. -/
theorem C18_refuses_type_mismatch (a : Adapter) (ha : a ≠ .codec) (n : Nat) (out inn : Msg)
    (hi : inn.typ ≠ 0) (ho : out.typ ≠ 0) (hne : out.typ ≠ inn.typ) (hu : out.usable = true) :
    ∃ x, a.copy n out inn = x ∧ (x matches .error) := by
  have hne' : inn.typ ≠ out.typ := fun e => hne e.symm
  cases a
  · simp [Adapter.copy, protoCopy, copyMessage, isProto, hi, ho, hne, hu]
  · exact absurd rfl ha
  · simp [Adapter.copy, cloneFuncCopy, cloneMessage, pClone, isProto, hi, hne']
  · simp [Adapter.copy, copyMessage, isProto, hi, ho, hne, hu]

/-- …but **not** by the codec adapter: copying through the wire format cannot see the type.
    (The full statement "every adapter refuses a mismatched destination" is false; this is its
    counterexample, replayed on the implementation as a known finding.) -/
theorem C18_codec_accepts_type_mismatch :
    ∃ out inn n r, out.typ ≠ inn.typ ∧ out.typ ≠ 0 ∧ inn.typ ≠ 0 ∧ Adapter.codec.copy n out inn = .ok r := by
  refine ⟨⟨3, false, 9, [], true, true⟩, ⟨1, false, 5, [], true, true⟩, 0, (⟨3, false, 5, [0], true, true⟩, 1), by decide, by decide, by decide, rfl⟩

/-- **Generated and dynamic representations interoperate** through the protobuf default, the codec
    and the copy-function adapters: same message type, either representation on either side. -/
theorem C18_generated_dynamic_interop (a : Adapter) (ha : a ≠ .cloneFunc) (n : Nat) (out inn : Msg)
    (hi : inn.typ ≠ 0) (ht : out.typ = inn.typ) (hu : out.usable = true) (hw : out.acceptsWire = true) :
    ∃ r, a.copy n out inn = .ok r := by
  have ho : out.typ ≠ 0 := ht ▸ hi
  cases a
  · simp [Adapter.copy, protoCopy, copyMessage, isProto, hi, ho, ht, hu]
  · simp [Adapter.copy, codecCopy, marshal, unmarshal, isProto, hi, ho, hu, hw]
  · exact absurd rfl ha
  · simp [Adapter.copy, copyMessage, isProto, hi, ho, ht, hu]

/-- …but the clone-function adapter's reflective shallow copy needs identical Go types
    (counterexample to full interoperability; known finding). -/
theorem C18_clonefunc_refuses_other_representation :
    ∃ out inn n, out.typ = inn.typ ∧ (Adapter.cloneFunc.copy n out inn matches .error) := by
  exact ⟨⟨1, true, 0, [], true, true⟩, ⟨1, false, 5, [], true, true⟩, 0, rfl, by decide⟩

/-- A clone of a dynamic message through `reflect.New` (codec and copy-function adapters) hits a
    zero `dynamic.Message` without descriptor: the model's outcome is a panic (known finding). -/
theorem C18_reflect_new_dynamic_panics (n : Nat) (inn : Msg) (hi : inn.typ ≠ 0) (hd : inn.dyn = true) :
    (Adapter.codec.clone n inn matches .panic) ∧ (Adapter.copyFunc.clone n inn matches .panic) := by
  simp [Adapter.clone, codecClone, copyFuncClone, codecCopy, copyMessage, marshal, unmarshal, reflectNew, isProto, hi, hd]

end Cloner
