package main

import (
	"fmt"
	"go/ast"
	"go/token"
	"go/types"
	"sort"
	"strings"

	"golang.org/x/tools/go/packages"
)

// ---------------------------------------------------------------------------
// io.go / client.go / server.go / protocol_versions.go

func pkgConst(pk *packages.Package, name string) (ast.Expr, bool) {
	for _, f := range pk.Syntax {
		for _, d := range f.Decls {
			gd, ok := d.(*ast.GenDecl)
			if !ok || (gd.Tok != token.CONST && gd.Tok != token.VAR) {
				continue
			}
			for _, s := range gd.Specs {
				vs := s.(*ast.ValueSpec)
				for i, n := range vs.Names {
					if n.Name == name && i < len(vs.Values) {
						return vs.Values[i], true
					}
				}
			}
		}
	}
	return nil, false
}

// base64Uses lists, in source order, "<Encoding>.<Method>" for every call on a
// base64.* encoding value inside fd.
func base64Uses(fd *ast.FuncDecl) []string {
	var res []string
	ast.Inspect(fd, func(n ast.Node) bool {
		call, ok := n.(*ast.CallExpr)
		if !ok {
			return true
		}
		sel, ok := call.Fun.(*ast.SelectorExpr)
		if !ok {
			return true
		}
		inner, ok := sel.X.(*ast.SelectorExpr)
		if !ok {
			return true
		}
		if id, ok := inner.X.(*ast.Ident); ok && id.Name == "base64" {
			res = append(res, inner.Sel.Name+"."+sel.Sel.Name)
		}
		return true
	})
	return res
}

// allocGuarded reports, for every `make([]byte, v)` in fd with non-constant v,
// whether an earlier `if` in the same function compares v (`v > K` or
// `v >= K`) against a constant and leaves the function (return) — and K.
func allocGuarded(pk *packages.Package, fd *ast.FuncDecl) (sites int, guarded int, limit int64) {
	type guard struct {
		name string
		k    int64
		pos  token.Pos
	}
	var guards []guard
	ast.Inspect(fd, func(n ast.Node) bool {
		ifs, ok := n.(*ast.IfStmt)
		if !ok {
			return true
		}
		// body must end with a return
		if len(ifs.Body.List) == 0 {
			return true
		}
		if _, ok := ifs.Body.List[len(ifs.Body.List)-1].(*ast.ReturnStmt); !ok {
			return true
		}
		ast.Inspect(ifs.Cond, func(m ast.Node) bool {
			be, ok := m.(*ast.BinaryExpr)
			if !ok || (be.Op != token.GTR && be.Op != token.GEQ) {
				return true
			}
			id, ok := be.X.(*ast.Ident)
			if !ok {
				return true
			}
			if k, ok := constInt(pk, be.Y); ok {
				if be.Op == token.GEQ {
					k--
				}
				guards = append(guards, guard{id.Name, k, ifs.Pos()})
			}
			return true
		})
		return true
	})
	ast.Inspect(fd, func(n ast.Node) bool {
		call, ok := n.(*ast.CallExpr)
		if !ok {
			return true
		}
		if id, ok := call.Fun.(*ast.Ident); !ok || id.Name != "make" || len(call.Args) != 2 {
			return true
		}
		if _, isConst := constInt(pk, call.Args[1]); isConst {
			return true
		}
		szID, ok := call.Args[1].(*ast.Ident)
		if !ok {
			sites++
			return true
		}
		sites++
		for _, g := range guards {
			if g.name == szID.Name && g.pos < call.Pos() {
				guarded++
				if g.k > limit {
					limit = g.k
				}
				break
			}
		}
		return true
	})
	return
}

func stringLits(pk *packages.Package, fd *ast.FuncDecl) []string {
	var res []string
	ast.Inspect(fd, func(n ast.Node) bool {
		switch e := n.(type) {
		case *ast.BasicLit:
			if e.Kind == token.STRING {
				if s, ok := constStr(pk, e); ok {
					res = append(res, s)
				}
			}
		case *ast.Ident:
			if s, ok := constStr(pk, e); ok {
				res = append(res, s)
			}
		}
		return true
	})
	return res
}

func pick(lits []string, pred func(string) bool) (string, bool) {
	for _, s := range lits {
		if pred(s) {
			return s, true
		}
	}
	return "", false
}

func extractWire(p *pkgs, out string) {
	l := newLean("Wire.lean", "httpgrpc wire constants: size limit, content types, header names, reserved headers, base64 variants, guarded allocation sites")
	pk := p.byPath[mod+"/httpgrpc"]
	if pk == nil {
		fail("httpgrpc", "package", "not loaded")
		must(l.finish(out))
		return
	}
	if e, ok := pkgConst(pk, "maxMessageSize"); ok {
		if v, ok := constInt(pk, e); ok {
			l.printf("def maxMessageSize : Nat := %d\n", v)
		} else {
			fail("httpgrpc/io.go", "maxMessageSize", "not an integer constant")
		}
	} else {
		fail("httpgrpc/io.go", "maxMessageSize", "constant not found")
	}
	for _, c := range []struct{ goName, leanName string }{
		{"UnaryRpcContentType_V1", "unaryContentType"},
		{"StreamRpcContentType_V1", "streamContentType"},
		{"ApplicationJson", "jsonContentType"},
	} {
		if e, ok := pkgConst(pk, c.goName); ok {
			if s, ok := constStr(pk, e); ok {
				l.printf("def %s : String := %s\n", c.leanName, leanStr(s))
				continue
			}
		}
		fail("httpgrpc/protocol_versions.go", c.goName, "string constant not found")
	}
	// which media types each codec chooser accepts: every `mediaType == X` whose if-body returns a non-nil value
	for _, fn := range []struct{ goName, leanName string }{{"getUnaryCodec", "unaryAccepts"}, {"getStreamingCodec", "streamAccepts"}} {
		_, fd := p.funcDecl(mod+"/httpgrpc", fn.goName)
		if fd == nil {
			fail("httpgrpc/protocol_versions.go", fn.goName, "function not found")
			continue
		}
		var acc []string
		okShape := true
		for _, st := range fd.Body.List {
			ifs, ok := st.(*ast.IfStmt)
			if !ok {
				continue
			}
			be, ok := ifs.Cond.(*ast.BinaryExpr)
			if !ok || be.Op != token.EQL {
				okShape = false
				continue
			}
			s, ok := constStr(pk, be.Y)
			if !ok {
				okShape = false
				continue
			}
			// returns nil?
			retNil := true
			for _, b := range ifs.Body.List {
				if rs, ok := b.(*ast.ReturnStmt); ok && len(rs.Results) == 1 {
					if id, ok := rs.Results[0].(*ast.Ident); !ok || id.Name != "nil" {
						retNil = false
					}
				}
			}
			if !retNil {
				acc = append(acc, s)
			}
		}
		if !okShape {
			fail("httpgrpc/protocol_versions.go", fn.goName, "unexpected statement shape")
			continue
		}
		l.printf("def %s : List String := [", fn.leanName)
		for i, s := range acc {
			if i > 0 {
				l.printf(", ")
			}
			l.printf("%s", leanStr(s))
		}
		l.printf("]\n")
	}

	// reserved headers
	if e, ok := pkgConst(pk, "reservedHeaders"); ok {
		if cl, ok := e.(*ast.CompositeLit); ok {
			var keys []string
			for _, el := range cl.Elts {
				if kv, ok := el.(*ast.KeyValueExpr); ok {
					if s, ok := constStr(pk, kv.Key); ok {
						keys = append(keys, s)
					}
				}
			}
			sort.Strings(keys)
			l.printf("def reservedHeaders : List String := [")
			for i, s := range keys {
				if i > 0 {
					l.printf(", ")
				}
				l.printf("%s", leanStr(s))
			}
			l.printf("]\n")
		} else {
			fail("httpgrpc/io.go", "reservedHeaders", "not a composite literal")
		}
	} else {
		fail("httpgrpc/io.go", "reservedHeaders", "not found")
	}

	// base64 variant per site
	for _, site := range []struct{ fn, leanName, file string }{
		{"toHeaders", "b64ToHeaders", "httpgrpc/io.go"},
		{"asMetadata", "b64AsMetadata", "httpgrpc/io.go"},
		{"handleMethod", "b64DetailsEncode", "httpgrpc/server.go"},
		{"statFromResponse", "b64DetailsDecode", "httpgrpc/client.go"},
	} {
		_, fd := p.funcDecl(mod+"/httpgrpc", site.fn)
		if fd == nil {
			fail(site.file, site.leanName, "function %s not found", site.fn)
			continue
		}
		uses := base64Uses(fd)
		if len(uses) != 1 {
			fail(site.file, site.leanName, "expected exactly one base64 call in %s, found %v", site.fn, uses)
			continue
		}
		l.printf("def %s : String := %s\n", site.leanName, leanStr(uses[0]))
	}

	// allocation sites
	l.printf("/-- (function, number of `make([]byte, n)` sites with non-constant n, how many are preceded by a `n > K → return` guard, largest K) -/\n")
	l.printf("def allocSites : List (String × Nat × Nat × Nat) := [")
	first := true
	for _, site := range []struct {
		recv, fn string
	}{{"", "readProtoMessage"}, {"clientStream", "doHttpCall"}, {"serverStream", "RecvMsg"}} {
		var fd *ast.FuncDecl
		if site.recv == "" {
			_, fd = p.funcDecl(mod+"/httpgrpc", site.fn)
		} else {
			_, fd = p.methodDecl(mod+"/httpgrpc", site.recv, site.fn)
		}
		if fd == nil {
			fail("httpgrpc", "allocSites", "function %s not found", site.fn)
			continue
		}
		s, g, k := allocGuarded(pk, fd)
		if !first {
			l.printf(", ")
		}
		first = false
		l.printf("(%s, %d, %d, %d)", leanStr(site.fn), s, g, k)
	}
	l.printf("]\n")

	// header names
	type hn struct{ fn, recv, leanName, needle string }
	for _, h := range []hn{
		{"handleMethod", "", "statusHeaderServer", "x-grpc-status"},
		{"statFromResponse", "", "statusHeaderClient", "x-grpc-status"},
		{"handleMethod", "", "trailerPrefixServer", "x-grpc-trailer-"},
		{"setMetadata", "", "trailerPrefixClient", "x-grpc-trailer-"},
		{"contextFromHeaders", "", "timeoutHeaderServer", "grpc-timeout"},
		{"headersFromContext", "", "timeoutHeaderClient", "grpc-timeout"},
	} {
		_, fd := p.funcDecl(mod+"/httpgrpc", h.fn)
		if fd == nil {
			fail("httpgrpc", h.leanName, "function %s not found", h.fn)
			continue
		}
		needle := h.needle
		s, ok := pick(stringLits(pk, fd), func(s string) bool { return strings.ToLower(s) == needle })
		if !ok {
			fail("httpgrpc", h.leanName, "no string literal equal (case-insensitively) to %q in %s", needle, h.fn)
			continue
		}
		l.printf("def %s : String := %s\n", h.leanName, leanStr(s))
	}
	if e, ok := pkgConst(pk, "grpcDetailsHeader"); ok {
		if call, ok := e.(*ast.CallExpr); ok && len(call.Args) == 1 {
			if s, ok := constStr(pk, call.Args[0]); ok {
				l.printf("def detailsHeader : String := %s\n", leanStr(s))
			}
		}
	}

	// capacity of clientStream.rCh
	_, fd := p.funcDecl(mod+"/httpgrpc", "newClientStream")
	if fd == nil {
		fail("httpgrpc/client.go", "rChCap", "newClientStream not found")
	} else {
		caps := chanCaps(pk, fd)
		if c, ok := caps["rCh"]; ok {
			l.printf("def rChCap : Nat := %d\n", c)
		} else {
			fail("httpgrpc/client.go", "rChCap", "no `rCh: make(chan …)` in newClientStream")
		}
	}
	// the tests made on a frame's size preface: client (doHttpCall: trailer frame, limit) and decoder (readProtoMessage)
	for _, fn := range []struct{ recv, goName, lean, file string }{{"clientStream", "doHttpCall", "clientSizeTests", "httpgrpc/client.go"}, {"", "readProtoMessage", "decoderSizeTests", "httpgrpc/io.go"}} {
		var fd *ast.FuncDecl
		if fn.recv != "" {
			_, fd = p.methodDecl(mod+"/httpgrpc", fn.recv, fn.goName)
		} else {
			_, fd = p.funcDecl(mod+"/httpgrpc", fn.goName)
		}
		if fd == nil {
			fail(fn.file, fn.lean, "%s not found", fn.goName)
			continue
		}
		var tests []string
		ast.Inspect(fd, func(n ast.Node) bool {
			is, ok := n.(*ast.IfStmt)
			if !ok {
				return true
			}
			if be, ok := is.Cond.(*ast.BinaryExpr); ok {
				if id, ok := be.X.(*ast.Ident); ok && id.Name == "sz" {
					tests = append(tests, types.ExprString(be))
				}
			}
			return true
		})
		l.printf("def %s : List String := [", fn.lean)
		for i, t := range tests {
			if i > 0 {
				l.printf(", ")
			}
			l.printf("%s", leanStr(t))
		}
		l.printf("]\n")
	}
	// statFromResponse: how the "code:message" header value is taken apart
	{
		pkc, fdc := p.funcDecl(mod+"/httpgrpc", "statFromResponse")
		split := ""
		if fdc != nil {
			ast.Inspect(fdc, func(n ast.Node) bool {
				as, ok := n.(*ast.AssignStmt)
				if ok && split == "" && len(as.Lhs) == 1 && len(as.Rhs) == 1 {
					if id, ok := as.Lhs[0].(*ast.Ident); ok && id.Name == "codeStrs" {
						split = exprText(pkc.Fset, as.Rhs[0])
					}
				}
				return true
			})
		}
		if split == "" {
			fail("httpgrpc/client.go", "statusHeaderSplit", "codeStrs := … not found in statFromResponse")
		} else {
			l.printf("def statusHeaderSplit : String := %s\n", leanStr(split))
		}
	}
	// asMetadata hands every header value over whole: the functions it calls (sorted, distinct)
	{
		_, fd := p.funcDecl(mod+"/httpgrpc", "asMetadata")
		if fd == nil {
			fail("httpgrpc/io.go", "asMetadataCalls", "asMetadata not found")
		} else {
			seen := map[string]bool{}
			ast.Inspect(fd, func(n ast.Node) bool {
				if call, ok := n.(*ast.CallExpr); ok {
					switch f := call.Fun.(type) {
					case *ast.SelectorExpr:
						seen[f.Sel.Name] = true
					case *ast.Ident:
						seen[f.Name] = true
					}
				}
				return true
			})
			var names []string
			for k := range seen {
				names = append(names, k)
			}
			sort.Strings(names)
			l.printf("def asMetadataCalls : List String := [")
			for i, n := range names {
				if i > 0 {
					l.printf(", ")
				}
				l.printf("%s", leanStr(n))
			}
			l.printf("]\n")
		}
		pk, sd := p.methodDecl(mod+"/httpgrpc", "Server", "ServeHTTP")
		if sd == nil || sd.Body == nil {
			fail("httpgrpc/server.go", "serveHTTPBody", "Server.ServeHTTP not found")
		} else {
			l.printf("/-- Server.ServeHTTP: requests go to the mux as they are (exact registered paths only) -/\ndef serveHTTPBody : String := %s\n", leanStr(exprText(pk.Fset, sd.Body)))
		}
	}
	must(l.finish(out))
}

// chanCaps finds `name := make(chan T[, n])`, `name = make(...)` and
// composite-literal fields `name: make(chan T[, n])`.
func chanCaps(pk *packages.Package, fd *ast.FuncDecl) map[string]int64 {
	res := map[string]int64{}
	capOf := func(e ast.Expr) (int64, bool) {
		call, ok := e.(*ast.CallExpr)
		if !ok {
			return 0, false
		}
		id, ok := call.Fun.(*ast.Ident)
		if !ok || id.Name != "make" || len(call.Args) == 0 {
			return 0, false
		}
		if _, ok := call.Args[0].(*ast.ChanType); !ok {
			return 0, false
		}
		if len(call.Args) == 1 {
			return 0, true
		}
		v, ok := constInt(pk, call.Args[1])
		if !ok {
			return -1, false
		}
		return v, true
	}
	ast.Inspect(fd, func(n ast.Node) bool {
		switch s := n.(type) {
		case *ast.AssignStmt:
			for i, lhs := range s.Lhs {
				if id, ok := lhs.(*ast.Ident); ok && i < len(s.Rhs) {
					if c, ok := capOf(s.Rhs[i]); ok {
						res[id.Name] = c
					}
				}
			}
		case *ast.KeyValueExpr:
			if id, ok := s.Key.(*ast.Ident); ok {
				if c, ok := capOf(s.Value); ok {
					res[id.Name] = c
				}
			}
		}
		return true
	})
	return res
}

// ---------------------------------------------------------------------------
// timeout encoding / decoding

func extractTimeout(p *pkgs, out string) {
	l := newLean("Timeout.lean", "GRPC-Timeout: unit table of contextFromHeaders (server.go), encoding constants of headersFromContext (client.go)")
	pk, fd := p.funcDecl(mod+"/httpgrpc", "contextFromHeaders")
	if fd == nil {
		fail("httpgrpc/server.go", "unitTable", "contextFromHeaders not found")
	} else {
		// find `switch suffix { case 'X': unit = <const> }`
		found := false
		ast.Inspect(fd, func(n ast.Node) bool {
			sw, ok := n.(*ast.SwitchStmt)
			if !ok || sw.Tag == nil || found {
				return true
			}
			type row struct{ c, v int64 }
			var rows []row
			for _, c := range sw.Body.List {
				cc := c.(*ast.CaseClause)
				if cc.List == nil {
					continue
				}
				if len(cc.Body) != 1 {
					return true
				}
				as, ok := cc.Body[0].(*ast.AssignStmt)
				if !ok || len(as.Rhs) != 1 {
					return true
				}
				v, ok := constInt(pk, as.Rhs[0])
				if !ok {
					return true
				}
				for _, e := range cc.List {
					k, ok := constInt(pk, e)
					if !ok {
						return true
					}
					rows = append(rows, row{k, v})
				}
			}
			if len(rows) == 0 {
				return true
			}
			found = true
			l.printf("/-- (unit byte, nanoseconds per unit) in source order -/\ndef unitTable : List (Nat × Nat) := [")
			for i, r := range rows {
				if i > 0 {
					l.printf(", ")
				}
				l.printf("(%d, %d)", r.c, r.v)
			}
			l.printf("]\n")
			return true
		})
		if !found {
			fail("httpgrpc/server.go", "unitTable", "unit switch not found")
		}
		// ParseInt bit size
		bits := int64(-1)
		ast.Inspect(fd, func(n ast.Node) bool {
			call, ok := n.(*ast.CallExpr)
			if !ok {
				return true
			}
			if sel, ok := call.Fun.(*ast.SelectorExpr); ok && sel.Sel.Name == "ParseInt" && len(call.Args) == 3 {
				b, ok1 := constInt(pk, call.Args[1])
				s, ok2 := constInt(pk, call.Args[2])
				if ok1 && ok2 && b == 10 {
					bits = s
				}
			}
			return true
		})
		if bits < 0 {
			fail("httpgrpc/server.go", "timeoutParseBits", "strconv.ParseInt(_, 10, N) not found")
		} else {
			l.printf("def timeoutParseBits : Nat := %d\n", bits)
		}
		// saturation: does the function compare against math.MaxInt64 / unit (any mention of a MaxInt64 constant)?
		sat := false
		ast.Inspect(fd, func(n ast.Node) bool {
			if e, ok := n.(ast.Expr); ok {
				if v, ok := constInt(pk, e); ok && v == 9223372036854775807 {
					sat = true
				}
			}
			return true
		})
		l.printf("/-- whether contextFromHeaders mentions the MaxInt64 constant (saturating multiply) -/\ndef timeoutSaturates : Bool := %v\n", sat)
		// the guard of the context.WithTimeout call, the context it extends, and where that context comes from
		applyCond, ctxArg, ctxFrom := "", "", ""
		var walk func(n ast.Node, conds []string)
		walk = func(n ast.Node, conds []string) {
			ast.Inspect(n, func(m ast.Node) bool {
				if m == n {
					return true
				}
				switch e := m.(type) {
				case *ast.IfStmt:
					if e.Init != nil {
						walk(e.Init, conds)
					}
					walk(e.Body, append(append([]string{}, conds...), types.ExprString(e.Cond)))
					if e.Else != nil {
						walk(e.Else, append(append([]string{}, conds...), "!("+types.ExprString(e.Cond)+")"))
					}
					return false
				case *ast.CallExpr:
					if sel, ok := e.Fun.(*ast.SelectorExpr); ok && (sel.Sel.Name == "WithTimeout" || sel.Sel.Name == "WithDeadline") && len(e.Args) == 2 && len(conds) > 0 {
						applyCond = conds[len(conds)-1]
						ctxArg = types.ExprString(e.Args[0])
					}
				case *ast.AssignStmt:
					if len(e.Lhs) == 1 && len(e.Rhs) == 1 && e.Tok == token.DEFINE {
						if id, ok := e.Lhs[0].(*ast.Ident); ok && id.Name == "ctx" {
							ctxFrom = types.ExprString(e.Rhs[0])
						}
					}
				}
				return true
			})
		}
		walk(fd.Body, nil)
		if applyCond == "" {
			fail("httpgrpc/server.go", "timeoutApplyCond", "guarded context.WithTimeout call not found in contextFromHeaders")
		} else {
			l.printf("/-- innermost guard of the `context.WithTimeout` call, the context it extends, and that context's definition -/\ndef timeoutApplyCond : String := %q\ndef timeoutCtxArg : String := %q\ndef timeoutCtxFrom : String := %q\n", applyCond, ctxArg, ctxFrom)
		}
	}

	pk, fd = p.funcDecl(mod+"/httpgrpc", "headersFromContext")
	if fd == nil {
		fail("httpgrpc/client.go", "clientTimeout", "headersFromContext not found")
	} else {
		var divisor, minimum int64 = -1, -1
		cmpOp := ""
		format := ""
		ast.Inspect(fd, func(n ast.Node) bool {
			switch e := n.(type) {
			case *ast.BinaryExpr:
				if e.Op == token.QUO {
					if v, ok := constInt(pk, e.Y); ok {
						divisor = v
					}
				}
			case *ast.IfStmt:
				if be, ok := e.Cond.(*ast.BinaryExpr); ok && (be.Op == token.LEQ || be.Op == token.LSS) {
					if z, ok := constInt(pk, be.Y); ok && len(e.Body.List) == 1 {
						if as, ok := e.Body.List[0].(*ast.AssignStmt); ok && len(as.Rhs) == 1 {
							if v, ok := constInt(pk, as.Rhs[0]); ok {
								minimum = v
								cmpOp = fmt.Sprintf("%s%d", be.Op.String(), z)
							}
						}
					}
				}
			case *ast.CallExpr:
				if sel, ok := e.Fun.(*ast.SelectorExpr); ok && sel.Sel.Name == "Sprintf" && len(e.Args) == 2 {
					if s, ok := constStr(pk, e.Args[0]); ok {
						format = s
					}
				}
			}
			return true
		})
		if divisor < 0 || minimum < 0 || format == "" {
			fail("httpgrpc/client.go", "clientTimeout", "divisor/minimum/format not all found (%d,%d,%q)", divisor, minimum, format)
		} else {
			l.printf("def clientDivisor : Nat := %d\n/-- `if millis <cmp> { millis = clientMinimum }` -/\ndef clientFloorCmp : String := %s\ndef clientMinimum : Nat := %d\ndef clientFormat : String := %s\n", divisor, leanStr(cmpOp), minimum, leanStr(format))
		}
	}
	must(l.finish(out))
}

// ---------------------------------------------------------------------------
// in_process.go

func frameKindsWritten(fd ast.Node) []string {
	var res []string
	ast.Inspect(fd, func(n ast.Node) bool {
		call, ok := n.(*ast.CallExpr)
		if !ok {
			return true
		}
		id, ok := call.Fun.(*ast.Ident)
		if !ok || id.Name != "writeMessage" || len(call.Args) != 4 {
			return true
		}
		cl, ok := call.Args[3].(*ast.CompositeLit)
		if !ok || len(cl.Elts) != 1 {
			res = append(res, "?")
			return true
		}
		if kv, ok := cl.Elts[0].(*ast.KeyValueExpr); ok {
			if k, ok := kv.Key.(*ast.Ident); ok {
				res = append(res, k.Name)
				return true
			}
		}
		res = append(res, "?")
		return true
	})
	return res
}

func extractInproc(p *pkgs, out string) {
	l := newLean("Inproc.lean", "inprocgrpc/in_process.go: channel capacities and frame orders")
	pk, inv := p.methodDecl(mod+"/inprocgrpc", "Channel", "Invoke")
	_, ns := p.methodDecl(mod+"/inprocgrpc", "Channel", "NewStream")
	_, fin := p.methodDecl(mod+"/inprocgrpc", "inProcessServerStream", "finish")
	if inv == nil || ns == nil || fin == nil {
		fail("inprocgrpc/in_process.go", "inproc", "Invoke/NewStream/finish not found")
		must(l.finish(out))
		return
	}
	ic := chanCaps(pk, inv)
	sc := chanCaps(pk, ns)
	if c, ok := ic["ch"]; ok {
		l.printf("def unaryCap : Nat := %d\n", c)
	} else {
		fail("inprocgrpc/in_process.go", "unaryCap", "no `ch := make(chan frame, n)` in Invoke")
	}
	if c, ok := sc["requests"]; ok {
		l.printf("def capReq : Nat := %d\n", c)
	} else {
		fail("inprocgrpc/in_process.go", "capReq", "no `requests := make(chan frame, n)` in NewStream")
	}
	if c, ok := sc["responses"]; ok {
		l.printf("def capResp : Nat := %d\n", c)
	} else {
		fail("inprocgrpc/in_process.go", "capResp", "no `responses := make(chan frame, n)` in NewStream")
	}
	ord := func(name string, ks []string) {
		l.printf("def %s : List String := [", name)
		for i, k := range ks {
			if i > 0 {
				l.printf(", ")
			}
			l.printf("%s", leanStr(k))
		}
		l.printf("]\n")
	}
	l.printf("/-- frame kinds written by the unary server goroutine, in source order -/\n")
	ord("unaryFrameOrder", frameKindsWritten(inv))
	l.printf("/-- frame kinds written by inProcessServerStream.finish, in source order -/\n")
	ord("finishFrameOrder", frameKindsWritten(fin))
	// placement of the message copies (C06): every send clones before the frame is written, every
	// receive copies out of the frame
	_, cSend := p.methodDecl(mod+"/inprocgrpc", "inProcessClientStream", "SendMsg")
	_, sSend := p.methodDecl(mod+"/inprocgrpc", "inProcessServerStream", "SendMsg")
	_, sRecv := p.methodDecl(mod+"/inprocgrpc", "inProcessServerStream", "RecvMsg")
	_, cRecv := p.methodDecl(mod+"/inprocgrpc", "inProcessClientStream", "recvMsgLocked")
	if cSend == nil || sSend == nil || sRecv == nil || cRecv == nil {
		fail("inprocgrpc/in_process.go", "placement", "stream SendMsg/RecvMsg methods not found")
	} else {
		l.printf("/-- SendMsg: the data frame carries the result of cloner.Clone (called before the frame is written) -/\n")
		l.printf("def clientSendClones : Bool := %v\n", cloneFeedsFrame(cSend))
		l.printf("def serverSendClones : Bool := %v\n", cloneFeedsFrame(sSend))
		l.printf("/-- RecvMsg hands out frame data only through cloner.Copy: number of Copy calls / of other uses of a frame's data -/\n")
		cc, other := copyUses(sRecv)
		l.printf("def serverRecvCopyCalls : Nat := %d\ndef serverRecvOtherDataUses : Nat := %d\n", cc, other)
		cc, other = copyUses(cRecv)
		l.printf("def clientRecvCopyCalls : Nat := %d\ndef clientRecvOtherDataUses : Nat := %d\n", cc, other)
		cc, other = copyUses(inv)
		l.printf("/-- Invoke: request copied by cloner.Copy(out, req) in the decode closure, response by cloner.Copy(resp, r.data) -/\n")
		l.printf("def unaryCopyCalls : Nat := %d\ndef unaryOtherDataUses : Nat := %d\n", cc, other)
	}
	must(l.finish(out))
}

// cloneFeedsFrame: the body assigns `x, err := <recv>.cloner.Clone(x)` and later builds frame{data: x}
// inside the writeMessage call.
func cloneFeedsFrame(fd *ast.FuncDecl) bool {
	cloned := map[string]token.Pos{}
	ok := false
	ast.Inspect(fd, func(n ast.Node) bool {
		switch x := n.(type) {
		case *ast.AssignStmt:
			if len(x.Rhs) == 1 && len(x.Lhs) >= 1 {
				if call, isCall := x.Rhs[0].(*ast.CallExpr); isCall {
					if sel, isSel := call.Fun.(*ast.SelectorExpr); isSel && sel.Sel.Name == "Clone" {
						if id, isID := x.Lhs[0].(*ast.Ident); isID {
							cloned[id.Name] = x.Pos()
						}
					}
				}
			}
		case *ast.CompositeLit:
			if id, isID := x.Type.(*ast.Ident); isID && id.Name == "frame" {
				for _, e := range x.Elts {
					if kv, isKV := e.(*ast.KeyValueExpr); isKV {
						if k, isK := kv.Key.(*ast.Ident); isK && k.Name == "data" {
							if v, isV := kv.Value.(*ast.Ident); isV {
								if pos, was := cloned[v.Name]; was && pos < x.Pos() {
									ok = true
								} else {
									ok = false
								}
							}
						}
					}
				}
			}
		}
		return true
	})
	return ok
}

// copyUses counts calls `<x>.Copy(dst, <frame>.data)` / `cloner.Copy(out, req)` and every other read of
// a `.data` field that is not a nil test, a kind() dispatch or an argument of Copy.
func copyUses(fd *ast.FuncDecl) (copies, other int) {
	inCopy := map[ast.Node]bool{}
	ast.Inspect(fd, func(n ast.Node) bool {
		if call, ok := n.(*ast.CallExpr); ok {
			if sel, ok := call.Fun.(*ast.SelectorExpr); ok && sel.Sel.Name == "Copy" && len(call.Args) == 2 {
				copies++
				inCopy[call.Args[1]] = true
			}
		}
		return true
	})
	ast.Inspect(fd, func(n ast.Node) bool {
		switch x := n.(type) {
		case *ast.BinaryExpr:
			// `r.data != nil` is a test, not a use
			if sel, ok := x.X.(*ast.SelectorExpr); ok && sel.Sel.Name == "data" {
				inCopy[sel] = true
			}
		case *ast.SelectorExpr:
			if x.Sel.Name == "data" && !inCopy[x] {
				other++
			}
		}
		return true
	})
	return
}

// ---------------------------------------------------------------------------
// in-process method-name handling

func extractResolve(p *pkgs, out string) {
	l := newLean("Resolve.lean", "inprocgrpc Invoke/NewStream: guards in front of the method-name indexing")
	pk := p.byPath[mod+"/inprocgrpc"]
	for _, fn := range []struct{ goName, prefix string }{{"Invoke", "invoke"}, {"NewStream", "newStream"}} {
		_, fd := p.methodDecl(mod+"/inprocgrpc", "Channel", fn.goName)
		if fd == nil || pk == nil {
			fail("inprocgrpc/in_process.go", fn.prefix, "%s not found", fn.goName)
			continue
		}
		guardEmpty, checkLen := false, false
		ast.Inspect(fd, func(n ast.Node) bool {
			ifs, ok := n.(*ast.IfStmt)
			if !ok {
				return true
			}
			ast.Inspect(ifs.Cond, func(m ast.Node) bool {
				be, ok := m.(*ast.BinaryExpr)
				if !ok {
					return true
				}
				// method == ""  (or len(method) == 0)
				if be.Op == token.EQL {
					if id, ok := be.X.(*ast.Ident); ok && id.Name == "method" {
						if s, ok := constStr(pk, be.Y); ok && s == "" {
							guardEmpty = true
						}
					}
					if call, ok := be.X.(*ast.CallExpr); ok {
						if f, ok := call.Fun.(*ast.Ident); ok && f.Name == "len" && len(call.Args) == 1 {
							if id, ok := call.Args[0].(*ast.Ident); ok && id.Name == "method" {
								if v, ok := constInt(pk, be.Y); ok && v == 0 {
									guardEmpty = true
								}
							}
						}
					}
				}
				// len(strs) != 2 / < 2 followed by a return
				if be.Op == token.NEQ || be.Op == token.LSS {
					if call, ok := be.X.(*ast.CallExpr); ok {
						if f, ok := call.Fun.(*ast.Ident); ok && f.Name == "len" && len(call.Args) == 1 {
							if id, ok := call.Args[0].(*ast.Ident); ok && id.Name == "strs" {
								if v, ok := constInt(pk, be.Y); ok && v == 2 && len(ifs.Body.List) > 0 {
									if _, ok := ifs.Body.List[len(ifs.Body.List)-1].(*ast.ReturnStmt); ok {
										checkLen = true
									}
								}
							}
						}
					}
				}
				return true
			})
			return true
		})
		l.printf("def %sGuardEmpty : Bool := %v\ndef %sCheckLen : Bool := %v\n", fn.prefix, guardEmpty, fn.prefix, checkLen)
	}
	must(l.finish(out))
}

// ---------------------------------------------------------------------------
// credentials / peer

func extractCreds(p *pkgs, out string) {
	l := newLean("Creds.lean", "httpgrpc/client.go: which TLS state the peer option is built from; security flag passed to ApplyPerRPCCreds")
	pk := p.byPath[mod+"/httpgrpc"]
	for _, fn := range []struct{ recv, goName, lean string }{{"Channel", "Invoke", "unaryPeerTLSFrom"}, {"clientStream", "doHttpCall", "streamPeerTLSFrom"}} {
		_, fd := p.methodDecl(mod+"/httpgrpc", fn.recv, fn.goName)
		if fd == nil || pk == nil {
			fail("httpgrpc/client.go", fn.lean, "%s not found", fn.goName)
			continue
		}
		src := ""
		ast.Inspect(fd, func(n ast.Node) bool {
			call, ok := n.(*ast.CallExpr)
			if !ok {
				return true
			}
			if id, ok := call.Fun.(*ast.Ident); !ok || id.Name != "getPeer" || len(call.Args) != 2 {
				return true
			}
			if sel, ok := call.Args[1].(*ast.SelectorExpr); ok && sel.Sel.Name == "TLS" {
				if t := pk.TypesInfo.TypeOf(sel.X); t != nil {
					src = t.String()
				}
			}
			return true
		})
		if src == "" {
			fail("httpgrpc/client.go", fn.lean, "no getPeer(_, x.TLS) call in %s", fn.goName)
			continue
		}
		l.printf("def %s : String := %s\n", fn.lean, leanStr(src))
	}
	// isChannelSecure argument: `<x>.Scheme == "https"` in Invoke and NewStream; `true` in-process
	for _, fn := range []struct{ pkg, recv, goName, lean string }{
		{"/httpgrpc", "Channel", "Invoke", "httpUnarySecureExpr"}, {"/httpgrpc", "Channel", "NewStream", "httpStreamSecureExpr"},
		{"/inprocgrpc", "Channel", "Invoke", "inprocUnarySecureExpr"}, {"/inprocgrpc", "Channel", "NewStream", "inprocStreamSecureExpr"}} {
		pk2, fd := p.methodDecl(mod+fn.pkg, fn.recv, fn.goName)
		if fd == nil {
			fail(fn.pkg, fn.lean, "%s not found", fn.goName)
			continue
		}
		expr := ""
		ast.Inspect(fd, func(n ast.Node) bool {
			call, ok := n.(*ast.CallExpr)
			if !ok {
				return true
			}
			if sel, ok := call.Fun.(*ast.SelectorExpr); ok && sel.Sel.Name == "ApplyPerRPCCreds" && len(call.Args) == 4 {
				switch a := call.Args[3].(type) {
				case *ast.Ident:
					expr = a.Name
				case *ast.BinaryExpr:
					if s, ok := constStr(pk2, a.Y); ok {
						if sx, ok := a.X.(*ast.SelectorExpr); ok {
							expr = sx.Sel.Name + a.Op.String() + s
						}
					}
				}
			}
			return true
		})
		if expr == "" {
			fail(fn.pkg, fn.lean, "ApplyPerRPCCreds(_, _, _, <secure>) not recognised in %s", fn.goName)
			continue
		}
		l.printf("def %s : String := %s\n", fn.lean, leanStr(expr))
	}
	// the peer option is filled in before the reply's status is looked at (a failed call has talked to that peer too)
	for _, fn := range []struct{ recv, goName, lean string }{{"Channel", "Invoke", "unaryPeerBeforeStatus"}, {"clientStream", "doHttpCall", "streamPeerBeforeStatus"}} {
		_, fd := p.methodDecl(mod+"/httpgrpc", fn.recv, fn.goName)
		if fd == nil {
			fail("httpgrpc/client.go", fn.lean, "%s.%s not found", fn.recv, fn.goName)
			continue
		}
		var setPeer, stat token.Pos
		ast.Inspect(fd, func(n ast.Node) bool {
			call, ok := n.(*ast.CallExpr)
			if !ok {
				return true
			}
			switch f := call.Fun.(type) {
			case *ast.SelectorExpr:
				if f.Sel.Name == "SetPeer" && setPeer == 0 {
					setPeer = call.Pos()
				}
			case *ast.Ident:
				if f.Name == "statFromResponse" && stat == 0 {
					stat = call.Pos()
				}
			}
			return true
		})
		if setPeer == 0 || stat == 0 {
			fail("httpgrpc/client.go", fn.lean, "SetPeer / statFromResponse calls not found in %s", fn.goName)
			continue
		}
		l.printf("def %s : Bool := %v\n", fn.lean, setPeer < stat)
	}
	must(l.finish(out))
}

// ---------------------------------------------------------------------------
// intercept.go

func extractIntercept(p *pkgs, out string) {
	l := newLean("Intercept.lean", "intercept.go: how the cc argument of client interceptors is obtained; nil checks of the decorators")
	for _, fn := range []struct{ goName, lean string }{{"Invoke", "unaryCCUsesUnwrap"}, {"NewStream", "streamCCUsesUnwrap"}} {
		_, fd := p.methodDecl(mod, "interceptedChannel", fn.goName)
		if fd == nil {
			fail("intercept.go", fn.lean, "interceptedChannel.%s not found", fn.goName)
			continue
		}
		found, uses := false, false
		ast.Inspect(fd, func(n ast.Node) bool {
			ta, ok := n.(*ast.TypeAssertExpr)
			if !ok {
				return true
			}
			found = true
			if call, ok := ta.X.(*ast.CallExpr); ok {
				if id, ok := call.Fun.(*ast.Ident); ok && id.Name == "unwrap" {
					uses = true
				}
			}
			return true
		})
		if !found {
			fail("intercept.go", fn.lean, "no type assertion to *grpc.ClientConn in %s", fn.goName)
			continue
		}
		l.printf("def %s : Bool := %v\n", fn.lean, uses)
	}
	// the continuation handed to a client interceptor: a method value whose body forwards the call, with exactly
	// the options the interceptor passes, to the wrapped channel
	for _, fn := range []struct{ goName, intField, contName, lean string }{{"Invoke", "unaryInt", "unaryInvoker", "clientUnaryContinuation"}, {"NewStream", "streamInt", "streamer", "clientStreamContinuation"}} {
		pk, fd := p.methodDecl(mod, "interceptedChannel", fn.goName)
		_, cont := p.methodDecl(mod, "interceptedChannel", fn.contName)
		arg, body := "?", "?"
		if fd != nil {
			ast.Inspect(fd, func(n ast.Node) bool {
				call, ok := n.(*ast.CallExpr)
				if !ok {
					return true
				}
				if se, ok := call.Fun.(*ast.SelectorExpr); ok && se.Sel.Name == fn.intField {
					for _, a := range call.Args {
						if t := exprText(pk.Fset, a); strings.Contains(t, fn.contName) || strings.Contains(t, "func(") {
							arg = t
						}
					}
				}
				return true
			})
		}
		if cont != nil && cont.Body != nil {
			body = exprText(pk.Fset, cont.Body)
		}
		if fd == nil {
			fail("intercept.go", fn.lean, "interceptedChannel.%s not found", fn.goName)
		}
		l.printf("/-- interceptedChannel.%s: the continuation argument and the body of that method -/\n", fn.goName)
		l.printf("def %s : String × String := (%s, %s)\n", fn.lean, leanStr(arg), leanStr(body))
		// the interceptor's result is the method's result: the call is the sole operand of a return statement
		direct := false
		if fd != nil {
			ast.Inspect(fd, func(n ast.Node) bool {
				rs, ok := n.(*ast.ReturnStmt)
				if !ok || len(rs.Results) != 1 {
					return true
				}
				if call, ok := rs.Results[0].(*ast.CallExpr); ok {
					if se, ok := call.Fun.(*ast.SelectorExpr); ok && se.Sel.Name == fn.intField {
						direct = true
					}
				}
				return true
			})
		}
		l.printf("/-- `return intch.%s(…)`: the interceptor's results are returned as they are -/\ndef %sResultDirect : Bool := %v\n", fn.intField, strings.TrimSuffix(fn.lean, "Continuation"), direct)
	}
	// the "both nil => return the original" conditions
	for _, fn := range []struct{ goName, lean string }{{"InterceptClientConn", "clientIdentityCond"}, {"InterceptServer", "serverIdentityCond"}, {"WithInterceptor", "registryIdentityCond"}} {
		_, fd := p.funcDecl(mod, fn.goName)
		if fd == nil || len(fd.Body.List) == 0 {
			fail("intercept.go", fn.lean, "%s not found", fn.goName)
			continue
		}
		ifs, ok := fd.Body.List[0].(*ast.IfStmt)
		if !ok {
			fail("intercept.go", fn.lean, "%s does not start with an if", fn.goName)
			continue
		}
		be, ok := ifs.Cond.(*ast.BinaryExpr)
		if !ok {
			fail("intercept.go", fn.lean, "unexpected condition")
			continue
		}
		l.printf("def %s : String := %s\n", fn.lean, leanStr(be.Op.String()))
	}
	// registry views: what WithInterceptor does after the identity test, and what a view does with a registration
	{
		pk, fd := p.funcDecl(mod, "WithInterceptor")
		rest := "?"
		if fd != nil && len(fd.Body.List) >= 1 {
			var parts []string
			for _, st := range fd.Body.List[1:] {
				parts = append(parts, exprText(pk.Fset, st))
			}
			rest = strings.Join(parts, "; ")
		} else {
			fail("intercept.go", "registryViewRest", "WithInterceptor not found")
		}
		pk2, rd := p.methodDecl(mod, "interceptingRegistry", "RegisterService")
		body := "?"
		if rd != nil && rd.Body != nil {
			body = exprText(pk2.Fset, rd.Body)
		} else {
			fail("intercept.go", "registryViewRegister", "interceptingRegistry.RegisterService not found")
		}
		l.printf("/-- WithInterceptor after its identity test; the body of the view's RegisterService -/\ndef registryViewRest : String := %s\ndef registryViewRegister : String := %s\n", leanStr(rest), leanStr(body))
	}
	must(l.finish(out))
}

func extractInterceptServer(p *pkgs, out string) {
	l := newLean("InterceptServer.lean", "intercept.go InterceptServer: fresh slices, StreamServerInfo construction")
	pk, fd := p.funcDecl(mod, "InterceptServer")
	if fd == nil {
		fail("intercept.go", "InterceptServer", "not found")
		must(l.finish(out))
		return
	}
	fresh := map[string]bool{}
	ast.Inspect(fd, func(n ast.Node) bool {
		as, ok := n.(*ast.AssignStmt)
		if !ok || len(as.Lhs) != 1 || len(as.Rhs) != 1 {
			return true
		}
		sel, ok := as.Lhs[0].(*ast.SelectorExpr)
		if !ok {
			return true
		}
		if call, ok := as.Rhs[0].(*ast.CallExpr); ok {
			if id, ok := call.Fun.(*ast.Ident); ok && id.Name == "make" {
				fresh[sel.Sel.Name] = true
			}
		}
		return true
	})
	// the copy: `intercepted := *svcDesc`
	copies := false
	ast.Inspect(fd, func(n ast.Node) bool {
		as, ok := n.(*ast.AssignStmt)
		if ok && as.Tok == token.DEFINE && len(as.Rhs) == 1 {
			if st, ok := as.Rhs[0].(*ast.StarExpr); ok {
				if id, ok := st.X.(*ast.Ident); ok && id.Name == fd.Type.Params.List[0].Names[0].Name {
					copies = true
				}
			}
		}
		return true
	})
	l.printf("def serverCopiesDesc : Bool := %v\ndef serverMethodsFresh : Bool := %v\ndef serverStreamsFresh : Bool := %v\n", copies, fresh["Methods"], fresh["Streams"])
	format := ""
	fromClient, fromServer := "", ""
	ast.Inspect(fd, func(n ast.Node) bool {
		cl, ok := n.(*ast.CompositeLit)
		if !ok {
			return true
		}
		if sel, ok := cl.Type.(*ast.SelectorExpr); !ok || sel.Sel.Name != "StreamServerInfo" {
			return true
		}
		for _, el := range cl.Elts {
			kv, ok := el.(*ast.KeyValueExpr)
			if !ok {
				continue
			}
			k := kv.Key.(*ast.Ident).Name
			switch k {
			case "FullMethod":
				if call, ok := kv.Value.(*ast.CallExpr); ok && len(call.Args) == 3 {
					if s, ok := constStr(pk, call.Args[0]); ok {
						a1, _ := call.Args[1].(*ast.SelectorExpr)
						a2, _ := call.Args[2].(*ast.SelectorExpr)
						if a1 != nil && a2 != nil {
							format = s + "|" + a1.Sel.Name + "|" + a2.Sel.Name
						}
					}
				}
			case "IsClientStream":
				if s, ok := kv.Value.(*ast.SelectorExpr); ok {
					fromClient = s.Sel.Name
				}
			case "IsServerStream":
				if s, ok := kv.Value.(*ast.SelectorExpr); ok {
					fromServer = s.Sel.Name
				}
			}
		}
		return true
	})
	if format == "" || fromClient == "" || fromServer == "" {
		fail("intercept.go", "streamInfo", "StreamServerInfo literal not recognised")
	} else {
		l.printf("def serverStreamInfoFormat : String := %s\ndef infoIsClientFrom : String := %s\ndef infoIsServerFrom : String := %s\n", leanStr(format), leanStr(fromClient), leanStr(fromServer))
	}
	must(l.finish(out))
}

// ---------------------------------------------------------------------------
// protoc-gen-grpchan

func extractStubgen(p *pkgs, out string) {
	l := newLean("Stubgen.lean", "cmd/protoc-gen-grpchan: the streamCount loop and the templates of generateChanStubs")
	pk, fd := p.funcDecl(mod+"/cmd/protoc-gen-grpchan", "generateChanStubs")
	if fd == nil {
		fail("cmd/protoc-gen-grpchan", "generateChanStubs", "not found")
		must(l.finish(out))
		return
	}
	// locate `streamCount := 0` and the loop over methods
	var svcLoop *ast.RangeStmt
	ast.Inspect(fd, func(n ast.Node) bool {
		if rs, ok := n.(*ast.RangeStmt); ok && svcLoop == nil {
			if call, ok := rs.X.(*ast.CallExpr); ok {
				if sel, ok := call.Fun.(*ast.SelectorExpr); ok && sel.Sel.Name == "GetServices" {
					svcLoop = rs
				}
			}
		}
		return true
	})
	perService := false
	var mLoop *ast.RangeStmt
	if svcLoop != nil {
		for _, st := range svcLoop.Body.List {
			if as, ok := st.(*ast.AssignStmt); ok && as.Tok == token.DEFINE && len(as.Lhs) == 1 {
				if id, ok := as.Lhs[0].(*ast.Ident); ok && id.Name == "streamCount" {
					if v, ok := constInt(pk, as.Rhs[0]); ok && v == 0 {
						perService = true
					}
				}
			}
			if rs, ok := st.(*ast.RangeStmt); ok {
				if call, ok := rs.X.(*ast.CallExpr); ok {
					if sel, ok := call.Fun.(*ast.SelectorExpr); ok && sel.Sel.Name == "GetMethods" {
						mLoop = rs
					}
				}
			}
		}
	}
	if mLoop == nil {
		fail("cmd/protoc-gen-grpchan", "methodLoop", "loop over GetMethods() not found inside the loop over GetServices()")
		must(l.finish(out))
		return
	}
	l.printf("def counterResetPerService : Bool := %v\n", perService)
	// StreamIndex: streamCount in the struct literal
	idxFrom := ""
	ast.Inspect(mLoop, func(n ast.Node) bool {
		if kv, ok := n.(*ast.KeyValueExpr); ok {
			if k, ok := kv.Key.(*ast.Ident); ok && k.Name == "StreamIndex" {
				if v, ok := kv.Value.(*ast.Ident); ok {
					idxFrom = v.Name
				}
			}
		}
		return true
	})
	l.printf("def streamIndexFrom : String := %s\n", leanStr(idxFrom))
	// the if / else-if / else chain
	type branch struct {
		cond          string
		incr          bool
		callee, path  string
		indexed, tail bool
	}
	var branches []branch
	var chain *ast.IfStmt
	for _, st := range mLoop.Body.List {
		if ifs, ok := st.(*ast.IfStmt); ok {
			chain = ifs
		}
	}
	analyse := func(cond string, body *ast.BlockStmt) branch {
		b := branch{cond: cond}
		ast.Inspect(body, func(n ast.Node) bool {
			switch x := n.(type) {
			case *ast.IncDecStmt:
				if id, ok := x.X.(*ast.Ident); ok && id.Name == "streamCount" && x.Tok == token.INC {
					b.incr = true
				}
			case *ast.BasicLit:
				if x.Kind == token.STRING {
					if s, ok := constStr(pk, x); ok && strings.Contains(s, "c.ch.") {
						if strings.Contains(s, "c.ch.NewStream(") {
							b.callee = "NewStream"
						} else if strings.Contains(s, "c.ch.Invoke(") {
							b.callee = "Invoke"
						}
						if i := strings.Index(s, `"/{{`); i >= 0 {
							j := strings.Index(s[i+1:], `"`)
							b.path = s[i+1 : i+1+j]
						}
						b.indexed = strings.Contains(s, "Streams[{{.StreamIndex}}]")
						b.tail = strings.Contains(s, "SendMsg(in)") && strings.Contains(s, "CloseSend()")
					}
				}
			}
			return true
		})
		return b
	}
	for chain != nil {
		cond := "?"
		if call, ok := chain.Cond.(*ast.CallExpr); ok {
			if sel, ok := call.Fun.(*ast.SelectorExpr); ok {
				cond = sel.Sel.Name
			}
		}
		branches = append(branches, analyse(cond, chain.Body))
		switch e := chain.Else.(type) {
		case *ast.IfStmt:
			chain = e
		case *ast.BlockStmt:
			branches = append(branches, analyse("else", e))
			chain = nil
		default:
			chain = nil
		}
	}
	if len(branches) == 0 {
		fail("cmd/protoc-gen-grpchan", "branches", "if/else chain over the method kind not found")
	}
	l.printf("/-- (condition, increments streamCount, callee, path template, indexes Streams[StreamIndex], sends request + CloseSend) in source order -/\n")
	l.printf("def stubBranches : List (String × Bool × String × String × Bool × Bool) := [")
	for i, b := range branches {
		if i > 0 {
			l.printf(",\n  ")
		}
		l.printf("(%s, %v, %s, %s, %v, %v)", leanStr(b.cond), b.incr, leanStr(b.callee), leanStr(b.path), b.indexed, b.tail)
	}
	l.printf("]\n")
	// doCodeGen: the loops over the request's files (what each calls, in source order) and the ways a loop is left
	// without an error; generateChanStubs: what it does with a file that has no services
	{
		_, dg := p.funcDecl(mod+"/cmd/protoc-gen-grpchan", "doCodeGen")
		if dg == nil {
			fail("cmd/protoc-gen-grpchan", "codegenLoops", "doCodeGen not found")
		} else {
			var loops [][]string
			var exits []string
			ast.Inspect(dg, func(n ast.Node) bool {
				rs, ok := n.(*ast.RangeStmt)
				if !ok {
					return true
				}
				if sel, ok := rs.X.(*ast.SelectorExpr); !ok || sel.Sel.Name != "Files" {
					return true
				}
				var calls []string
				seen := map[string]bool{}
				ast.Inspect(rs.Body, func(m ast.Node) bool {
					switch e := m.(type) {
					case *ast.CallExpr:
						name := ""
						switch f := e.Fun.(type) {
						case *ast.SelectorExpr:
							name = f.Sel.Name
						case *ast.Ident:
							name = f.Name
						}
						if name != "" && !seen[name] && name != "GetName" && name != "Errorf" {
							seen[name] = true
							calls = append(calls, name)
						}
					case *ast.BranchStmt:
						exits = append(exits, e.Tok.String())
					case *ast.ReturnStmt:
						if len(e.Results) == 1 {
							if id, ok := e.Results[0].(*ast.Ident); ok && id.Name == "nil" {
								exits = append(exits, "return nil")
							}
						}
					}
					return true
				})
				loops = append(loops, calls)
				return true
			})
			l.printf("/-- doCodeGen: per loop over req.Files, the functions called in its body; non-error exits from inside those loops -/\ndef codegenLoops : List (List String) := [")
			for i, c := range loops {
				if i > 0 {
					l.printf(", ")
				}
				l.printf("[")
				for j, n := range c {
					if j > 0 {
						l.printf(", ")
					}
					l.printf("%s", leanStr(n))
				}
				l.printf("]")
			}
			l.printf("]\ndef codegenLoopPlainExits : List String := [")
			for i, e := range exits {
				if i > 0 {
					l.printf(", ")
				}
				l.printf("%s", leanStr(e))
			}
			l.printf("]\n")
		}
		first := "?"
		if len(fd.Body.List) > 0 {
			first = exprText(pk.Fset, fd.Body.List[0])
		}
		l.printf("/-- first statement of generateChanStubs -/\ndef stubgenNoServices : String := %s\n", leanStr(first))
	}
	must(l.finish(out))
}

// ---------------------------------------------------------------------------
// in-process server context

func extractCtx(p *pkgs, out string) {
	l := newLean("Ctx.lean", "inprocgrpc/in_process.go: makeServerContext layers and noValuesContext.Value")
	pk := p.byPath[mod+"/inprocgrpc"]
	_, fd := p.funcDecl(mod+"/inprocgrpc", "makeServerContext")
	if fd == nil || pk == nil {
		fail("inprocgrpc/in_process.go", "makeServerContext", "not found")
		must(l.finish(out))
		return
	}
	var layers []string
	var walk func(stmts []ast.Stmt, guard string)
	classify := func(e ast.Expr, guard string) {
		switch x := e.(type) {
		case *ast.CallExpr:
			// context.Context(noValuesContext{ctx}) or pkg.Func(...)
			if len(x.Args) == 1 {
				if cl, ok := x.Args[0].(*ast.CompositeLit); ok {
					if id, ok := cl.Type.(*ast.Ident); ok {
						layers = append(layers, guard+"wrap:"+id.Name)
						return
					}
				}
			}
			if sel, ok := x.Fun.(*ast.SelectorExpr); ok {
				name := sel.Sel.Name
				if pkgID, ok := sel.X.(*ast.Ident); ok {
					name = pkgID.Name + "." + name
				}
				arg := ""
				if name == "context.WithValue" && len(x.Args) == 3 {
					if u, ok := x.Args[1].(*ast.UnaryExpr); ok {
						if id, ok := u.X.(*ast.Ident); ok {
							arg = ":" + id.Name
						}
					}
					if id, ok := x.Args[2].(*ast.Ident); ok {
						arg += ":" + id.Name
					}
				}
				layers = append(layers, guard+name+arg)
			}
		case *ast.CompositeLit:
			if id, ok := x.Type.(*ast.Ident); ok {
				layers = append(layers, guard+"wrap:"+id.Name)
			}
		}
	}
	walk = func(stmts []ast.Stmt, guard string) {
		for _, st := range stmts {
			switch s := st.(type) {
			case *ast.AssignStmt:
				if len(s.Rhs) == 1 {
					classify(s.Rhs[0], guard)
				}
			case *ast.IfStmt:
				g := "if:"
				if as, ok := s.Init.(*ast.AssignStmt); ok && len(as.Rhs) == 1 {
					if call, ok := as.Rhs[0].(*ast.CallExpr); ok {
						if sel, ok := call.Fun.(*ast.SelectorExpr); ok {
							g = "if(" + sel.Sel.Name + "):"
						}
					}
				}
				walk(s.Body.List, g)
			}
		}
	}
	walk(fd.Body.List, "")
	l.printf("def serverCtxLayers : List String := [")
	for i, s := range layers {
		if i > 0 {
			l.printf(", ")
		}
		l.printf("%s", leanStr(s))
	}
	l.printf("]\n")
	// noValuesContext.Value
	_, vm := p.methodDecl(mod+"/inprocgrpc", "noValuesContext", "Value")
	ret := "missing"
	if vm != nil && len(vm.Body.List) == 1 {
		if rs, ok := vm.Body.List[0].(*ast.ReturnStmt); ok && len(rs.Results) == 1 {
			if id, ok := rs.Results[0].(*ast.Ident); ok && id.Name == "nil" {
				ret = "nil"
			} else {
				ret = "other"
			}
		}
	} else if vm != nil {
		ret = "other"
	}
	l.printf("def noValuesValueReturns : String := %s\n", leanStr(ret))
	// which context the handler is given: Invoke / NewStream pass makeServerContext(ctx) wrapped by NewContextWithServerTransportStream
	for _, fn := range []struct{ goName, lean string }{{"Invoke", "invokeHandlerCtx"}, {"NewStream", "newStreamHandlerCtx"}} {
		_, m := p.methodDecl(mod+"/inprocgrpc", "Channel", fn.goName)
		shape := ""
		if m != nil {
			ast.Inspect(m, func(n ast.Node) bool {
				call, ok := n.(*ast.CallExpr)
				if !ok {
					return true
				}
				if sel, ok := call.Fun.(*ast.SelectorExpr); ok && sel.Sel.Name == "NewContextWithServerTransportStream" && len(call.Args) == 2 {
					switch a := call.Args[0].(type) {
					case *ast.CallExpr:
						if id, ok := a.Fun.(*ast.Ident); ok {
							shape = "sts(" + id.Name + ")"
						}
					case *ast.Ident:
						shape = "sts(var " + a.Name + ")"
					}
				}
				return true
			})
		}
		l.printf("def %s : String := %s\n", fn.lean, leanStr(shape))
	}
	must(l.finish(out))
}
