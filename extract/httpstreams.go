package main

// Facts about the HTTP stream state machines (httpgrpc/client.go clientStream, httpgrpc/server.go
// handleStream / handleMethod / serverStream) that the HttpClientStream, HttpServerStream and
// HttpUnary models build in. Each is a small syntactic observation; the theorems
// `…_http_stream_facts` pin them, so a change at one of these sites breaks a proof obligation
// before any script is run.

import (
	"bytes"
	"go/ast"
	"go/printer"
	"go/token"
	"sort"
	"strings"
)

func exprText(fset *token.FileSet, e ast.Node) string {
	var b bytes.Buffer
	_ = printer.Fprint(&b, fset, e)
	return strings.Join(strings.Fields(b.String()), " ")
}

// assignSites lists "<func>" or "<func>/defer" for every assignment whose left side is <recv>.<field>.
func assignSites(pkFiles []*ast.File, recvName, field string) []string {
	seen := map[string]bool{}
	for _, f := range pkFiles {
		for _, d := range f.Decls {
			fd, ok := d.(*ast.FuncDecl)
			if !ok || fd.Body == nil {
				continue
			}
			var walk func(n ast.Node, inDefer bool)
			walk = func(n ast.Node, inDefer bool) {
				ast.Inspect(n, func(x ast.Node) bool {
					switch v := x.(type) {
					case *ast.DeferStmt:
						if fl, ok := v.Call.Fun.(*ast.FuncLit); ok {
							walk(fl.Body, true)
							return false
						}
					case *ast.AssignStmt:
						for _, lhs := range v.Lhs {
							if se, ok := lhs.(*ast.SelectorExpr); ok && se.Sel.Name == field {
								if id, ok := se.X.(*ast.Ident); ok && id.Name == recvName {
									name := fd.Name.Name
									if inDefer {
										name += "/defer"
									}
									seen[name] = true
								}
							}
						}
					}
					return true
				})
			}
			walk(fd.Body, false)
		}
	}
	var out []string
	for k := range seen {
		out = append(out, k)
	}
	sort.Strings(out)
	return out
}

// closureOf returns the function literal a handler constructor returns.
func closureOf(fd *ast.FuncDecl) *ast.FuncLit {
	var lit *ast.FuncLit
	for _, st := range fd.Body.List {
		if rs, ok := st.(*ast.ReturnStmt); ok && len(rs.Results) == 1 {
			if fl, ok := rs.Results[0].(*ast.FuncLit); ok {
				lit = fl
			}
		}
	}
	return lit
}

func containsCall(n ast.Node, sel string) bool {
	found := false
	ast.Inspect(n, func(x ast.Node) bool {
		if ce, ok := x.(*ast.CallExpr); ok {
			if se, ok := ce.Fun.(*ast.SelectorExpr); ok && se.Sel.Name == sel {
				found = true
			}
		}
		return !found
	})
	return found
}

// earlyReturnsAfterHandler: conditions of the `if c { …; return }` statements (top level of the closure)
// that follow the statement invoking desc.Handler and precede the end of the closure.
func earlyReturnsAfterHandler(fset *token.FileSet, lit *ast.FuncLit) ([]string, bool) {
	idx := -1
	for i, st := range lit.Body.List {
		if containsCall(st, "Handler") {
			idx = i
		}
	}
	if idx < 0 {
		return nil, false
	}
	var conds []string
	for _, st := range lit.Body.List[idx+1:] {
		is, ok := st.(*ast.IfStmt)
		if !ok || len(is.Body.List) == 0 {
			continue
		}
		if rs, ok := is.Body.List[len(is.Body.List)-1].(*ast.ReturnStmt); ok && len(rs.Results) == 0 {
			// only bare early exits that skip the rest of the closure (error rendering returns are inside `if err != nil`)
			if !containsCall(is.Body, "Set") && !containsCall(is.Body, "writeProtoMessage") {
				conds = append(conds, exprText(fset, is.Cond))
			}
		}
	}
	return conds, true
}

// okRewrite: the function contains `if st.Code() == codes.OK { … Code = int32(codes.Internal) … }`
func okRewrite(fset *token.FileSet, n ast.Node) bool {
	found := false
	ast.Inspect(n, func(x ast.Node) bool {
		if is, ok := x.(*ast.IfStmt); ok && exprText(fset, is.Cond) == "st.Code() == codes.OK" {
			if strings.Contains(exprText(fset, is.Body), "int32(codes.Internal)") {
				found = true
			}
		}
		return !found
	})
	return found
}

func firstStmtIsGuard(fset *token.FileSet, fd *ast.FuncDecl, cond string) bool {
	for _, st := range fd.Body.List {
		switch v := st.(type) {
		case *ast.ExprStmt, *ast.DeferStmt: // Lock / defer Unlock
			continue
		case *ast.IfStmt:
			if exprText(fset, v.Cond) != cond || len(v.Body.List) == 0 {
				return false
			}
			rs, ok := v.Body.List[len(v.Body.List)-1].(*ast.ReturnStmt)
			return ok && len(rs.Results) == 1
		default:
			return false
		}
	}
	return false
}

func extractHttpStreams(p *pkgs, out string) {
	l := newLean("HttpStreams.lean", "HTTP stream state machines: who writes cs.rErr, when the stream trailer is skipped, the OK-to-Internal rewrite, the header guard, trailer accumulation")
	pk := p.byPath[mod+"/httpgrpc"]
	if pk == nil {
		fail("httpgrpc", "package", "not loaded")
		must(l.finish(out))
		return
	}
	strs := func(name string, xs []string) {
		var q []string
		for _, x := range xs {
			q = append(q, leanStr(x))
		}
		l.printf("def %s : List String := [%s]\n", name, strings.Join(q, ", "))
	}
	l.printf("/-- the functions of package httpgrpc that assign to `cs.rErr` (the recorded error of a client stream); `/defer` = inside a deferred closure -/\n")
	strs("clientRErrWriters", assignSites(pk.Syntax, "cs", "rErr"))
	l.printf("/-- …and to `cs.done` -/\n")
	strs("clientDoneWriters", assignSites(pk.Syntax, "cs", "done"))
	if _, hs := p.funcDecl(mod+"/httpgrpc", "handleStream"); hs == nil || closureOf(hs) == nil {
		fail("httpgrpc/server.go", "handleStream", "function / returned closure not found")
	} else {
		conds, ok := earlyReturnsAfterHandler(pk.Fset, closureOf(hs))
		if !ok {
			fail("httpgrpc/server.go", "handleStream", "handler invocation not found")
		}
		l.printf("/-- handleStream: conditions under which the closure returns after the handler without writing the trailer frame -/\n")
		strs("streamTrailerSkipConds", conds)
		l.printf("/-- handleStream rewrites a non-nil error whose status says OK to Internal -/\n")
		l.printf("def streamOkRewrite : Bool := %v\n", okRewrite(pk.Fset, hs))
		l.printf("/-- …and sanitises the status message for the proto3 trailer -/\n")
		l.printf("def streamMessageSanitised : Bool := %v\n", strings.Contains(exprText(pk.Fset, hs), "strings.ToValidUTF8(statProto.Message"))
	}
	if _, hm := p.funcDecl(mod+"/httpgrpc", "handleMethod"); hm == nil {
		fail("httpgrpc/server.go", "handleMethod", "function not found")
	} else {
		l.printf("def unaryOkRewrite : Bool := %v\n", okRewrite(pk.Fset, hm))
		txt := exprText(pk.Fset, hm)
		hi, ti, ei := strings.Index(txt, "toHeaders(sts.GetHeaders()"), strings.Index(txt, "toHeaders(sts.GetTrailers()"), strings.Index(txt, "if err != nil { st, ok := status.FromError(err)")
		l.printf("/-- handleMethod writes the metadata headers and the X-GRPC-Trailer- headers before it looks at the handler's error -/\n")
		l.printf("def unaryMetadataBeforeOutcome : Bool := %v\n", hi >= 0 && ti > hi && ei > ti)
	}
	if _, inv := p.methodDecl(mod+"/httpgrpc", "Channel", "Invoke"); inv == nil {
		fail("httpgrpc/client.go", "Channel.Invoke", "method not found")
	} else {
		txt := exprText(pk.Fset, inv)
		mi, si := strings.Index(txt, "setMetadata(reply.Header"), strings.Index(txt, "statFromResponse(reply)")
		l.printf("/-- Channel.Invoke copies headers/trailers to the call options before it looks at the status -/\n")
		l.printf("def unaryClientMetadataBeforeStatus : Bool := %v\n", mi >= 0 && si > mi)
		sel := strings.Index(txt, "case <-respCh: }")
		tr := -1
		if sel >= 0 {
			tr = strings.Index(txt[sel:], "if err != nil { if ctxErr := ctx.Err(); ctxErr != nil {")
		}
		l.printf("/-- Channel.Invoke: a body-read error met after the select is reported as the context's status when the context is done -/\n")
		l.printf("def unaryBodyErrTranslated : Bool := %v\n", sel >= 0 && tr >= 0 && strings.Contains(txt[sel+tr:], "return statusFromContextError(ctxErr)"))
	}
	if _, sh := p.methodDecl(mod+"/httpgrpc", "serverStream", "setHeader"); sh == nil {
		fail("httpgrpc/server.go", "serverStream.setHeader", "method not found")
	} else {
		l.printf("/-- serverStream.setHeader refuses once headersSent, before touching the header map -/\n")
		l.printf("def serverHeaderGuardFirst : Bool := %v\n", firstStmtIsGuard(pk.Fset, sh, "s.headersSent"))
	}
	if _, st := p.methodDecl(mod+"/httpgrpc", "serverStream", "SetTrailer"); st == nil {
		fail("httpgrpc/server.go", "serverStream.SetTrailer", "method not found")
	} else {
		l.printf("/-- serverStream.SetTrailer accumulates: `s.tr = append(s.tr, <a copy of md>)` -/\n")
		txt := exprText(pk.Fset, st)
		l.printf("def serverTrailerAppends : Bool := %v\n", strings.Contains(txt, "s.tr = append(s.tr, md.Copy())"))
	}
	if _, sm := p.methodDecl(mod+"/httpgrpc", "serverStream", "SendMsg"); sm == nil {
		fail("httpgrpc/server.go", "serverStream.SendMsg", "method not found")
	} else {
		txt := exprText(pk.Fset, sm)
		l.printf("/-- serverStream.SendMsg: io.EOF after a failed write; headersSent set; a failed write is remembered -/\n")
		l.printf("def serverSendShape : Bool := %v\n", firstStmtIsGuard(pk.Fset, sm, "s.writeFailed") && strings.Contains(txt, "s.headersSent = true") && strings.Contains(txt, "s.writeFailed = true"))
	}
	if _, rm := p.methodDecl(mod+"/httpgrpc", "serverStream", "RecvMsg"); rm == nil {
		fail("httpgrpc/server.go", "serverStream.RecvMsg", "method not found")
	} else {
		txt := exprText(pk.Fset, rm)
		l.printf("/-- serverStream.RecvMsg: single-request methods answer io.EOF after the first call and probe for a second frame, accepting only a clean io.EOF -/\n")
		l.printf("def serverSingleRequestProbe : Bool := %v\n", strings.Contains(txt, "if !s.respStream && s.recvd > 0 { return io.EOF }") && strings.Contains(txt, "_, err = readSizePreface(s.r.Body) if err != io.EOF {"))
	}
	must(l.finish(out))
}
