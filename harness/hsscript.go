//go:build verif

package main

// HS scripts: the server side of one streaming call over HTTP, driven deterministically.
// The request body is built from a list of items, the handler executes a list of operations on
// its grpc.ServerStream, and a recording ResponseWriter notes what reaches the wire (the header
// block at the moment the status line goes out, data frames, the trailer frame). The Lean model
// HttpServerStream.step is deterministic, so the driver must reproduce every result and the
// whole wire exactly.

import (
	"bytes"
	"context"
	"encoding/binary"
	"errors"
	"fmt"
	"net/http"
	"net/http/httptest"
	"sort"
	"strconv"
	"strings"

	"github.com/fullstorydev/grpchan/httpgrpc"
	"google.golang.org/grpc"
	"google.golang.org/grpc/codes"
	"google.golang.org/grpc/metadata"
	"google.golang.org/grpc/status"
	"google.golang.org/protobuf/proto"
)

type hsWriter struct {
	h       http.Header
	broken  bool
	headOut bool
	wire    []string // canonical: H[ids] at the point the status line went out
	body    bytes.Buffer
	status  int
}

func (w *hsWriter) Header() http.Header { return w.h }
func (w *hsWriter) noteHead() {
	if w.headOut {
		return
	}
	w.headOut = true
	w.wire = append(w.wire, "H["+idsOf(w.h)+"]")
}
func (w *hsWriter) WriteHeader(code int) {
	w.status = code
	w.noteHead()
}
func (w *hsWriter) Write(b []byte) (int, error) {
	if w.broken {
		return 0, errors.New("connection reset by peer")
	}
	w.noteHead()
	return w.body.Write(b)
}
func (w *hsWriter) Flush() {}

// idsOf lists the ids of the script metadata (keys k<id>) found in a header block / metadata, sorted
func idsOf(h map[string][]string) string {
	var ids []int
	for k, vs := range h {
		lk := strings.ToLower(k)
		if len(lk) > 1 && lk[0] == 'k' {
			if id, err := strconv.Atoi(lk[1:]); err == nil && len(vs) == 1 && vs[0] == "v"+lk[1:] {
				ids = append(ids, id)
			} else if err == nil {
				ids = append(ids, -id) // present but altered
			}
		}
	}
	sort.Ints(ids)
	var parts []string
	for _, id := range ids {
		parts = append(parts, strconv.Itoa(id))
	}
	return strings.Join(parts, "+")
}

func scriptMD(id int) metadata.MD { return metadata.Pairs("k"+strconv.Itoa(id), "v"+strconv.Itoa(id)) }

type hsScript struct {
	clientStreams bool
	req           []string // d<id> | x<id> (undecodable payload) | cut
	ops           []string
	results       []string
	wire          []string
	httpStatus    int
	handlerRan    bool
	nReqData      int
}

func (sc *hsScript) line() string {
	return sprintf("HS cs=%s req=%s ops=%s", b01(sc.clientStreams), dashIfEmpty(strings.Join(sc.req, ",")), dashIfEmpty(strings.Join(sc.ops, ";")))
}
func (sc *hsScript) answer() string {
	return sprintf("res=%s wire=%s", dashIfEmpty(strings.Join(sc.results, ",")), dashIfEmpty(strings.Join(sc.wire, ",")))
}
func (sc *hsScript) desc() map[string]interface{} {
	return map[string]interface{}{"side": "http-server-stream", "client_streams": sc.clientStreams, "request_body": strings.Join(sc.req, ","),
		"handler_ops": strings.Join(sc.ops, ";"), "results": strings.Join(sc.results, ","), "wire": strings.Join(sc.wire, ",")}
}
func dashIfEmpty(s string) string {
	if s == "" {
		return "-"
	}
	return s
}

type hsNotProto struct{ A int }

func hsRetErr(arg string) error {
	switch {
	case arg == "nil":
		return nil
	case arg == "plain":
		return errors.New("plain failure")
	case arg == "ctx:canceled":
		return context.Canceled
	case arg == "ctx:deadline":
		return context.DeadlineExceeded
	case arg == "status:0":
		return okCodeErr{"ok-coded failure"}
	case strings.HasPrefix(arg, "status:"):
		c, _ := strconv.Atoi(arg[7:])
		return status.Error(codes.Code(c), "scripted")
	}
	panic("bad ret " + arg)
}

// runHSScript executes one script against the real handler chain (Server.ServeHTTP → handleStream → serverStream).
func runHSScript(clientStreams bool, req []string, ops []string) *hsScript {
	sc := &hsScript{clientStreams: clientStreams, req: req, ops: ops}
	var body bytes.Buffer
	for _, it := range req {
		switch {
		case it == "cut":
			b := make([]byte, 4)
			binary.BigEndian.PutUint32(b, 10)
			body.Write(append(b, 1, 2, 3))
		case it == "cutp": // the body ends right after a complete size preface
			b := make([]byte, 4)
			binary.BigEndian.PutUint32(b, 10)
			body.Write(b)
		case it == "cuth": // the body ends inside a size preface
			body.Write([]byte{0, 0})
		case it[0] == 'd':
			id, _ := strconv.Atoi(it[1:])
			p, _ := proto.Marshal(&Msg{Count: int32(id)})
			body.Write(frameBytes(p, false))
			sc.nReqData++
		case it[0] == 'x':
			body.Write(frameBytes([]byte{0xff, 0xff, 0xff, 0x07}, false)) // not a valid encoding of Msg
		}
	}
	w := &hsWriter{h: http.Header{}}
	handler := func(srv interface{}, stream grpc.ServerStream) error {
		sc.handlerRan = true
		var ret error
		for _, op := range ops {
			name, arg := op, ""
			if i := strings.Index(op, ":"); i >= 0 {
				name, arg = op[:i], op[i+1:]
			}
			switch name {
			case "sethdr", "sendhdr":
				id, _ := strconv.Atoi(arg)
				var err error
				if name == "sethdr" {
					err = stream.SetHeader(scriptMD(id))
				} else {
					err = stream.SendHeader(scriptMD(id))
				}
				sc.results = append(sc.results, hcRes(err))
			case "settlr":
				id, _ := strconv.Atoi(arg)
				stream.SetTrailer(scriptMD(id))
				sc.results = append(sc.results, "ok")
			case "send":
				parts := strings.Split(arg, ":")
				id, _ := strconv.Atoi(parts[0])
				var err error
				if parts[1] == "1" {
					err = stream.SendMsg(&Msg{Count: int32(id)})
				} else {
					err = stream.SendMsg(&hsNotProto{A: id})
				}
				sc.results = append(sc.results, hcRes(err))
			case "recv":
				var m Msg
				if err := stream.RecvMsg(&m); err != nil {
					sc.results = append(sc.results, hcRes(err))
				} else {
					sc.results = append(sc.results, "msg:"+strconv.Itoa(int(m.Count)))
				}
			case "break":
				w.broken = true
				sc.results = append(sc.results, "ok")
			case "ret":
				ret = hsRetErr(arg)
				sc.results = append(sc.results, "ok")
				return ret
			}
		}
		return ret
	}
	sd := &grpc.ServiceDesc{ServiceName: "s.S", HandlerType: (*synthHandler)(nil),
		Streams: []grpc.StreamDesc{{StreamName: "M", ClientStreams: clientStreams, ServerStreams: true, Handler: handler}}}
	hs := httpgrpc.NewServer()
	hs.RegisterService(sd, synthImpl{})
	r := httptest.NewRequest("POST", "http://hs.test/s.S/M", bytes.NewReader(body.Bytes()))
	r.Header.Set("Content-Type", httpgrpc.StreamRpcContentType_V1)
	hs.ServeHTTP(w, r)
	sc.httpStatus = w.status
	// parse what was written to the body into frames
	b := w.body.Bytes()
	for len(b) >= 4 {
		sz := int32(binary.BigEndian.Uint32(b[:4]))
		b = b[4:]
		n := int(sz)
		if sz < 0 {
			n = int(-sz)
		}
		if n > len(b) {
			w.wire = append(w.wire, "partial")
			b = nil
			break
		}
		if sz < 0 {
			var tr httpgrpc.HttpTrailer
			if err := proto.Unmarshal(b[:n], &tr); err != nil {
				w.wire = append(w.wire, "T?")
			} else {
				md := map[string][]string{}
				for k, v := range tr.Metadata {
					md[k] = v.Values
				}
				w.wire = append(w.wire, sprintf("T%d[%s]", tr.Code, idsOf(md)))
			}
		} else {
			var m Msg
			if err := proto.Unmarshal(b[:n], &m); err != nil {
				w.wire = append(w.wire, "D?")
			} else {
				w.wire = append(w.wire, "D"+strconv.Itoa(int(m.Count)))
			}
		}
		b = b[n:]
	}
	if len(b) > 0 {
		w.wire = append(w.wire, "partial")
	}
	sc.wire = w.wire
	return sc
}

// genHSScript: a random script — mostly well-formed bodies and handler programs, plus the edges
// (undecodable and truncated request frames, unencodable responses, a connection that breaks).
func genHSScript(rng *Rng) (bool, []string, []string) {
	clientStreams := rng.Chance(50)
	var req []string
	nreq := rng.Intn(4)
	if !clientStreams && rng.Chance(60) {
		nreq = 1
	}
	for i := 0; i < nreq; i++ {
		if rng.Chance(10) {
			req = append(req, "x"+strconv.Itoa(100+i))
		} else if rng.Chance(15) {
			req = append(req, "d0") // a message whose encoding is empty: a frame with size preface 0
		} else {
			req = append(req, "d"+strconv.Itoa(100+i))
		}
	}
	if rng.Chance(12) {
		req = append(req, []string{"cut", "cutp", "cuth"}[rng.Intn(3)])
	}
	var ops []string
	n := 1 + rng.Intn(10)
	id := 1
	for i := 0; i < n; i++ {
		id++
		switch c := rng.Intn(20); {
		case c < 5:
			ops = append(ops, "recv")
		case c < 9:
			enc := "1"
			if rng.Chance(8) {
				enc = "0"
			}
			ops = append(ops, sprintf("send:%d:%s", 200+id, enc))
		case c < 12:
			ops = append(ops, "sethdr:"+strconv.Itoa(id))
		case c < 14:
			ops = append(ops, "sendhdr:"+strconv.Itoa(id))
		case c < 18:
			ops = append(ops, "settlr:"+strconv.Itoa(id))
		case c < 19:
			ops = append(ops, "break")
		default:
			ops = append(ops, "recv")
		}
	}
	rets := []string{"nil", "nil", "nil", "plain", "ctx:canceled", "ctx:deadline", "status:0", "status:" + strconv.Itoa(1+rng.Intn(16)), "status:" + strconv.Itoa(17+rng.Intn(80))}
	ops = append(ops, "ret:"+rets[rng.Intn(len(rets))])
	return clientStreams, req, ops
}

// hsSuite: scripts through the real server, answers compared with the model by the driver, and the
// clauses of the property judged directly on what reached the wire.
func hsSuite(r *Run, prop string) {
	rng := r.Rng.Fork("hs")
	// HS.txt: "<client-streams 0|1> <req items, comma separated, or -> <op;op;...>"
	for _, f := range corpusLines("HS") {
		if len(f) != 3 {
			continue
		}
		var req []string
		if f[1] != "-" {
			req = strings.Split(f[1], ",")
		}
		sc := runHSScript(f[0] == "1", req, strings.Split(f[2], ";"))
		r.Op(sc.line(), sc.answer())
		r.Count("corpus:HS")
		r.Eval(sc.line(), hsOracle(r, prop, sc))
	}
	n := r.Budget(300, 6000)
	for i := 0; i < n; i++ {
		cs, req, ops := genHSScript(rng)
		r.Begin("http-server/stream/process-crash", "no panic", map[string]interface{}{"client_streams": cs, "request_body": strings.Join(req, ","), "handler_ops": strings.Join(ops, ";")})
		sc := runHSScript(cs, req, ops)
		r.Op(sc.line(), sc.answer())
		r.Count("transport:http-server-stream")
		nv := len(r.Violations)
		r.Eval(sc.line(), hsOracle(r, prop, sc))
		for _, v := range r.Violations[nv:] {
			// a new kind of failure: shrink the script (deterministic engine) and keep the minimal form with the violation
			sig := v.Signature
			still := func(rq, op []string) bool {
				if len(op) == 0 || !strings.HasPrefix(op[len(op)-1], "ret:") {
					return false
				}
				pr := newProbe(r)
				hsOracle(pr, prop, runHSScript(cs, rq, op))
				return hasSig(pr.Violations, sig)
			}
			minOps := shrinkOps(ops, func(c []string) bool { return still(req, c) })
			minReq := shrinkOps(req, func(c []string) bool { return still(c, minOps) })
			r.attachMinimal(sig, map[string]interface{}{"request_body": strings.Join(minReq, ","), "handler_ops": strings.Join(minOps, ";")})
		}
		if r.Dist["hs-samples"] < 2 {
			r.Dist["hs-samples"]++
			r.Sample(sc.desc())
		}
	}
}

func hsOracle(r *Run, prop string, sc *hsScript) (nontrivial bool) {
	desc, line := sc.desc(), sc.line()
	broke, sendFailed := false, false
	var okHdr, tlrs []string
	var retArg string
	for i, op := range sc.ops {
		name, arg := op, ""
		if j := strings.Index(op, ":"); j >= 0 {
			name, arg = op[:j], op[j+1:]
		}
		res := ""
		if i < len(sc.results) {
			res = sc.results[i]
		}
		switch name {
		case "break":
			broke = true
		case "send":
			if res != "ok" {
				sendFailed = true
			}
		case "sethdr", "sendhdr":
			if res == "ok" {
				okHdr = append(okHdr, arg)
			}
		case "settlr":
			tlrs = append(tlrs, arg)
		case "ret":
			retArg = arg
		}
	}
	sortNum := func(a []string) string {
		var ids []int
		for _, s := range a {
			n, _ := strconv.Atoi(s)
			ids = append(ids, n)
		}
		sort.Ints(ids)
		var p []string
		for _, n := range ids {
			p = append(p, strconv.Itoa(n))
		}
		return strings.Join(p, "+")
	}
	wire := strings.Join(sc.wire, ",")
	intact := !broke && !sendFailed
	switch prop {
	case "C03":
		nontrivial = len(okHdr)+len(tlrs) > 0
		if len(sc.wire) > 0 && sc.wire[0] != "H["+sortNum(okHdr)+"]" {
			r.Violate("http-server/stream/header-block-differs", "response headers arrive complete, unaltered", sprintf("the header block went out as %s; the handler's successful SetHeader/SendHeader calls set [%s]", sc.wire[0], sortNum(okHdr)), desc, line)
		}
		if intact && (len(sc.wire) == 0 || !strings.HasSuffix(sc.wire[len(sc.wire)-1], "["+sortNum(tlrs)+"]") || sc.wire[len(sc.wire)-1][0] != 'T') {
			r.Violate("http-server/stream/trailer-metadata-differs", "trailers … arrive complete, unaltered … no later than the final status", sprintf("wire %s; the handler set trailers [%s]", wire, sortNum(tlrs)), desc, line)
		}
	case "C02", "C11":
		nontrivial = true
		if sendFailed && len(sc.wire) > 0 && strings.HasPrefix(sc.wire[len(sc.wire)-1], "T0[") {
			r.Violate("http-server/stream/ok-trailer-after-lost-response", "a response that is lost, truncated or cannot be encoded or decoded is always reported as an error", sprintf("a SendMsg failed (the response was not sent), yet the reply ends with an OK trailer: wire %s", wire), desc, line)
		}
		if intact {
			want := map[string]string{"nil": "0", "plain": "2", "ctx:canceled": "1", "ctx:deadline": "4", "status:0": "13"}[retArg]
			if want == "" {
				want = strings.TrimPrefix(retArg, "status:")
			}
			last := ""
			if len(sc.wire) > 0 {
				last = sc.wire[len(sc.wire)-1]
			}
			if !strings.HasPrefix(last, "T"+want+"[") {
				r.Violate("http-server/stream/trailer-status-differs", "the outcome reported to the client equals the status the server handler returned; every reply to a valid stream request ends with exactly one trailer frame", sprintf("handler returned %s; wire %s", retArg, wire), desc, line)
			}
			nT := 0
			for _, x := range sc.wire {
				if x[0] == 'T' {
					nT++
				}
			}
			if nT != 1 {
				r.Violate("http-server/stream/trailer-count", "exactly one trailer frame, last", sprintf("wire %s", wire), desc, line)
			}
		}
	case "C08", "C01":
		nontrivial = sc.nReqData > 0
		var got []string
		for i, op := range sc.ops {
			if op == "recv" && i < len(sc.results) && strings.HasPrefix(sc.results[i], "msg:") {
				got = append(got, "d"+sc.results[i][4:])
			}
		}
		if !sc.clientStreams && len(got) > 0 && (len(sc.req) != 1 || got[0] != sc.req[0] || len(got) > 1) {
			r.Violate("http-server/stream/single-request-violated", "over HTTP the server likewise rejects a second request message on methods that take a single request", sprintf("request body %v; handler's RecvMsg delivered %v", sc.req, got), desc, line)
		}
		// delivered messages are the decodable frames of a prefix of the body, in order
		k := 0
		for _, g := range got {
			for k < len(sc.req) && sc.req[k] != g {
				if sc.req[k][0] == 'd' {
					k = len(sc.req) + 1 // skipped a decodable message
				} else {
					k++
				}
			}
			if k >= len(sc.req) {
				r.Violate("http-server/stream/request-not-prefix", "the messages a receiver has obtained are at every moment a prefix of what its peer sent", sprintf("request body %v; handler's RecvMsg delivered %v", sc.req, got), desc, line)
				break
			}
			k++
		}
	}
	return
}

var _ = fmt.Sprint
