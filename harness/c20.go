package main

import (
	"fmt"
	"strings"
)

func init() { suites["C20"] = suiteC20 }

func suiteC20(r *Run) {
	r.Rule = "in-process streams of every kind driven by quiescence-sequenced scripts in which one side never receives: client sends with a handler that never calls RecvMsg, handler sends (with and without pending headers) with a client that never calls RecvMsg; plus random scripts. Counted: sends that complete while the peer has received k messages. Non-trivial: a send was observed blocked; distinct by script."
	r.Assumptions = append(r.Assumptions, "goroutine park states read from runtime.Stack identify blocked operations")
	rng := r.Rng
	n := r.Budget(300, 6000)
	for i := 0; i < n; i++ {
		kind := []string{"cstream", "bidi", "sstream"}[i%3]
		o := isOpts{steps: 6 + rng.Intn(8), allowCancel: false}
		mode := i % 7 // (7 modes x 3 kinds: every mode meets every kind)
		switch mode {
		case 6:
			// the handler receives a few messages while the client keeps sending, then stalls
			o.sendHeavy, o.noClientRecv = true, true
			o.steps = 10 + rng.Intn(10)
		case 0:
			o.noServerRecv, o.sendHeavy = true, true
		case 1:
			o.noClientRecv = true
		case 2:
			o.noServerRecv, o.noClientRecv = true, true
		case 4, 5:
			// the client receives a few messages while the handler keeps sending, then stalls
			o.hSendHeavy, o.noServerRecv = true, mode == 5
			o.steps = 10 + rng.Intn(10)
		}
		sc := runInprocScript(rng, kind, o)
		// oracle: a sender never runs ahead of its receiver by more than one buffered message
		cSendsDone, hRecvs := 0, 0
		hSendsDone, cRecvFrames, headerCalls := 0, 0, 0
		sawSecondResponseError := false
		sawBlocked := false
		done := false
		pendingSend := map[string]bool{}
		recvIssued := false // the client has called RecvMsg at least once
		lastCrOp := ""
		csSendOpen, hReturned := false, false // a client SendMsg without a result yet; the handler function has returned
		for _, st := range sc.steps {
			if st.actor == "cs" && st.op == "send" {
				csSendOpen = true
			}
			if st.actor == "cr" && st.op == "recv" {
				recvIssued = true
			}
			if st.actor == "cr" {
				lastCrOp = st.op // the receiving side issues one operation at a time: its next result belongs to this one
			}
			if _, ok := evRes(st.evs, "cs"); ok {
				csSendOpen = false
			}
			if st.actor == "h" && st.op == "return" {
				hReturned = true
			}
			// "…blocks until the peer receives, the peer finishes, or the context ends": once the handler has returned, a client
			// send held back by the full buffer is released (the handler's own closing frames may still wait for the client to receive)
			if hReturned && csSendOpen {
				r.Violate("inproc/backpressure/send-blocked-after-peer-finished", "the next send blocks until the peer receives, the peer finishes, or the context ends",
					sprintf("a client SendMsg was still blocked at quiescence after the handler had returned (step %q by %s)", st.op, st.actor), sc.desc(), sc.line())
				break
			}
			if st.op == "send" {
				pendingSend[st.actor] = true
			} else if st.actor == "cs" || st.actor == "h" {
				pendingSend[st.actor] = false
			}
			for _, e := range st.evs {
				// a Header() that found no headers frame has looked at the first frame of the stream and may hold (peek) one
				// data frame; one that returned the handler's headers took exactly the headers frame and nothing else
				if e == "cr:md:-" && lastCrOp == "header" {
					headerCalls = 1 // (Trailer() never looks at the stream)
				}
				if strings.HasPrefix(e, "cr:msg:") {
					headerCalls = 0 // the message Header() may have been holding has been handed out
				}
			}
			if st.actor == "env" || (st.actor == "h" && st.op == "return") {
				done = true // the peer finishes / the context ends: sends may now complete
			}
			for _, e := range st.evs {
				switch {
				case e == "cs:ok" && !done && pendingSend["cs"]:
					cSendsDone++
					pendingSend["cs"] = false
				case e == "h:ok" && !done && pendingSend["h"]:
					hSendsDone++
					pendingSend["h"] = false
				case strings.HasPrefix(e, "h:msg:"):
					hRecvs++
				case strings.HasPrefix(e, "cr:msg:"):
					cRecvFrames++
				case e == "cr:status:13" && sc.kind == "cstream":
					sawSecondResponseError = true
				}
			}
			if st.op == "send" {
				if _, ok := evRes(st.evs, st.actor); !ok {
					sawBlocked = true
				}
			}
			// (on a single-response method the client's look-ahead for a second message may hold one more frame)
			lookAhead := 0
			if sc.kind == "cstream" && recvIssued {
				// (only a RecvMsg looks ahead; Header() and Trailer() never do)
				lookAhead = 1
				if sawSecondResponseError {
					lookAhead = 2 // the look-ahead took the second frame off the channel and rejected it
				}
			}
			if !done && hSendsDone > cRecvFrames+headerCalls+1+lookAhead {
				r.Violate("inproc/backpressure/handler-runs-ahead", "a sender cannot run ahead of its receiver by more than one buffered message per direction",
					sprintf("%d handler sends completed while the client received %d messages (Header() calls that may have peeked one: %d)", hSendsDone, cRecvFrames, headerCalls), sc.desc(), sc.line())
				break
			}
			if !done && cSendsDone > hRecvs+1 {
				r.Violate("inproc/backpressure/client-runs-ahead", "a sender cannot run ahead of its receiver by more than one buffered message per direction",
					sprintf("%d client sends completed while the handler received %d messages", cSendsDone, hRecvs), sc.desc(), sc.line())
				break
			}
		}
		// count closesend "cs:ok" as a send? closesend also reports cs:ok: recount precisely
		r.Op(sc.line(), "observed")
		r.Eval(sc.line(), sawBlocked)
		r.Count("kind:" + sc.kind)
		r.TracesOnImpl++
		if sc.hung {
			r.Violate("inproc/script/never-quiescent", "operations complete or block", "the call never became quiescent", sc.desc(), sc.line())
		}
		if len(sc.panics) > 0 {
			r.Violate("inproc/panic", "no interleaving makes the library panic", fmt.Sprint(sc.panics), sc.desc(), sc.line())
		}
		if len(r.Samples) < 4 && sawBlocked {
			r.Sample(sc.desc())
		}
	}
}
