package main

import (
	"strconv"
	"strings"
)

// opRec is one operation of a script together with the result it eventually got.
type opRec struct {
	step     int // index of the step that issued it
	actor    string
	op       string
	arg      int
	herr     string
	res      string // "" = never completed
	doneStep int    // step at whose quiescence the result was observed (-1 = never)
}

// history is the per-operation view of a script.
type history struct {
	sc         *isScript
	ops        []*opRec
	cancelStep int    // -1 if the context was never ended by the script proper (the final drain does not count)
	cancelKind string // cancel | expire
	returnStep int    // step of h.return (-1 if only the drain returned)
	returnErr  string
	drainFrom  int // index of the first drain step
}

func analyse(sc *isScript) *history {
	h := &history{sc: sc, cancelStep: -1, returnStep: -1, drainFrom: sc.bodyLen}
	pending := map[string]*opRec{}
	for i, st := range sc.steps {
		if st.actor == "env" {
			if i < h.drainFrom && h.cancelStep < 0 {
				h.cancelStep, h.cancelKind = i, st.op
			}
		} else {
			rec := &opRec{step: i, actor: st.actor, op: st.op, arg: st.arg, herr: st.herr, doneStep: -1}
			h.ops = append(h.ops, rec)
			if st.op == "return" {
				rec.res, rec.doneStep = "returned", i
				if i < h.drainFrom {
					h.returnStep, h.returnErr = i, st.herr
				}
			} else {
				pending[st.actor] = rec
			}
		}
		for _, e := range st.evs {
			j := strings.Index(e, ":")
			a, res := e[:j], e[j+1:]
			if rec := pending[a]; rec != nil {
				rec.res, rec.doneStep = res, i
				delete(pending, a)
			}
		}
	}
	return h
}

func (h *history) byActorOp(actor, op string) []*opRec {
	var res []*opRec
	for _, o := range h.ops {
		if o.actor == actor && o.op == op {
			res = append(res, o)
		}
	}
	return res
}

func msgOf(res string) (int, bool) {
	if strings.HasPrefix(res, "msg:") {
		n, err := strconv.Atoi(res[4:])
		return n, err == nil
	}
	return 0, false
}

// received lists the messages an actor's recv ops returned, in order.
func (h *history) received(actor string) []int {
	var ms []int
	for _, o := range h.byActorOp(actor, "recv") {
		if m, ok := msgOf(o.res); ok {
			ms = append(ms, m)
		}
	}
	return ms
}

// sent lists the messages an actor attempted to send, in order, and those whose send returned nil.
func (h *history) sent(actor string) (attempted, ok []int) {
	for _, o := range h.byActorOp(actor, "send") {
		attempted = append(attempted, o.arg)
		if o.res == "ok" {
			ok = append(ok, o.arg)
		}
	}
	return
}

func isPrefix(a, b []int) bool {
	if len(a) > len(b) {
		return false
	}
	for i := range a {
		if a[i] != b[i] {
			return false
		}
	}
	return true
}

func equalInts(a, b []int) bool { return len(a) == len(b) && isPrefix(a, b) }

// isSubsequencePrefixOfSent: the receiver's view must be a prefix of what the peer handed to SendMsg.
func intsStr(a []int) string {
	var s []string
	for _, x := range a {
		s = append(s, strconv.Itoa(x))
	}
	return "[" + strings.Join(s, ",") + "]"
}

// expected client outcome for a handler return value, as seen through status.Code
func expectFinal(herr string) string {
	switch {
	case herr == "nil":
		return "eof"
	case herr == "plain":
		return "code:2"
	case herr == "ctx:canceled":
		return "code:1"
	case herr == "ctx:deadline":
		return "code:4"
	case strings.HasPrefix(herr, "status:"):
		return "code:" + herr[7:]
	}
	return "?"
}

// codeClass maps an observed result to "eof" | "ok" | "code:N" | other
func codeClass(res string) string {
	switch {
	case res == "eof" || res == "ok":
		return res
	case strings.HasPrefix(res, "status:"):
		return "code:" + res[7:]
	case res == "plain":
		return "code:2" // a non-status error reads as Unknown through status.Code
	case strings.HasPrefix(res, "msg:"):
		return "msg"
	}
	return res
}
