package main

import (
	"context"
	"errors"
	"fmt"
	"io"
	"sort"
	"strings"
	"sync"

	"google.golang.org/grpc/codes"
	"google.golang.org/grpc/metadata"
	"google.golang.org/grpc/status"
)

type counter struct {
	mu sync.Mutex
	m  map[string]int
}

func (c *counter) inc(k string) {
	c.mu.Lock()
	defer c.mu.Unlock()
	if c.m == nil {
		c.m = map[string]int{}
	}
	c.m[k]++
}
func (c *counter) get(k string) int {
	c.mu.Lock()
	defer c.mu.Unlock()
	return c.m[k]
}
func (c *counter) total() int {
	c.mu.Lock()
	defer c.mu.Unlock()
	n := 0
	for _, v := range c.m {
		n += v
	}
	return n
}

// canonErr maps an error to the small canonical vocabulary compared between
// model and implementation: ok | eof | status(code,msg-hex,ndetails) |
// nonstatus(kind).
func canonErr(err error) string {
	if err == nil {
		return "ok"
	}
	if err == io.EOF {
		return "eof"
	}
	if st, ok := status.FromError(err); ok {
		return fmt.Sprintf("status(%d,%s,%d)", uint32(st.Code()), hexOrDash([]byte(st.Message())), len(st.Proto().GetDetails()))
	}
	switch {
	case errors.Is(err, context.Canceled):
		return "nonstatus(context-canceled)"
	case errors.Is(err, context.DeadlineExceeded):
		return "nonstatus(context-deadline)"
	case errors.Is(err, io.ErrUnexpectedEOF):
		return "nonstatus(unexpected-eof)"
	case errors.Is(err, io.ErrClosedPipe):
		return "nonstatus(closed-pipe)"
	}
	return "nonstatus(other)"
}

func errClass(err error) string {
	if err == nil {
		return "ok"
	}
	if err == io.EOF {
		return "eof"
	}
	if st, ok := status.FromError(err); ok {
		return "status:" + st.Code().String()
	}
	return canonErr(err)
}

func codeOf(err error) codes.Code {
	if err == nil {
		return codes.OK
	}
	return status.Code(err)
}

// canonMD renders metadata as sorted `key=hex,hex;key=hex`.
func canonMD(md metadata.MD) string {
	if len(md) == 0 {
		return "-"
	}
	keys := make([]string, 0, len(md))
	for k := range md {
		keys = append(keys, k)
	}
	sort.Strings(keys)
	var b strings.Builder
	for i, k := range keys {
		if i > 0 {
			b.WriteByte(';')
		}
		b.WriteString(hexOrDash([]byte(k)))
		b.WriteByte('=')
		for j, v := range md[k] {
			if j > 0 {
				b.WriteByte(',')
			}
			b.WriteString(hexOrDash([]byte(v)))
		}
	}
	return b.String()
}

func recoverTo(dst *string) {
	if p := recover(); p != nil {
		*dst = fmt.Sprintf("panic:%v", p)
	}
}
