package main

import (
	"context"
	"errors"
	"fmt"
	"io"
	"regexp"
	"runtime"
	"sort"
	"strconv"
	"strings"
	"sync"
	"time"

	"github.com/fullstorydev/grpchan/grpchantesting"
	"google.golang.org/grpc"
	"google.golang.org/grpc/codes"
	"google.golang.org/grpc/metadata"
	"google.golang.org/grpc/status"
)

// ---------------------------------------------------------------------------
// quiescence-sequenced actor scripts
//
// A script is a sequence of (actor, op). Each op is started on its actor's
// goroutine; the engine then waits until the op has returned or every
// goroutine that has library or actor frames on its stack is parked (channel
// operation, select, mutex, cond, waitgroup), stable over two polls. Ops that
// were blocked and complete later are reported at the step that released them.

type actor struct {
	name    string
	ops     chan func() string
	results chan string
	busy    bool // an op was issued and its result not yet collected
}

func newActor(name string) *actor {
	a := &actor{name: name, ops: make(chan func() string), results: make(chan string, 1)}
	go a.run()
	return a
}

func (a *actor) run() {
	for f := range a.ops {
		a.results <- safeCall(f)
	}
}

func safeCall(f func() string) (res string) {
	defer func() {
		if p := recover(); p != nil {
			res = "panic:" + strings.ReplaceAll(fmt.Sprint(p), " ", "_")
		}
	}()
	return f()
}

var goroutineHdr = regexp.MustCompile(`(?m)^goroutine (\d+) \[([^\]]+)\]:`)

var parkedStates = map[string]bool{"chan receive": true, "chan send": true, "select": true, "sync.Mutex.Lock": true, "semacquire": true,
	"sync.Cond.Wait": true, "sync.WaitGroup.Wait": true, "sync.RWMutex.RLock": true, "sync.RWMutex.Lock": true, "select (no cases)": true,
	"chan receive (nil chan)": true, "IO wait": true, "sleep": true, "finalizer wait": true, "GC assist wait": false}

// relevant goroutines: library code or our actors / handler command loops
func isRelevantStack(s string) bool {
	return strings.Contains(s, "grpchan/inprocgrpc.") || strings.Contains(s, "grpchan/httpgrpc.") || strings.Contains(s, "main.(*actor).run") ||
		strings.Contains(s, "main.(*handlerLoop)") || strings.Contains(s, "main.(*memTransport)") || strings.Contains(s, "io.(*pipe)") || strings.Contains(s, "main.(*scriptedBody)") || strings.Contains(s, "main.(*scriptedTransport)")
}

var stackBuf = make([]byte, 1<<20)

// census returns a fingerprint of the relevant goroutines and whether all of them are parked.
func census() (string, bool) {
	n := runtime.Stack(stackBuf, true)
	for n == len(stackBuf) {
		stackBuf = make([]byte, 2*len(stackBuf))
		n = runtime.Stack(stackBuf, true)
	}
	dump := string(stackBuf[:n])
	parts := strings.Split(dump, "\n\n")
	var fp []string
	allParked := true
	for i, p := range parts {
		if i == 0 {
			continue // the calling goroutine
		}
		m := goroutineHdr.FindStringSubmatch(p)
		if m == nil || !isRelevantStack(p) {
			continue
		}
		st := m[2]
		if j := strings.Index(st, ","); j >= 0 {
			st = st[:j] // "chan receive, 2 minutes"
		}
		if !parkedStates[st] {
			allParked = false
		}
		fp = append(fp, m[1]+":"+st)
	}
	sort.Strings(fp)
	return strings.Join(fp, ","), allParked
}

type engine struct {
	actors map[string]*actor
	order  []string
	hung   bool
}

func newEngine(names ...string) *engine {
	e := &engine{actors: map[string]*actor{}}
	for _, n := range names {
		e.actors[n] = newActor(n)
		e.order = append(e.order, n)
	}
	return e
}

func (e *engine) close() {
	for _, a := range e.actors {
		close(a.ops)
	}
}

// collect drains finished results without blocking.
func (e *engine) collect(evs *[]string) {
	for _, n := range e.order {
		a := e.actors[n]
		if !a.busy {
			continue
		}
		select {
		case r := <-a.results:
			a.busy = false
			*evs = append(*evs, n+":"+r)
		default:
		}
	}
}

// settle waits for quiescence and returns the events (actor:result) that completed.
func (e *engine) settle() []string {
	var evs []string
	deadline := time.Now().Add(3 * time.Second)
	prev := ""
	stable := 0
	for {
		e.collect(&evs)
		runtime.Gosched()
		fp, parked := census()
		if parked && fp == prev {
			stable++
		} else {
			stable = 0
		}
		prev = fp
		if stable >= 2 {
			e.collect(&evs)
			fp2, parked2 := census()
			if parked2 && fp2 == fp {
				return evs
			}
			stable = 0
		}
		if time.Now().After(deadline) {
			e.hung = true
			return evs
		}
		time.Sleep(100 * time.Microsecond)
	}
}

// do issues op on actor (which must be idle) and settles.
func (e *engine) do(name string, f func() string) []string {
	a := e.actors[name]
	if a.busy {
		panic("actor " + name + " is busy")
	}
	a.busy = true
	a.ops <- f
	return e.settle()
}

func (e *engine) idle(name string) bool { return !e.actors[name].busy }

// ---------------------------------------------------------------------------
// canonical results

func resOf(err error) string {
	switch {
	case err == nil:
		return "ok"
	case err == io.EOF:
		return "eof"
	case err == context.Canceled:
		return "ctxerr:canceled"
	case err == context.DeadlineExceeded:
		return "ctxerr:deadline"
	}
	if st, ok := status.FromError(err); ok {
		return "status:" + strconv.Itoa(int(uint32(st.Code())))
	}
	if errors.Is(err, io.ErrUnexpectedEOF) {
		return "unexpected-eof"
	}
	return "plain"
}

func mdIDs(md metadata.MD, key string) string {
	vs := md.Get(key)
	if len(vs) == 0 {
		return "md:-"
	}
	return "md:" + strings.Join(vs, "+")
}

// ---------------------------------------------------------------------------
// a controllable context: Done/Err/Deadline are driven by the script's env
// actor, no timers involved (so deadline expiry is as deterministic as cancel)

type envCtx struct {
	context.Context
	mu       sync.Mutex
	done     chan struct{}
	err      error
	deadline time.Time
	hasDL    bool
}

func newEnvCtx(parent context.Context, withDeadline bool) *envCtx {
	c := &envCtx{Context: parent, done: make(chan struct{})}
	if withDeadline {
		c.deadline, c.hasDL = time.Now().Add(1000*time.Hour), true
	}
	return c
}
func (c *envCtx) Done() <-chan struct{} { return c.done }
func (c *envCtx) Err() error {
	c.mu.Lock()
	defer c.mu.Unlock()
	return c.err
}
func (c *envCtx) Deadline() (time.Time, bool) { return c.deadline, c.hasDL }
func (c *envCtx) fire(err error) {
	c.mu.Lock()
	defer c.mu.Unlock()
	if c.err == nil {
		c.err = err
		close(c.done)
	}
}

// ---------------------------------------------------------------------------
// a handler whose behaviour is commanded step by step from the script

type handlerLoop struct {
	cmds    chan func(ss grpc.ServerStream, ctx context.Context) (string, bool) // returns result, and whether the handler returns now
	results chan string
	started chan struct{}
	retErr  error
	ctx     context.Context
	once    sync.Once
}

func newHandlerLoop() *handlerLoop {
	return &handlerLoop{cmds: make(chan func(grpc.ServerStream, context.Context) (string, bool)), results: make(chan string, 1), started: make(chan struct{})}
}

// serve runs inside the library's server goroutine.
func (h *handlerLoop) serve(ss grpc.ServerStream) error {
	h.ctx = ss.Context()
	h.once.Do(func() { close(h.started) })
	for cmd := range h.cmds {
		res, ret := cmd(ss, ss.Context())
		h.results <- res
		if ret {
			return h.retErr
		}
	}
	return nil
}

// command executes f on the handler goroutine; blocks until f's result is available.
func (h *handlerLoop) command(f func(ss grpc.ServerStream, ctx context.Context) (string, bool)) string {
	h.cmds <- f
	return <-h.results
}

func herrOf(kind string) error {
	switch {
	case kind == "nil":
		return nil
	case kind == "plain":
		return errors.New("plain failure")
	case kind == "ctx:canceled":
		return context.Canceled
	case kind == "ctx:deadline":
		return context.DeadlineExceeded
	case strings.HasPrefix(kind, "status:"):
		c, _ := strconv.Atoi(kind[7:])
		return status.Error(codes.Code(c), "failed")
	}
	return nil
}

var _ = grpchantesting.MetadataNew
