package main

import (
	"bytes"
	"context"
	"encoding/binary"
	"encoding/hex"
	"errors"
	"fmt"
	"io"
	"math"
	"net/http"
	"net/http/httptest"
	"net/url"
	"runtime"
	"sort"
	"strings"
	"time"

	"github.com/fullstorydev/grpchan/grpchantesting"
	"github.com/fullstorydev/grpchan/httpgrpc"
	"google.golang.org/grpc/codes"
	"google.golang.org/grpc/status"
	"google.golang.org/protobuf/proto"
)

func init() { suites["C07"] = suiteC07 }

func frame(payload []byte, end bool) []byte {
	n := int32(len(payload))
	if end {
		n = -n
	}
	b := make([]byte, 4, 4+len(payload))
	binary.BigEndian.PutUint32(b, uint32(n))
	return append(b, payload...)
}

func marshalDet(m proto.Message) []byte {
	b, err := proto.MarshalOptions{Deterministic: true}.Marshal(m)
	if err != nil {
		panic(err)
	}
	return b
}

// walkFrames lists the payloads a sequential reader could hand to Unmarshal
// (only used to compute the externals' answers passed to the model).
func walkFrames(body []byte) (data [][]byte, trailers [][]byte) {
	for len(body) >= 4 {
		sz := int32(binary.BigEndian.Uint32(body))
		body = body[4:]
		if sz == math.MinInt32 {
			return
		}
		n := int(sz)
		if n < 0 {
			n = -n
		}
		if n > len(body) {
			return
		}
		if sz < 0 {
			trailers = append(trailers, body[:n])
			return
		}
		data = append(data, body[:n])
		body = body[n:]
	}
	return
}

func externals(body []byte) string {
	data, trs := walkFrames(body)
	seen := map[string]bool{}
	var pm, tr []string
	for _, d := range data {
		k := hexOrDash(d)
		if seen["d"+k] {
			continue
		}
		seen["d"+k] = true
		var m Msg
		if err := proto.Unmarshal(d, &m); err != nil {
			pm = append(pm, k+":bad")
		} else {
			pm = append(pm, k+":"+hexOrDash(marshalDet(&m)))
		}
	}
	for _, t := range trs {
		k := hexOrDash(t)
		var m httpgrpc.HttpTrailer
		if err := proto.Unmarshal(t, &m); err != nil {
			tr = append(tr, k+":bad")
		} else {
			tr = append(tr, fmt.Sprintf("%s:%d", k, m.Code))
		}
	}
	sort.Strings(pm)
	return "pm=" + strings.Join(pm, ";") + " tr=" + strings.Join(tr, ";")
}

func endName(e error) string {
	if e == nil {
		return "clean"
	}
	return "abrupt"
}

type clientObs struct {
	results []string
	msgs    [][]byte // canonical tokens delivered
	final   string
	panic   string
	allocMB float64
}

// driveClientBody feeds body (ending with endErr) to a server-streaming call and
// calls RecvMsg until a terminal result.
func driveClientBody(body []byte, endErr error) clientObs {
	var o clientObs
	u, _ := url.Parse("http://mem.test/")
	rt := &replayTransport{code: 200, hdr: http.Header{"Content-Type": {httpgrpc.StreamRpcContentType_V1}}, body: body, endErr: endErr}
	ch := &httpgrpc.Channel{Transport: rt, BaseURL: u}
	var ms0, ms1 runtime.MemStats
	runtime.ReadMemStats(&ms0)
	func() {
		defer recoverTo(&o.panic)
		ctx, cancel := context.WithCancel(context.Background())
		defer cancel()
		cs, err := ch.NewStream(ctx, descSStream, mSStream)
		if err != nil {
			o.final = "newstream-error"
			return
		}
		_ = cs.SendMsg(&Msg{})
		_ = cs.CloseSend()
		for i := 0; i < 10000; i++ {
			var m Msg
			err := cs.RecvMsg(&m)
			switch {
			case err == nil:
				tok := hexOrDash(marshalDet(&m))
				o.results = append(o.results, "m:"+tok)
				o.msgs = append(o.msgs, marshalDet(&m))
				continue
			case err == io.EOF:
				o.final = "eof"
			case errors.Is(err, io.ErrUnexpectedEOF):
				o.final = "unexpected-eof"
			default:
				if st, ok := status.FromError(err); ok {
					if st.Code() == codes.Internal && strings.HasPrefix(st.Message(), "server sent invalid message") {
						o.results = append(o.results, "x")
						continue
					}
					o.final = fmt.Sprintf("status(%d)", int32(st.Code()))
				} else {
					o.final = "other"
				}
			}
			break
		}
	}()
	runtime.ReadMemStats(&ms1)
	o.allocMB = float64(ms1.TotalAlloc-ms0.TotalAlloc) / (1 << 20)
	if o.panic != "" {
		o.final = "panic"
	}
	o.results = append(o.results, "end:"+o.final)
	return o
}

type errReader struct {
	b   []byte
	err error
}

func (e *errReader) Read(p []byte) (int, error) {
	if len(e.b) == 0 {
		if e.err != nil {
			return 0, e.err
		}
		return 0, io.EOF
	}
	n := copy(p, e.b)
	e.b = e.b[n:]
	return n, nil
}

// driveServerBody posts body to a stream method and reports what the handler's RecvMsg calls returned.
func driveServerBody(body []byte, endErr error, clientStreams bool) (results []string, panicked string, reply []byte, allocMB float64) {
	svr := &scriptServer{}
	classify := func(err error) string {
		switch {
		case err == io.EOF:
			return "eof"
		case errors.Is(err, io.ErrUnexpectedEOF):
			return "unexpected-eof"
		case status.Code(err) == codes.InvalidArgument:
			return "extra-request"
		default:
			return "other"
		}
	}
	invoked := false
	svr.bidi = func(s grpchantesting.TestService_BidiStreamServer) error {
		invoked = true
		var m Msg // one destination for every receive: each decoded frame must replace its content (also a zero-length frame)
		for i := 0; i < 10000; i++ {
			err := s.RecvMsg(&m)
			if err != nil {
				results = append(results, "end:"+classify(err))
				return nil
			}
			results = append(results, "m:"+hexOrDash(marshalDet(&m)))
		}
		return nil
	}
	svr.sstream = func(req *Msg, s grpchantesting.TestService_ServerStreamServer) error {
		invoked = true
		results = append(results, "m:"+hexOrDash(marshalDet(req)))
		var m Msg
		err := s.RecvMsg(&m)
		if err == nil {
			results = append(results, "m:"+hexOrDash(marshalDet(&m)))
			err = s.RecvMsg(&m)
		}
		results = append(results, "end:"+classify(err))
		return nil
	}
	hs := httpgrpc.NewServer()
	grpchantesting.RegisterTestServiceServer(hs, svr)
	path := mSStream
	if clientStreams {
		path = mBidi
	}
	req := httptest.NewRequest("POST", path, &errReader{b: body, err: endErr})
	req.Header.Set("Content-Type", httpgrpc.StreamRpcContentType_V1)
	rec := httptest.NewRecorder()
	var ms0, ms1 runtime.MemStats
	runtime.ReadMemStats(&ms0)
	func() {
		defer recoverTo(&panicked)
		hs.ServeHTTP(rec, req)
	}()
	runtime.ReadMemStats(&ms1)
	allocMB = float64(ms1.TotalAlloc-ms0.TotalAlloc) / (1 << 20)
	reply = rec.Body.Bytes()
	if panicked != "" {
		results = append(results, "end:panic")
		return
	}
	if !invoked {
		// the generated handler's own first RecvMsg failed: its error is in the trailer frame
		_, trs := walkFrames(reply)
		cls := "other"
		if len(trs) == 1 {
			var tr httpgrpc.HttpTrailer
			if proto.Unmarshal(trs[0], &tr) == nil {
				switch {
				case tr.Code == int32(codes.InvalidArgument) && strings.Contains(tr.Message, "client sent >1"):
					cls = "extra-request"
				case tr.Message == "EOF":
					cls = "eof"
				case tr.Message == "unexpected EOF":
					cls = "unexpected-eof"
				}
			}
		}
		results = append(results, "end:"+cls)
	}
	return
}

func suiteC07(r *Run) {
	r.Rule = "bodies = encodings of random message sequences (0..6 messages, payload 0..2 KiB incl. empty message), every truncation offset of those (quick: a sample of bodies; all offsets for bodies <= 2 KiB), adversarial length prefixes (0, -1, MinInt32, MaxInt32, limit, limit+1, -limit, -(limit+1)), random byte strings; clean and abrupt endings; client decoder via a replaying RoundTripper, server decoder via crafted request bodies. Non-trivial: body contains >=1 complete frame or a hostile prefix; distinct by (side, ending, body)."
	r.Assumptions = append(r.Assumptions, "encoding/binary, io.ReadAtLeast; protobuf Unmarshal answers are passed to the model as externals (pm=/tr= maps)")
	rng := r.Rng
	limit := int64(httpgrpc.VerifMaxMessageSize)

	type body struct {
		b       []byte
		kind    string
		msgs    [][]byte // intended messages (canonical wire bytes) when built by the encoder
		trailer *httpgrpc.HttpTrailer
		full    bool
	}
	var bodies []body
	mkMsg := func() []byte {
		m := &Msg{}
		switch rng.Intn(5) {
		case 0: // empty message: zero-length encoding
		case 1:
			m.Payload = rng.Bytes(rng.Intn(64))
		case 2:
			m.Payload = rng.Bytes(rng.Intn(2048))
			m.Count = int32(rng.U64())
		case 3:
			m.Headers = map[string][]byte{"k": rng.Bytes(3), "bin-bin": {0, 10, 255}}
			m.Code = int32(rng.Intn(17))
		case 4:
			m.Count = int32(rng.Intn(100))
		}
		return marshalDet(m)
	}
	mkBody := func(n int) body {
		var b []byte
		var ms [][]byte
		for i := 0; i < n; i++ {
			p := mkMsg()
			ms = append(ms, p)
			b = append(b, frame(p, false)...)
		}
		tr := &httpgrpc.HttpTrailer{Code: 0, Message: "OK"}
		if rng.Chance(40) {
			tr.Code = int32(1 + rng.Intn(16))
			tr.Message = "failed"
		}
		if rng.Chance(30) {
			tr.Metadata = map[string]*httpgrpc.TrailerValues{"t": {Values: []string{"v1", "v2"}}}
		}
		b = append(b, frame(marshalDet(tr), true)...)
		return body{b: b, kind: "encoded", msgs: ms, trailer: tr, full: true}
	}
	nEnc := r.Budget(40, 1500)
	for i := 0; i < nEnc; i++ {
		bodies = append(bodies, mkBody(rng.Intn(7)))
	}
	// every truncation offset of a sample of encoded bodies
	nTrunc := r.Budget(3, 300)
	for i := 0; i < nTrunc; i++ {
		full := mkBody(rng.Intn(4))
		if len(full.b) > 2048 && !r.Thorough() {
			continue
		}
		for k := 0; k < len(full.b); k++ {
			if len(full.b) > 2048 && k%37 != 0 && k > 64 {
				continue
			}
			bodies = append(bodies, body{b: full.b[:k], kind: "truncated", msgs: full.msgs, trailer: full.trailer})
		}
	}
	// adversarial prefixes
	pre := func(v int64) []byte {
		b := make([]byte, 4)
		binary.BigEndian.PutUint32(b, uint32(int32(v)))
		return b
	}
	for _, v := range []int64{0, -1, math.MinInt32, math.MaxInt32, limit, limit + 1, -limit, -(limit + 1), 1 << 30, -(1 << 30), 5, -5, math.MinInt32 + 1} {
		for _, tail := range [][]byte{nil, {1}, {1, 2, 3, 4, 5}, bytes.Repeat([]byte{0}, 16)} {
			bodies = append(bodies, body{b: append(pre(v), tail...), kind: "hostile-prefix"})
		}
		ok := frame(mkMsg(), false)
		bodies = append(bodies, body{b: append(append([]byte{}, ok...), pre(v)...), kind: "hostile-prefix"})
	}
	bodies = append(bodies, body{b: nil, kind: "empty"})
	// zero-length trailer frame and trailer-then-garbage
	bodies = append(bodies, body{b: frame(nil, true), kind: "zero-trailer"})
	bodies = append(bodies, body{b: append(frame(marshalDet(&httpgrpc.HttpTrailer{Message: "OK"}), true), 9, 9, 9), kind: "trailer-then-garbage"})
	bodies = append(bodies, body{b: frame([]byte{7, 7, 7}, false), kind: "invalid-proto"})
	bodies = append(bodies, body{b: append(frame([]byte{7, 7, 7}, false), frame(marshalDet(&httpgrpc.HttpTrailer{Message: "OK"}), true)...), kind: "invalid-proto"})
	bodies = append(bodies, body{b: frame([]byte{7, 7}, true), kind: "invalid-trailer"})
	for i := 0; i < r.Budget(300, 20000); i++ {
		n := rng.Intn(24)
		b := rng.Bytes(n)
		if n >= 4 && rng.Chance(70) {
			binary.BigEndian.PutUint32(b, uint32(int32(rng.Intn(12)-3)))
		}
		bodies = append(bodies, body{b: b, kind: "random"})
	}

	hugeLimitMB := float64(limit)/(1<<20) + 48 // per-message limit plus slack for the runtime
	// ---- client side, single-response kind (client streaming: one RecvMsg is the whole call, as in CloseAndRecv):
	// every strict prefix of a complete reply, and a reply whose trailer frame is hostile or undecodable, is a failed call
	for i := 0; i < r.Budget(6, 60); i++ {
		reply := &Msg{Count: int32(1 + rng.Intn(1000)), Payload: rng.Bytes(rng.Intn(40))}
		tr := &httpgrpc.HttpTrailer{Metadata: map[string]*httpgrpc.TrailerValues{"t": {Values: []string{"v"}}}}
		full := append(frame(marshalDet(reply), false), frame(marshalDet(tr), true)...)
		type variant struct {
			name string
			body []byte
		}
		var vs []variant
		for cut := 0; cut < len(full); cut++ {
			vs = append(vs, variant{sprintf("cut@%d/%d", cut, len(full)), full[:cut]})
		}
		msgOnly := frame(marshalDet(reply), false)
		for _, pfx := range [][]byte{{0x80, 0, 0, 0}, {0xff, 0xff, 0xff, 0xff}, {0xf0, 0, 0, 0}} {
			vs = append(vs, variant{"hostile-trailer-prefix-" + hex.EncodeToString(pfx), append(append([]byte{}, msgOnly...), pfx...)})
		}
		vs = append(vs, variant{"undecodable-trailer", append(append([]byte{}, msgOnly...), frame([]byte{0xff, 0xff, 0xff, 0x07}, true)...)})
		for _, v := range vs {
			for _, endErr := range []error{nil, errAbrupt} {
				cdesc := map[string]interface{}{"side": "client", "kind": "single-response " + v.name, "ending": endName(endErr), "body_hex": trunc(hex.EncodeToString(v.body), 400), "body_len": len(v.body)}
				r.Begin("http-client/framing/panic", "the stream decoder never panics", cdesc)
				res, pan := driveClientSingle(v.body, endErr)
				r.Eval(sprintf("client-single %s %s %x", v.name, endName(endErr), v.body), true)
				r.Count("client-single")
				r.TracesOnImpl++
				if pan != "" {
					r.Violate("http-client/framing/panic", "the stream decoder never panics", pan, cdesc, pan)
				} else if res == "ok" {
					r.Violate("http-client/framing/truncated-single-response-reported-success", "a stream that ends before its terminating trailer frame is reported as a failed call, never as a clean end of stream",
						sprintf("client-streaming call, reply body %s (%d of %d bytes, %s ending): RecvMsg returned the message with a nil error", v.name, len(v.body), len(full), endName(endErr)), cdesc, res)
				}
			}
		}
		// the complete reply is a success (the check above is not vacuous)
		if res, _ := driveClientSingle(full, nil); res != "ok" {
			r.Violate("http-client/framing/complete-single-response-refused", "a complete reply is delivered", sprintf("complete %d-byte reply: %s", len(full), res), map[string]interface{}{"side": "client", "kind": "single-response complete"}, res)
		}
	}
	for _, bd := range bodies {
		for _, endErr := range []error{nil, errAbrupt} {
			if endErr != nil && bd.kind == "random" && rng.Chance(50) {
				continue
			}
			ext := externals(bd.b)
			hostile := bd.kind == "hostile-prefix"
			complete, _ := walkFrames(bd.b)
			nontrivial := len(complete) > 0 || hostile || bd.kind == "truncated"
			cdesc := map[string]interface{}{"side": "client", "kind": bd.kind, "ending": endName(endErr), "body_hex": trunc(hex.EncodeToString(bd.b), 400), "body_len": len(bd.b)}

			// ---- client side
			r.Begin("http-client/framing/panic", "the stream decoder never panics", cdesc)
			o := driveClientBody(bd.b, endErr)
			r.Op(sprintf("C07 client %s %s %s", hexOrDash(bd.b), endName(endErr), ext), strings.Join(o.results, " "))
			r.Eval(sprintf("client %s %x", endName(endErr), bd.b), nontrivial)
			r.Count("client:" + bd.kind)
			r.Count("client-end:" + o.final)
			r.TracesOnImpl++
			if o.panic != "" {
				r.Violate("http-client/framing/panic", "the stream decoder never panics", o.panic, cdesc, o.panic)
			}
			if o.allocMB > hugeLimitMB {
				r.Violate("http-client/framing/unbounded-alloc", "never allocates more than the fixed per-message limit on the strength of an unverified length prefix",
					sprintf("decoding a %d-byte body allocated %.0f MiB", len(bd.b), o.allocMB), cdesc, sprintf("%.0fMiB", o.allocMB))
			}
			if bd.msgs != nil {
				// delivered messages are an intact prefix of those sent; complete body => all of them
				okPrefix := len(o.msgs) <= len(bd.msgs)
				for i := 0; okPrefix && i < len(o.msgs); i++ {
					okPrefix = bytes.Equal(o.msgs[i], bd.msgs[i])
				}
				if !okPrefix {
					r.Violate("http-client/framing/fabricated-or-reordered", "the messages delivered are an intact prefix of those sent", sprintf("delivered %d messages that are not a prefix of the %d sent", len(o.msgs), len(bd.msgs)), cdesc, strings.Join(o.results, " "))
				}
				if bd.full {
					want := "eof"
					if bd.trailer.Code != 0 {
						want = fmt.Sprintf("status(%d)", bd.trailer.Code)
					}
					if len(o.msgs) != len(bd.msgs) || o.final != want {
						r.Violate("http-client/framing/complete-body-misread", "yields exactly the framed messages that were encoded", sprintf("complete body with %d messages: got %d, end %s (want %s)", len(bd.msgs), len(o.msgs), o.final, want), cdesc, strings.Join(o.results, " "))
					}
				} else if o.final == "eof" || strings.HasPrefix(o.final, "status(") {
					sig := "http-client/framing/truncated-reported-complete"
					r.Violate(sig, "a response cut at any byte offset before the end of the final trailer frame is reported to the client as a failed call",
						sprintf("response cut at offset %d of %d (%s ending): client outcome %s after %d messages", len(bd.b), len(bd.b), endName(endErr), o.final, len(o.msgs)), cdesc, strings.Join(o.results, " "))
				}
			}
			if len(r.Samples) < 4 && (bd.kind == "truncated" && len(bd.b) > 8 || hostile) {
				r.Sample(map[string]interface{}{"case": cdesc, "impl": strings.Join(o.results, " ")})
			}

			// ---- server side (both request arities)
			for _, cs := range []bool{true, false} {
				if bd.kind == "random" && cs == false && rng.Chance(50) {
					continue
				}
				r.Begin("http-server/framing/panic", "the stream decoder never panics", map[string]interface{}{"side": "server", "client_streams": cs, "kind": bd.kind, "ending": endName(endErr), "body_hex": trunc(hex.EncodeToString(bd.b), 400), "body_len": len(bd.b)})
				res, pan, _, allocMB := driveServerBody(bd.b, endErr, cs)
				csn := map[bool]string{true: "1", false: "0"}[cs]
				r.Op(sprintf("C07 server %s %s %s %s", hexOrDash(bd.b), endName(endErr), csn, ext), strings.Join(res, " "))
				r.Eval(sprintf("server %s %s %x", csn, endName(endErr), bd.b), nontrivial)
				r.Count("server:" + bd.kind)
				sdesc := map[string]interface{}{"side": "server", "client_streams": cs, "kind": bd.kind, "ending": endName(endErr), "body_hex": trunc(hex.EncodeToString(bd.b), 400), "body_len": len(bd.b)}
				if pan != "" {
					r.Violate("http-server/framing/panic", "the stream decoder never panics", pan, sdesc, pan)
				}
				// independent of the model: a request body that ends inside a frame is never a clean end of stream
				if cutInsideFrame(bd.b) && len(res) > 0 && res[len(res)-1] == "end:eof" {
					r.Violate("http-server/framing/truncated-request-reported-complete", "the stream decoder on either side yields exactly the framed messages that were encoded or reports an error (a body cut inside a frame is an error, not end of stream)",
						sprintf("request body of %d bytes ends inside a frame, yet the handler's RecvMsg reported a clean io.EOF", len(bd.b)), sdesc, strings.Join(res, " "))
				}
				// independent of the model: for a body made of well-formed frames, what the handler is given is, in order,
				// the payload of each frame re-encoded (client-streaming method: every frame)
				if cs && (bd.kind == "encoded" || bd.kind == "truncated") && pan == "" {
					var want []string
					for _, f := range complete {
						var m Msg
						if proto.Unmarshal(f, &m) == nil {
							want = append(want, "m:"+hexOrDash(marshalDet(&m)))
						} else {
							break
						}
					}
					var got []string
					for _, x := range res {
						if strings.HasPrefix(x, "m:") {
							got = append(got, x)
						}
					}
					okPrefix := len(got) <= len(want)
					for i := 0; okPrefix && i < len(got); i++ {
						okPrefix = got[i] == want[i]
					}
					if !okPrefix {
						r.Violate("http-server/framing/fabricated-or-altered", "yields exactly the framed messages that were encoded … never fabricates a message", sprintf("the handler was given %d messages that are not a prefix of the %d encoded ones", len(got), len(want)), sdesc, strings.Join(res, " "))
					}
				}
				if allocMB > hugeLimitMB {
					r.Violate("http-server/framing/unbounded-alloc", "never allocates more than the fixed per-message limit on the strength of an unverified length prefix",
						sprintf("decoding a %d-byte request body allocated %.0f MiB", len(bd.b), allocMB), sdesc, sprintf("%.0fMiB", allocMB))
				}
			}
		}
	}
}

// cutInsideFrame: does the body end inside a size preface or inside the payload a preface announced
// (only for plausible, non-negative sizes within the limit)?
func cutInsideFrame(b []byte) bool {
	for {
		if len(b) == 0 {
			return false
		}
		if len(b) < 4 {
			return true
		}
		sz := int32(uint32(b[0])<<24 | uint32(b[1])<<16 | uint32(b[2])<<8 | uint32(b[3]))
		if sz < 0 || sz > 100*1024*1024 {
			return false
		}
		if int(sz) > len(b)-4 {
			return true
		}
		b = b[4+int(sz):]
	}
}

func trunc(s string, n int) string {
	if len(s) > n {
		return s[:n] + "…"
	}
	return s
}

// driveClientSingle feeds body to a client-streaming call (one response) and reports what the one RecvMsg returned.
func driveClientSingle(body []byte, endErr error) (res string, pan string) {
	u, _ := url.Parse("http://mem.test/")
	rt := &replayTransport{code: 200, hdr: http.Header{"Content-Type": {httpgrpc.StreamRpcContentType_V1}}, body: body, endErr: endErr}
	ch := &httpgrpc.Channel{Transport: rt, BaseURL: u}
	func() {
		defer recoverTo(&pan)
		ctx, cancel := context.WithTimeout(context.Background(), 5*time.Second)
		defer cancel()
		cs, err := ch.NewStream(ctx, descCStream, mCStream)
		if err != nil {
			res = "newstream-error"
			return
		}
		_ = cs.SendMsg(&Msg{})
		_ = cs.CloseSend()
		var m Msg
		if err := cs.RecvMsg(&m); err != nil {
			res = "error:" + resOf(err)
			return
		}
		res = "ok"
	}()
	return
}
