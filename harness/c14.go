package main

import (
	"io"
	"time"
	"context"
	"fmt"
	"net/http"
	"net/http/httptest"
	"net/url"
	"os"
	"regexp"
	"strconv"
	"strings"

	"github.com/fullstorydev/grpchan/httpgrpc"
	"google.golang.org/grpc/codes"
	"google.golang.org/grpc/status"
)

func init() { suites["C14"] = suiteC14 }

var repoDir = func() string {
	if d := os.Getenv("VERIF_REPO"); d != "" {
		return d
	}
	return "/repo"
}()

// docTable parses the documented table of DefaultErrorRenderer out of the
// current source (independently of the extractor): name -> (status, starred).
func docTable() (map[string]int, map[string]bool) {
	src, err := os.ReadFile(repoDir + "/httpgrpc/server.go")
	if err != nil {
		return nil, nil
	}
	i := strings.Index(string(src), "// DefaultErrorRenderer translates")
	j := strings.Index(string(src), "func DefaultErrorRenderer(")
	if i < 0 || j < i {
		return nil, nil
	}
	re := regexp.MustCompile(`(?m)^//\s+([A-Za-z]+):\s+(\*\s+)?([0-9]{3})\s`)
	tab, star := map[string]int{}, map[string]bool{}
	for _, m := range re.FindAllStringSubmatch(string(src)[i:j], -1) {
		n, _ := strconv.Atoi(m[3])
		tab[m[1]] = n
		star[m[1]] = m[2] != ""
	}
	return tab, star
}

func suiteC14(r *Run) {
	huSuite(r, "C14")
	r.Rule = "unit: every gRPC code 0..16 plus out-of-range samples through httpStatusFromCode; every integer status -10..1010 plus extremes through codeFromHttpStatus; status-header strings through statFromResponse. e2e: handler returns each code through a real httpgrpc.Server + Channel (default / custom / empty renderer; live and cancelled request context). A case is non-trivial when it reaches a table row, range boundary, the 499 rule or a header-parsing branch; distinct by (op,args)."
	r.Assumptions = append(r.Assumptions, "net/http status line and header canonicalisation (in-memory transport mirrors net/http's Response fields)")
	rng := r.Rng

	// --- unit: forward table
	var cs []uint32
	for c := uint32(0); c <= 20; c++ {
		cs = append(cs, c)
	}
	cs = append(cs, 99, 1000, 1<<31-1, 1<<31, 1<<32-1, 1<<32-17)
	for i := 0; i < r.Budget(20, 2000); i++ {
		cs = append(cs, uint32(rng.U64()))
	}
	for _, c := range cs {
		got := httpgrpc.VerifHttpStatusFromCode(codes.Code(c))
		r.Op(sprintf("C14 fwd %d", c), sprintf("%d", got))
		r.Eval(sprintf("fwd %d", c), true)
		r.Count("unit:fwd")
		if c != 0 && (got < 400 || got > 599) {
			r.Violate("http-unary/forward-table/non-error-status", "for every non-OK code the HTTP response carries an error status",
				sprintf("httpStatusFromCode(%d) = %d is not an HTTP error status", c, got), map[string]interface{}{"op": "fwd", "code": c}, sprintf("%d", got))
		}
	}
	r.Sample(map[string]interface{}{"op": "C14 fwd 5", "impl": httpgrpc.VerifHttpStatusFromCode(5)})

	// --- unit: reverse table, whole domain 100..599 and beyond
	var ss []int
	for s := -10; s <= 1010; s++ {
		ss = append(ss, s)
	}
	ss = append(ss, -1<<31, 1<<31-1, 65536, 100000)
	for _, s := range ss {
		got := httpgrpc.VerifCodeFromHttpStatus(s)
		r.Op(sprintf("C14 rev %d", s), sprintf("%d", uint32(got)))
		r.Eval(sprintf("rev %d", s), s >= 100 && s <= 599)
		r.Count("unit:rev")
		is2xx := s >= 200 && s < 300
		if (got == codes.OK) != is2xx {
			r.Violate("http-unary/fallback/ok-iff-2xx", "without the status header the caller derives OK for 2xx only",
				sprintf("codeFromHttpStatus(%d) = %v", s, got), map[string]interface{}{"op": "rev", "status": s}, got.String())
		}
	}
	r.Exhaustive = true

	// --- unit: statFromResponse on synthetic replies
	hdrs := []string{"", "5:not found", "5", "13:", ":x", "-1:neg", "+7:plus", "007:zeros", "4294967295:big", "2147483647:max32",
		"2147483648:over32", "-2147483648:min32", "abc:def", "5 :space", " 5:lead", "16:a:b:c", "0:ok-with-msg", "0", "99999999999999999999:huge"}
	for i := 0; i < r.Budget(50, 3000); i++ {
		c := int64(rng.Intn(40)) - 5
		if rng.Chance(20) {
			c = int64(int32(rng.U64()))
		}
		m := string(rng.Bytes(rng.Intn(6)))
		m = strings.Map(func(x rune) rune {
			if x == '\n' || x == '\r' {
				return ':'
			}
			return x
		}, m)
		hdrs = append(hdrs, sprintf("%d:%s", c, m))
	}
	statuses := []int{200, 204, 299, 300, 400, 404, 499, 500, 503, 100, 302}
	for hi, h := range hdrs {
		for _, s := range statuses {
			if hi >= 19 && s != statuses[hi%len(statuses)] {
				continue
			}
			resp := &http.Response{StatusCode: s, Status: sprintf("%d %s", s, http.StatusText(s)), Header: http.Header{}}
			hArg := "none"
			if h != "" {
				resp.Header.Set("X-GRPC-Status", h)
				hArg = hexOrDash([]byte(h))
			}
			st := httpgrpc.VerifStatFromResponse(resp)
			ans := "0"
			if st != nil {
				ans = sprintf("%d %s", uint32(st.Code()), hexOrDash([]byte(st.Message())))
			}
			r.Op(sprintf("C14 client %d %s %s", s, hexOrDash([]byte(resp.Status)), hArg), ans)
			r.Eval(sprintf("client %d %q", s, h), h != "")
			r.Count("unit:statFromResponse")
			if h == "" {
				is2xx := s >= 200 && s < 300
				if (st == nil) != is2xx {
					r.Violate("http-unary/fallback/ok-iff-2xx", "without the status header the caller derives OK for 2xx only",
						sprintf("statFromResponse(status %d, no header) = %v", s, ans), map[string]interface{}{"op": "client", "status": s}, ans)
				}
			}
		}
	}

	// --- e2e: a real server and channel
	doc, star := docTable()
	if doc == nil {
		r.Notes = append(r.Notes, "doc table of DefaultErrorRenderer not found in source; documented-status oracle skipped")
	}
	type renderer struct {
		name string
		opt  []httpgrpc.ServerOption
	}
	renderers := []renderer{
		{"default", nil},
		{"custom418", []httpgrpc.ServerOption{httpgrpc.ErrorRenderer(func(ctx context.Context, st *status.Status, w http.ResponseWriter) {
			http.Error(w, "teapot", 418)
		})}},
		{"nothing", []httpgrpc.ServerOption{httpgrpc.ErrorRenderer(func(ctx context.Context, st *status.Status, w http.ResponseWriter) {})}},
		{"writes200", []httpgrpc.ServerOption{httpgrpc.ErrorRenderer(func(ctx context.Context, st *status.Status, w http.ResponseWriter) {
			w.WriteHeader(200)
			w.Write([]byte("all good"))
		})}},
	}
	e2eCodes := []uint32{1, 2, 3, 4, 5, 6, 7, 8, 9, 10, 11, 12, 13, 14, 15, 16, 17, 20, 100, 1 << 31, 1<<32 - 1, 0}
	for i := 0; i < r.Budget(4, 200); i++ {
		e2eCodes = append(e2eCodes, uint32(rng.U64()))
	}
	msgs := []string{"", "error", "a:b", "100% wrong", "x y"}
	for _, rd := range renderers {
		for _, c := range e2eCodes {
			for _, cancelled := range []bool{false, true} {
				msg := msgs[rng.Intn(len(msgs))]
				svr := &scriptServer{}
				c := c
				svr.unary = func(ctx context.Context, req *Msg) (*Msg, error) {
					if c == 0 {
						return nil, okCodeErr{msg}
					}
					return nil, status.Error(codes.Code(c), msg)
				}
				hm := newHTTPMem(svr, rd.opt...)
				var httpStatus int
				var clientErr error
				if !cancelled {
					clientErr = hm.ch.Invoke(context.Background(), mUnary, &Msg{}, &Msg{})
					httpStatus = hm.tr.lastCode
				} else {
					// the request context is already done when the renderer runs: drive the server
					// handler directly, then let the client read the recorded reply
					ctx, cancel := context.WithCancel(context.Background())
					cancel()
					req := httptest.NewRequest("POST", mUnary, strings.NewReader("")).WithContext(ctx)
					req.Header.Set("Content-Type", httpgrpc.UnaryRpcContentType_V1)
					rec := httptest.NewRecorder()
					hm.hs.ServeHTTP(rec, req)
					res := rec.Result()
					httpStatus = res.StatusCode
					u, _ := url.Parse("http://mem.test/")
					ch := &httpgrpc.Channel{Transport: &replayTransport{code: res.StatusCode, hdr: res.Header, body: rec.Body.Bytes()}, BaseURL: u}
					clientErr = ch.Invoke(context.Background(), mUnary, &Msg{}, &Msg{})
				}
				want := codes.Code(c)
				if c == 0 {
					want = codes.Internal
				}
				got := status.Code(clientErr)
				caseDesc := map[string]interface{}{"op": "e2e", "renderer": rd.name, "code": c, "msg": msg, "request_ctx_cancelled": cancelled}
				r.Eval(fmt.Sprint("e2e ", rd.name, c, cancelled), true)
				r.Count("e2e:" + rd.name)
				r.TracesOnImpl++
				if svr.calls.get("Unary") != 1 {
					r.Violate("http-unary/e2e/handler-not-run-once", "the handler runs once", sprintf("handler ran %d times", svr.calls.get("Unary")), caseDesc, "")
				}
				if got != want {
					r.Violate("http-unary/client-code/"+rd.name, "the caller recovers exactly the original code rather than the HTTP approximation",
						sprintf("handler returned code %d, client saw %d (%v) with HTTP status %d", uint32(want), uint32(got), clientErr, httpStatus), caseDesc, canonErr(clientErr))
				}
				if rd.name == "default" {
					cd := 0
					if cancelled {
						cd = 1
					}
					r.Op(sprintf("C14 render %d %d", uint32(want), cd), sprintf("%d", httpStatus))
					if httpStatus < 400 || httpStatus > 599 {
						r.Violate("http-unary/default-renderer/non-error-status", "an error status for every non-OK code",
							sprintf("code %d rendered as HTTP %d", uint32(want), httpStatus), caseDesc, sprintf("%d", httpStatus))
					}
					if doc != nil {
						name := want.String()
						exp, documented := doc[name]
						if !documented {
							exp = 500 // "If any other gRPC status code is observed, it would get translated into a 500"
						}
						if cancelled && star[name] {
							exp = 499
						}
						if httpStatus != exp {
							r.Violate("http-unary/default-renderer/doc-table", "the HTTP response carries the HTTP status listed in the error renderer's documented table (499 when the request itself was cancelled)",
								sprintf("code %s, request ctx cancelled=%v: HTTP %d, documented %d", name, cancelled, httpStatus, exp), caseDesc, sprintf("%d", httpStatus))
						}
					}
				}
				if len(r.Samples) < 5 && c == 5 {
					r.Sample(map[string]interface{}{"case": caseDesc, "http_status": httpStatus, "client": canonErr(clientErr)})
				}
			}
		}
	}

	// --- e2e: the 499 rule looks at the REQUEST's context only: a deadline that came from the
	// GRPC-Timeout header and expired on the server leaves the request context live, so Canceled /
	// DeadlineExceeded keep their documented 502 / 504, and a custom renderer is handed a live context
	for _, c := range []codes.Code{codes.Canceled, codes.DeadlineExceeded, codes.NotFound} {
		for _, rdName := range []string{"default", "recording"} {
			c := c
			svr := &scriptServer{}
			svr.unary = func(ctx context.Context, req *Msg) (*Msg, error) {
				select {
				case <-ctx.Done():
				case <-time.After(5 * time.Second):
				}
				return nil, status.Error(c, "late")
			}
			var rendererCtxErr error
			rendererRan := false
			var opts []httpgrpc.ServerOption
			if rdName == "recording" {
				opts = append(opts, httpgrpc.ErrorRenderer(func(ctx context.Context, st *status.Status, w http.ResponseWriter) {
					rendererRan = true
					rendererCtxErr = ctx.Err()
					httpgrpc.DefaultErrorRenderer(ctx, st, w)
				}))
			}
			hm := newHTTPMem(svr, opts...)
			req := httptest.NewRequest("POST", mUnary, strings.NewReader(""))
			req.Header.Set("Content-Type", httpgrpc.UnaryRpcContentType_V1)
			req.Header.Set("GRPC-Timeout", "2m")
			rec := httptest.NewRecorder()
			hm.hs.ServeHTTP(rec, req)
			httpStatus := rec.Result().StatusCode
			caseDesc := map[string]interface{}{"op": "e2e-server-deadline", "renderer": rdName, "code": uint32(c), "grpc_timeout": "2m", "request_ctx_cancelled": false}
			r.Eval(fmt.Sprint("e2e-server-deadline ", rdName, c), true)
			r.Count("e2e:server-deadline")
			r.TracesOnImpl++
			r.Op(sprintf("C14 render %d 0", uint32(c)), sprintf("%d", httpStatus))
			if doc != nil {
				if exp, ok := doc[c.String()]; ok && httpStatus != exp {
					r.Violate("http-unary/default-renderer/499-on-live-request", "the HTTP response carries the HTTP status listed in the error renderer's documented table (499 only when the request itself was cancelled)",
						sprintf("code %s after a server-side GRPC-Timeout expiry with a live request context: HTTP %d, documented %d", c, httpStatus, exp), caseDesc, sprintf("%d", httpStatus))
				}
			}
			if rdName == "recording" && (!rendererRan || rendererCtxErr != nil) {
				r.Violate("http-unary/renderer/ctx-not-request-ctx", "the renderer is given the request's context (the 499 rule is about the request itself being cancelled)",
					sprintf("custom renderer ran=%v with ctx.Err()=%v while the request context was live", rendererRan, rendererCtxErr), caseDesc, sprintf("%d", httpStatus))
			}
		}
	}

	// --- e2e: the code travels in the status header: a fault in the BODY of an error reply (reset, short
	// body) does not take it away from the caller
	for c := uint32(1); c <= 17; c++ {
		for _, endErr := range []error{errAbrupt, io.ErrUnexpectedEOF} {
			u, _ := url.Parse("http://mem.test/")
			hdr := http.Header{"X-Grpc-Status": []string{sprintf("%d:body fault", c)}, "Content-Length": []string{"100"}}
			ch := &httpgrpc.Channel{Transport: &replayTransport{code: httpgrpc.VerifHttpStatusFromCode(codes.Code(c)), hdr: hdr, body: []byte("short"), endErr: endErr}, BaseURL: u}
			err := ch.Invoke(context.Background(), mUnary, &Msg{}, &Msg{})
			r.Eval(sprintf("e2e-body-fault %d %v", c, endErr), true)
			r.Count("e2e:body-fault")
			r.TracesOnImpl++
			if got := status.Code(err); uint32(got) != c {
				r.Violate("http-unary/client-code/body-fault", "the caller recovers exactly the original code rather than the HTTP approximation",
					sprintf("error reply with status header code %d whose body fails (%v): Invoke returned %v (code %d)", c, endErr, err, uint32(got)),
					map[string]interface{}{"op": "e2e-body-fault", "code": c, "body_error": endErr.Error()}, canonErr(err))
			}
		}
	}

	// --- e2e: replies without the status header for every status 100..599
	u, _ := url.Parse("http://mem.test/")
	for s := 100; s <= 599; s++ {
		ch := &httpgrpc.Channel{Transport: &replayTransport{code: s, body: nil}, BaseURL: u}
		err := ch.Invoke(context.Background(), mUnary, &Msg{}, &Msg{})
		is2xx := s >= 200 && s < 300
		r.Eval(sprintf("e2e-noheader %d", s), true)
		r.Count("e2e:no-header")
		r.TracesOnImpl++
		if (err == nil) != is2xx {
			r.Violate("http-unary/fallback/ok-iff-2xx", "without the status header the caller derives OK for 2xx only",
				sprintf("reply with HTTP %d and no status header: Invoke returned %v", s, err), map[string]interface{}{"op": "e2e-noheader", "status": s}, canonErr(err))
		}
	}
}
