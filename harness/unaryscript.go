package main

import (
	"context"
	"fmt"
	"strconv"
	"strings"
	"sync"

	"github.com/fullstorydev/grpchan"
	"github.com/fullstorydev/grpchan/inprocgrpc"
	"google.golang.org/grpc"
	"google.golang.org/grpc/metadata"
)

// ---------------------------------------------------------------------------
// scripted in-process unary calls (Channel.Invoke), with the verifhook
// schedule points of the server goroutine as hold/release operations.

type holdSet struct {
	mu    sync.Mutex
	held  map[string]chan struct{}
	hits  map[string]int
}

var holds = &holdSet{held: map[string]chan struct{}{}, hits: map[string]int{}}

func (h *holdSet) hook(point string) {
	h.mu.Lock()
	h.hits[point]++
	ch := h.held[point]
	h.mu.Unlock()
	if ch != nil {
		hookPark(ch)
	}
}

// hookPark is a named function so that the goroutine census can see where the goroutine is parked.
func hookPark(ch chan struct{}) { <-ch }

func (h *holdSet) hold(point string) {
	h.mu.Lock()
	defer h.mu.Unlock()
	if h.held[point] == nil {
		h.held[point] = make(chan struct{})
	}
}
func (h *holdSet) release(point string) {
	h.mu.Lock()
	defer h.mu.Unlock()
	if ch := h.held[point]; ch != nil {
		close(ch)
		delete(h.held, point)
	}
}
func (h *holdSet) releaseAll() {
	h.mu.Lock()
	defer h.mu.Unlock()
	for p, ch := range h.held {
		close(ch)
		delete(h.held, p)
	}
}

var hookPoint = map[string]string{"headers": "invoke.server.write.headers", "data": "invoke.server.write.data",
	"trailers": "invoke.server.write.trailers", "err": "invoke.server.write.err", "close": "invoke.server.close"}

// recCloner wraps the default cloner, records every copy of the caller's request relative to the
// return of Invoke, and can stall a copy in mid-flight.
type recCloner struct {
	mu          sync.Mutex
	req         interface{}
	returned    bool // Invoke has returned
	reading     int  // copies of the request in progress
	lateStart   int  // copies of the request that began after Invoke returned
	overlap     int  // Invoke returned while a copy of the request was in progress
	stallNext   bool
	stallCh     chan struct{}
	stallResp   bool          // stall the next copy that is not a copy of the request (the response copy in Invoke)
	stallRespCh chan struct{}
	inner       inprocgrpc.Cloner
}

func (c *recCloner) Copy(out, in interface{}) error {
	isReq := false
	c.mu.Lock()
	if in == c.req {
		isReq = true
		if c.returned {
			c.lateStart++
		}
		c.reading++
	}
	var stall chan struct{}
	if isReq && c.stallNext {
		c.stallNext = false
		c.stallCh = make(chan struct{})
		stall = c.stallCh
	}
	if !isReq && c.stallResp {
		c.stallResp = false
		c.stallRespCh = make(chan struct{})
		stall = c.stallRespCh
	}
	c.mu.Unlock()
	if stall != nil {
		copyStall(stall)
	}
	err := c.inner.Copy(out, in)
	if isReq {
		c.mu.Lock()
		c.reading--
		c.mu.Unlock()
	}
	return err
}
func copyStall(ch chan struct{})                          { <-ch }
func (c *recCloner) Clone(in interface{}) (interface{}, error) { return c.inner.Clone(in) }
func (c *recCloner) markReturned() {
	c.mu.Lock()
	defer c.mu.Unlock()
	c.returned = true
	if c.reading > 0 {
		c.overlap++
	}
}

type iuStep struct {
	op  string // e.g. c.invoke, h.decode, h.return:5:nil, env.hold:data
	evs []string
}

func (s iuStep) String() string { return s.op + "=>" + strings.Join(s.evs, ",") }

type iuScript struct {
	steps     []iuStep
	hung      bool
	panics    []string
	stillBusy []string
	lateReads int // the request was read (or still being read) after Invoke returned
	cResult   string
	retVal    string // handler's return as scripted: "<v>:<herr>"
	cancelled bool
	cancelBeforeReturnEvent bool
	hdrSet, tlrSet []int
	sendHeaderDone bool
}

func (sc *iuScript) line() string {
	var parts []string
	for _, s := range sc.steps {
		parts = append(parts, s.String())
	}
	return "IU model=new ops=" + strings.Join(parts, ";")
}
func (sc *iuScript) desc() map[string]interface{} {
	var parts []string
	for _, s := range sc.steps {
		parts = append(parts, s.String())
	}
	return map[string]interface{}{"transport": "inproc", "kind": "unary", "script": strings.Join(parts, " ; ")}
}

type unaryHandlerLoop struct {
	cmds    chan func(ctx context.Context, dec func(interface{}) error) (string, bool)
	results chan string
	retV    interface{}
	retErr  error
}

type iuOpts struct {
	steps      int
	allowHolds bool
	allowStall bool
	fixed      []string
}

func runUnaryScript(rng *Rng, o iuOpts) *iuScript {
	sc := &iuScript{}
	grpchan.VerifSetHook(holds.hook)
	defer grpchan.VerifSetHook(nil)
	defer holds.releaseAll()
	hl := &unaryHandlerLoop{cmds: make(chan func(context.Context, func(interface{}) error) (string, bool)), results: make(chan string, 1)}
	sd := &grpc.ServiceDesc{ServiceName: "s.S", HandlerType: (*synthHandler)(nil),
		Methods: []grpc.MethodDesc{{MethodName: "U", Handler: func(srv interface{}, ctx context.Context, dec func(interface{}) error, _ grpc.UnaryServerInterceptor) (interface{}, error) {
			for cmd := range hl.cmds {
				res, ret := cmd(ctx, dec)
				hl.results <- res
				if ret {
					return hl.retV, hl.retErr
				}
			}
			return nil, nil
		}}}}
	cl := &recCloner{inner: inprocgrpc.ProtoCloner{}}
	ich := (&inprocgrpc.Channel{}).WithCloner(cl)
	ich.RegisterService(sd, synthImpl{})
	ectx := newEnvCtx(context.Background(), false)
	eng := newEngine("c", "h")
	defer eng.close()
	req := &Msg{Count: 42}
	cl.req = req
	resp := &Msg{}
	var hdrOpt, tlrOpt metadata.MD
	invoked, hreturned, stalled := false, false, false
	held := map[string]bool{}
	nextID := 1

	hcmd := func(f func(ctx context.Context, dec func(interface{}) error) (string, bool)) func() string {
		return func() string {
			hl.cmds <- f
			return <-hl.results
		}
	}
	exec := func(op string) iuStep {
		noteStep("inproc/unary", sc.line(), op)
		st := iuStep{op: op}
		name, arg := op, ""
		if i := strings.Index(op, ":"); i >= 0 {
			name, arg = op[:i], op[i+1:]
		}
		switch name {
		case "c.invoke":
			invoked = true
			st.evs = eng.do("c", func() string {
				err := ich.Invoke(ectx, "/s.S/U", req, resp, grpc.Header(&hdrOpt), grpc.Trailer(&tlrOpt))
				cl.markReturned()
				r := "-"
				if resp.Count != 0 {
					r = strconv.Itoa(int(resp.Count))
				}
				return resOf(err) + "|resp=" + r + "|hdr=" + strings.TrimPrefix(mdIDs(hdrOpt, "h"), "md:") + "|tlr=" + strings.TrimPrefix(mdIDs(tlrOpt, "t"), "md:")
			})
		case "h.decode", "h.decodestall":
			if name == "h.decodestall" {
				cl.mu.Lock()
				cl.stallNext = true
				cl.mu.Unlock()
				stalled = true
			}
			st.evs = eng.do("h", hcmd(func(ctx context.Context, dec func(interface{}) error) (string, bool) {
				var m Msg
				return resOf(dec(&m)), false
			}))
			if name == "h.decodestall" {
				// a decode that was refused outright never reaches the cloner
				cl.mu.Lock()
				if cl.stallNext {
					cl.stallNext = false
					stalled = false
				}
				cl.mu.Unlock()
			}
		case "env.finishcopy":
			cl.mu.Lock()
			if cl.stallCh != nil {
				close(cl.stallCh)
				cl.stallCh = nil
			}
			cl.mu.Unlock()
			stalled = false
			st.evs = eng.settle()
		case "h.setheader", "h.sendheader", "h.settrailer":
			id, _ := strconv.Atoi(arg)
			st.evs = eng.do("h", hcmd(func(ctx context.Context, dec func(interface{}) error) (string, bool) {
				switch name {
				case "h.setheader":
					return resOf(grpc.SetHeader(ctx, metadata.Pairs("h", arg))), false
				case "h.sendheader":
					// grpc.SendHeader wraps a failure with toRPCErr (external): only ok / failed is compared
					if err := grpc.SendHeader(ctx, metadata.Pairs("h", arg)); err != nil {
						return "plain", false
					}
					return "ok", false
				}
				return resOf(grpc.SetTrailer(ctx, metadata.Pairs("t", arg))), false
			}))
			if r, ok := evRes(st.evs, "h"); ok && r == "ok" {
				if name == "h.settrailer" {
					sc.tlrSet = append(sc.tlrSet, id)
				} else {
					sc.hdrSet = append(sc.hdrSet, id)
				}
			}
		case "h.return":
			parts := strings.SplitN(arg, ":", 2)
			hl.retV = nil
			if parts[0] != "nil" {
				v, _ := strconv.Atoi(parts[0])
				hl.retV = &Msg{Count: int32(v)}
			}
			hl.retErr = herrOf(parts[1])
			if hl.retV == nil {
				hl.retV = (*Msg)(nil)
			}
			sc.retVal = arg
			hreturned = true
			a := eng.actors["h"]
			a.busy = true
			a.ops <- func() string {
				hl.cmds <- func(ctx context.Context, dec func(interface{}) error) (string, bool) { return "returned", true }
				return <-hl.results
			}
			for _, e := range eng.settle() {
				if e != "h:returned" {
					st.evs = append(st.evs, e)
				}
			}
		case "env.cancel", "env.expire":
			sc.cancelled = true
			if sc.cResult == "" {
				sc.cancelBeforeReturnEvent = true
			}
			if name == "env.cancel" {
				ectx.fire(context.Canceled)
			} else {
				ectx.fire(context.DeadlineExceeded)
			}
			st.evs = eng.settle()
		case "env.hold":
			if arg == "cresp" {
				cl.mu.Lock()
				cl.stallResp = true
				cl.mu.Unlock()
			} else {
				holds.hold(hookPoint[arg])
			}
			held[arg] = true
		case "env.release":
			if arg == "cresp" {
				cl.mu.Lock()
				cl.stallResp = false
				if cl.stallRespCh != nil {
					close(cl.stallRespCh)
					cl.stallRespCh = nil
				}
				cl.mu.Unlock()
			} else {
				holds.release(hookPoint[arg])
			}
			delete(held, arg)
			st.evs = eng.settle()
		}
		for _, e := range st.evs {
			if strings.Contains(e, ":panic:") {
				sc.panics = append(sc.panics, e)
			}
			if strings.HasPrefix(e, "c:") {
				sc.cResult = e[2:]
			}
		}
		return st
	}

	if o.fixed != nil {
		for _, op := range o.fixed {
			sc.steps = append(sc.steps, exec(op))
		}
	} else {
		kinds := []string{"headers", "data", "trailers", "err", "close", "cresp"}
		if o.allowHolds {
			for _, k := range kinds {
				if rng.Chance(30) {
					sc.steps = append(sc.steps, exec("env.hold:"+k))
				}
			}
		}
		sc.steps = append(sc.steps, exec("c.invoke"))
		for i := 0; i < o.steps; i++ {
			var cands []string
			if eng.idle("h") && !hreturned && !stalled {
				cands = append(cands, "h.decode", "h.setheader:"+strconv.Itoa(nextID), "h.settrailer:"+strconv.Itoa(nextID), "h.sendheader:"+strconv.Itoa(nextID))
				if o.allowStall {
					cands = append(cands, "h.decodestall")
				}
				vs := []string{"nil", "5", "6"}
				herrs := []string{"nil", "nil", "nil", "status:5", "status:13", "plain", "ctx:canceled", "ctx:deadline"}
				cands = append(cands, "h.return:"+vs[rng.Intn(3)]+":"+herrs[rng.Intn(len(herrs))], "h.return:7:nil")
			}
			if stalled {
				cands = append(cands, "env.finishcopy", "env.finishcopy")
			}
			if !sc.cancelled {
				cands = append(cands, []string{"env.cancel", "env.expire"}[rng.Intn(2)])
			}
			for k := range held {
				cands = append(cands, "env.release:"+k)
			}
			if len(cands) == 0 {
				break
			}
			sortStrings(cands)
			op := cands[rng.Intn(len(cands))]
			nextID++
			sc.steps = append(sc.steps, exec(op))
		}
	}
	// drain: finish a stalled copy, release every hold, let the handler return, end the context
	if stalled {
		sc.steps = append(sc.steps, exec("env.finishcopy"))
	}
	var hs []string
	for k := range held {
		hs = append(hs, k)
	}
	sortStrings(hs)
	for _, k := range hs {
		sc.steps = append(sc.steps, exec("env.release:"+k))
	}
	if invoked && !hreturned && eng.idle("h") {
		sc.steps = append(sc.steps, exec("h.return:7:nil"))
	}
	if !sc.cancelled {
		sc.steps = append(sc.steps, exec("env.cancel"))
		sc.cancelBeforeReturnEvent = false
	}
	for _, n := range eng.order {
		if !eng.idle(n) {
			sc.stillBusy = append(sc.stillBusy, n)
		}
	}
	sc.hung = eng.hung
	cl.mu.Lock()
	sc.lateReads = cl.lateStart + cl.overlap
	cl.mu.Unlock()
	return sc
}

func sortStrings(xs []string) {
	for i := 1; i < len(xs); i++ {
		for j := i; j > 0 && xs[j] < xs[j-1]; j-- {
			xs[j], xs[j-1] = xs[j-1], xs[j]
		}
	}
}

// unaryOracle evaluates the unary clauses of C02/C03/C04/C05/C06/C08 on one script.
func unaryOracle(r *Run, prop string, sc *iuScript) (nontrivial bool) {
	desc, line := sc.desc(), sc.line()
	if sc.hung {
		r.Violate("inproc/unary/never-quiescent", "operations terminate or block", "the call never became quiescent within 3 s", desc, line)
	}
	if len(sc.panics) > 0 {
		r.Violate("inproc/unary/panic", "no interleaving makes the library panic", fmt.Sprint(sc.panics), desc, line)
	}
	res := sc.cResult // "<err>|resp=..|hdr=..|tlr=.."
	parts := strings.Split(res, "|")
	outcome := parts[0]
	field := func(k string) string {
		for _, p := range parts[1:] {
			if strings.HasPrefix(p, k+"=") {
				return p[len(k)+1:]
			}
		}
		return ""
	}
	// the handler's real result
	want := ""
	if sc.retVal != "" {
		ve := strings.SplitN(sc.retVal, ":", 2)
		switch {
		case ve[1] != "nil":
			want = expectFinal(ve[1])
		case ve[0] == "nil":
			want = "code:13"
		default:
			want = "ok"
		}
	}
	idsStr := func(ids []int) string {
		if len(ids) == 0 {
			return "-"
		}
		var s []string
		for _, x := range ids {
			s = append(s, strconv.Itoa(x))
		}
		return strings.Join(s, "+")
	}
	switch prop {
	case "C02", "C08":
		if res != "" && !sc.cancelBeforeReturnEvent && want != "" {
			nontrivial = true
			if codeClass(outcome) != want {
				r.Violate("inproc/unary/final-status-differs", "the outcome reported to the client equals the status the server handler returned; exactly one response or an error", sprintf("handler returned %s, Invoke returned %s", sc.retVal, outcome), desc, line)
			}
		}
		if outcome == "ok" && want != "ok" && want != "" {
			r.Violate("inproc/unary/success-despite-error", "the client reports success only if the handler returned nil and the complete response was received", sprintf("handler returned %s, Invoke returned nil", sc.retVal), desc, line)
		}
	case "C03":
		nontrivial = len(sc.hdrSet)+len(sc.tlrSet) > 0
		if outcome == "ok" {
			if field("hdr") != idsStr(sc.hdrSet) || field("tlr") != idsStr(sc.tlrSet) {
				r.Violate("inproc/unary/success-with-missing-metadata", "a call that reports success has delivered all headers and trailers", sprintf("Invoke returned nil with headers %s trailers %s; the handler set %s / %s", field("hdr"), field("tlr"), idsStr(sc.hdrSet), idsStr(sc.tlrSet)), desc, line)
			}
		}
	case "C04":
		if sc.cancelBeforeReturnEvent && res != "" {
			nontrivial = true
			okReal := want != "" && codeClass(outcome) == want && (outcome != "ok" || (field("hdr") == idsStr(sc.hdrSet) && field("tlr") == idsStr(sc.tlrSet)))
			isCancel := outcome == "status:1" || outcome == "status:4"
			if !isCancel && !okReal {
				r.Violate("inproc/unary/cancel-race-mixture", "when cancellation races with completion the caller gets either the complete real result or the cancellation status, never a mixture; never a bare io.EOF or other non-status error", sprintf("cancelled call returned %s (handler returned %q, set headers %s trailers %s)", res, sc.retVal, idsStr(sc.hdrSet), idsStr(sc.tlrSet)), desc, line)
			}
		}
		if sc.cancelled && res == "" {
			r.Violate("inproc/unary/invoke-blocked-after-cancel", "returns promptly", "Invoke stayed blocked after the context ended", desc, line)
		}
	case "C05":
		nontrivial = true
		if len(sc.stillBusy) > 0 {
			r.Violate("inproc/unary/blocked-after-completion", "every operation completes once the handler returned or the context ended", fmt.Sprint(sc.stillBusy), desc, line)
		}
	case "C06":
		nontrivial = sc.cancelled
		if sc.lateReads > 0 {
			r.Violate("inproc/unary/request-read-after-return", "once a unary call has returned to the caller, the library no longer reads the caller's message", sprintf("%d copies of the request began after, or were still running when, Invoke returned", sc.lateReads), desc, line)
		}
	}
	return
}
