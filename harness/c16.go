package main

import (
	"context"
	"errors"
	"fmt"
	"reflect"
	"strings"

	"github.com/fullstorydev/grpchan"
	"github.com/fullstorydev/grpchan/httpgrpc"
	"github.com/fullstorydev/grpchan/inprocgrpc"
	"google.golang.org/grpc"
)

func init() { suites["C16"] = suiteC16 }

var errDecorShort = errors.New("decor short-circuit")

func descSnapshot(d *grpc.ServiceDesc) string {
	var b strings.Builder
	fmt.Fprintf(&b, "%s|%v|%v|", d.ServiceName, reflect.TypeOf(d.HandlerType), d.Metadata)
	for _, m := range d.Methods {
		fmt.Fprintf(&b, "M:%s:%x;", m.MethodName, reflect.ValueOf(m.Handler).Pointer())
	}
	for _, s := range d.Streams {
		fmt.Fprintf(&b, "S:%s:%v:%v:%x;", s.StreamName, s.ClientStreams, s.ServerStreams, reflect.ValueOf(s.Handler).Pointer())
	}
	fmt.Fprintf(&b, "|%p|%p", sliceData(d.Methods), sliceDataS(d.Streams))
	return b.String()
}

func sliceData(s []grpc.MethodDesc) interface{} {
	if len(s) == 0 {
		return nil
	}
	return &s[0]
}
func sliceDataS(s []grpc.StreamDesc) interface{} {
	if len(s) == 0 {
		return nil
	}
	return &s[0]
}

func suiteC16(r *Run) {
	r.Rule = "random service descriptors (0..3 unary, 0..3 stream methods, random flags) x nil/non-nil unary and stream interceptors at decoration (0..2 nested levels; InterceptServer and WithInterceptor) and transport level x interceptor behaviours pass / short-circuit / rewrite x carriers direct, in-process channel, HTTP server; compared: ordered event logs with the info each interceptor saw, the response, and a deep snapshot (names, flags, handler and slice pointers) of the input ServiceDesc before/after. Non-trivial: at least one non-nil interceptor; distinct by configuration."
	r.Assumptions = append(r.Assumptions, "protoc-generated _Handler functions have the shape emulated by the synthetic descriptors (dec, then interceptor-or-direct)")
	rng := r.Rng
	behs := []string{"-", "p", "s", "r"}

	for iter := 0; iter < r.Budget(250, 10000); iter++ {
		var log []string
		svcName := []string{"pkg.Svc", "a.B"}[rng.Intn(2)]
		d := &grpc.ServiceDesc{ServiceName: svcName, HandlerType: (*synthHandler)(nil), Metadata: "f.proto"}
		nU, nS := rng.Intn(4), rng.Intn(4)
		if nU+nS == 0 {
			nU = 1
		}
		for i := 0; i < nU; i++ {
			name := fmt.Sprintf("U%d", i)
			full := "/" + svcName + "/" + name
			d.Methods = append(d.Methods, grpc.MethodDesc{MethodName: name, Handler: func(srv interface{}, ctx context.Context, dec func(interface{}) error, interceptor grpc.UnaryServerInterceptor) (interface{}, error) {
				in := new(Msg)
				if err := dec(in); err != nil {
					return nil, err
				}
				app := func(ctx context.Context, req interface{}) (interface{}, error) {
					log = append(log, sprintf("app(%d)", req.(*Msg).Count))
					return &Msg{Count: req.(*Msg).Count}, nil
				}
				if interceptor == nil {
					return app(ctx, in)
				}
				return interceptor(ctx, in, &grpc.UnaryServerInfo{Server: srv, FullMethod: full}, app)
			}})
		}
		for i := 0; i < nS; i++ {
			name := fmt.Sprintf("S%d", i)
			d.Streams = append(d.Streams, grpc.StreamDesc{StreamName: name, ClientStreams: rng.Bool(), ServerStreams: rng.Bool(), Handler: func(srv interface{}, stream grpc.ServerStream) error {
				log = append(log, "app")
				return nil
			}})
		}
		before := descSnapshot(d)

		mkU := func(tag string, beh string) grpc.UnaryServerInterceptor {
			if beh == "-" {
				return nil
			}
			return func(ctx context.Context, req interface{}, info *grpc.UnaryServerInfo, handler grpc.UnaryHandler) (interface{}, error) {
				log = append(log, sprintf("%s(%s,%d)", tag, info.FullMethod, req.(*Msg).Count))
				switch beh {
				case "s":
					return nil, errDecorShort
				case "r":
					resp, err := handler(ctx, &Msg{Count: req.(*Msg).Count + 1})
					if err != nil {
						return nil, err
					}
					return &Msg{Count: resp.(*Msg).Count + 1000}, nil
				}
				return handler(ctx, req)
			}
		}
		mkS := func(tag string, beh string) grpc.StreamServerInterceptor {
			if beh == "-" {
				return nil
			}
			return func(srv interface{}, ss grpc.ServerStream, info *grpc.StreamServerInfo, handler grpc.StreamHandler) error {
				log = append(log, sprintf("%s(%s,%s,%s)", tag, info.FullMethod, b01(info.IsClientStream), b01(info.IsServerStream)))
				if beh == "s" {
					return errDecorShort
				}
				return handler(srv, ss)
			}
		}
		levels := rng.Intn(3)
		type lvl struct{ u, s string }
		var lv []lvl
		cur := d
		useRegistryWrapper := rng.Chance(30)
		// half of the registry-view cases: two views, the one next to the registry intercepting one kind only, the
		// one on top of it both kinds (every interceptor calls onward, so each must show up in the log)
		partialInner := useRegistryWrapper && rng.Chance(50)
		if partialInner {
			levels = 2
		}
		for i := 0; i < levels; i++ {
			l := lvl{behs[rng.Intn(4)], behs[rng.Intn(3)]}
			if rng.Chance(40) {
				l = lvl{"p", "p"}
			}
			if partialInner {
				if i == 0 {
					l = lvl{[]string{"p", "r"}[rng.Intn(2)], "p"}
				} else {
					l = []lvl{{"p", "-"}, {"-", "p"}, {"r", "-"}}[rng.Intn(3)]
				}
			}
			lv = append(lv, l)
			next := grpchan.InterceptServer(cur, mkU(sprintf("D%d", i), l.u), mkS(sprintf("D%d", i), l.s))
			c := map[string]interface{}{"level": i, "u": l.u, "s": l.s}
			if l.u == "-" && l.s == "-" && next != cur {
				r.Violate("server-intercept/no-interceptors-not-identity", "with no interceptors the original is returned as is", "InterceptServer(desc, nil, nil) != desc", c, "")
			}
			cur = next
		}
		// the same decoration applied through nested registry views instead: WithInterceptor(WithInterceptor(base, D1), D0)
		// registers InterceptServer(InterceptServer(d, D0), D1) at the base
		viaViews := useRegistryWrapper && levels > 0
		register := func(base grpchan.ServiceRegistry) {
			if !viaViews {
				base.RegisterService(cur, synthImpl{})
				return
			}
			reg := base
			for i := levels - 1; i >= 0; i-- {
				reg = grpchan.WithInterceptor(reg, mkU(sprintf("D%d", i), lv[i].u), mkS(sprintf("D%d", i), lv[i].s))
			}
			reg.RegisterService(d, synthImpl{})
		}
		if viaViews {
			cap := &captureRegistry{}
			register(cap)
			cur = cap.desc
		}
		tU, tS := behs[rng.Intn(2)], behs[rng.Intn(2)] // transport level: nil or pass
		carrier := []string{"direct", "inproc", "http"}[rng.Intn(3)]
		var lspec []string
		for _, l := range lv {
			lspec = append(lspec, l.u+l.s)
		}
		caseDesc := map[string]interface{}{"carrier": carrier, "transport": tU + tS, "decor_inner_to_outer": strings.Join(lspec, ","), "unary": nU, "streams": nS, "decorated_through_nested_WithInterceptor_views": viaViews}

		var inCh *inprocgrpc.Channel
		var hm *httpMemGeneric
		switch carrier {
		case "inproc":
			inCh = &inprocgrpc.Channel{}
			if tU != "-" {
				inCh.WithServerUnaryInterceptor(mkU("T", tU))
			}
			if tS != "-" {
				inCh.WithServerStreamInterceptor(mkS("T", tS))
			}
			register(inCh)
		case "http":
			var opts []httpgrpc.ServerOption
			if tU != "-" {
				opts = append(opts, httpgrpc.WithServerUnaryInterceptor(mkU("T", tU)))
			}
			if tS != "-" {
				opts = append(opts, httpgrpc.WithServerStreamInterceptor(mkS("T", tS)))
			}
			// the server may be mounted under a base path: interceptors must still be told "/service/method"
			base := []string{"/", "/", "/api/v1/", "/x/"}[rng.Intn(4)]
			if base != "/" {
				opts = append(opts, httpgrpc.WithBasePath(base))
				caseDesc["base_path"] = base
			}
			hs := httpgrpc.NewServer(opts...)
			register(hs)
			hm = newHTTPMemGeneric(hs)
			hm.ch.BaseURL.Path = base
		}

		// one call per method; then (direct and in-process carriers) a second round on the SAME decorated
		// description with a different transport-supplied interceptor: the composition must be per call
		rounds := []string{tU}
		if carrier != "http" {
			alt := []string{"-", "p", "r"}
			t2 := alt[rng.Intn(3)]
			for t2 == tU {
				t2 = alt[rng.Intn(3)]
			}
			rounds = append(rounds, t2, tU)
		}
		for round, tU := range rounds {
		if round > 0 && carrier == "inproc" {
			inCh.WithServerUnaryInterceptor(mkU("T", tU))
		}
		for i := 0; i < nU; i++ {
			log = log[:0]
			reqCount := int32(rng.Intn(50))
			full := fmt.Sprintf("/%s/U%d", svcName, i)
			var resp interface{}
			var err error
			out := &Msg{}
			switch carrier {
			case "direct":
				dec := func(m interface{}) error { m.(*Msg).Count = reqCount; return nil }
				resp, err = cur.Methods[i].Handler(synthImpl{}, context.Background(), dec, mkU("T", tU))
				if err == nil {
					out = resp.(*Msg)
				}
			case "inproc":
				err = inCh.Invoke(context.Background(), full, &Msg{Count: reqCount}, out)
			case "http":
				err = hm.ch.Invoke(context.Background(), full, &Msg{Count: reqCount}, out)
			}
			res := sprintf("resp(%d)", out.Count)
			if err != nil {
				res = "short"
				if !strings.Contains(err.Error(), "decor short-circuit") {
					res = "err"
				}
			}
			ans := strings.Join(log, " ") + " =>" + res
			r.Op(sprintf("C16 unary svc=%s m=U%d t=%s decor=%s req=%d", hexOrDash([]byte(svcName)), i, tU, strings.Join(lspec, ","), reqCount), ans)
			r.Eval(fmt.Sprint("u", carrier, tU, lspec, i, round), tU != "-" || levels > 0)
			r.Count("carrier:" + carrier)
			r.TracesOnImpl++
			// oracle: transport first, then decorations outermost (latest) first, each once, until a short-circuit; handler iff all passed
			var want []string
			cnt := reqCount
			stopped := false
			if tU != "-" {
				want = append(want, sprintf("T(%s,%d)", full, cnt))
				if tU == "r" {
					cnt++
				}
			}
			for j := levels - 1; j >= 0 && !stopped; j-- {
				switch lv[j].u {
				case "-":
				case "p":
					want = append(want, sprintf("D%d(%s,%d)", j, full, cnt))
				case "s":
					want = append(want, sprintf("D%d(%s,%d)", j, full, cnt))
					stopped = true
				case "r":
					want = append(want, sprintf("D%d(%s,%d)", j, full, cnt))
					cnt++
				}
			}
			if !stopped {
				want = append(want, sprintf("app(%d)", cnt))
			}
			if strings.Join(want, " ") != strings.Join(log, " ") {
				r.Violate("server-intercept/unary-order-or-count", "dispatches every RPC through each applicable interceptor exactly once, the transport-supplied interceptor first and the decorating one next, then the original handler; the handler runs iff every interceptor calls onward; interceptors are told the correct full method name",
					sprintf("%s U%d (round %d, transport interceptor %s): log %q, expected %q", carrier, i, round, tU, strings.Join(log, " "), strings.Join(want, " ")), caseDesc, ans)
			}
		}
		}
		for i := 0; i < nS; i++ {
			log = log[:0]
			full := fmt.Sprintf("/%s/S%d", svcName, i)
			sd := d.Streams[i]
			var err error
			switch carrier {
			case "direct":
				if ts := mkS("T", tS); ts != nil {
					err = ts(synthImpl{}, nil, &grpc.StreamServerInfo{FullMethod: full, IsClientStream: sd.ClientStreams, IsServerStream: sd.ServerStreams}, cur.Streams[i].Handler)
				} else {
					err = cur.Streams[i].Handler(synthImpl{}, nil)
				}
			case "inproc", "http":
				var ch grpc.ClientConnInterface = inCh
				if carrier == "http" {
					ch = hm.ch
				}
				ctx, cancel := context.WithCancel(context.Background())
				var cs grpc.ClientStream
				cs, err = ch.NewStream(ctx, &grpc.StreamDesc{ClientStreams: true, ServerStreams: true}, full)
				if err == nil {
					cs.CloseSend()
					var m Msg
					err = cs.RecvMsg(&m)
					if err != nil && err.Error() == "EOF" {
						err = nil
					}
				}
				cancel()
			}
			res := "ok"
			if err != nil {
				res = "short"
			}
			ans := strings.Join(log, " ") + " =>" + res
			r.Op(sprintf("C16 stream svc=%s m=S%d cs=%s ss=%s t=%s decor=%s", hexOrDash([]byte(svcName)), i, b01(sd.ClientStreams), b01(sd.ServerStreams), tS, strings.Join(lspec, ",")), ans)
			r.Eval(fmt.Sprint("s", carrier, tS, lspec, i, sd.ClientStreams, sd.ServerStreams), tS != "-" || levels > 0)
			r.TracesOnImpl++
			var want []string
			info := sprintf("(%s,%s,%s)", full, b01(sd.ClientStreams), b01(sd.ServerStreams))
			stopped := false
			if tS != "-" {
				want = append(want, "T"+info)
			}
			for j := levels - 1; j >= 0 && !stopped; j-- {
				switch lv[j].s {
				case "p":
					want = append(want, sprintf("D%d", j)+info)
				case "s":
					want = append(want, sprintf("D%d", j)+info)
					stopped = true
				}
			}
			if !stopped {
				want = append(want, "app")
			}
			if strings.Join(want, " ") != strings.Join(log, " ") {
				r.Violate("server-intercept/stream-order-count-or-info", "interceptors are told the correct full method name and streaming flags; each applicable interceptor exactly once, transport first",
					sprintf("%s S%d: log %q, expected %q", carrier, i, strings.Join(log, " "), strings.Join(want, " ")), caseDesc, ans)
			}
		}
		if after := descSnapshot(d); after != before {
			r.Violate("server-intercept/original-desc-modified", "the original description is left unmodified", sprintf("before %s after %s", before, after), caseDesc, after)
		}
		if len(r.Samples) < 4 && levels > 0 {
			r.Sample(map[string]interface{}{"case": caseDesc, "last_log": strings.Join(log, " ")})
		}
	}
}

// captureRegistry keeps the description a stack of registry views hands down.
type captureRegistry struct{ desc *grpc.ServiceDesc }

func (c *captureRegistry) RegisterService(d *grpc.ServiceDesc, srv interface{}) { c.desc = d }
