package main

import (
	"io"
	"bytes"
	"context"
	"encoding/binary"
	"fmt"
	"mime"
	"net/http"
	"net/http/httptest"
	"strconv"
	"strings"

	"github.com/fullstorydev/grpchan/grpchantesting"
	"github.com/fullstorydev/grpchan/httpgrpc"
	"google.golang.org/grpc"
	"google.golang.org/grpc/codes"
	"google.golang.org/grpc/metadata"
	"google.golang.org/grpc/status"
	"google.golang.org/protobuf/encoding/protojson"
	"google.golang.org/protobuf/proto"
)

func init() { suites["C11"] = suiteC11 }

type gateSvc struct {
	descCalls, appCalls int
	result              error
	resp                interface{}
	script              string
	sendResults         []bool
}

func (g *gateSvc) desc() *grpc.ServiceDesc {
	runScript := func(stream grpc.ServerStream) error {
		g.descCalls++
		for _, op := range g.script {
			switch op {
			case 's':
				g.sendResults = append(g.sendResults, stream.SendMsg(&Msg{Count: 7}) == nil)
			case 'm':
				g.sendResults = append(g.sendResults, stream.SendMsg(42) == nil) // not a proto message: Marshal fails
			case 'h':
				stream.SetHeader(metadata.Pairs("h", "1"))
			case 'H':
				stream.SendHeader(metadata.Pairs("hh", "1"))
			case 't':
				stream.SetTrailer(metadata.Pairs("t", "1"))
			case 'r':
				var m Msg
				stream.RecvMsg(&m)
			}
		}
		return g.result
	}
	return &grpc.ServiceDesc{
		ServiceName: "gate.Svc", HandlerType: (*synthHandler)(nil),
		Methods: []grpc.MethodDesc{{MethodName: "U", Handler: func(srv interface{}, ctx context.Context, dec func(interface{}) error, interceptor grpc.UnaryServerInterceptor) (interface{}, error) {
			g.descCalls++
			var in Msg
			if err := dec(&in); err != nil {
				return nil, err
			}
			g.appCalls++
			if g.result != nil {
				return nil, g.result
			}
			if g.resp != nil {
				return g.resp, nil
			}
			return &Msg{Count: in.Count + 1, Payload: in.Payload}, nil
		}}},
		Streams: []grpc.StreamDesc{
			{StreamName: "S", ServerStreams: true, Handler: func(srv interface{}, stream grpc.ServerStream) error { return runScript(stream) }},
			{StreamName: "B", ServerStreams: true, ClientStreams: true, Handler: func(srv interface{}, stream grpc.ServerStream) error { return runScript(stream) }},
		},
	}
}

// undecodableStreamRequests: a streaming request whose last message is cut short or does not decode
// must reach the caller as a non-OK status (the handler is the usual loop: Recv until error, return
// any error other than io.EOF).
func undecodableStreamRequests(r *Run) {
	rng := r.Rng.Fork("c11-stream-undecodable")
	frame := func(b []byte) []byte {
		out := []byte{byte(len(b) >> 24), byte(len(b) >> 16), byte(len(b) >> 8), byte(len(b))}
		return append(out, b...)
	}
	for i := 0; i < r.Budget(40, 800); i++ {
		var body []byte
		for j := 0; j < rng.Intn(3); j++ {
			body = append(body, frame(marshalDet(&Msg{Count: int32(j + 1), Payload: rng.Bytes(rng.Intn(12))}))...)
		}
		last := frame(marshalDet(&Msg{Count: 99, Payload: rng.Bytes(1 + rng.Intn(20))}))
		kind := ""
		switch i % 3 {
		case 0: // cut right after the size preface
			body, kind = append(body, last[:4]...), "cut-after-preface"
		case 1: // cut somewhere inside the frame
			body, kind = append(body, last[:1+rng.Intn(len(last)-1)]...), "cut-inside-frame"
		default: // complete frame whose payload is not a valid message
			body, kind = append(body, frame([]byte{0xff, 0xff, 0xff, 0x07})...), "garbage-payload"
		}
		svr := &scriptServer{}
		got := 0
		svr.bidi = func(s grpchantesting.TestService_BidiStreamServer) error {
			for {
				_, err := s.Recv()
				if err == io.EOF {
					return nil
				}
				if err != nil {
					return err
				}
				got++
			}
		}
		hs := httpgrpc.NewServer()
		grpchantesting.RegisterTestServiceServer(hs, svr)
		req := httptest.NewRequest("POST", mBidi, bytes.NewReader(body))
		req.Header.Set("Content-Type", httpgrpc.StreamRpcContentType_V1)
		rec := httptest.NewRecorder()
		var pan string
		func() { defer recoverTo(&pan); hs.ServeHTTP(rec, req) }()
		_, trs := walkFrames(rec.Body.Bytes())
		code := int32(-1)
		if len(trs) == 1 {
			var tr httpgrpc.HttpTrailer
			if proto.Unmarshal(trs[0], &tr) == nil {
				code = tr.Code
			}
		}
		c := map[string]interface{}{"op": "stream-undecodable", "kind": kind, "body_hex": hexOrDash(body)}
		r.Eval(sprintf("stream-undecodable %s %x", kind, body), true)
		r.Count("stream-undecodable:" + kind)
		if pan != "" {
			r.Violate("http-server/stream/panic", "no request makes the server panic", pan, c, pan)
		} else if code == 0 {
			r.Violate("http-server/stream/undecodable-request-ok", "an undecodable request message reaches the caller as a non-OK status",
				sprintf("%s: the request's last message is %s, yet the call ended with status OK after %d messages", kind, kind, got), c, "code=0")
		}
	}
}

// trailerAfterServerDeadline: a streaming reply ends with exactly one trailer frame also when the deadline
// taken from GRPC-Timeout has expired by the time the handler returns (the request itself is still live).
func trailerAfterServerDeadline(r *Run) {
	for i := 0; i < r.Budget(4, 40); i++ {
		nmsg := i % 3
		var herr error
		if i%2 == 1 {
			herr = status.Error(codes.Aborted, "late")
		}
		svr := &scriptServer{}
		svr.bidi = func(s grpchantesting.TestService_BidiStreamServer) error {
			for j := 0; j < nmsg; j++ {
				s.Send(&Msg{Count: int32(j)})
			}
			<-s.Context().Done() // outlive the GRPC-Timeout deadline
			return herr
		}
		hs := httpgrpc.NewServer()
		grpchantesting.RegisterTestServiceServer(hs, svr)
		req := httptest.NewRequest("POST", mBidi, bytes.NewReader(nil))
		req.Header.Set("Content-Type", httpgrpc.StreamRpcContentType_V1)
		req.Header.Set("GRPC-Timeout", "15m")
		rec := httptest.NewRecorder()
		hs.ServeHTTP(rec, req)
		data, trs := walkFrames(rec.Body.Bytes())
		c := map[string]interface{}{"op": "stream-server-deadline", "messages": nmsg, "handler_error": herr != nil, "grpc_timeout": "15m"}
		r.Eval(sprintf("stream-server-deadline %d %v", nmsg, herr != nil), true)
		r.Count("stream-server-deadline")
		if len(trs) != 1 || len(data) != nmsg {
			r.Violate("http-server/stream-reply/no-trailer-after-deadline", "a streaming reply always ends with exactly one trailer frame",
				sprintf("handler returned after the GRPC-Timeout deadline had expired (request still live): reply has %d data frames (want %d) and %d trailer frames (want 1)", len(data), nmsg, len(trs)), c, hexOrDash(rec.Body.Bytes()))
		}
	}
}

func suiteC11(r *Run) {
	hsSuite(r, "C11")
	undecodableStreamRequests(r)
	trailerAfterServerDeadline(r)
	r.Rule = "HTTP requests of all shapes (methods, Content-Type strings with parameters/case/unknown types, header sets with invalid base64 in -bin headers and bad GRPC-Timeout, valid/garbage/empty bodies) against every registered method kind through httptest.ResponseRecorder and the real Server (404 via the mux); handler-call counters; reply frames parsed. Non-trivial: request reaches a gate decision other than the default success path or carries a handler script; distinct by full request tuple."
	r.Assumptions = append(r.Assumptions, "mime.ParseMediaType (its answer is passed to the model)", "codec Unmarshal (its answer is passed to the model)", "http.ServeMux 404 for unknown paths")
	rng := r.Rng
	methods := []string{"POST", "GET", "PUT", "HEAD", "DELETE", "OPTIONS", "PATCH", "post", "POSTX", "CONNECT"}
	ctypes := []string{"application/x-protobuf", "application/x-protobuf; charset=utf-8", "APPLICATION/X-PROTOBUF", "application/json", "application/json;charset=UTF-8",
		"application/x-httpgrpc-proto+v1", "Application/X-HttpGrpc-Proto+V1; v=1", "text/plain", "", "application/x-protobuf;", "a/b; x", "application/x-protobufx", "application/grpc", ";;;", "application/x-httpgrpc-proto+v2"}
	validProto := marshalDet(&Msg{Count: 41, Payload: []byte("pay")})
	validJSON, _ := protojson.Marshal(&Msg{Count: 41, Payload: []byte("pay")})
	bodies := [][]byte{validProto, validJSON, {7, 7, 7}, nil, []byte("{\"count\":\"x\"}"), []byte("{bad json")}
	results := []error{nil, nil, status.Error(codes.NotFound, "nf"), status.Error(codes.Internal, "boom"), fmt.Errorf("plain"), okCodeErr{"okc"}, status.Error(codes.Code(77), "odd")}

	type hdrCase struct {
		name string
		h    map[string]string
		ok   bool
	}
	hdrs := []hdrCase{{"none", nil, true}, {"plain", map[string]string{"X-K": "v"}, true}, {"goodbin", map[string]string{"X-K-Bin": "AAEC"}, true},
		{"badbin", map[string]string{"X-K-Bin": "!!!not base64"}, false}, {"badtimeout", map[string]string{"GRPC-Timeout": "zzz"}, true}, {"emptytimeout", map[string]string{"GRPC-Timeout": ""}, true}, {"timeout", map[string]string{"GRPC-Timeout": "5S"}, true},
		{"badbin-pad", map[string]string{"K-Bin": "AAE"}, false}}

	n := r.Budget(700, 30000)
	for i := 0; i < n; i++ {
		m := methods[0]
		if rng.Chance(35) {
			m = rng.Pick(methods)
		}
		ct := ctypes[rng.Intn(len(ctypes))]
		if rng.Chance(35) {
			ct = ctypes[rng.Intn(2)]
		}
		hc := hdrs[rng.Intn(len(hdrs))]
		if rng.Chance(50) {
			hc = hdrs[0]
		}
		body := bodies[rng.Intn(len(bodies))]
		if rng.Chance(50) {
			body = validProto
		}
		kind := []string{"U", "S", "B"}[rng.Intn(3)]
		g := &gateSvc{result: results[rng.Intn(len(results))]}
		if kind != "U" {
			ops := "smhHtr"
			for j := rng.Intn(6); j > 0; j-- {
				c := ops[rng.Intn(len(ops))]
				if c == 'm' && rng.Chance(60) {
					c = 's'
				}
				g.script += string(c)
			}
			// stream request body: frames
			if rng.Chance(70) {
				body = frame(validProto, false)
			}
		} else if rng.Chance(5) {
			g.resp = 42 // response that does not marshal
		}
		hs := httpgrpc.NewServer()
		hs.RegisterService(g.desc(), synthImpl{})
		req := httptest.NewRequest("POST", "/gate.Svc/"+kind, bytes.NewReader(body))
		req.Method = m
		if ct != "" {
			req.Header.Set("Content-Type", ct)
		}
		for k, v := range hc.h {
			req.Header.Set(k, v)
		}
		rec := httptest.NewRecorder()
		var pan string
		func() {
			defer recoverTo(&pan)
			hs.ServeHTTP(rec, req)
		}()
		mt, _, _ := mime.ParseMediaType(ct)
		res := rec.Result()
		allow := res.Header.Get("Allow") == "POST"
		grpcCode := "none"
		if v := res.Header.Get("X-GRPC-Status"); v != "" {
			grpcCode = strings.SplitN(v, ":", 2)[0]
		}
		c := map[string]interface{}{"kind": kind, "http_method": m, "content_type": ct, "headers": hc.name, "body_hex": trunc(hexOrDash(body), 80), "handler_result": fmt.Sprint(g.result), "script": g.script}
		r.Eval(fmt.Sprint(kind, m, ct, hc.name, hexOrDash(body), g.result, g.script), m != "POST" || !hc.ok || g.script != "" || mt != "application/x-protobuf" || g.result != nil)
		r.Count("kind:" + kind)
		r.Count(sprintf("status:%d", res.StatusCode))
		r.TracesOnImpl++
		if pan != "" {
			r.Violate("http-server/gate/panic", "no request makes the server panic", pan, c, "panic")
			continue
		}
		valid := m == "POST" && hc.ok
		if kind == "U" {
			valid = valid && (mt == "application/x-protobuf" || mt == "application/json")
		} else {
			valid = valid && mt == "application/x-httpgrpc-proto+v1"
		}
		if g.descCalls > 1 || g.appCalls > g.descCalls {
			r.Violate("http-server/gate/handler-more-than-once", "invokes the registered handler at most once", sprintf("handler ran %d times (app %d)", g.descCalls, g.appCalls), c, "")
		}
		if g.descCalls == 1 && !valid {
			r.Violate("http-server/gate/handler-ran-for-invalid-request", "only when the method is POST, the content type is one that RPC kind supports and the request headers decode",
				sprintf("handler ran for %s %q headers=%s", m, ct, hc.name), c, sprintf("status %d", res.StatusCode))
		}
		if g.descCalls == 0 && valid {
			r.Violate("http-server/gate/valid-request-refused", "a valid request reaches the handler", sprintf("%s %q headers=%s answered %d without running the handler", m, ct, hc.name, res.StatusCode), c, sprintf("status %d", res.StatusCode))
		}
		if !valid {
			want := 405
			switch {
			case m != "POST":
				want = 405
			case (kind == "U" && mt != "application/x-protobuf" && mt != "application/json") || (kind != "U" && mt != "application/x-httpgrpc-proto+v1"):
				want = 415
			default:
				want = 400
			}
			if res.StatusCode != want || (want == 405 && !allow) {
				r.Violate("http-server/gate/wrong-refusal-status", "otherwise it answers 405, 415 or 400", sprintf("%s %q headers=%s: HTTP %d allow=%v, expected %d", m, ct, hc.name, res.StatusCode, allow, want), c, sprintf("status %d", res.StatusCode))
			}
		}
		if kind == "U" {
			unmarshalOK := true
			if valid {
				codec := httpgrpc.VerifGetUnaryCodec(ct)
				var tmp Msg
				unmarshalOK = codec.Unmarshal(body, &tmp) == nil
				if !unmarshalOK {
					if grpcCode != "3" || g.appCalls != 0 {
						r.Violate("http-server/gate/bad-message-not-invalid-argument", "an undecodable request message reaches the caller as a non-OK status (InvalidArgument for unary calls)",
							sprintf("undecodable body: X-GRPC-Status code %s, application ran %d times", grpcCode, g.appCalls), c, grpcCode)
					}
				}
			}
			hres := "none"
			if g.result != nil {
				hres = strconv.Itoa(int(uint32(status.Code(g.result))))
				if st, ok := status.FromError(g.result); ok {
					hres = strconv.Itoa(int(uint32(st.Code())))
				}
			}
			mo := "1"
			if g.resp != nil {
				mo = "0"
			}
			r.Op(sprintf("C11 unary %s %s %s %s %s %s", hexOrDash([]byte(m)), hexOrDash([]byte(mt)), b01(hc.ok), b01(unmarshalOK), hres, mo),
				sprintf("status=%d allow=%s calls=%d app=%d grpc=%s", res.StatusCode, b01(allow), g.descCalls, g.appCalls, grpcCode))
		} else {
			// parse reply frames
			fr := ""
			b := rec.Body.Bytes()
			wellFormed := true
			if g.descCalls == 1 {
				for len(b) >= 4 {
					sz := int32(binary.BigEndian.Uint32(b))
					nn := int(sz)
					if nn < 0 {
						nn = -nn
					}
					if 4+nn > len(b) {
						wellFormed = false
						break
					}
					if sz < 0 {
						fr += "T"
						var tr httpgrpc.HttpTrailer
						if proto.Unmarshal(b[4:4+nn], &tr) != nil {
							wellFormed = false
						}
					} else {
						fr += "d"
					}
					b = b[4+nn:]
				}
				if len(b) != 0 {
					wellFormed = false
				}
				writeFailed := strings.Contains(g.script, "m")
				if !wellFormed || (!writeFailed && (strings.Count(fr, "T") != 1 || !strings.HasSuffix(fr, "T"))) || (writeFailed && strings.Contains(fr, "T")) {
					r.Violate("http-server/stream-reply/malformed", "a streaming reply always ends with exactly one trailer frame", sprintf("script %q: reply frames %q wellformed=%v", g.script, fr, wellFormed), c, fr)
				}
			}
			r.Op(sprintf("C11 stream %s %s %s %s", hexOrDash([]byte(m)), hexOrDash([]byte(mt)), b01(hc.ok), "script="+g.script),
				sprintf("status=%d allow=%s calls=%d frames=%s", res.StatusCode, b01(allow), g.descCalls, fr))
		}
		if len(r.Samples) < 4 && (!valid || g.script != "") {
			r.Sample(map[string]interface{}{"case": c, "http_status": res.StatusCode, "handler_calls": g.descCalls})
		}
	}

	// JSON parity + 404 with the generated service
	for i := 0; i < r.Budget(40, 800); i++ {
		in := &Msg{Count: int32(rng.Intn(1000)), Payload: rng.Bytes(rng.Intn(40))}
		code := codes.Code(0)
		if rng.Chance(40) {
			code = codes.Code(1 + rng.Intn(16))
		}
		mk := func() *httpgrpc.Server {
			svr := &scriptServer{unary: func(ctx context.Context, req *Msg) (*Msg, error) {
				if code != 0 {
					return nil, status.Error(code, "e")
				}
				return &Msg{Count: req.Count * 2, Payload: req.Payload}, nil
			}}
			hs := httpgrpc.NewServer()
			grpchantesting.RegisterTestServiceServer(hs, svr)
			return hs
		}
		unknownLength := false
		do := func(ct string, body []byte) (*http.Response, *Msg, error) {
			var rd io.Reader = bytes.NewReader(body)
			if unknownLength {
				rd = struct{ io.Reader }{rd} // as with chunked transfer encoding: ContentLength is -1
			}
			req := httptest.NewRequest("POST", mUnary, rd)
			req.Header.Set("Content-Type", ct)
			rec := httptest.NewRecorder()
			pan := ""
			func() { defer recoverTo(&pan); mk().ServeHTTP(rec, req) }()
			if pan != "" {
				r.Violate("http-server/panic", "no request makes the server panic", sprintf("valid unary request (%s, %d bytes, length declared: %v): %s", ct, len(body), !unknownLength, trunc(pan, 120)),
					map[string]interface{}{"op": "valid-unary-request", "content_type": ct, "body_len": len(body), "content_length_declared": !unknownLength}, trunc(pan, 80))
				rec = httptest.NewRecorder()
				rec.WriteHeader(599)
			}
			out := &Msg{}
			var err error
			if rec.Code == 200 {
				err = httpgrpc.VerifGetUnaryCodec(ct).Unmarshal(rec.Body.Bytes(), out)
			}
			return rec.Result(), out, err
		}
		jb, _ := protojson.Marshal(in)
		rp, mp, ep := do("application/x-protobuf", marshalDet(in))
		rj, mj, ej := do("application/json", jb)
		r.Eval(fmt.Sprint("json-parity", in.Count, code), true)
		r.Count("json-parity")
		c := map[string]interface{}{"op": "json-parity", "count": in.Count, "code": int(code)}
		if rp.StatusCode != rj.StatusCode || rp.Header.Get("X-GRPC-Status") != rj.Header.Get("X-GRPC-Status") || ep != nil || ej != nil || !proto.Equal(mp, mj) {
			r.Violate("http-server/json-differs-from-proto", "a JSON-encoded unary request is handled identically to its protobuf encoding",
				sprintf("proto: %d %q; json: %d %q; responses equal=%v", rp.StatusCode, rp.Header.Get("X-GRPC-Status"), rj.StatusCode, rj.Header.Get("X-GRPC-Status"), proto.Equal(mp, mj)), c, "")
		}
		// the same request without a declared length is the same request
		unknownLength = true
		ru, mu2, eu := do("application/x-protobuf", marshalDet(in))
		unknownLength = false
		if ru.StatusCode != rp.StatusCode || ru.Header.Get("X-GRPC-Status") != rp.Header.Get("X-GRPC-Status") || eu != nil || !proto.Equal(mu2, mp) {
			r.Violate("http-server/undeclared-length-differs", "the server invokes the registered handler … when the method is POST, the content type is one that RPC kind supports and the request headers decode (however the body's length is conveyed)",
				sprintf("with Content-Length: %d %q; without: %d %q; responses equal=%v", rp.StatusCode, rp.Header.Get("X-GRPC-Status"), ru.StatusCode, ru.Header.Get("X-GRPC-Status"), proto.Equal(mu2, mp)), c, "")
		}
		// unknown path
		req := httptest.NewRequest("POST", "/grpchantesting.TestService/Nope"+strconv.Itoa(i), bytes.NewReader(nil))
		req.Header.Set("Content-Type", "application/x-protobuf")
		rec := httptest.NewRecorder()
		mk().ServeHTTP(rec, req)
		if rec.Code != 404 {
			r.Violate("http-server/unknown-path-not-404", "404 for unknown paths", sprintf("unknown path answered %d", rec.Code), c, strconv.Itoa(rec.Code))
		}
		// other spellings that are not a registered path: a trailing slash, empty or dot segments. The
		// request is valid in every other respect; no application code may run for it.
		for vi, mp := range []string{mUnary, mSStream, mBidi} {
			pre, last := mp[:strings.LastIndex(mp, "/")], mp[strings.LastIndex(mp, "/"):]
			variants := []string{mp + "/", pre + "/" + last, "/nope/.." + mp, pre + "/." + last, "/" + mp, mp + "/."}
			vp := variants[(i+vi)%len(variants)]
			ran := 0
			svr := &scriptServer{
				unary:   func(ctx context.Context, req *Msg) (*Msg, error) { ran++; return &Msg{}, nil },
				sstream: func(req *Msg, ss grpchantesting.TestService_ServerStreamServer) error { ran++; return nil },
				bidi:    func(bs grpchantesting.TestService_BidiStreamServer) error { ran++; return nil },
			}
			hs := httpgrpc.NewServer()
			grpchantesting.RegisterTestServiceServer(hs, svr)
			body, ct := marshalDet(in), "application/x-protobuf"
			if mp != mUnary {
				body, ct = frame(marshalDet(in), false), "application/x-httpgrpc-proto+v1"
			}
			req := httptest.NewRequest("POST", "http://mem.test/", bytes.NewReader(body))
			req.URL.Path = vp
			req.RequestURI = vp
			req.Header.Set("Content-Type", ct)
			rec := httptest.NewRecorder()
			hs.ServeHTTP(rec, req)
			r.Eval("odd-path "+vp, true)
			r.Count("odd-path")
			cc := map[string]interface{}{"op": "unregistered-spelling", "path": vp, "content_type": ct}
			if ran != 0 {
				r.Violate("http-server/handler-ran-for-unregistered-path", "404 for unknown paths, without running application code", sprintf("POST %q (not a registered path) ran the handler %d time(s), HTTP %d", vp, ran, rec.Code), cc, strconv.Itoa(rec.Code))
			} else if rec.Code == 200 {
				r.Violate("http-server/unknown-path-not-404", "404 for unknown paths", sprintf("POST %q answered 200", vp), cc, "200")
			}
		}
	}
}

func b01(b bool) string {
	if b {
		return "1"
	}
	return "0"
}
