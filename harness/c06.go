package main

import (
	"context"
	"fmt"
	"io"
	"strings"
	"sync"

	"github.com/fullstorydev/grpchan"
	"github.com/fullstorydev/grpchan/grpchantesting"
	"github.com/fullstorydev/grpchan/inprocgrpc"
	"github.com/jhump/protoreflect/desc"
	"github.com/jhump/protoreflect/dynamic"
	"google.golang.org/grpc"
	"google.golang.org/grpc/encoding"
	grpcproto "google.golang.org/grpc/encoding/proto"
	"google.golang.org/protobuf/proto"
)

func suiteC06(r *Run) {
	r.Rule = "in-process calls: (1) scripted unary calls with a recording cloner that timestamps every copy of the caller's request against the return of Invoke, with cancellation at any point, schedule-point holds and copies stalled in mid-flight, accepted by the explorer over InprocUnary.step; (2) every cloner configuration x RPC kind x direction: reflective pointer walk of the two object graphs, mutation after hand-off, pre-filled receive destinations. Non-trivial: the call was cancelled / the message has nested, map, repeated or bytes content."
	unarySuite(r, "C06")
	sharingSuite(r)
	dynamicDestinations(r)
}

type cfgCloner struct {
	name string
	mk   func() inprocgrpc.Cloner
}

func clonerConfigs() []cfgCloner {
	return []cfgCloner{
		{"default", func() inprocgrpc.Cloner { return nil }},
		{"proto", func() inprocgrpc.Cloner { return inprocgrpc.ProtoCloner{} }},
		{"codec", func() inprocgrpc.Cloner { return inprocgrpc.CodecCloner(encoding.GetCodec(grpcproto.Name)) }},
		{"clonefunc", func() inprocgrpc.Cloner {
			return inprocgrpc.CloneFunc(func(in interface{}) (interface{}, error) { return grpchan.VerifCloneMessage(in) })
		}},
		{"copyfunc", func() inprocgrpc.Cloner {
			return inprocgrpc.CopyFunc(func(out, in interface{}) error { return grpchan.VerifCopyMessage(out, in) })
		}},
	}
}

// sharingSuite: for every cloner configuration, RPC kind and direction — the object a peer
// receives shares no memory with the object the other side handed to the library, mutation after
// hand-off is invisible on the other side, and a pre-filled destination is overwritten.
func sharingSuite(r *Run) {
	rng := r.Rng.Fork("sharing")
	for _, cfg := range clonerConfigs() {
		for iter := 0; iter < r.Budget(12, 300); iter++ {
			kind := []string{"unary", "cstream", "sstream", "bidi"}[iter%4]
			var mu sync.Mutex
			var handlerGot []*Msg  // request objects as the handler received them
			var handlerSent []*Msg // response objects the handler handed to the library
			var handlerSentSnap []string
			reqSnap := map[*Msg]string{}
			svr := &scriptServer{}
			keep := func(m *Msg) {
				mu.Lock()
				handlerGot = append(handlerGot, m)
				reqSnap[m] = snapOf(m)
				mu.Unlock()
			}
			mkResp := func() *Msg {
				m := sharedMsg(rng)
				mu.Lock()
				handlerSent = append(handlerSent, m)
				handlerSentSnap = append(handlerSentSnap, snapOf(m))
				mu.Unlock()
				return m
			}
			nResp := 1 + rng.Intn(3)
			svr.unary = func(ctx context.Context, req *Msg) (*Msg, error) { keep(req); return mkResp(), nil }
			svr.cstream = func(s grpchantesting.TestService_ClientStreamServer) error {
				for {
					m, err := s.Recv()
					if err != nil {
						break
					}
					keep(m)
				}
				return s.SendAndClose(mkResp())
			}
			svr.sstream = func(req *Msg, s grpchantesting.TestService_ServerStreamServer) error {
				keep(req)
				for i := 0; i < nResp; i++ {
					m := mkResp()
					if err := s.Send(m); err != nil {
						return err
					}
					mutateMsg(m) // the handler re-uses its message right after Send returned
				}
				return nil
			}
			svr.bidi = func(s grpchantesting.TestService_BidiStreamServer) error {
				for {
					m, err := s.Recv()
					if err != nil {
						break
					}
					keep(m)
					r := mkResp()
					if err := s.Send(r); err != nil {
						return err
					}
					mutateMsg(r)
				}
				return nil
			}
			ch := &inprocgrpc.Channel{}
			if c := cfg.mk(); c != nil {
				ch.WithCloner(c)
			}
			grpchantesting.RegisterTestServiceServer(ch, svr)
			cli := grpchantesting.NewTestServiceClient(ch)
			ctx := context.Background()
			var clientSent, clientGot []*Msg
			var sentSnap []string
			send := func() *Msg {
				m := sharedMsg(rng)
				clientSent = append(clientSent, m)
				sentSnap = append(sentSnap, snapOf(m))
				return m
			}
			// a pre-filled destination must be overwritten, never merged
			prefilled := func() *Msg {
				m := sharedMsg(rng)
				m.Headers = map[string][]byte{"stale-key": []byte("stale")}
				m.Trailers = map[string][]byte{"stale-key2": []byte("stale")}
				m.ErrorDetails = append(m.ErrorDetails, nil)
				m.ErrorDetails = m.ErrorDetails[:len(m.ErrorDetails)-1]
				return m
			}
			var callErr error
			desc := map[string]interface{}{"transport": "inproc", "cloner": cfg.name, "kind": kind}
			recvInto := func(cs grpc.ClientStream) error {
				m := prefilled()
				if err := cs.RecvMsg(m); err != nil {
					return err
				}
				clientGot = append(clientGot, m)
				return nil
			}
			switch kind {
			case "unary":
				out := prefilled()
				callErr = ch.Invoke(ctx, mUnary, send(), out)
				clientGot = append(clientGot, out)
			case "cstream":
				cs, err := cli.ClientStream(ctx)
				if err == nil {
					for i := 0; i < 1+rng.Intn(3); i++ {
						m := send()
						cs.Send(m)
						mutateMsg(m) // the caller re-uses its message right after SendMsg returned
					}
					cs.CloseSend()
					callErr = recvInto(cs)
				} else {
					callErr = err
				}
			case "sstream":
				cs, err := ch.NewStream(ctx, descSStream, mSStream)
				if err == nil {
					m := send()
					cs.SendMsg(m)
					mutateMsg(m)
					cs.CloseSend()
					for {
						if err := recvInto(cs); err != nil {
							if err != io.EOF {
								callErr = err
							}
							break
						}
					}
				} else {
					callErr = err
				}
			case "bidi":
				cs, err := ch.NewStream(ctx, descBidi, mBidi)
				if err == nil {
					for i := 0; i < 1+rng.Intn(3); i++ {
						m := send()
						cs.SendMsg(m)
						mutateMsg(m)
						if err := recvInto(cs); err != nil {
							callErr = err
							break
						}
					}
					cs.CloseSend()
					var m Msg
					cs.RecvMsg(&m)
				} else {
					callErr = err
				}
			}
			r.Eval(fmt.Sprint("sharing", cfg.name, kind, iter), true)
			r.Count("sharing:" + cfg.name + ":" + kind)
			if callErr != nil {
				r.Violate("inproc/sharing/"+cfg.name+"/call-failed", "the call works with this cloner", callErr.Error(), desc, "")
				continue
			}
			mu.Lock()
			// requests: what the handler holds is the content at the time of the send, shares nothing, and the
			// caller's later mutation is invisible
			if len(handlerGot) != len(clientSent) {
				r.Violate("inproc/sharing/"+cfg.name+"/request-count", "every request arrives", sprintf("%d sent, %d received", len(clientSent), len(handlerGot)), desc, "")
			}
			for i := 0; i < len(handlerGot) && i < len(clientSent); i++ {
				if kind == "unary" {
					// (no mutation while the call is in flight for unary)
				}
				if sh := sharedMemory(clientSent[i], handlerGot[i]); len(sh) > 0 {
					r.Violate("inproc/sharing/"+cfg.name+"/request-shares-memory", "the request a handler receives shares no mutable memory with the caller's object", sprintf("%s request %d: shared at %v", kind, i, sh), desc, strings.Join(sh, ","))
				}
				if snapOf(handlerGot[i]) != sentSnap[i] {
					r.Violate("inproc/sharing/"+cfg.name+"/request-mutation-visible", "mutating or reusing a message on one side after handing it to the library is never visible on the other side", sprintf("%s request %d: the handler's copy differs from what was sent", kind, i), desc, "")
				}
			}
			// responses
			if len(clientGot) != len(handlerSent) {
				r.Violate("inproc/sharing/"+cfg.name+"/response-count", "every response arrives", sprintf("%d sent, %d received", len(handlerSent), len(clientGot)), desc, "")
			}
			for i := 0; i < len(clientGot) && i < len(handlerSent); i++ {
				if sh := sharedMemory(handlerSent[i], clientGot[i]); len(sh) > 0 {
					r.Violate("inproc/sharing/"+cfg.name+"/response-shares-memory", "the response a caller receives shares no mutable memory with the handler's object", sprintf("%s response %d: shared at %v", kind, i, sh), desc, strings.Join(sh, ","))
				}
				if snapOf(clientGot[i]) != handlerSentSnap[i] {
					r.Violate("inproc/sharing/"+cfg.name+"/response-differs-from-sent", "a destination message passed to a receive is overwritten, never merged with its previous content; mutating or reusing a message on one side after handing it to the library is never visible on the other side", sprintf("%s response %d: what the client received (into a pre-filled destination) differs from the message as it was when the handler sent it", kind, i), desc, "")
				}
			}
			mu.Unlock()
		}
	}
}

// dynamicDestinations: a receive into a pre-filled *dynamic* message (the other representation the
// default cloner supports) overwrites it as well.
func dynamicDestinations(r *Run) {
	rng := r.Rng.Fork("dyn-dest")
	mdMsg, err := desc.LoadMessageDescriptorForMessage(&Msg{})
	if err != nil {
		r.Notes = append(r.Notes, "no descriptor for the test message: dynamic destinations skipped")
		return
	}
	for _, cfg := range clonerConfigs() {
		if cfg.name == "clonefunc" || cfg.name == "codec" {
			continue // (these adapters do not support the dynamic representation: C18's known findings)
		}
		for iter := 0; iter < r.Budget(6, 100); iter++ {
			want := populateMsg(rng)
			svr := &scriptServer{}
			svr.unary = func(ctx context.Context, req *Msg) (*Msg, error) { return want, nil }
			svr.sstream = func(req *Msg, s grpchantesting.TestService_ServerStreamServer) error { return s.Send(want) }
			ch := &inprocgrpc.Channel{}
			if c := cfg.mk(); c != nil {
				ch.WithCloner(c)
			}
			grpchantesting.RegisterTestServiceServer(ch, svr)
			dst := dynamic.NewMessage(mdMsg)
			stale := populateMsg(rng)
			stale.Headers = map[string][]byte{"stale-key": []byte("stale")}
			stale.Count = 424242
			if err := dst.ConvertFrom(stale); err != nil {
				continue
			}
			var callErr error
			kind := []string{"unary", "sstream"}[iter%2]
			if kind == "unary" {
				callErr = ch.Invoke(context.Background(), mUnary, &Msg{}, dst)
			} else {
				cs, err := ch.NewStream(context.Background(), descSStream, mSStream)
				if err != nil {
					callErr = err
				} else {
					cs.SendMsg(&Msg{})
					cs.CloseSend()
					callErr = cs.RecvMsg(dst)
				}
			}
			c := map[string]interface{}{"transport": "inproc", "cloner": cfg.name, "kind": kind, "destination": "pre-filled dynamic message"}
			r.Eval(fmt.Sprint("dyn-dest", cfg.name, kind, iter), true)
			r.Count("dynamic-destination:" + cfg.name)
			if callErr != nil {
				r.Violate("inproc/sharing/"+cfg.name+"/dynamic-destination-refused", "generated and dynamic representations can be copied into each other", callErr.Error(), c, "")
				continue
			}
			got := &Msg{}
			if err := dst.ConvertTo(got); err != nil || snapOf(got) != snapOf(want) {
				r.Violate("inproc/sharing/"+cfg.name+"/dynamic-destination-merged", "a destination message passed to a receive is overwritten, never merged with its previous content",
					sprintf("%s into a pre-filled dynamic message: the result differs from the response sent (convert err %v)", kind, err), c, "")
			}
		}
	}
}

func snapOf(m *Msg) string {
	b, _ := proto.MarshalOptions{Deterministic: true}.Marshal(m)
	return string(b)
}

func mutateMsg(m *Msg) {
	m.Count += 1000
	if len(m.Payload) > 0 {
		m.Payload[0] ^= 0xff
	}
	for k := range m.Headers {
		if len(m.Headers[k]) > 0 {
			m.Headers[k][0] ^= 0xff
		}
	}
	m.DelayMillis++
}


// sharedMsg: mostly populated messages, sometimes one whose encoding is empty (every field at its default) —
// a clone of nothing must still be a different object
func sharedMsg(rng *Rng) *Msg {
	if rng.Chance(25) {
		return &Msg{}
	}
	return populateMsg(rng)
}
