package main

import (
	"errors"
	"fmt"
	"io"
	"net/http"
	"sync"
)

// memTransport is an http.RoundTripper that runs an http.Handler in-process:
// no sockets, so blocked goroutines are observable, the response byte stream
// can be cut at an exact offset, and every byte on the wire can be recorded.
type memTransport struct {
	h http.Handler

	// cut, if >= 0, truncates the response body after exactly cut bytes and
	// then reports cutErr (nil → io.EOF, i.e. a clean ending).
	cut    int
	cutErr error

	mu        sync.Mutex
	trips     int
	lastReq   *http.Request
	recorded  []byte // response body bytes as written by the handler (last call)
	lastCode  int
	lastHdr   http.Header
	handlerWG sync.WaitGroup
}

func newMemTransport(h http.Handler) *memTransport { return &memTransport{h: h, cut: -1} }

type memRW struct {
	t       *memTransport
	hdr     http.Header
	sent    http.Header
	code    int
	pw      *io.PipeWriter
	ready   chan struct{}
	once    sync.Once
	written int
}

func (w *memRW) Header() http.Header { return w.hdr }
func (w *memRW) WriteHeader(code int) {
	w.once.Do(func() {
		w.code = code
		w.sent = w.hdr.Clone()
		close(w.ready)
	})
}
func (w *memRW) Write(b []byte) (int, error) {
	w.WriteHeader(200)
	w.t.mu.Lock()
	w.t.recorded = append(w.t.recorded, b...)
	w.t.mu.Unlock()
	n, err := w.pw.Write(b)
	w.written += n
	return n, err
}
func (w *memRW) Flush() { w.WriteHeader(200) }

type cutBody struct {
	r      io.ReadCloser
	left   int
	err    error
	closed bool
}

func (c *cutBody) Read(p []byte) (int, error) {
	if c.left == 0 {
		if c.err != nil {
			return 0, c.err
		}
		return 0, io.EOF
	}
	if len(p) > c.left {
		p = p[:c.left]
	}
	n, err := c.r.Read(p)
	c.left -= n
	if err == io.EOF && c.left > 0 {
		// the real body ended before the cut point: pass the real ending through
		return n, err
	}
	return n, err
}
func (c *cutBody) Close() error { return c.r.Close() }

func (t *memTransport) RoundTrip(req *http.Request) (*http.Response, error) {
	t.mu.Lock()
	t.trips++
	t.lastReq = req
	t.recorded = nil
	t.mu.Unlock()
	if req.Context().Err() != nil {
		return nil, req.Context().Err()
	}
	pr, pw := io.Pipe()
	rw := &memRW{t: t, hdr: http.Header{}, pw: pw, ready: make(chan struct{})}
	sreq := req.Clone(req.Context())
	sreq.RemoteAddr = "192.0.2.1:1234"
	sreq.RequestURI = req.URL.RequestURI()
	if sreq.Body == nil {
		sreq.Body = http.NoBody
	}
	// Like a connection, the transport keeps taking what the client writes (one chunk ahead of the
	// handler, as socket buffers would): a client write never waits for the handler to ask for more
	// than that, and a zero-length write never waits at all.
	var pumpStop func()
	if sreq.Body != http.NoBody {
		sreq.Body, pumpStop = pumpBody(sreq.Body)
	}
	t.handlerWG.Add(1)
	go func() {
		defer t.handlerWG.Done()
		if pumpStop != nil {
			defer pumpStop()
		}
		defer func() {
			if p := recover(); p != nil {
				rw.WriteHeader(500)
				pw.CloseWithError(fmt.Errorf("handler panic: %v", p))
				t.mu.Lock()
				t.recorded = append(t.recorded, []byte("PANIC")...)
				t.mu.Unlock()
				panicsSeen.add(fmt.Sprint(p))
				return
			}
		}()
		t.h.ServeHTTP(rw, sreq)
		rw.WriteHeader(200)
		pw.Close()
	}()
	select {
	case <-rw.ready:
	case <-req.Context().Done():
		pr.CloseWithError(req.Context().Err())
		return nil, req.Context().Err()
	}
	t.mu.Lock()
	t.lastCode = rw.code
	t.lastHdr = rw.sent
	t.mu.Unlock()
	var body io.ReadCloser = pr
	if t.cut >= 0 {
		body = &cutBody{r: pr, left: t.cut, err: t.cutErr}
	}
	// a real transport ends the body read with the context error once the request is cancelled
	body = &ctxBody{r: body, req: req, pr: pr}
	txt := http.StatusText(rw.code)
	resp := &http.Response{
		StatusCode: rw.code,
		Status:     fmt.Sprintf("%d %s", rw.code, txt),
		Proto:      "HTTP/1.1", ProtoMajor: 1, ProtoMinor: 1,
		Header:        rw.sent,
		Body:          body,
		Request:       req,
		ContentLength: -1,
	}
	return resp, nil
}

type ctxBody struct {
	r    io.ReadCloser
	req  *http.Request
	pr   *io.PipeReader
	once sync.Once
}

func (c *ctxBody) Read(p []byte) (int, error) {
	c.once.Do(func() {
		go func() {
			<-c.req.Context().Done()
			c.pr.CloseWithError(c.req.Context().Err())
		}()
	})
	return c.r.Read(p)
}
func (c *ctxBody) Close() error { return c.r.Close() }

func (t *memTransport) Trips() int {
	t.mu.Lock()
	defer t.mu.Unlock()
	return t.trips
}

func (t *memTransport) Recorded() []byte {
	t.mu.Lock()
	defer t.mu.Unlock()
	return append([]byte(nil), t.recorded...)
}

// replayTransport answers every request with a fixed status, header set and body.
type replayTransport struct {
	code   int
	hdr    http.Header
	body   []byte
	endErr error // error reported after the body (nil → io.EOF)
	trips  int
}

type errAfter struct {
	b   []byte
	err error
}

func (e *errAfter) Read(p []byte) (int, error) {
	if len(e.b) == 0 {
		if e.err != nil {
			return 0, e.err
		}
		return 0, io.EOF
	}
	n := copy(p, e.b)
	e.b = e.b[n:]
	return n, nil
}
func (e *errAfter) Close() error { return nil }

func (t *replayTransport) RoundTrip(req *http.Request) (*http.Response, error) {
	t.trips++
	if req.Body != nil {
		go func() { io.Copy(io.Discard, req.Body); req.Body.Close() }()
	}
	txt := http.StatusText(t.code)
	h := t.hdr
	if h == nil {
		h = http.Header{}
	}
	return &http.Response{
		StatusCode: t.code, Status: fmt.Sprintf("%d %s", t.code, txt),
		Proto: "HTTP/1.1", ProtoMajor: 1, ProtoMinor: 1,
		Header: h.Clone(), Body: &errAfter{b: append([]byte(nil), t.body...), err: t.endErr}, Request: req, ContentLength: -1,
	}, nil
}

var errAbrupt = errors.New("connection reset by peer")

type panicSet struct {
	mu sync.Mutex
	m  map[string]int
}

func (p *panicSet) add(s string) {
	p.mu.Lock()
	defer p.mu.Unlock()
	if p.m == nil {
		p.m = map[string]int{}
	}
	p.m[s]++
}

var panicsSeen panicSet

// pumpBody copies src, chunk by chunk, into a pipe the handler reads from. stop ends the copying
// (the handler has returned); src itself is left open, as before.
func pumpBody(src io.ReadCloser) (io.ReadCloser, func()) {
	pr, pw := io.Pipe()
	go func() {
		buf := make([]byte, 16<<10)
		for {
			n, err := src.Read(buf)
			if n > 0 {
				if _, werr := pw.Write(buf[:n]); werr != nil {
					return
				}
			}
			if err != nil {
				pw.CloseWithError(err) // io.EOF stays io.EOF
				return
			}
		}
	}()
	return &pumpedBody{pr: pr, src: src}, func() { pr.CloseWithError(io.ErrClosedPipe) }
}

type pumpedBody struct {
	pr  *io.PipeReader
	src io.ReadCloser
}

func (b *pumpedBody) Read(p []byte) (int, error) { return b.pr.Read(p) }
func (b *pumpedBody) Close() error {
	b.pr.CloseWithError(io.ErrClosedPipe)
	return b.src.Close()
}
