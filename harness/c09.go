package main

import (
	"context"
	"fmt"
	"math"
	"math/big"
	"net/http"
	"strconv"
	"strings"
	"time"

	"github.com/fullstorydev/grpchan/httpgrpc"
	"google.golang.org/grpc/metadata"
)

func init() { suites["C09"] = suiteC09 }

var unitNanos = map[byte]int64{'H': int64(time.Hour), 'M': int64(time.Minute), 'S': int64(time.Second), 'm': int64(time.Millisecond), 'u': int64(time.Microsecond), 'n': 1}

// expectedTimeout is the property's own reading of a header string: for
// <digits><unit> the duration v*unit saturated at MaxInt64 (ok=true); every
// other string is "not of that form" (ok=false): only no-crash is required.
func expectedTimeout(s string) (d int64, inDomain bool, saturated bool) {
	if len(s) < 2 {
		return 0, false, false
	}
	u, ok := unitNanos[s[len(s)-1]]
	if !ok {
		return 0, false, false
	}
	ds := s[:len(s)-1]
	for _, c := range []byte(ds) {
		if c < '0' || c > '9' {
			return 0, false, false
		}
	}
	v, _ := new(big.Int).SetString(ds, 10)
	p := new(big.Int).Mul(v, big.NewInt(u))
	if p.IsInt64() {
		return p.Int64(), true, false
	}
	return math.MaxInt64, true, true
}

func suiteC09(r *Run) {
	r.Rule = "server: GRPC-Timeout strings (every unit x 1..8 digit boundary values, 9..20 digit values around MaxInt64/unit, negative, empty, missing unit, spaces, non-ASCII) through contextFromHeaders; the resulting deadline is sandwiched between clock readings. client: contexts with deadlines from <1ms to years through headersFromContext. e2e: calls with deadlines through Channel + Server. Non-trivial: string has a unit suffix or digits; distinct by string / duration."
	r.Assumptions = append(r.Assumptions, "time.Now is monotone across the sandwich readings", "context.WithTimeout(ctx, d) sets deadline now+d (saturating Time.Add)")
	rng := r.Rng

	// ---------------- server-side parse
	var strs []string
	units := "HMSmun"
	for _, u := range units {
		for _, v := range []string{"0", "1", "9", "10", "99", "100", "12345678", "99999999", "00000001", "100000000", "2562047", "2562048", "153722867", "153722868",
			"9223372036", "9223372037", "9223372036854", "9223372036855", "9223372036854775", "9223372036854776", "9223372036854775807", "9223372036854775808", "99999999999999999999", "-1", "-5", "+5", "-9223372036854775808", ""} {
			strs = append(strs, v+string(u))
		}
	}
	strs = append(strs, "", " ", "5", "H", "5x", "5 S", " 5S", "5S ", "5s", "5h", "٥S", "5\x00", "\xff", "1e3S", "0x10S", "1_000S", "5SS", "S5", "--5S", "5.5S", "n", "m", "10μ")
	for i := 0; i < r.Budget(1500, 60000); i++ {
		var b strings.Builder
		switch rng.Intn(10) {
		case 0: // random bytes
			b.Write(rng.Bytes(rng.Intn(6)))
		case 1: // signed
			b.WriteString([]string{"-", "+", " "}[rng.Intn(3)])
			fallthrough
		default:
			nd := 1 + rng.Intn(8)
			if rng.Chance(25) {
				nd = 9 + rng.Intn(12)
			}
			for j := 0; j < nd; j++ {
				b.WriteByte(byte('0' + rng.Intn(10)))
			}
			if rng.Chance(92) {
				b.WriteByte(units[rng.Intn(len(units))])
			} else if rng.Chance(50) {
				b.WriteByte(byte(rng.Intn(256)))
			}
		}
		strs = append(strs, b.String())
	}
	// a header that is present but carries no usable value: empty value, no values at all, an empty first value
	// (http.Header.Get looks at the first value of the canonical key only)
	for _, hv := range []http.Header{{"Grpc-Timeout": {""}}, {"Grpc-Timeout": {}}, {"Grpc-Timeout": {"", "5S"}}, {"Grpc-Timeout": {" "}}} {
		var crashed string
		hasDL := false
		func() {
			defer recoverTo(&crashed)
			ctx, cancel, err := httpgrpc.VerifContextFromHeaders(context.Background(), hv)
			defer cancel()
			if err != nil {
				crashed = "error:" + err.Error()
				return
			}
			_, hasDL = ctx.Deadline()
		}()
		c := map[string]interface{}{"op": "parse-present-but-empty", "header_values": fmt.Sprintf("%q", hv["Grpc-Timeout"])}
		r.Eval(fmt.Sprintf("parse-empty %q", hv["Grpc-Timeout"]), true)
		r.Count("server:present-but-empty")
		if crashed != "" {
			r.Violate("http-server/timeout/crash", "header strings not of that form never crash the server", sprintf("GRPC-Timeout values %q: %s", hv["Grpc-Timeout"], crashed), c, crashed)
		} else if hasDL {
			r.Violate("http-server/timeout/deadline-from-nothing", "a missing or malformed header yields no deadline", sprintf("GRPC-Timeout values %q gave the handler a deadline", hv["Grpc-Timeout"]), c, "deadline")
		}
	}
	seen := map[string]bool{}
	for _, s := range strs {
		if seen[s] {
			continue
		}
		seen[s] = true
		h := http.Header{}
		if s != "" {
			h["Grpc-Timeout"] = []string{s}
		}
		var crashed string
		var hasDL bool
		var lo, hi time.Duration
		exp, inDomain, saturated := expectedTimeout(s)
		// every third in-domain value: the request context is already bounded, later than the header asks
		// (a server-wide limit set by middleware); the caller's earlier deadline is still the handler's
		parent, pcancel := context.Background(), func() {}
		bounded := inDomain && !saturated && exp < math.MaxInt64/4 && len(seen)%3 == 0
		if bounded {
			parent, pcancel = context.WithTimeout(parent, time.Duration(exp)+time.Hour)
		}
		func() {
			defer recoverTo(&crashed)
			t0 := time.Now()
			ctx, cancel, err := httpgrpc.VerifContextFromHeaders(parent, h)
			t1 := time.Now()
			defer cancel()
			if err != nil {
				crashed = "error:" + err.Error()
				return
			}
			var dl time.Time
			dl, hasDL = ctx.Deadline()
			if hasDL {
				lo, hi = dl.Sub(t1), dl.Sub(t0)
			}
		}()
		pcancel()
		r.Eval("parse "+s, len(s) >= 2)
		r.Count("server:" + map[bool]string{true: "in-domain", false: "malformed"}[inDomain])
		c := map[string]interface{}{"op": "parse", "header": s, "header_hex": hexOrDash([]byte(s)), "request_context_already_bounded_later": bounded}
		switch {
		case crashed != "":
			r.Op(sprintf("C09 parseobs %s crash", hexOrDash([]byte(s))), "observed")
			r.Violate("http-server/timeout/crash", "header strings not of that form never crash the server", sprintf("GRPC-Timeout %q: %s", s, crashed), c, crashed)
		case !hasDL:
			r.Op(sprintf("C09 parseobs %s none", hexOrDash([]byte(s))), "observed")
			if inDomain && !saturated {
				r.Violate("http-server/timeout/valid-value-ignored", "every non-negative timeout value with a valid unit gives the handler that duration",
					sprintf("GRPC-Timeout %q gave the handler no deadline (expected %d ns)", s, exp), c, "no deadline")
			}
		default:
			r.Op(sprintf("C09 parseobs %s %d %d", hexOrDash([]byte(s)), int64(lo), int64(hi)), "observed")
			if inDomain && !(int64(lo) <= exp && exp <= int64(hi)) {
				sig := "http-server/timeout/wrong-duration"
				if saturated || float64(exp) > float64(math.MaxInt64)/2 || int64(hi) < 0 {
					sig = "http-server/timeout/overflow-wraps"
				}
				r.Violate(sig, "every non-negative timeout value with a valid unit gives the handler that duration, saturating rather than wrapping around for huge values",
					sprintf("GRPC-Timeout %q: handler deadline is %v from now (expected %d ns%s)", s, hi, exp, map[bool]string{true: ", saturated", false: ""}[saturated]), c, sprintf("[%d,%d]", int64(lo), int64(hi)))
			}
		}
		if s == "99999999H" || s == "15S" {
			r.Sample(map[string]interface{}{"case": c, "has_deadline": hasDL, "lo_ns": int64(lo), "hi_ns": int64(hi)})
		}
	}

	// ---------------- client-side encoding
	durs := []time.Duration{-time.Hour, -1, 0, 1, 999 * time.Microsecond, time.Millisecond, time.Millisecond + 1, 1999 * time.Microsecond, 2 * time.Millisecond,
		time.Second, time.Minute, time.Hour, 24 * time.Hour, 365 * 24 * time.Hour, 100 * 365 * 24 * time.Hour, math.MaxInt64 / 2}
	for i := 0; i < r.Budget(300, 20000); i++ {
		e := rng.Intn(62)
		durs = append(durs, time.Duration(rng.U64()%(1<<uint(e+1))))
	}
	for _, d := range durs {
		t0 := time.Now()
		ctx, cancel := context.WithDeadline(context.Background(), t0.Add(d))
		h := httpgrpc.VerifHeadersFromContext(ctx)
		t1 := time.Now()
		cancel()
		hv := h.Get("GRPC-Timeout")
		// remaining duration at the instant of encoding lies in [d-(t1-t0), d]
		lo, hi := int64(d)-int64(t1.Sub(t0)), int64(d)
		r.Op(sprintf("C09 encobs %d %d %s", lo, hi, hexOrDash([]byte(hv))), "observed")
		r.Eval(sprintf("enc %d", int64(d)), true)
		r.Count("client:encode")
		c := map[string]interface{}{"op": "encode", "remaining_ns": int64(d)}
		if !strings.HasSuffix(hv, "m") {
			r.Violate("http-client/timeout/format", "the deadline is propagated", sprintf("remaining %v encoded as %q", d, hv), c, hv)
			continue
		}
		ms, err := strconv.ParseInt(strings.TrimSuffix(hv, "m"), 10, 64)
		if err != nil {
			r.Violate("http-client/timeout/format", "the deadline is propagated", sprintf("remaining %v encoded as %q", d, hv), c, hv)
			continue
		}
		enc := ms * int64(time.Millisecond)
		// never later than the caller's (except the 1 ms floor), never earlier by more than the granularity
		if enc > hi && ms != 1 {
			r.Violate("http-client/timeout/extended", "never later than the caller's by more than the 1 ms encoding granularity", sprintf("remaining %v encoded as %q", d, hv), c, hv)
		}
		if enc <= lo-int64(time.Millisecond) {
			r.Violate("http-client/timeout/shortened", "never earlier by more than that granularity", sprintf("remaining %v encoded as %q", d, hv), c, hv)
		}
	}
	{
		h := httpgrpc.VerifHeadersFromContext(context.Background())
		_, present := h["Grpc-Timeout"]
		r.Op("C09 enc none", map[bool]string{true: "present", false: "none"}[present])
		r.Eval("enc none", true)
		if present {
			r.Violate("http-client/timeout/spurious", "with no caller deadline the transport adds none", "header present without a deadline", map[string]interface{}{"op": "encode-none"}, "present")
		}
	}

	// ---------------- a forwarded `grpc-timeout` metadata entry (e.g. a gateway passing incoming metadata on)
	// must not displace the caller's own deadline: what the server parses is the encoding of THIS deadline
	for i, stale := range []string{"30S", "1H", "5m", "1n", "99999999H", "bogus"} {
		d := []time.Duration{500 * time.Millisecond, 2 * time.Second, 90 * time.Second}[i%3]
		t0 := time.Now()
		ctx, cancel := context.WithDeadline(context.Background(), t0.Add(d))
		ctx = metadata.NewOutgoingContext(ctx, metadata.Pairs("grpc-timeout", stale, "x-other", "v"))
		h := httpgrpc.VerifHeadersFromContext(ctx)
		sctx, scancel, err := httpgrpc.VerifContextFromHeaders(context.Background(), h)
		t1 := time.Now()
		c := map[string]interface{}{"op": "forwarded-grpc-timeout-metadata", "metadata_value": stale, "caller_remaining": d.String(), "header_values": h.Values("GRPC-Timeout")}
		r.Eval(sprintf("enc-forwarded %s %v", stale, d), true)
		r.Count("client:encode-forwarded-metadata")
		if err != nil {
			r.Violate("http/timeout/forwarded-metadata-error", "the deadline is propagated", err.Error(), c, "")
		} else {
			dl, ok := sctx.Deadline()
			// the handler's deadline: never later than the caller's, never earlier by more than the granularity (+ the time this took)
			if !ok || dl.After(t0.Add(d).Add(time.Millisecond)) || dl.Before(t0.Add(d).Add(-2*time.Millisecond-t1.Sub(t0))) {
				r.Violate("http/timeout/stale-metadata-wins", "the handler's deadline is never later than the caller's and never earlier by more than the encoding granularity",
					sprintf("caller deadline in %v with outgoing metadata grpc-timeout=%q: GRPC-Timeout header values %q; the server derives a deadline %v from now (has deadline: %v)", d, stale, h.Values("GRPC-Timeout"), dl.Sub(t1), ok), c, strings.Join(h.Values("GRPC-Timeout"), ","))
			}
			scancel()
		}
		cancel()
	}

	// ---------------- end to end
	type obs struct {
		has bool
		dl  time.Time
		at  time.Time
	}
	for i := 0; i < r.Budget(60, 1500); i++ {
		var d time.Duration
		noDL := i%10 == 0
		switch i % 4 {
		case 0:
			d = time.Duration(2+rng.Intn(200)) * time.Millisecond
		case 1:
			d = time.Duration(1+rng.Intn(3600)) * time.Second
		case 2:
			d = time.Duration(1+rng.Intn(1000)) * time.Hour
		case 3:
			d = time.Duration(rng.U64() % uint64(math.MaxInt64/2))
		}
		var o obs
		svr := &scriptServer{unary: func(ctx context.Context, req *Msg) (*Msg, error) {
			o.at = time.Now()
			o.dl, o.has = ctx.Deadline()
			return &Msg{}, nil
		}}
		hm := newHTTPMem(svr)
		// a third of the calls: middleware in front of the server bounds every request, later than the caller does
		mw := i%3 == 1 && !noDL && d < 1000*time.Hour
		if mw {
			inner := hm.tr.h
			hm.tr.h = http.HandlerFunc(func(w http.ResponseWriter, req *http.Request) {
				bctx, bcancel := context.WithTimeout(req.Context(), d+time.Hour)
				defer bcancel()
				inner.ServeHTTP(w, req.WithContext(bctx))
			})
		}
		ctx := metadata.AppendToOutgoingContext(context.Background(), "k", "v")
		t0 := time.Now()
		var callerDL time.Time
		cancel := func() {}
		if !noDL {
			callerDL = t0.Add(d)
			ctx, cancel = context.WithDeadline(ctx, callerDL)
		}
		err := hm.ch.Invoke(ctx, mUnary, &Msg{}, &Msg{})
		cancel()
		r.Eval(fmt.Sprint("e2e ", noDL, int64(d)), true)
		r.Count("e2e")
		r.TracesOnImpl++
		c := map[string]interface{}{"op": "e2e", "deadline_ns": int64(d), "no_deadline": noDL, "server_middleware_bounds_requests_later": mw}
		if err != nil {
			r.Violate("http/timeout/e2e-call-failed", "calls with a live deadline succeed", sprintf("Invoke with deadline %v failed: %v", d, err), c, canonErr(err))
			continue
		}
		if noDL {
			if o.has {
				r.Violate("http/timeout/spurious", "with no caller deadline the transport adds none", "handler context has a deadline", c, o.dl.String())
			}
			continue
		}
		if !o.has {
			r.Violate("http/timeout/lost", "the HTTP handler's context has a deadline", sprintf("caller deadline %v: handler has none", d), c, "none")
			continue
		}
		transit := o.at.Sub(t0)
		if late := o.dl.Sub(callerDL); late > transit+time.Millisecond {
			r.Violate("http/timeout/extended", "never later than the caller's by more than transit time plus the 1 ms encoding granularity",
				sprintf("caller deadline in %v; handler deadline is %v later (transit %v)", d, late, transit), c, late.String())
		}
		if early := callerDL.Sub(o.dl); early > time.Millisecond && d >= time.Millisecond {
			r.Violate("http/timeout/shortened", "never earlier by more than that granularity",
				sprintf("caller deadline in %v; handler deadline is %v earlier", d, early), c, early.String())
		}
	}
}
