package main

import (
	"bytes"
	"fmt"
	"go/ast"
	"go/parser"
	"go/token"
	"os"
	"os/exec"
	"strconv"
	"sort"
	"strings"

	"github.com/fullstorydev/grpchan/grpchantesting"
	"google.golang.org/protobuf/proto"
	"google.golang.org/protobuf/reflect/protodesc"
	"google.golang.org/protobuf/reflect/protoreflect"
	"google.golang.org/protobuf/types/descriptorpb"
	"google.golang.org/protobuf/types/known/anypb"
	"google.golang.org/protobuf/types/known/emptypb"
	"google.golang.org/protobuf/types/pluginpb"
)

func init() { suites["C19"] = suiteC19 }

func runPlugin(req *pluginpb.CodeGeneratorRequest) (*pluginpb.CodeGeneratorResponse, error) {
	bin := os.Getenv("VERIF_PLUGIN")
	if bin == "" {
		// (bin/check always sets VERIF_PLUGIN to the plugin it has just built from the tree under test)
		return nil, fmt.Errorf("VERIF_PLUGIN is not set")
	}
	in, err := proto.Marshal(req)
	if err != nil {
		return nil, err
	}
	cmd := exec.Command(bin)
	cmd.Stdin = bytes.NewReader(in)
	var out, errb bytes.Buffer
	cmd.Stdout, cmd.Stderr = &out, &errb
	if err := cmd.Run(); err != nil {
		return nil, fmt.Errorf("plugin failed: %v: %s", err, errb.String())
	}
	var resp pluginpb.CodeGeneratorResponse
	if err := proto.Unmarshal(out.Bytes(), &resp); err != nil {
		return nil, err
	}
	return &resp, nil
}

type stubMethod struct {
	name   string
	cs, ss bool
}

type stubBinding struct {
	goName string
	callee string // Invoke | NewStream
	path   string
	index  int // -1 for unary
	desc   string
	tail   string // "" | "SendMsg+CloseSend"
	newT   string // unary stubs: the type allocated for the reply (`out := new(T)`)
	resT   string // the declared first result type of the method
}

// extractBindings parses generated Go and extracts, per client method, what it calls.
func extractBindings(src string) (map[string][]stubBinding, []string, error) {
	fset := token.NewFileSet()
	f, err := parser.ParseFile(fset, "gen.go", src, 0)
	if err != nil {
		return nil, nil, err
	}
	res := map[string][]stubBinding{}
	var regs []string
	for _, d := range f.Decls {
		fd, ok := d.(*ast.FuncDecl)
		if !ok {
			continue
		}
		if fd.Recv == nil {
			if strings.HasPrefix(fd.Name.Name, "RegisterHandler") {
				// reg.RegisterService(&X, srv)
				ast.Inspect(fd.Body, func(n ast.Node) bool {
					if call, ok := n.(*ast.CallExpr); ok {
						if sel, ok := call.Fun.(*ast.SelectorExpr); ok && sel.Sel.Name == "RegisterService" && len(call.Args) == 2 {
							if u, ok := call.Args[0].(*ast.UnaryExpr); ok {
								regs = append(regs, fd.Name.Name+"->"+exprString(u.X))
							}
						}
					}
					return true
				})
			}
			continue
		}
		recv := exprString(fd.Recv.List[0].Type)
		b := stubBinding{goName: fd.Name.Name, index: -1}
		if fd.Type.Results != nil && len(fd.Type.Results.List) > 0 {
			b.resT = exprString(fd.Type.Results.List[0].Type)
		}
		ast.Inspect(fd.Body, func(n ast.Node) bool {
			call, ok := n.(*ast.CallExpr)
			if !ok {
				return true
			}
			if id, ok := call.Fun.(*ast.Ident); ok && id.Name == "new" && len(call.Args) == 1 && b.newT == "" {
				b.newT = exprString(call.Args[0])
			}
			sel, ok := call.Fun.(*ast.SelectorExpr)
			if !ok {
				return true
			}
			switch sel.Sel.Name {
			case "Invoke":
				b.callee = "Invoke"
				if lit, ok := call.Args[1].(*ast.BasicLit); ok {
					b.path, _ = strconv.Unquote(lit.Value)
				}
			case "NewStream":
				b.callee = "NewStream"
				if lit, ok := call.Args[2].(*ast.BasicLit); ok {
					b.path, _ = strconv.Unquote(lit.Value)
				}
				// &Desc.Streams[i]
				if u, ok := call.Args[1].(*ast.UnaryExpr); ok {
					if ix, ok := u.X.(*ast.IndexExpr); ok {
						if lit, ok := ix.Index.(*ast.BasicLit); ok {
							b.index, _ = strconv.Atoi(lit.Value)
						}
						if s, ok := ix.X.(*ast.SelectorExpr); ok {
							b.desc = exprString(s.X)
						}
					}
				}
			case "SendMsg":
				b.tail += "SendMsg+"
			case "CloseSend":
				b.tail += "CloseSend"
			}
			return true
		})
		res[recv] = append(res[recv], b)
	}
	return res, regs, nil
}

func exprString(e ast.Expr) string {
	switch x := e.(type) {
	case *ast.Ident:
		return x.Name
	case *ast.StarExpr:
		return "*" + exprString(x.X)
	case *ast.SelectorExpr:
		return exprString(x.X) + "." + x.Sel.Name
	}
	return "?"
}

func camel(s string) string {
	// the goprotoc CamelCase convention for simple identifiers
	var b strings.Builder
	up := true
	for _, c := range s {
		if c == '_' {
			up = true
			continue
		}
		if up && c >= 'a' && c <= 'z' {
			c = c - 'a' + 'A'
		}
		up = false
		if c >= '0' && c <= '9' {
			up = true
		}
		b.WriteRune(c)
	}
	return b.String()
}

func fdOf(d protoreflect.FileDescriptor) *descriptorpb.FileDescriptorProto {
	return protodesc.ToFileDescriptorProto(d)
}

func suiteC19(r *Run) {
	r.Rule = "the plugin binary built from the working tree, fed synthetic CodeGeneratorRequests: 1..3 services per file, 0..7 methods per service in every interleaving of unary / server- / client- / bidi-streaming, snake_case and CamelCase names, nested packages; options legacy_stubs, legacy_desc_names, paths, module, import_path, M; output parsed with go/parser and the (callee, path literal, Streams index, SendMsg/CloseSend tail, registration target) of every stub compared with the model; the checked-in grpchantesting/test.pb.grpchan.go is regenerated and compared byte for byte. Non-trivial: service has >= 1 streaming method after a unary one or >= 2 services; distinct by descriptor + options."
	r.Assumptions = append(r.Assumptions, "goprotoc/gopoet name mangling and formatting; go/parser as the validity check of emitted code")
	rng := r.Rng

	// --- regenerate the repository's own stubs
	{
		testFD := grpchantesting.File_test_proto
		req := &pluginpb.CodeGeneratorRequest{
			FileToGenerate: []string{"test.proto"},
			Parameter:      proto.String("legacy_stubs"),
			ProtoFile:      []*descriptorpb.FileDescriptorProto{fdOf(anypb.File_google_protobuf_any_proto), fdOf(emptypb.File_google_protobuf_empty_proto), fdOf(testFD)},
		}
		resp, err := runPlugin(req)
		c := map[string]interface{}{"op": "regenerate-checked-in"}
		r.Eval("regen", true)
		if err != nil || resp.Error != nil {
			r.Violate("stubgen/regenerate-failed", "regenerating the repository's own checked-in stubs reproduces them exactly", fmt.Sprint(err, resp.GetError()), c, "")
		} else {
			want, _ := os.ReadFile(repoDir + "/grpchantesting/test.pb.grpchan.go")
			got := ""
			for _, f := range resp.File {
				if strings.HasSuffix(f.GetName(), "test.pb.grpchan.go") {
					got = f.GetContent()
				}
			}
			if got != string(want) {
				r.Violate("stubgen/regenerated-differs", "regenerating the repository's own checked-in stubs reproduces them exactly", sprintf("regenerated %d bytes, checked in %d bytes", len(got), len(want)), c, trunc(got, 300))
			}
			r.Sample(map[string]interface{}{"case": c, "bytes": len(got), "identical": got == string(want)})
		}
	}

	// several files in one request: one declares the messages (and a service), the other imports it and
	// declares a service over those messages. The stubs do not depend on the order in which the files are
	// named, and with import_path every file lands in that one Go package (sibling messages unqualified).
	for iter := 0; iter < r.Budget(16, 64); iter++ {
		withImportPath := iter%2 == 0
		withGoPkg := (iter/2)%2 == 1
		legacy := (iter/4)%2 == 0
		typesHasService := (iter/8)%2 == 0 // otherwise the imported file declares messages only (nothing to generate for it)
		mk := func(n string) *descriptorpb.DescriptorProto { return &descriptorpb.DescriptorProto{Name: proto.String(n)} }
		typesPb := &descriptorpb.FileDescriptorProto{
			Name: proto.String(sprintf("api%d/types.proto", iter)), Package: proto.String("demo.api"), Syntax: proto.String("proto3"),
			MessageType: []*descriptorpb.DescriptorProto{mk("Req"), mk("Resp")},
			Service: []*descriptorpb.ServiceDescriptorProto{{Name: proto.String("Aux"), Method: []*descriptorpb.MethodDescriptorProto{
				{Name: proto.String("Ping"), InputType: proto.String(".demo.api.Req"), OutputType: proto.String(".demo.api.Resp")}}}},
		}
		if !typesHasService {
			typesPb.Service = nil
		}
		svcPb := &descriptorpb.FileDescriptorProto{
			Name: proto.String(sprintf("api%d/svc.proto", iter)), Package: proto.String("demo.api"), Syntax: proto.String("proto3"),
			Dependency: []string{typesPb.GetName()},
			Service: []*descriptorpb.ServiceDescriptorProto{{Name: proto.String("Greeter"), Method: []*descriptorpb.MethodDescriptorProto{
				{Name: proto.String("Hello"), InputType: proto.String(".demo.api.Req"), OutputType: proto.String(".demo.api.Resp")},
				{Name: proto.String("Watch"), InputType: proto.String(".demo.api.Req"), OutputType: proto.String(".demo.api.Resp"), ServerStreaming: proto.Bool(true)}}}},
		}
		if withGoPkg {
			gp := &descriptorpb.FileOptions{GoPackage: proto.String(sprintf("example.com/gen/api%d;apigen", iter))}
			typesPb.Options, svcPb.Options = gp, proto.Clone(gp).(*descriptorpb.FileOptions)
		}
		var params []string
		if legacy {
			params = append(params, "legacy_stubs")
		}
		if withImportPath {
			params = append(params, "import_path=example.com/gen/apipb")
		}
		gen := func(order []string) (map[string]string, string) {
			req := &pluginpb.CodeGeneratorRequest{FileToGenerate: order, ProtoFile: []*descriptorpb.FileDescriptorProto{typesPb, svcPb}}
			if len(params) > 0 {
				req.Parameter = proto.String(strings.Join(params, ","))
			}
			resp, err := runPlugin(req)
			if err != nil || resp.Error != nil {
				return nil, fmt.Sprint(err, resp.GetError())
			}
			out := map[string]string{}
			for _, f := range resp.File {
				out[f.GetName()] += f.GetContent()
			}
			return out, ""
		}
		a, ea := gen([]string{typesPb.GetName(), svcPb.GetName()})
		b, eb := gen([]string{svcPb.GetName(), typesPb.GetName()})
		caseDesc := map[string]interface{}{"op": "two-files-one-request", "params": strings.Join(params, ","), "go_package_option": withGoPkg, "imported_file_has_a_service": typesHasService, "files": "types.proto (messages, service Aux unless stated otherwise); svc.proto imports it (service Greeter)"}
		r.Eval(fmt.Sprint("multi-file", iter), true)
		r.Count("multi-file-requests")
		if ea != "" || eb != "" {
			r.Violate("stubgen/plugin-error", "for every proto file, the code the plugin emits is valid Go", ea+" / "+eb, caseDesc, "")
			continue
		}
		for name, src := range b {
			if _, _, perr := extractBindings(src); perr != nil {
				r.Violate("stubgen/invalid-go", "the code the plugin emits is valid Go", sprintf("%s: %v", name, perr), caseDesc, trunc(src, 300))
			}
			pkgClause, imports := "", ""
			for _, ln := range strings.Split(src, "\n") {
				if strings.HasPrefix(ln, "package ") && pkgClause == "" {
					pkgClause = strings.TrimSpace(strings.TrimPrefix(ln, "package "))
				}
				if strings.Contains(ln, "demo_api") || strings.Contains(ln, "\"api") {
					imports += strings.TrimSpace(ln) + "; "
				}
			}
			if withImportPath && (!strings.HasPrefix(name, "example.com/gen/apipb/") || pkgClause != "apipb" || imports != "") {
				r.Violate("stubgen/wrong-go-package", "the code the plugin emits is valid Go (every file of the request belongs to the Go package the options assign: import_path)",
					sprintf("files named [svc, types], options %q: output %q has package clause %q and refers to a sibling package (%s); want a file under example.com/gen/apipb/ in package apipb with the sibling file's messages unqualified", strings.Join(params, ","), name, pkgClause, trunc(imports, 200)), caseDesc, name)
			}
		}
		// every file that declares a service gets its stubs, whatever else is in the request
		wantFiles := 1
		if typesHasService {
			wantFiles = 2
		}
		for oi, out := range []map[string]string{a, b} {
			if len(out) != wantFiles {
				var names []string
				for n := range out {
					names = append(names, n)
				}
				sort.Strings(names)
				r.Violate("stubgen/no-output", "for every proto file … each service gets a registration function", sprintf("request order %v, options %q: %d output files %v for %d files with services", [][]string{{"types", "svc"}, {"svc", "types"}}[oi], strings.Join(params, ","), len(out), names, wantFiles), caseDesc, "")
			}
		}
		same := len(a) == len(b)
		for name, src := range a {
			if b[name] != src {
				same = false
			}
		}
		if !same {
			var an, bn []string
			for n := range a {
				an = append(an, n)
			}
			for n := range b {
				bn = append(bn, n)
			}
			sort.Strings(an)
			sort.Strings(bn)
			r.Violate("stubgen/output-depends-on-file-order", "for every proto file the plugin emits the stubs of that file's services (the same ones whatever the order of the files in the request)",
				sprintf("options %q: [types, svc] gives %v, [svc, types] gives %v (contents equal: %v)", strings.Join(params, ","), an, bn, same), caseDesc, "")
		}
	}

	kinds := []stubMethod{{"", false, false}, {"", false, true}, {"", true, false}, {"", true, true}}
	svcNames := []string{"TestService", "my_svc", "Foo", "bar_baz_qux", "S2"}
	mNames := []string{"Get", "s_one", "Bidi", "put_it", "M", "ListAll", "watch_x", "Do2", "a_b_c"}
	pkgs := []string{"a.b", "x", "deep.er.pkg", ""}
	for iter := 0; iter < r.Budget(60, 1500); iter++ {
		pkg := pkgs[rng.Intn(len(pkgs))]
		legacyNames := rng.Chance(30)
		legacyStubs := !rng.Chance(15)
		nSvc := 1 + rng.Intn(3)
		fd := &descriptorpb.FileDescriptorProto{
			Name: proto.String(sprintf("p%d/synth.proto", iter)), Syntax: proto.String("proto3"),
			Options:     &descriptorpb.FileOptions{GoPackage: proto.String(sprintf("example.com/gen/p%d;genpkg", iter))},
			MessageType: []*descriptorpb.DescriptorProto{{Name: proto.String("Req")}, {Name: proto.String("Resp")}},
		}
		if pkg != "" {
			fd.Package = proto.String(pkg)
		}
		type svcSpec struct {
			name    string
			methods []stubMethod
		}
		var svcs []svcSpec
		usedSvc := map[string]bool{}
		for s := 0; s < nSvc; s++ {
			sn := svcNames[rng.Intn(len(svcNames))]
			if usedSvc[camel(sn)] {
				continue
			}
			usedSvc[camel(sn)] = true
			sp := svcSpec{name: sn}
			sd := &descriptorpb.ServiceDescriptorProto{Name: proto.String(sn)}
			usedM := map[string]bool{}
			for m := 0; m < rng.Intn(8); m++ {
				mn := mNames[rng.Intn(len(mNames))]
				if usedM[camel(mn)] {
					continue
				}
				usedM[camel(mn)] = true
				k := kinds[rng.Intn(4)]
				k.name = mn
				sp.methods = append(sp.methods, k)
				tn := "." + pkg + ".Req"
				tr := "." + pkg + ".Resp"
				if pkg == "" {
					tn, tr = ".Req", ".Resp"
				}
				sd.Method = append(sd.Method, &descriptorpb.MethodDescriptorProto{Name: proto.String(mn), InputType: proto.String(tn), OutputType: proto.String(tr),
					ClientStreaming: proto.Bool(k.cs), ServerStreaming: proto.Bool(k.ss)})
			}
			fd.Service = append(fd.Service, sd)
			svcs = append(svcs, sp)
		}
		var params []string
		if legacyStubs {
			params = append(params, "legacy_stubs")
		}
		if legacyNames {
			params = append(params, "legacy_desc_names")
		}
		switch rng.Intn(5) {
		case 0:
			params = append(params, "paths=source_relative")
		case 1:
			params = append(params, "module=example.com/gen")
		case 2:
			params = append(params, "import_path=example.com/override")
		case 3:
			params = append(params, sprintf("Mp%d/synth.proto=example.com/mapped/x", iter))
		}
		// the option pair that interacts: an explicit M mapping for the file takes precedence over import_path
		wantDir, wantPkg := "", ""
		if iter%7 == 3 {
			params = nil
			if legacyStubs {
				params = append(params, "legacy_stubs")
			}
			if legacyNames {
				params = append(params, "legacy_desc_names")
			}
			params = append(params, "import_path=example.com/override", sprintf("M%s=example.com/mapped/x", fd.GetName()))
			wantDir, wantPkg = "example.com/mapped/x/", "x"
		} else if iter%7 == 5 {
			params = append(params[:0:0], "import_path=example.com/override")
			if legacyStubs {
				params = append(params, "legacy_stubs")
			}
			if legacyNames {
				params = append(params, "legacy_desc_names")
			}
			wantDir, wantPkg = "example.com/override/", "override"
		}
		req := &pluginpb.CodeGeneratorRequest{FileToGenerate: []string{fd.GetName()}, ProtoFile: []*descriptorpb.FileDescriptorProto{fd}}
		if len(params) > 0 {
			req.Parameter = proto.String(strings.Join(params, ","))
		}
		resp, err := runPlugin(req)
		caseDesc := map[string]interface{}{"package": pkg, "params": strings.Join(params, ","), "services": fmt.Sprint(svcs)}
		nontrivial := len(svcs) >= 2
		for _, s := range svcs {
			seenUnary := false
			for _, m := range s.methods {
				if !m.cs && !m.ss {
					seenUnary = true
				} else if seenUnary {
					nontrivial = true
				}
			}
		}
		r.Eval(fmt.Sprint(pkg, params, svcs), nontrivial)
		r.Count("requests")
		if err != nil || resp.Error != nil {
			r.Violate("stubgen/plugin-error", "for every proto file, the code the plugin emits is valid Go", fmt.Sprint(err, resp.GetError()), caseDesc, "")
			continue
		}
		if len(resp.File) != 1 {
			r.Violate("stubgen/no-output", "each service gets a registration function", sprintf("%d output files", len(resp.File)), caseDesc, "")
			continue
		}
		src := resp.File[0].GetContent()
		if wantDir != "" {
			name := resp.File[0].GetName()
			pkgClause := ""
			for _, ln := range strings.Split(src, "\n") {
				if strings.HasPrefix(ln, "package ") {
					pkgClause = strings.TrimSpace(strings.TrimPrefix(ln, "package "))
					break
				}
			}
			if !strings.HasPrefix(name, wantDir) || pkgClause != wantPkg {
				r.Violate("stubgen/wrong-go-package", "the code the plugin emits is valid Go (it belongs to the Go package the options assign to the file: an M mapping for the file before import_path)",
					sprintf("options %q: output file %q, package clause %q; want a file under %q in package %q", strings.Join(params, ","), name, pkgClause, wantDir, wantPkg), caseDesc, name)
			}
		}
		binds, regs, perr := extractBindings(src)
		if perr != nil {
			r.Violate("stubgen/invalid-go", "the code the plugin emits is valid Go", perr.Error(), caseDesc, trunc(src, 400))
			continue
		}
		if len(regs) != len(svcs) {
			r.Violate("stubgen/registration-missing", "each service gets a registration function for its own service description", sprintf("%d registration functions for %d services: %v", len(regs), len(svcs), regs), caseDesc, "")
		}
		for si, s := range svcs {
			full := s.name
			if pkg != "" {
				full = pkg + "." + s.name
			}
			cc := camel(s.name)
			wantDesc := cc + "_ServiceDesc"
			if legacyNames {
				wantDesc = "_" + cc + "_serviceDesc"
			}
			okReg := false
			for _, rg := range regs {
				if rg == "RegisterHandler"+cc+"->"+wantDesc {
					okReg = true
				}
			}
			if !okReg {
				r.Violate("stubgen/registration-wrong-desc", "each service gets a registration function for its own service description", sprintf("service %s: registrations %v, want RegisterHandler%s->%s", s.name, regs, cc, wantDesc), caseDesc, "")
			}
			var marg []string
			for _, m := range s.methods {
				marg = append(marg, sprintf("%s:%s:%s", hexOrDash([]byte(m.name)), b01(m.cs), b01(m.ss)))
			}
			recv := "*" + strings.ToLower(cc[:1]) + cc[1:] + "ChannelClient"
			got := binds[recv]
			var ans []string
			if legacyStubs {
				for _, m := range s.methods {
					var b *stubBinding
					for i := range got {
						if got[i].goName == camel(m.name) {
							b = &got[i]
						}
					}
					if b == nil {
						ans = append(ans, hexOrDash([]byte(m.name))+":missing")
						continue
					}
					shape := "unary"
					if b.callee == "NewStream" {
						shape = "stream"
						if b.tail == "SendMsg+CloseSend" {
							shape = "sstream"
						}
					}
					ans = append(ans, sprintf("%s:%s:%s:%d", hexOrDash([]byte(m.name)), shape, hexOrDash([]byte(b.path)), b.index))
					// oracle, independent of the model
					wantIdx := -1
					if m.cs || m.ss {
						wantIdx = 0
						for _, p := range s.methods {
							if p.name == m.name {
								break
							}
							if p.cs || p.ss {
								wantIdx++
							}
						}
					}
					wantShape := map[[2]bool]string{{false, false}: "unary", {false, true}: "sstream", {true, false}: "stream", {true, true}: "stream"}[[2]bool{m.cs, m.ss}]
					if shape == "unary" && "*"+b.newT != b.resT {
						r.Violate("stubgen/unary-reply-type", "the output is valid Go … the call shape that matches the method", sprintf("service %s method %s: the stub allocates new(%s) for the reply but is declared to return %s", s.name, m.name, b.newT, b.resT), caseDesc, "")
					}
					if b.path != "/"+full+"/"+m.name || b.index != wantIdx || shape != wantShape || (wantIdx >= 0 && b.desc != wantDesc) {
						r.Violate("stubgen/wrong-binding", "each client method calls the channel with the path \"/<full service name>/<method>\", the call shape that matches the method's streaming flags, and for streaming methods the index of that method among the service's streaming methods in declaration order",
							sprintf("service %s (#%d) method %s (cs=%v ss=%v): path %q index %d shape %s desc %s; want path %q index %d shape %s", s.name, si, m.name, m.cs, m.ss, b.path, b.index, shape, b.desc, "/"+full+"/"+m.name, wantIdx, wantShape), caseDesc, "")
					}
				}
			} else if len(got) != 0 {
				r.Violate("stubgen/stubs-without-option", "client stubs only with legacy stubs enabled", sprintf("%d stub methods emitted without legacy_stubs", len(got)), caseDesc, "")
			}
			r.Op(sprintf("C19 svc=%s legacy=%s methods=%s", hexOrDash([]byte(full)), b01(legacyStubs), strings.Join(marg, ",")), strings.Join(ans, ";"))
			r.TracesOnImpl++
		}
		if len(r.Samples) < 4 && nontrivial {
			r.Sample(map[string]interface{}{"case": caseDesc, "generated_bytes": len(src)})
		}
	}
}
