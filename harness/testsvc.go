package main

import (
	"context"
	"net/http"
	"net/url"

	"github.com/fullstorydev/grpchan/grpchantesting"
	"github.com/fullstorydev/grpchan/httpgrpc"
	"github.com/fullstorydev/grpchan/inprocgrpc"
	"google.golang.org/genproto/googleapis/rpc/status"
	"google.golang.org/grpc"
	grpcstatus "google.golang.org/grpc/status"
	"google.golang.org/protobuf/types/known/emptypb"
)

type Msg = grpchantesting.Message

// scriptServer is a TestServiceServer whose behaviour is given by closures.
type scriptServer struct {
	grpchantesting.UnimplementedTestServiceServer
	unary   func(ctx context.Context, req *Msg) (*Msg, error)
	cstream func(s grpchantesting.TestService_ClientStreamServer) error
	sstream func(req *Msg, s grpchantesting.TestService_ServerStreamServer) error
	bidi    func(s grpchantesting.TestService_BidiStreamServer) error
	calls   counter
}

func (s *scriptServer) Unary(ctx context.Context, req *Msg) (*Msg, error) {
	s.calls.inc("Unary")
	if s.unary == nil {
		return &Msg{}, nil
	}
	return s.unary(ctx, req)
}
func (s *scriptServer) ClientStream(st grpchantesting.TestService_ClientStreamServer) error {
	s.calls.inc("ClientStream")
	if s.cstream == nil {
		return st.SendAndClose(&Msg{})
	}
	return s.cstream(st)
}
func (s *scriptServer) ServerStream(req *Msg, st grpchantesting.TestService_ServerStreamServer) error {
	s.calls.inc("ServerStream")
	if s.sstream == nil {
		return nil
	}
	return s.sstream(req, st)
}
func (s *scriptServer) BidiStream(st grpchantesting.TestService_BidiStreamServer) error {
	s.calls.inc("BidiStream")
	if s.bidi == nil {
		return nil
	}
	return s.bidi(st)
}
func (s *scriptServer) UseExternalMessageTwice(ctx context.Context, e *emptypb.Empty) (*emptypb.Empty, error) {
	s.calls.inc("UseExternalMessageTwice")
	return &emptypb.Empty{}, nil
}

// httpMem wires a script server behind an httpgrpc.Server reached through
// the in-memory transport.
type httpMem struct {
	svr *scriptServer
	hs  *httpgrpc.Server
	tr  *memTransport
	ch  *httpgrpc.Channel
}

func newHTTPMem(svr *scriptServer, opts ...httpgrpc.ServerOption) *httpMem {
	hs := httpgrpc.NewServer(opts...)
	grpchantesting.RegisterTestServiceServer(hs, svr)
	tr := newMemTransport(hs)
	u, _ := url.Parse("http://mem.test/")
	return &httpMem{svr: svr, hs: hs, tr: tr, ch: &httpgrpc.Channel{Transport: tr, BaseURL: u}}
}

func newInproc(svr *scriptServer) *inprocgrpc.Channel {
	ch := &inprocgrpc.Channel{}
	grpchantesting.RegisterTestServiceServer(ch, svr)
	return ch
}

const (
	mUnary   = "/grpchantesting.TestService/Unary"
	mCStream = "/grpchantesting.TestService/ClientStream"
	mSStream = "/grpchantesting.TestService/ServerStream"
	mBidi    = "/grpchantesting.TestService/BidiStream"
)

var (
	descCStream = &grpc.StreamDesc{StreamName: "ClientStream", ClientStreams: true}
	descSStream = &grpc.StreamDesc{StreamName: "ServerStream", ServerStreams: true}
	descBidi    = &grpc.StreamDesc{StreamName: "BidiStream", ClientStreams: true, ServerStreams: true}
)

// okCodeErr is a non-nil error whose gRPC status carries code OK.
type okCodeErr struct{ msg string }

func (e okCodeErr) Error() string { return "ok-coded error: " + e.msg }
func (e okCodeErr) GRPCStatus() *grpcstatus.Status {
	return grpcstatus.FromProto(&status.Status{Code: 0, Message: e.msg})
}

var _ = http.StatusOK

// httpMemGeneric wires any httpgrpc.Server behind the in-memory transport.
type httpMemGeneric struct {
	tr *memTransport
	ch *httpgrpc.Channel
}

func newHTTPMemGeneric(hs *httpgrpc.Server) *httpMemGeneric {
	tr := newMemTransport(hs)
	u, _ := url.Parse("http://mem.test/")
	return &httpMemGeneric{tr: tr, ch: &httpgrpc.Channel{Transport: tr, BaseURL: u}}
}
