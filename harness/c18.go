package main

import (
	"fmt"
	"reflect"
	"strings"

	"github.com/fullstorydev/grpchan"
	"github.com/fullstorydev/grpchan/grpchantesting"
	"github.com/fullstorydev/grpchan/httpgrpc"
	"github.com/fullstorydev/grpchan/inprocgrpc"
	protov1 "github.com/golang/protobuf/proto"
	"github.com/jhump/protoreflect/desc"
	"github.com/jhump/protoreflect/dynamic"
	"google.golang.org/grpc/encoding"
	grpcproto "google.golang.org/grpc/encoding/proto"
	"google.golang.org/protobuf/proto"
	"google.golang.org/protobuf/types/known/anypb"
	"google.golang.org/protobuf/types/known/emptypb"
	"google.golang.org/protobuf/types/known/timestamppb"
)

func init() { suites["C18"] = suiteC18 }

type msgKind struct {
	name string
	typ  int
	mk   func(r *Rng) protov1.Message // populated
	zero func() protov1.Message
	md   func() *desc.MessageDescriptor
}

func populateMsg(r *Rng) *Msg {
	m := &Msg{}
	if r.Chance(80) {
		m.Payload = r.Bytes(1 + r.Intn(40))
	}
	m.Count = int32(r.U64())
	if r.Chance(70) {
		m.Headers = map[string][]byte{"a": r.Bytes(3), "b-bin": {0, 10, 255}}
	}
	if r.Chance(50) {
		m.Trailers = map[string][]byte{"t": r.Bytes(2)}
	}
	if r.Chance(60) {
		a, _ := anypb.New(&httpgrpc.HttpTrailer{Code: 3, Message: "nested"})
		b, _ := anypb.New(timestamppb.New(timestamppb.Now().AsTime()))
		m.ErrorDetails = []*anypb.Any{a, b}
	}
	if r.Chance(40) {
		// unknown fields
		m.ProtoReflect().SetUnknown([]byte{0xf8, 0x7, 0x2a})
	}
	return m
}

func suiteC18(r *Run) {
	r.Rule = "all four adapters (protobuf default, codec-based, clone-function-based, copy-function-based) x messages of the available types (test Message, HttpTrailer, Any, Empty, dynamic messages) with random population incl. nested / maps / repeated / bytes / Any / unknown fields; fresh and pre-populated destinations; mismatched destination types; pointers to non-proto values; generated <-> dynamic interop. Checked: equality, source snapshot, pointer-disjointness walk + in-place mutation, destination content, error class. Non-trivial: populated message or an error-path case; distinct by (adapter, op, types, content hash)."
	r.Assumptions = append(r.Assumptions, "protobuf-go / golang-protobuf / protoreflect dynamic: Clone, Reset, TryMerge, Marshal, Unmarshal (the ProtoLib primitives the model assumes)")
	rng := r.Rng

	mdMsg, _ := desc.LoadMessageDescriptorForMessage(&Msg{})
	mdTr, _ := desc.LoadMessageDescriptorForMessage(&httpgrpc.HttpTrailer{})
	kinds := []msgKind{
		{"Message", 1, func(r *Rng) protov1.Message { return populateMsg(r) }, func() protov1.Message { return &Msg{} }, func() *desc.MessageDescriptor { return mdMsg }},
		{"HttpTrailer", 2, func(r *Rng) protov1.Message {
			return &httpgrpc.HttpTrailer{Code: int32(r.Intn(17)), Message: hexOrDash(r.Bytes(r.Intn(8))), Metadata: map[string]*httpgrpc.TrailerValues{"k": {Values: []string{"v1", "v2"}}}}
		}, func() protov1.Message { return &httpgrpc.HttpTrailer{} }, func() *desc.MessageDescriptor { return mdTr }},
		{"Any", 3, func(r *Rng) protov1.Message { a, _ := anypb.New(populateMsg(r)); return a }, func() protov1.Message { return &anypb.Any{} }, nil},
		{"Empty", 4, func(r *Rng) protov1.Message { return &emptypb.Empty{} }, func() protov1.Message { return &emptypb.Empty{} }, nil},
	}
	adapters := []struct {
		name string
		c    inprocgrpc.Cloner
	}{
		{"proto", inprocgrpc.ProtoCloner{}},
		{"codec", inprocgrpc.CodecCloner(encoding.GetCodec(grpcproto.Name))},
		{"clonefunc", inprocgrpc.CloneFunc(func(in interface{}) (interface{}, error) { return grpchan.VerifCloneMessage(in) })},
		{"copyfunc", inprocgrpc.CopyFunc(func(out, in interface{}) error { return grpchan.VerifCopyMessage(out, in) })},
	}
	bytesOf := func(m protov1.Message) (res string) {
		// a copy that is not even a usable message (e.g. a dynamic message without descriptor) must not
		// take the harness down: it is reported as a content difference
		defer func() {
			if p := recover(); p != nil {
				res = "UNUSABLE-MESSAGE:" + trunc(fmt.Sprint(p), 60)
			}
		}()
		if dm, ok := m.(*dynamic.Message); ok {
			b, err := dm.MarshalDeterministic()
			if err != nil {
				return "ERR:" + err.Error()
			}
			return string(b)
		}
		b, err := proto.MarshalOptions{Deterministic: true}.Marshal(protov1.MessageV2(m))
		if err != nil {
			return "ERR:" + err.Error()
		}
		return string(b)
	}
	toDynamic := func(k msgKind, m protov1.Message) *dynamic.Message {
		dm := dynamic.NewMessage(k.md())
		if err := dm.Unmarshal([]byte(bytesOf(m))); err != nil {
			panic(err)
		}
		return dm
	}

	for iter := 0; iter < r.Budget(1500, 12000); iter++ {
		ad := adapters[iter%4]
		k := kinds[rng.Intn(len(kinds))]
		src := k.mk(rng)
		if rng.Chance(12) {
			src = k.zero() // a source whose every field is at its default encodes to zero bytes
		}
		srcRepr := "g"
		if k.md != nil && rng.Chance(25) {
			src = toDynamic(k, src)
			srcRepr = "d"
		}
		snap := bytesOf(src)
		c := map[string]interface{}{"adapter": ad.name, "src_type": k.name, "src_repr": srcRepr, "src_bytes": len(snap)}
		opKind := rng.Intn(7)
		var pan string
		switch opKind {
		case 0: // clone
			var out interface{}
			var err error
			func() { defer recoverTo(&pan); out, err = ad.c.Clone(src) }()
			ans := "ok"
			if pan != "" {
				ans = "panic"
			} else if err != nil {
				ans = "error"
			}
			r.Op(sprintf("C18 %s clone src=%d%s", ad.name, k.typ, srcRepr), ans)
			r.Eval(fmt.Sprint(ad.name, "clone", k.name, srcRepr, snap), len(snap) > 0)
			r.Count("op:clone")
			if pan != "" || err != nil {
				sig := "cloner/" + ad.name + "/clone-failed"
				if srcRepr == "d" {
					sig = "cloner/" + ad.name + "/dynamic/clone-failed"
				}
				r.Violate(sig, "yields, for every message, a copy", sprintf("Clone(%s %s): err=%v panic=%s", srcRepr, k.name, err, trunc(pan, 80)), c, ans)
				continue
			}
			outMsg, isMsg := out.(protov1.Message)
			if !isMsg || reflect.TypeOf(out) != reflect.TypeOf(src) {
				sig := "cloner/" + ad.name + "/clone-not-same-kind-of-message"
				if srcRepr == "d" {
					sig = "cloner/" + ad.name + "/dynamic/clone-not-same-kind-of-message"
				}
				r.Violate(sig, "yields, for every message, a copy that is equal to the source", sprintf("Clone(%s %s, a %T) returned a %T (usable as a protobuf message: %v)", srcRepr, k.name, src, out, isMsg), c, fmt.Sprintf("%T", out))
				continue
			}
			checkCopy(r, ad.name, "clone", c, src, outMsg, snap, bytesOf)
		case 1, 2: // copy into fresh / pre-populated destination of the same type
			dst := k.zero()
			dstRepr := "g"
			pre := opKind == 2
			if pre {
				dst = k.mk(rng)
			}
			if k.md != nil && rng.Chance(25) {
				dstRepr = "d"
				dst = toDynamic(k, dst)
			}
			var err error
			func() { defer recoverTo(&pan); err = ad.c.Copy(dst, src) }()
			ans := "ok"
			if pan != "" {
				ans = "panic"
			} else if err != nil {
				ans = "error"
			}
			c["dst_repr"], c["dst_prepopulated"] = dstRepr, pre
			r.Op(sprintf("C18 %s copy src=%d%s dst=%d%s", ad.name, k.typ, srcRepr, k.typ, dstRepr), ans)
			r.Eval(fmt.Sprint(ad.name, "copy", k.name, srcRepr, dstRepr, pre, snap), len(snap) > 0 || pre)
			r.Count("op:copy-" + srcRepr + dstRepr)
			if pan != "" || err != nil {
				sig := "cloner/" + ad.name + "/copy-failed"
				if srcRepr != dstRepr {
					sig = "cloner/" + ad.name + "/dynamic/generated-dynamic-interop-refused"
				} else if srcRepr == "d" {
					sig = "cloner/" + ad.name + "/dynamic/copy-failed"
				}
				r.Violate(sig, "generated and dynamic representations of the same message type can be copied into each other; every message yields a copy", sprintf("Copy(dst %s, src %s) of %s: err=%v panic=%s", dstRepr, srcRepr, k.name, err, trunc(pan, 80)), c, ans)
				continue
			}
			if pre {
				// separate "the destination's previous content survived" from losses that also occur when
				// copying into an empty destination (those have their own signatures): compare with a
				// reference copy of the same source into a fresh destination of the same representation
				ref := k.zero()
				if dstRepr == "d" {
					ref = toDynamic(k, ref)
				}
				var rerr error
				var rpan string
				func() { defer recoverTo(&rpan); rerr = ad.c.Copy(ref, src) }()
				if rerr == nil && rpan == "" && bytesOf(ref) != bytesOf(dst) {
					adn := ad.name
					if srcRepr == "d" || dstRepr == "d" {
						adn += "/dynamic"
					}
					r.Violate("cloner/"+adn+"/destination-content-survived", "copying into an existing destination replaces its previous content entirely",
						sprintf("Copy(dst %s pre-populated, src %s) of %s: result encodes to %d bytes, the same copy into an empty destination to %d", dstRepr, srcRepr, k.name, len(bytesOf(dst)), len(bytesOf(ref))), c, "")
				}
			}
			checkCopy(r, ad.name, "copy", c, src, dst, snap, bytesOf)
		case 3: // destination of a different message type
			k2 := kinds[(rng.Intn(len(kinds)-1)+1+indexOfKind(kinds, k.name))%len(kinds)]
			var dst protov1.Message = k2.mk(rng)
			dstRepr := "g"
			if k2.md != nil && rng.Chance(40) {
				// every dynamic message has the same Go type whatever its descriptor: the refusal must look at the message type
				dst = toDynamic(k2, dst)
				dstRepr = "d"
			}
			c["dst_repr"] = dstRepr
			before := bytesOf(dst)
			var err error
			func() { defer recoverTo(&pan); err = ad.c.Copy(dst, src) }()
			ans := "ok"
			if pan != "" {
				ans = "panic"
			} else if err != nil {
				ans = "error"
			}
			c["dst_type"] = k2.name
			// external: do the source's wire bytes parse under the destination's schema?
			wire := proto.Unmarshal([]byte(snap), protov1.MessageV2(k2.zero())) == nil
			if dstRepr == "d" {
				wire = dynamic.NewMessage(k2.md()).Unmarshal([]byte(snap)) == nil
			}
			r.Op(sprintf("C18 %s copy src=%d%s dst=%d%s wire=%s", ad.name, k.typ, srcRepr, k2.typ, dstRepr, b01(wire)), ans)
			r.Eval(fmt.Sprint(ad.name, "mismatch", k.name, k2.name, srcRepr, dstRepr, snap), true)
			r.Count("op:mismatch")
			if err == nil && pan == "" {
				r.Violate("cloner/"+ad.name+"/type-mismatch-accepted", "a destination of a different message type is refused with an error rather than copied shallowly",
					sprintf("Copy(dst *%s (%s), src *%s (%s)) returned nil; destination now encodes as %d bytes (was %d)", k2.name, dstRepr, k.name, srcRepr, len(bytesOf(dst)), len(before)), c, "ok")
			} else if pan != "" {
				r.Violate("cloner/"+ad.name+"/type-mismatch-panic", "a destination of a different message type is refused with an error rather than copied shallowly",
					sprintf("Copy(dst *%s (%s), src *%s (%s)) panicked: %s", k2.name, dstRepr, k.name, srcRepr, trunc(pan, 100)), c, "panic")
			}
		case 4: // pointer to something that is not a protobuf message
			type notProto struct{ A int }
			var err1, err2 error
			func() { defer recoverTo(&pan); _, err1 = ad.c.Clone(&notProto{A: 1}) }()
			func() { defer recoverTo(&pan); err2 = ad.c.Copy(&notProto{}, &notProto{A: 2}) }()
			// …and a protobuf source into a destination that is not a protobuf message (only the decode step can refuse it)
			var err3 error
			dstNP := &notProto{A: 5}
			func() { defer recoverTo(&pan); err3 = ad.c.Copy(dstNP, src) }()
			// …and pointees that are the zero value of their type (nothing to copy is no reason to accept them)
			zeroAccepted := ""
			for zi, z := range []interface{}{new(string), &notProto{}, new(int), new([]byte)} {
				var ez error
				func() { defer recoverTo(&pan); _, ez = ad.c.Clone(z) }()
				if ez == nil && pan == "" && zeroAccepted == "" {
					zeroAccepted = sprintf("Clone(%T) (zero-valued pointee, #%d)", z, zi)
				}
			}
			ans := "error"
			if pan != "" {
				ans = "panic"
			} else if err1 == nil || err2 == nil || err3 == nil || zeroAccepted != "" {
				ans = "ok"
			}
			if zeroAccepted != "" && pan == "" {
				r.Violate("cloner/"+ad.name+"/zero-valued-non-proto-not-refused", "a non-nil pointer to something that is not a protobuf message is refused with an error rather than copied shallowly",
					zeroAccepted+" returned a value and a nil error", c, "ok")
			}
			if err3 == nil && pan == "" {
				r.Violate("cloner/"+ad.name+"/non-proto-destination-not-refused", "a non-nil pointer to something that is not a protobuf message is refused with an error rather than copied shallowly",
					sprintf("Copy(dst *notProto, src *%s) returned nil (destination now %+v)", k.name, *dstNP), c, "ok")
			}
			r.Op(sprintf("C18 %s nonproto", ad.name), ans)
			r.Eval(fmt.Sprint(ad.name, "nonproto"), true)
			r.Count("op:nonproto")
			if ans != "error" {
				r.Violate("cloner/"+ad.name+"/non-proto-not-refused", "a non-nil pointer to something that is not a protobuf message is refused with an error rather than copied shallowly",
					sprintf("Clone err=%v Copy err=%v panic=%s", err1, err2, trunc(pan, 80)), c, ans)
			}
		default: // source unchanged + independence under mutation of the source afterwards
			var out interface{}
			var err error
			func() { defer recoverTo(&pan); out, err = ad.c.Clone(src) }()
			if err != nil || pan != "" {
				continue
			}
			r.Eval(fmt.Sprint(ad.name, "mutate-src", k.name, srcRepr, snap), len(snap) > 0)
			r.Count("op:mutate-source")
			if m, ok := src.(*Msg); ok && len(m.Payload) > 0 {
				m.Payload[0] ^= 0xff
				for kk := range m.Headers {
					m.Headers[kk] = []byte("changed")
				}
				if bytesOf(out.(protov1.Message)) != snap {
					r.Violate("cloner/"+ad.name+"/shares-memory", "shares no mutable memory with it", "mutating the source after Clone changed the copy", c, "")
				}
			}
		}
	}
	_ = grpchantesting.MetadataNew
}

func indexOfKind(ks []msgKind, name string) int {
	for i, k := range ks {
		if k.name == name {
			return i
		}
	}
	return 0
}

// checkCopy: equal to the source, source unchanged, no shared mutable memory.
func checkCopy(r *Run, adapter, op string, c map[string]interface{}, src, out protov1.Message, snap string, bytesOf func(protov1.Message) string) {
	_, sd := src.(*dynamic.Message)
	_, od := out.(*dynamic.Message)
	if sd || od {
		adapter += "/dynamic"
	}
	defer func() {
		if p := recover(); p != nil {
			r.Violate("cloner/"+adapter+"/unusable-copy", "yields, for every message, a copy that is equal to the source", sprintf("%s returned ok but inspecting the copy panics: %s", op, trunc(fmt.Sprint(p), 100)), c, "")
		}
	}()
	if op == "clone" && reflect.ValueOf(src).Kind() == reflect.Ptr && reflect.ValueOf(out).Kind() == reflect.Ptr && reflect.ValueOf(src).Pointer() == reflect.ValueOf(out).Pointer() {
		r.Violate("cloner/"+adapter+"/clone-is-the-source", "shares no mutable memory with it", "Clone returned the source object itself", c, "")
	}
	if got := bytesOf(out); got != snap {
		sig := "cloner/" + adapter + "/not-equal"
		if c["dst_prepopulated"] == true {
			sig = "cloner/" + adapter + "/destination-merged-not-replaced"
		}
		r.Violate(sig, "a copy that is equal to the source; copying into an existing destination replaces its previous content entirely", sprintf("%s: copy encodes to %d bytes, source to %d", op, len(got), len(snap)), c, "")
	}
	if bytesOf(src) != snap {
		r.Violate("cloner/"+adapter+"/source-changed", "leaves the source unchanged", op, c, "")
	}
	if shared := sharedMemory(src, out); len(shared) > 0 {
		r.Violate("cloner/"+adapter+"/shares-memory", "shares no mutable memory with it", sprintf("%s: shared addresses at %v", op, shared), c, strings.Join(shared, ","))
	}
	if dm, ok := out.(*dynamic.Message); ok {
		if v, err := dm.TryGetFieldByName("payload"); err == nil {
			if b, ok := v.([]byte); ok && len(b) > 0 {
				b[0] ^= 0xff
				if bytesOf(src) != snap {
					r.Violate("cloner/"+adapter+"/shares-memory", "mutating a message on one side is never visible on the other", op+": flipping a payload byte of the dynamic copy in place changed the source", c, "")
				}
				b[0] ^= 0xff
			}
		}
	}
	// in-place mutation of the copy must not show in the source
	if m, ok := out.(*Msg); ok && len(m.Payload) > 0 {
		m.Payload[0] ^= 0xff
		for k := range m.Headers {
			if len(m.Headers[k]) > 0 {
				m.Headers[k][0] ^= 0xff
			}
		}
		for _, d := range m.ErrorDetails {
			if len(d.Value) > 0 {
				d.Value[0] ^= 0xff
			}
		}
		if bytesOf(src) != snap {
			r.Violate("cloner/"+adapter+"/shares-memory", "mutating a message on one side is never visible on the other", op+": mutating the copy in place changed the source", c, "")
		}
	}
}

// sharedMemory walks both object graphs and reports mutable memory (slice
// backing arrays, maps, pointed-to structs) reachable from both.
func sharedMemory(a, b interface{}) []string {
	pa, pb := map[uintptr]string{}, map[uintptr]string{}
	walkMem(reflect.ValueOf(a), "", pa, 0)
	walkMem(reflect.ValueOf(b), "", pb, 0)
	var res []string
	for p, path := range pa {
		if _, ok := pb[p]; ok {
			res = append(res, path)
		}
	}
	return res
}

func skipType(t reflect.Type) bool {
	p := t.PkgPath()
	if t.Kind() == reflect.Ptr {
		p = t.Elem().PkgPath()
	}
	return strings.Contains(p, "protobuf/internal") || strings.Contains(p, "protoimpl") || strings.Contains(p, "protoreflect/desc") ||
		strings.Contains(p, "protoregistry") || strings.Contains(p, "reflect/protoreflect") || strings.HasSuffix(p, "sync") || strings.HasSuffix(p, "sync/atomic") ||
		t.String() == "*dynamic.MessageFactory" || t.String() == "*dynamic.ExtensionRegistry" || t.String() == "*dynamic.KnownTypeRegistry"
}

func walkMem(v reflect.Value, path string, seen map[uintptr]string, depth int) {
	if !v.IsValid() || depth > 12 {
		return
	}
	if skipType(v.Type()) {
		return
	}
	switch v.Kind() {
	case reflect.Ptr:
		if v.IsNil() {
			return
		}
		if v.Elem().Kind() == reflect.Struct && v.Elem().NumField() > 0 && v.Elem().Type().Size() > 0 {
			if _, ok := seen[v.Pointer()]; ok {
				return
			}
			seen[v.Pointer()] = path + "*"
		}
		walkMem(v.Elem(), path+"*", seen, depth+1)
	case reflect.Interface:
		if !v.IsNil() {
			walkMem(v.Elem(), path, seen, depth+1)
		}
	case reflect.Struct:
		for i := 0; i < v.NumField(); i++ {
			walkMem(v.Field(i), path+"."+v.Type().Field(i).Name, seen, depth+1)
		}
	case reflect.Slice:
		if v.Len() > 0 || (!v.IsNil() && v.Cap() > 0) {
			if v.Cap() > 0 {
				seen[v.Pointer()] = path + "[]"
			}
			if v.Type().Elem().Kind() != reflect.Uint8 {
				for i := 0; i < v.Len(); i++ {
					walkMem(v.Index(i), path+"[i]", seen, depth+1)
				}
			}
		}
	case reflect.Map:
		if v.IsNil() {
			return
		}
		seen[v.Pointer()] = path + "{}"
		iter := v.MapRange()
		for iter.Next() {
			walkMem(iter.Value(), path+"{v}", seen, depth+1)
		}
	}
}
