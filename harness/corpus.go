//go:build verif

package main

// The corpus: scripts that once exposed a genuine defect, a false alarm, or a seeded change, kept under
// /verif/corpus/<engine>.txt (one script per line, '#' comments). They run first, through the same engines,
// oracles and model comparison as the generated scripts.

import (
	"bufio"
	"os"
	"path/filepath"
	"strconv"
	"strings"
)

func corpusDir() string {
	if d := os.Getenv("VERIF_CORPUS"); d != "" {
		return d
	}
	return "/verif/corpus"
}

// corpusLines returns the non-comment lines of corpus/<engine>.txt, each split into fields.
func corpusLines(engine string) [][]string {
	f, err := os.Open(filepath.Join(corpusDir(), engine+".txt"))
	if err != nil {
		return nil
	}
	defer f.Close()
	var out [][]string
	sc := bufio.NewScanner(f)
	sc.Buffer(make([]byte, 1<<20), 1<<20)
	for sc.Scan() {
		l := strings.TrimSpace(sc.Text())
		if l == "" || l[0] == '#' {
			continue
		}
		out = append(out, strings.Fields(l))
	}
	return out
}

// stripResults turns "cs.send:101=>cs:ok;cr.recv=>" (a replay's script) into the bare operations.
func stripResults(ops string) []string {
	var out []string
	for _, tok := range strings.Split(ops, ";") {
		if i := strings.Index(tok, "=>"); i >= 0 {
			tok = tok[:i]
		}
		tok = strings.TrimSpace(tok)
		if tok != "" {
			out = append(out, tok)
		}
	}
	return out
}

// parseISStep: "cs.send:101", "h.return:status:5", "cr.recv", "env.cancel"
func parseISStep(tok string) (isStep, bool) {
	dot := strings.Index(tok, ".")
	if dot < 0 {
		return isStep{}, false
	}
	st := isStep{actor: tok[:dot]}
	rest := tok[dot+1:]
	if i := strings.Index(rest, ":"); i >= 0 {
		st.op = rest[:i]
		arg := rest[i+1:]
		if st.op == "return" {
			st.herr = arg
		} else {
			st.arg, _ = strconv.Atoi(arg)
		}
	} else {
		st.op = rest
	}
	return st, true
}

type isCorpusEntry struct {
	kind, transport string
	steps           []isStep
}

// IS.txt: "<kind> <transport> <op;op;...>"
func isCorpus() []isCorpusEntry {
	var out []isCorpusEntry
	for _, f := range corpusLines("IS") {
		if len(f) != 3 {
			continue
		}
		e := isCorpusEntry{kind: f[0], transport: f[1]}
		ok := true
		for _, tok := range stripResults(f[2]) {
			// the drain steps a replay shows at its end are re-issued by the engine itself; keep them anyway (skipped when not enabled)
			st, good := parseISStep(tok)
			if !good {
				ok = false
				break
			}
			e.steps = append(e.steps, st)
		}
		if ok && len(e.steps) > 0 {
			out = append(out, e)
		}
	}
	return out
}
