package main

import (
	"context"
	"fmt"
	"strconv"
	"strings"

	"github.com/fullstorydev/grpchan/httpgrpc"
	"github.com/fullstorydev/grpchan/inprocgrpc"
	"google.golang.org/grpc"
	"google.golang.org/grpc/codes"
	"google.golang.org/grpc/metadata"
	"google.golang.org/grpc/status"
)

// ---------------------------------------------------------------------------
// scripted in-process streaming calls

type isStep struct {
	actor, op string
	arg       int
	herr      string
	evs       []string // "actor:result" completed by quiescence after this step
}

func (s isStep) String() string {
	a := s.actor + "." + s.op
	if s.op == "send" || s.op == "setheader" || s.op == "sendheader" || s.op == "settrailer" {
		a += ":" + strconv.Itoa(s.arg)
	}
	if s.op == "return" {
		a += ":" + s.herr
	}
	return a + "=>" + strings.Join(s.evs, ",")
}

type isScript struct {
	transport string
	kind      string
	steps     []isStep
	hung      bool
	bodyLen   int      // number of steps before the final drain
	stillBusy []string // actors still blocked after the final drain
	panics    []string
}

func (sc *isScript) line() string {
	var parts []string
	for _, s := range sc.steps {
		parts = append(parts, s.String())
	}
	return sprintf("IS kind=%s ops=%s", sc.kind, strings.Join(parts, ";"))
}

type isOpts struct {
	steps       int
	allowCancel bool
	noServerRecv bool // the handler never receives (backpressure scripts)
	noClientRecv bool
	sendHeavy   bool
	hSendHeavy  bool // the handler mostly sends (the client receives now and then, then stalls)
	halfDuplex  bool     // the handler sends only after the client has closed its send side
	transport   string   // "inproc" (default) or "http" (in-memory transport)
	fixed       []isStep // if set, run exactly these steps
}

func kindFlags(kind string) (cs, ss bool) {
	switch kind {
	case "sstream":
		return false, true
	case "cstream":
		return true, false
	case "bidi":
		return true, true
	case "unarystream": // a unary method driven through the stream API
		return false, false
	}
	return true, true
}

func runInprocScript(rng *Rng, kind string, o isOpts) *isScript {
	if o.transport == "" {
		o.transport = "inproc"
	}
	sc := &isScript{kind: kind, transport: o.transport}
	csFlag, ssFlag := kindFlags(kind)
	hl := newHandlerLoop()
	sd := &grpc.ServiceDesc{ServiceName: "s.S", HandlerType: (*synthHandler)(nil),
		Streams: []grpc.StreamDesc{{StreamName: "M", ClientStreams: csFlag, ServerStreams: ssFlag, Handler: func(srv interface{}, stream grpc.ServerStream) error { return hl.serve(stream) }}}}
	var ch grpc.ClientConnInterface
	if o.transport == "http" {
		hs := httpgrpc.NewServer()
		hs.RegisterService(sd, synthImpl{})
		ch = newHTTPMemGeneric(hs).ch
	} else {
		ich := &inprocgrpc.Channel{}
		ich.RegisterService(sd, synthImpl{})
		ch = ich
	}
	ectx := newEnvCtx(context.Background(), false)
	eng := newEngine("cs", "cr", "h")
	defer eng.close()
	var hdrOpt, tlrOpt metadata.MD
	cs, err := ch.NewStream(ectx, &grpc.StreamDesc{ClientStreams: csFlag, ServerStreams: ssFlag}, "/s.S/M", grpc.Header(&hdrOpt), grpc.Trailer(&tlrOpt))
	if err != nil {
		sc.panics = append(sc.panics, "NewStream: "+err.Error())
		return sc
	}
	eng.settle()
	nextMsg, nextMD := 1, 1
	returned, cancelled := false, false
	sendSideClosed := false

	exec := func(st isStep) isStep {
		noteStep(sc.transport+"/stream", sc.line(), st.actor+"."+st.op)
		switch st.actor {
		case "cs":
			switch st.op {
			case "send":
				id := st.arg
				st.evs = eng.do("cs", func() string { return resOf(cs.SendMsg(&Msg{Count: int32(id)})) })
			case "closesend":
				st.evs = eng.do("cs", func() string { return resOf(cs.CloseSend()) })
			case "sendbad":
				// a message the channel's cloner refuses (not a protobuf message): an error, and nothing else changes
				st.evs = eng.do("cs", func() string {
					if err := cs.SendMsg(&hsNotProto{A: 1}); err != nil {
						return "plain"
					}
					return "ok"
				})
			}
		case "cr":
			switch st.op {
			case "recv":
				st.evs = eng.do("cr", func() string {
					var m Msg
					if err := cs.RecvMsg(&m); err != nil {
						return resOf(err)
					}
					return "msg:" + strconv.Itoa(int(m.Count))
				})
			case "header":
				st.evs = eng.do("cr", func() string {
					md, err := cs.Header()
					if err != nil {
						return resOf(err)
					}
					return mdIDs(md, "h")
				})
			case "trailer":
				st.evs = eng.do("cr", func() string { return mdIDs(cs.Trailer(), "t") })
			}
		case "h":
			switch st.op {
			case "recv":
				st.evs = eng.do("h", func() string {
					return hl.command(func(ss grpc.ServerStream, ctx context.Context) (string, bool) {
						var m Msg
						if err := ss.RecvMsg(&m); err != nil {
							return resOf(err), false
						}
						return "msg:" + strconv.Itoa(int(m.Count)), false
					})
				})
			case "send":
				id := st.arg
				st.evs = eng.do("h", func() string {
					return hl.command(func(ss grpc.ServerStream, ctx context.Context) (string, bool) {
						return resOf(ss.SendMsg(&Msg{Count: int32(id)})), false
					})
				})
			case "setheader", "sendheader":
				id, send := st.arg, st.op == "sendheader"
				st.evs = eng.do("h", func() string {
					return hl.command(func(ss grpc.ServerStream, ctx context.Context) (string, bool) {
						md := metadata.Pairs("h", strconv.Itoa(id))
						// every other call goes the way application code usually does: through the context (grpc.SendHeader /
						// grpc.SetHeader reach the stream via the library's ServerTransportStream); grpc wraps a failure on that
						// route into a status of its own making, so only ok / failed is kept of it
						viaCtx := id%2 == 1
						norm := func(err error) string {
							if err != nil && viaCtx {
								// (grpc's toRPCErr: context errors become Canceled / DeadlineExceeded statuses, anything else Unknown)
								switch status.Code(err) {
								case codes.Canceled:
									return "ctxerr:canceled"
								case codes.DeadlineExceeded:
									return "ctxerr:deadline"
								}
								return "plain"
							}
							return resOf(err)
						}
						if send {
							if viaCtx {
								return norm(grpc.SendHeader(ctx, md)), false
							}
							return norm(ss.SendHeader(md)), false
						}
						if viaCtx {
							return norm(grpc.SetHeader(ctx, md)), false
						}
						return norm(ss.SetHeader(md)), false
					})
				})
			case "settrailer":
				id := st.arg
				st.evs = eng.do("h", func() string {
					return hl.command(func(ss grpc.ServerStream, ctx context.Context) (string, bool) {
						ss.SetTrailer(metadata.Pairs("t", strconv.Itoa(id)))
						return "ok", false
					})
				})
			case "return":
				hl.retErr = herrOf(st.herr)
				returned = true
				// the command itself completes at once; finish() then runs in the library goroutine
				a := eng.actors["h"]
				a.busy = true
				a.ops <- func() string {
					hl.cmds <- func(ss grpc.ServerStream, ctx context.Context) (string, bool) { return "returned", true }
					return <-hl.results
				}
				evs := eng.settle()
				for _, e := range evs {
					if e != "h:returned" {
						st.evs = append(st.evs, e)
					}
				}
			}
		case "env":
			cancelled = true
			if st.op == "cancel" {
				ectx.fire(context.Canceled)
			} else {
				ectx.fire(context.DeadlineExceeded)
			}
			st.evs = eng.settle()
		}
		for _, e := range st.evs {
			if strings.Contains(e, ":panic:") {
				sc.panics = append(sc.panics, e)
			}
		}
		return st
	}

	if o.fixed != nil {
		for _, st := range o.fixed {
			if st.actor != "env" && !eng.idle(st.actor) {
				continue
			}
			if st.actor == "h" && returned {
				continue
			}
			sc.steps = append(sc.steps, exec(st))
		}
	} else {
		for i := 0; i < o.steps; i++ {
			var cands []isStep
			if eng.idle("cs") {
				if csFlag || nextMsg <= 2 || rng.Chance(30) {
					cands = append(cands, isStep{actor: "cs", op: "send", arg: 100 + nextMsg})
					if o.sendHeavy {
						cands = append(cands, isStep{actor: "cs", op: "send", arg: 100 + nextMsg}, isStep{actor: "cs", op: "send", arg: 100 + nextMsg})
					}
				}
				cands = append(cands, isStep{actor: "cs", op: "closesend"})
				if o.transport == "inproc" && rng.Chance(12) {
					cands = append(cands, isStep{actor: "cs", op: "sendbad"})
				}
			}
			if eng.idle("cr") && !o.noClientRecv {
				cands = append(cands, isStep{actor: "cr", op: "recv"}, isStep{actor: "cr", op: "recv"}, isStep{actor: "cr", op: "header"}, isStep{actor: "cr", op: "trailer"})
			}
			if eng.idle("h") && !returned {
				if !o.noServerRecv {
					cands = append(cands, isStep{actor: "h", op: "recv"}, isStep{actor: "h", op: "recv"})
				}
				if !o.halfDuplex || sendSideClosed {
					cands = append(cands, isStep{actor: "h", op: "send", arg: 200 + nextMsg}, isStep{actor: "h", op: "send", arg: 200 + nextMsg},
						isStep{actor: "h", op: "sendheader", arg: nextMD})
					if o.hSendHeavy {
						for k := 0; k < 6; k++ {
							cands = append(cands, isStep{actor: "h", op: "send", arg: 200 + nextMsg})
						}
					}
					herrs := []string{"nil", "nil", "status:5", "status:13", "plain", "ctx:canceled", "ctx:deadline"}
					cands = append(cands, isStep{actor: "h", op: "return", herr: herrs[rng.Intn(len(herrs))]})
				}
				cands = append(cands, isStep{actor: "h", op: "setheader", arg: nextMD}, isStep{actor: "h", op: "settrailer", arg: nextMD})
			}
			if o.allowCancel && !cancelled && rng.Chance(12) {
				cands = append(cands, isStep{actor: "env", op: []string{"cancel", "expire"}[rng.Intn(2)]})
			}
			if len(cands) == 0 {
				break
			}
			st := cands[rng.Intn(len(cands))]
			if st.op == "closesend" {
				sendSideClosed = true
			}
			if st.op == "send" {
				nextMsg++
			}
			if strings.HasSuffix(st.op, "header") || st.op == "settrailer" {
				nextMD++
			}
			sc.steps = append(sc.steps, exec(st))
		}
	}
	sc.bodyLen = len(sc.steps)
	// drain: make the handler return and end the context; afterwards nothing may remain blocked
	if !returned && eng.idle("h") {
		sc.steps = append(sc.steps, exec(isStep{actor: "h", op: "return", herr: "nil"}))
	}
	if !cancelled {
		sc.steps = append(sc.steps, exec(isStep{actor: "env", op: "cancel"}))
	}
	if !returned {
		// the handler op was blocked until the cancel; let it return now
		if eng.idle("h") {
			sc.steps = append(sc.steps, exec(isStep{actor: "h", op: "return", herr: "nil"}))
		}
	}
	for _, n := range eng.order {
		if !eng.idle(n) {
			sc.stillBusy = append(sc.stillBusy, n)
		}
	}
	sc.hung = eng.hung
	_ = hdrOpt
	_ = tlrOpt
	return sc
}

func (sc *isScript) desc() map[string]interface{} {
	var parts []string
	for _, s := range sc.steps {
		parts = append(parts, s.String())
	}
	return map[string]interface{}{"transport": sc.transport, "kind": sc.kind, "script": strings.Join(parts, " ; ")}
}

// evRes finds the result an actor got in a step's events.
func evRes(evs []string, actor string) (string, bool) {
	for _, e := range evs {
		if strings.HasPrefix(e, actor+":") {
			return e[len(actor)+1:], true
		}
	}
	return "", false
}

var _ = fmt.Sprint
