package main

import (
	"bufio"
	"crypto/sha256"
	"encoding/hex"
	"encoding/json"
	"fmt"
	"os"
	"path/filepath"
	"sort"
	"strings"
)

// ---------------------------------------------------------------------------
// PRNG: every random choice derives from one splitmix64 stream (VERIF_SEED)

type Rng struct{ s uint64 }

func NewRng(seed uint64) *Rng { return &Rng{s: seed*0x9E3779B97F4A7C15 + 0x1234567} }

func (r *Rng) U64() uint64 {
	r.s += 0x9E3779B97F4A7C15
	z := r.s
	z = (z ^ (z >> 30)) * 0xBF58476D1CE4E5B9
	z = (z ^ (z >> 27)) * 0x94D049BB133111EB
	return z ^ (z >> 31)
}
func (r *Rng) Intn(n int) int {
	if n <= 0 {
		return 0
	}
	return int(r.U64() % uint64(n))
}
func (r *Rng) Bool() bool       { return r.U64()&1 == 1 }
func (r *Rng) Chance(p int) bool { return r.Intn(100) < p }
func (r *Rng) Bytes(n int) []byte {
	b := make([]byte, n)
	for i := range b {
		b[i] = byte(r.U64())
	}
	return b
}
func (r *Rng) Pick(xs []string) string { return xs[r.Intn(len(xs))] }

// Fork derives an independent stream (so that adding draws in one suite does
// not shift another's).
func (r *Rng) Fork(label string) *Rng {
	h := sha256.Sum256([]byte(label))
	var x uint64
	for i := 0; i < 8; i++ {
		x = x<<8 | uint64(h[i])
	}
	return NewRng(r.s ^ x)
}

// ---------------------------------------------------------------------------
// Run: collects model ops, implementation answers, oracle verdicts, statistics

type Violation struct {
	Signature string      `json:"signature"` // stable class used to match known findings
	What      string      `json:"what"`
	Clause    string      `json:"oracle_clause"`
	Case      interface{} `json:"case"`
	Impl      string      `json:"impl_observation"`
}

type Run struct {
	Prop   string
	Tier   string
	Seed   uint64
	OutDir string
	Rng    *Rng

	ops, impl *bufio.Writer
	opsF      *os.File
	implF     *os.File
	lines     int

	Evaluations   int
	nontrivial    map[string]struct{}
	Samples       []interface{}
	Dist          map[string]int
	Violations    []Violation
	Rule          string
	Notes         []string
	Assumptions   []string
	UnitLayer     bool
	Exhaustive    bool
	TracesOnImpl  int
	maxSamples    int
	ReplayOnly    bool
	sampleEveryN  int
	firstOps      []interface{}
	probe         bool // a scratch run used while shrinking a failing script: records violations only
}

func NewRun(prop, tier string, seed uint64, outDir string) *Run {
	_ = os.MkdirAll(outDir, 0o755)
	r := &Run{Prop: prop, Tier: tier, Seed: seed, OutDir: outDir, Rng: NewRng(seed).Fork(prop),
		nontrivial: map[string]struct{}{}, Dist: map[string]int{}, maxSamples: 6, UnitLayer: true}
	activeRun = r
	var err error
	r.opsF, err = os.Create(filepath.Join(outDir, "ops.txt"))
	if err != nil {
		panic(err)
	}
	r.implF, err = os.Create(filepath.Join(outDir, "impl.txt"))
	if err != nil {
		panic(err)
	}
	r.ops = bufio.NewWriterSize(r.opsF, 1<<20)
	r.impl = bufio.NewWriterSize(r.implF, 1<<20)
	return r
}

func (r *Run) Thorough() bool { return r.Tier == "thorough" }

// Budget scales a quick-tier count for the thorough tier.
func (r *Run) Budget(quick, thorough int) int {
	if r.Thorough() {
		return thorough
	}
	return quick
}

// activeRun is the run in progress (one per process): the script engines note each step through it.
var activeRun *Run

// noteStep records the script executed so far and the step about to run (see Begin).
func noteStep(engine, soFar, next string) {
	if activeRun != nil {
		activeRun.Begin(engine+"/process-crash", "no interleaving makes the library panic or deadlock", map[string]interface{}{"script_so_far": soFar, "next_step": next})
	}
}

// Begin notes the case about to be driven, so that a crash of the whole process in a goroutine of the code under
// test (which no recover can catch) can still be reported together with the input that provoked it.
func (r *Run) Begin(sig, clause string, c interface{}) {
	if r.probe {
		return
	}
	b, err := json.Marshal(map[string]interface{}{"signature": sig, "oracle_clause": clause, "case": c})
	if err == nil {
		_ = os.WriteFile(filepath.Join(r.OutDir, "current.json"), b, 0o644)
	}
}

// Op records one model operation line together with the implementation's
// canonical answer. The Lean driver must print exactly `answer` for `op`.
func (r *Run) Op(op, answer string) {
	if r.probe {
		return
	}
	if strings.ContainsAny(op, "\n\r") || strings.ContainsAny(answer, "\n\r") {
		panic("newline in protocol line: " + op + " / " + answer)
	}
	if len(r.firstOps) < 3 {
		r.firstOps = append(r.firstOps, map[string]string{"op": op, "impl": answer})
	}
	r.ops.WriteString(op)
	r.ops.WriteByte('\n')
	r.impl.WriteString(answer)
	r.impl.WriteByte('\n')
	r.lines++
}

// Eval counts one executed case; key identifies it canonically; nontrivial
// says whether it satisfies the property's non-triviality rule.
func (r *Run) Eval(key string, nontrivial bool) {
	if r.probe {
		return
	}
	r.Evaluations++
	if nontrivial {
		h := sha256.Sum256([]byte(key))
		r.nontrivial[hex.EncodeToString(h[:8])] = struct{}{}
	}
}

func (r *Run) Sample(s interface{}) {
	if len(r.Samples) < r.maxSamples {
		r.Samples = append(r.Samples, s)
	}
}

func (r *Run) Count(k string) { r.Dist[k]++ }

func (r *Run) Violate(sig, clause, what string, c interface{}, impl string) {
	// keep one representative per signature+what (bounded), count the rest
	r.Dist["violation:"+sig]++
	for _, v := range r.Violations {
		if v.Signature == sig {
			return
		}
	}
	r.Violations = append(r.Violations, Violation{Signature: sig, What: what, Clause: clause, Case: c, Impl: impl})
}

func (r *Run) Finish() {
	r.ops.Flush()
	r.impl.Flush()
	r.opsF.Close()
	r.implF.Close()
	if len(r.Samples) == 0 {
		r.Samples = append([]interface{}{}, r.firstOps...)
	}
	keys := make([]string, 0, len(r.Dist))
	for k := range r.Dist {
		keys = append(keys, k)
	}
	sort.Strings(keys)
	res := map[string]interface{}{
		"property":                      r.Prop,
		"tier":                          r.Tier,
		"seed":                          r.Seed,
		"evaluations":                   r.Evaluations,
		"distinct_nontrivial":           len(r.nontrivial),
		"rule":                          r.Rule,
		"samples":                       r.Samples,
		"distribution":                  r.Dist,
		"violations":                    r.Violations,
		"notes":                         r.Notes,
		"assumptions":                   r.Assumptions,
		"unit_layer":                    r.UnitLayer,
		"exhaustive":                    r.Exhaustive,
		"model_lines":                   r.lines,
		"traces_validated_against_impl": r.TracesOnImpl,
	}
	if r.Violations == nil {
		res["violations"] = []Violation{}
	}
	b, _ := json.MarshalIndent(res, "", " ")
	if err := os.WriteFile(filepath.Join(r.OutDir, "result.json"), b, 0o644); err != nil {
		panic(err)
	}
}

func hexOrDash(b []byte) string {
	if len(b) == 0 {
		return "-"
	}
	return hex.EncodeToString(b)
}

func sprintf(f string, a ...interface{}) string { return fmt.Sprintf(f, a...) }


// newProbe: a scratch run that only collects violations (used to shrink a failing script).
func newProbe(r *Run) *Run {
	return &Run{Prop: r.Prop, Tier: r.Tier, Seed: r.Seed, OutDir: r.OutDir, Rng: r.Rng.Fork("probe"),
		nontrivial: map[string]struct{}{}, Dist: map[string]int{}, probe: true}
}

// shrinkOps removes operations one at a time as long as `fails` still holds; greedy, to a fixed point.
func shrinkOps(ops []string, fails func([]string) bool) []string {
	cur := append([]string{}, ops...)
	for changed, rounds := true, 0; changed && rounds < 6; rounds++ {
		changed = false
		for i := 0; i < len(cur); i++ {
			cand := append(append([]string{}, cur[:i]...), cur[i+1:]...)
			if fails(cand) {
				cur, changed = cand, true
				i--
			}
		}
	}
	return cur
}

// attachMinimal records the shrunk form of a failing script on the violation it belongs to.
func (r *Run) attachMinimal(sig string, minimal interface{}) {
	for i := range r.Violations {
		if r.Violations[i].Signature == sig {
			if m, ok := r.Violations[i].Case.(map[string]interface{}); ok {
				m["minimal"] = minimal
			}
		}
	}
}

func hasSig(vs []Violation, sig string) bool {
	for _, v := range vs {
		if v.Signature == sig {
			return true
		}
	}
	return false
}
