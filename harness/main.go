// Command harness drives the real grpchan code (built from /repo's working
// tree with -tags verif) on generated and corpus cases, writes the model
// operation lines (ops.txt) with the implementation's canonical answers
// (impl.txt) for the Lean driver to reproduce, evaluates each property's
// oracle directly on the implementation's observations, and reports
// statistics (result.json).
package main

import (
	"flag"
	"fmt"
	"os"
	"runtime/debug"
)

type suite func(r *Run)

var suites = map[string]suite{}

func main() {
	prop := flag.String("prop", "", "property id (C01…C20)")
	tier := flag.String("tier", "quick", "quick|thorough")
	seed := flag.Uint64("seed", 1, "PRNG seed")
	out := flag.String("out", "", "output directory")
	flag.Parse()
	s, ok := suites[*prop]
	if !ok || *out == "" {
		fmt.Fprintf(os.Stderr, "usage: harness -prop Cxx -out DIR [-tier quick|thorough] [-seed N]\nknown: %v\n", keys())
		os.Exit(2)
	}
	debug.SetGCPercent(200)
	r := NewRun(*prop, *tier, *seed, *out)
	s(r)
	r.Finish()
}

func keys() []string {
	var ks []string
	for k := range suites {
		ks = append(ks, k)
	}
	return ks
}
