package main

import (
	"bytes"
	"net/http"
	"net/http/httptest"
	"strconv"
	"net/url"
	"unicode/utf8"
	"context"
	"fmt"
	"io"
	"strings"
	"sync"

	"github.com/fullstorydev/grpchan/grpchantesting"
	"github.com/fullstorydev/grpchan/httpgrpc"
	spb "google.golang.org/genproto/googleapis/rpc/status"
	"google.golang.org/grpc"
	"google.golang.org/grpc/codes"
	"google.golang.org/grpc/status"
	"google.golang.org/protobuf/proto"
	"google.golang.org/protobuf/types/known/anypb"
	"google.golang.org/protobuf/types/known/durationpb"
)

// extraChecks: property-specific end-to-end parts that are not script based.
func extraChecks(r *Run, prop string) {
	switch prop {
	case "C01":
		extraC01(r)
	case "C02":
		extraC02(r)
	case "C03":
		extraC03(r)
	case "C04":
		extraC04(r)
	case "C05":
		closeSendRacesBlockedSend(r)
	}
}

type transportUnderTest struct {
	name string
	mk   func(svr *scriptServer) (grpc.ClientConnInterface, func())
}

func bothTransports() []transportUnderTest {
	return []transportUnderTest{
		{"inproc", func(svr *scriptServer) (grpc.ClientConnInterface, func()) { return newInproc(svr), func() {} }},
		{"http", func(svr *scriptServer) (grpc.ClientConnInterface, func()) { return newHTTPMem(svr).ch, func() {} }},
	}
}

func refTransport() transportUnderTest {
	return transportUnderTest{"grpc-bufconn", func(svr *scriptServer) (grpc.ClientConnInterface, func()) {
		bb := newBufconn(svr)
		return bb.cc, bb.stop
	}}
}

// ---------------------------------------------------------------------------
// C01: concurrent calls on one channel never see each other's messages; contents intact

func echoServer() *scriptServer {
	svr := &scriptServer{}
	svr.unary = func(ctx context.Context, req *Msg) (*Msg, error) { return proto.Clone(req).(*Msg), nil }
	svr.bidi = func(s grpchantesting.TestService_BidiStreamServer) error {
		var all []*Msg
		for {
			m, err := s.Recv()
			if err == io.EOF {
				break
			}
			if err != nil {
				return err
			}
			all = append(all, m)
		}
		for _, m := range all {
			if err := s.Send(m); err != nil {
				return err
			}
		}
		return nil
	}
	svr.cstream = func(s grpchantesting.TestService_ClientStreamServer) error {
		var last *Msg
		n := int32(0)
		for {
			m, err := s.Recv()
			if err == io.EOF {
				break
			}
			if err != nil {
				return err
			}
			last = m
			n++
		}
		if last == nil {
			last = &Msg{}
		}
		out := proto.Clone(last).(*Msg)
		out.Count = n
		return s.SendAndClose(out)
	}
	svr.sstream = func(req *Msg, s grpchantesting.TestService_ServerStreamServer) error {
		for i := int32(0); i < req.Count; i++ {
			m := proto.Clone(req).(*Msg)
			m.Count = i
			if err := s.Send(m); err != nil {
				return err
			}
		}
		return nil
	}
	return svr
}

func richMsg(rng *Rng, size int) *Msg {
	m := populateMsg(rng)
	if size > 0 {
		m.Payload = rng.Bytes(size)
	}
	return m
}

// repliesUnrelatedToRequests (C01): the response the caller obtains is the message the handler sent — also when that
// message is empty (zero-length encoding) and the request was not, or the other way round.
func repliesUnrelatedToRequests(r *Run, rng *Rng) {
	tps := append(bothTransports(), transportUnderTest{"httpnet", func(svr *scriptServer) (grpc.ClientConnInterface, func()) {
		// a real net/http server and transport: an empty reply really carries "Content-Length: 0"
		hs := httpgrpc.NewServer()
		grpchantesting.RegisterTestServiceServer(hs, svr)
		ts := httptest.NewServer(hs)
		u, _ := url.Parse(ts.URL)
		return &httpgrpc.Channel{Transport: ts.Client().Transport, BaseURL: u}, ts.Close
	}})
	for _, tp := range tps {
		var reply *Msg
		svr := &scriptServer{}
		svr.unary = func(ctx context.Context, req *Msg) (*Msg, error) { return proto.Clone(reply).(*Msg), nil }
		svr.sstream = func(req *Msg, s grpchantesting.TestService_ServerStreamServer) error {
			for i := 0; i < 3; i++ {
				if err := s.Send(proto.Clone(reply).(*Msg)); err != nil {
					return err
				}
			}
			return nil
		}
		ch, stop := tp.mk(svr)
		cli := grpchantesting.NewTestServiceClient(ch)
		for i := 0; i < r.Budget(12, 200); i++ {
			req := richMsg(rng, 1+rng.Intn(64))
			reply = &Msg{}
			if i%3 == 2 {
				reply = richMsg(rng, rng.Intn(32))
				req = &Msg{}
			}
			want := marshalDet(reply)
			c := map[string]interface{}{"transport": tp.name, "request_bytes": len(marshalDet(req)), "reply_bytes": len(want)}
			out, err := cli.Unary(context.Background(), req)
			r.Eval(fmt.Sprint("unrelated-reply", tp.name, i), true)
			r.Count("unrelated-reply:" + tp.name)
			if err != nil || string(marshalDet(out)) != string(want) {
				got := "error " + fmt.Sprint(err)
				if err == nil {
					got = sprintf("%d bytes %x", len(marshalDet(out)), trunc(string(marshalDet(out)), 24))
				}
				r.Violate(tp.name+"/content/unary-response-not-what-handler-sent", "each message a receiver obtains is equal to the message sent", sprintf("unary: request of %d bytes, the handler replied with a message of %d bytes; the caller obtained %s", len(marshalDet(req)), len(want), got), c, got)
			}
			st, err := cli.ServerStream(context.Background(), req)
			n := 0
			for err == nil {
				var m *Msg
				m, err = st.Recv()
				if err == nil {
					if string(marshalDet(m)) != string(want) {
						r.Violate(tp.name+"/content/stream-response-not-what-handler-sent", "each message a receiver obtains is equal to the message sent", sprintf("server stream: response %d differs from the %d-byte message the handler sent", n, len(want)), c, "")
						break
					}
					n++
				}
			}
			if n != 3 {
				r.Violate(tp.name+"/content/stream-response-count", "the sequence received equals the sequence sent", sprintf("server stream: %d of 3 responses (%d bytes each) received, then %v", n, len(want), err), c, fmt.Sprint(err))
			}
		}
		stop()
	}
}

func extraC01(r *Run) {
	rng := r.Rng.Fork("extraC01")
	repliesUnrelatedToRequests(r, r.Rng.Fork("unrelated-replies"))
	for _, tp := range bothTransports() {
		ch, stop := tp.mk(echoServer())
		cli := grpchantesting.NewTestServiceClient(ch)
		// message contents: every field kind, empty message, zero-length encodings, large payloads
		sizes := []int{0, 1, 100, 4096, 65536}
		if r.Thorough() {
			sizes = append(sizes, 1<<20, 8<<20)
		}
		for i := 0; i < r.Budget(20, 200); i++ {
			var in *Msg
			switch i % 4 {
			case 0:
				in = &Msg{} // zero-length encoding
			default:
				in = richMsg(rng, sizes[rng.Intn(len(sizes))])
			}
			out, err := cli.Unary(context.Background(), in)
			r.Eval(fmt.Sprint("content-unary", tp.name, i), true)
			r.Count("content:" + tp.name)
			c := map[string]interface{}{"transport": tp.name, "op": "unary-echo", "size": proto.Size(in)}
			if err != nil || !proto.Equal(in, out) {
				r.Violate(tp.name+"/content/unary-altered", "each equal to the message sent", sprintf("echo of a %d-byte message: err=%v equal=%v", proto.Size(in), err, err == nil && proto.Equal(in, out)), c, "")
			}
			// a stream of k messages
			k := rng.Intn(5)
			var sent []*Msg
			bs, err := cli.BidiStream(context.Background())
			if err != nil {
				r.Violate(tp.name+"/content/stream-failed", "messages are delivered", err.Error(), c, "")
				continue
			}
			for j := 0; j < k; j++ {
				m := richMsg(rng, sizes[rng.Intn(3)])
				sent = append(sent, m)
				if err := bs.Send(m); err != nil {
					r.Violate(tp.name+"/content/stream-failed", "messages are delivered", err.Error(), c, "")
				}
			}
			bs.CloseSend()
			var got []*Msg
			for {
				m, err := bs.Recv()
				if err == io.EOF {
					break
				}
				if err != nil {
					r.Violate(tp.name+"/content/stream-failed", "messages are delivered", err.Error(), c, "")
					break
				}
				got = append(got, m)
			}
			okAll := len(got) == len(sent)
			for j := 0; okAll && j < len(got); j++ {
				okAll = proto.Equal(got[j], sent[j])
			}
			if !okAll {
				r.Violate(tp.name+"/content/stream-altered", "each equal to the message sent, in order; equal sequences on success", sprintf("sent %d, got %d (equal=%v)", len(sent), len(got), okAll), c, "")
			}
		}
		// a receiver that re-uses ONE message value for every RecvMsg must still see each message as sent:
		// in particular an empty (zero-length) message after a non-empty one
		for i := 0; i < r.Budget(6, 60); i++ {
			var seq []*Msg
			for j := 0; j < 2+rng.Intn(4); j++ {
				if rng.Chance(45) {
					seq = append(seq, &Msg{})
				} else {
					seq = append(seq, richMsg(rng, rng.Intn(64)))
				}
			}
			var handlerSaw []*Msg
			var hmu sync.Mutex
			reuseSource := i%2 == 1 // the senders overwrite one message value between sends (a send must have taken its own copy)
			svrR := &scriptServer{}
			svrR.bidi = func(s grpchantesting.TestService_BidiStreamServer) error {
				var m Msg // re-used for every receive
				for {
					if err := s.RecvMsg(&m); err != nil {
						break
					}
					hmu.Lock()
					handlerSaw = append(handlerSaw, proto.Clone(&m).(*Msg))
					hmu.Unlock()
				}
				var out Msg // every second run: one value re-used (overwritten) for every send
				for _, x := range seq {
					snd := x
					if reuseSource {
						out.Reset()
						proto.Merge(&out, x)
						snd = &out
					}
					if err := s.Send(snd); err != nil {
						return err
					}
				}
				return nil
			}
			chR, stopR := tp.mk(svrR)
			cs, err := chR.NewStream(context.Background(), descBidi, mBidi)
			c := map[string]interface{}{"transport": tp.name, "op": "reused-destination", "messages": len(seq), "senders_reuse_one_value": reuseSource}
			if err != nil {
				r.Violate(tp.name+"/content/stream-failed", "messages are delivered", err.Error(), c, "")
				stopR()
				continue
			}
			var outC Msg
			for _, x := range seq {
				if reuseSource {
					outC.Reset()
					proto.Merge(&outC, x)
					cs.SendMsg(&outC)
				} else {
					cs.SendMsg(x)
				}
			}
			cs.CloseSend()
			var clientSaw []*Msg
			var m Msg // re-used for every receive
			for {
				if err := cs.RecvMsg(&m); err != nil {
					break
				}
				clientSaw = append(clientSaw, proto.Clone(&m).(*Msg))
			}
			stopR()
			r.Eval(fmt.Sprint("reuse", tp.name, i), true)
			r.Count("reused-destination:" + tp.name)
			same := func(got []*Msg) (bool, int) {
				if len(got) != len(seq) {
					return false, -1
				}
				for j := range got {
					if !proto.Equal(got[j], seq[j]) {
						return false, j
					}
				}
				return true, 0
			}
			hmu.Lock()
			if ok, at := same(handlerSaw); !ok {
				r.Violate(tp.name+"/content/request-altered-reused-destination", "each message a receiver obtains is equal to the message sent (a receive overwrites its destination)", sprintf("handler re-using one message value: %d sent, %d received, first difference at %d", len(seq), len(handlerSaw), at), c, "")
			}
			hmu.Unlock()
			if ok, at := same(clientSaw); !ok {
				r.Violate(tp.name+"/content/response-altered-reused-destination", "each message a receiver obtains is equal to the message sent (a receive overwrites its destination)", sprintf("client re-using one message value: %d sent, %d received, first difference at %d", len(seq), len(clientSaw), at), c, "")
			}
		}
		// large messages sent back to back: each must arrive intact although the next one is already being read
		for i := 0; i < r.Budget(3, 12); i++ {
			sizes := []int{80 << 10, 70 << 10, 66 << 10, 1 << 10, 64 << 10, 65 << 10}
			var seq []*Msg
			for j, n := range sizes {
				p := make([]byte, n)
				for k := range p {
					p[k] = byte(j*31 + k%251 + i)
				}
				seq = append(seq, &Msg{Count: int32(j + 1), Payload: p})
			}
			svrL := &scriptServer{}
			svrL.sstream = func(req *Msg, s grpchantesting.TestService_ServerStreamServer) error {
				for _, x := range seq {
					if err := s.Send(x); err != nil {
						return err
					}
				}
				return nil
			}
			chL, stopL := tp.mk(svrL)
			cs, err := chL.NewStream(context.Background(), descSStream, mSStream)
			c := map[string]interface{}{"transport": tp.name, "op": "large-back-to-back", "sizes": fmt.Sprint(sizes)}
			if err != nil {
				r.Violate(tp.name+"/content/stream-failed", "messages are delivered", err.Error(), c, "")
				stopL()
				continue
			}
			cs.SendMsg(&Msg{})
			cs.CloseSend()
			bad := -1
			n := 0
			for {
				var m Msg
				if err := cs.RecvMsg(&m); err != nil {
					break
				}
				if n < len(seq) && bad < 0 && !proto.Equal(&m, seq[n]) {
					bad = n
				}
				n++
			}
			stopL()
			r.Eval(fmt.Sprint("large", tp.name, i), true)
			r.Count("large-back-to-back:" + tp.name)
			if bad >= 0 || n != len(seq) {
				r.Violate(tp.name+"/content/large-stream-altered", "each message a receiver obtains is equal to the message sent, in order", sprintf("%d large messages sent back to back, %d received, first altered message: #%d", len(seq), n, bad), c, "")
			}
		}
		// isolation: concurrent calls on one channel, every message tagged with its call
		nCalls := r.Budget(8, 32)
		var wg sync.WaitGroup
		var mu sync.Mutex
		var foreign []string
		for cID := 0; cID < nCalls; cID++ {
			wg.Add(1)
			go func(cID int) {
				defer wg.Done()
				tag := []byte(fmt.Sprintf("call-%d", cID))
				bs, err := cli.BidiStream(context.Background())
				if err != nil {
					return
				}
				for j := 0; j < 5; j++ {
					bs.Send(&Msg{Payload: tag, Count: int32(j)})
				}
				bs.CloseSend()
				j := int32(0)
				for {
					m, err := bs.Recv()
					if err != nil {
						break
					}
					if string(m.Payload) != string(tag) || m.Count != j {
						mu.Lock()
						foreign = append(foreign, fmt.Sprintf("call %d got %q #%d", cID, m.Payload, m.Count))
						mu.Unlock()
					}
					j++
				}
				if j != 5 {
					mu.Lock()
					foreign = append(foreign, fmt.Sprintf("call %d got %d of 5 messages", cID, j))
					mu.Unlock()
				}
				out, err := cli.Unary(context.Background(), &Msg{Payload: tag})
				if err != nil || string(out.Payload) != string(tag) {
					mu.Lock()
					foreign = append(foreign, fmt.Sprintf("call %d unary got %v %v", cID, out, err))
					mu.Unlock()
				}
			}(cID)
		}
		wg.Wait()
		// …and a burst of overlapping unary calls to ONE method, each worker with its own large payload (anything the
		// server or channel keeps per method rather than per call shows up as another caller's bytes)
		workers, perWorker := 8, r.Budget(60, 400)
		start := make(chan struct{})
		for w := 0; w < workers; w++ {
			wg.Add(1)
			go func(w int) {
				defer wg.Done()
				payload := bytes.Repeat([]byte{byte('a' + w)}, 8<<10+w*1024)
				<-start
				for k := 0; k < perWorker; k++ {
					out, err := cli.Unary(context.Background(), &Msg{Payload: payload, Count: int32(w*10000 + k)})
					if err != nil || !bytes.Equal(out.Payload, payload) || out.Count != int32(w*10000+k) {
						mu.Lock()
						if len(foreign) < 20 {
							got := "error " + fmt.Sprint(err)
							if err == nil {
								got = sprintf("%d bytes starting %q, count %d", len(out.Payload), trunc(string(out.Payload), 4), out.Count)
							}
							foreign = append(foreign, sprintf("unary burst: worker %d call %d (payload %d x %q) got %s", w, k, len(payload), string(payload[:1]), got))
						}
						mu.Unlock()
					}
				}
			}(w)
		}
		close(start)
		wg.Wait()
		r.Eval(fmt.Sprint("isolation", tp.name, nCalls), true)
		r.Count("isolation:" + tp.name)
		if len(foreign) > 0 {
			r.Violate(tp.name+"/isolation/cross-talk", "concurrent RPCs on one channel never observe each other's messages", strings.Join(foreign[:1], "; "), map[string]interface{}{"transport": tp.name, "concurrent_calls": nCalls}, fmt.Sprint(foreign))
		}
		stop()
	}
}

// ---------------------------------------------------------------------------
// C02: rich statuses (codes x messages x details), before / between / after messages

func statusStrings() []string {
	return []string{"", "error", "a:b", "100% wrong", "%41", "héllo wörld ☃", "line1\nline2", "cr\rlf", " padded ", "tab\there", "bad\xffutf8", "\x00nul"}
}

func sameStatus(a, b *status.Status) (bool, string) {
	if a.Code() != b.Code() {
		return false, fmt.Sprintf("code %v vs %v", a.Code(), b.Code())
	}
	// compared modulo the replacement-character sanitising the standard transport itself applies:
	// every maximal run of invalid bytes / U+FFFD counts as one U+FFFD on both sides
	if sanitised(a.Message()) != sanitised(b.Message()) {
		return false, fmt.Sprintf("message %q vs %q", a.Message(), b.Message())
	}
	ad, bd := a.Proto().GetDetails(), b.Proto().GetDetails()
	if len(ad) != len(bd) {
		return false, fmt.Sprintf("%d details vs %d", len(ad), len(bd))
	}
	for i := range ad {
		if !proto.Equal(ad[i], bd[i]) {
			return false, fmt.Sprintf("detail %d differs", i)
		}
	}
	return true, ""
}

func sanitised(s string) string {
	var b strings.Builder
	prevRepl := false
	for len(s) > 0 {
		r, n := utf8.DecodeRuneInString(s)
		if r == utf8.RuneError {
			if !prevRepl {
				b.WriteRune(utf8.RuneError)
			}
			prevRepl = true
		} else {
			b.WriteString(s[:n])
			prevRepl = false
		}
		s = s[n:]
	}
	return b.String()
}

func classifyMsg(s string) string {
	switch {
	case strings.ContainsAny(s, "\r\n"):
		return "crlf"
	case !validUTF8(s):
		return "invalid-utf8"
	case s != strings.TrimSpace(s):
		return "edge-whitespace"
	case strings.ContainsAny(s, "\x00\t"):
		return "control-char"
	}
	return "plain"
}

func validUTF8(s string) bool {
	for _, r := range s {
		if r == '�' {
			return false
		}
	}
	return true
}

// detailsCodec: the X-GRPC-Details headers of a unary error reply, written by the real handleMethod and read back by
// the real statFromResponse, against the model's unpadded base64 (C02_details_b64_roundtrip).
func detailsCodec(r *Run) {
	rng := r.Rng.Fork("detailsCodec")
	for i := 0; i < r.Budget(120, 3000); i++ {
		val := rng.Bytes(rng.Intn(10))
		if rng.Chance(20) {
			val = append(val, 0x00, 0x0a, 0xff)
		}
		det := &anypb.Any{TypeUrl: "t.test/x" + strconv.Itoa(rng.Intn(3)), Value: val}
		raw, _ := proto.MarshalOptions{Deterministic: true}.Marshal(det)
		svr := &scriptServer{unary: func(ctx context.Context, req *Msg) (*Msg, error) {
			return nil, status.FromProto(&spb.Status{Code: 9, Message: "m", Details: []*anypb.Any{det}}).Err()
		}}
		hs := httpgrpc.NewServer()
		grpchantesting.RegisterTestServiceServer(hs, svr)
		body, _ := proto.Marshal(&Msg{})
		req := httptest.NewRequest("POST", "http://d.test"+mUnary, bytes.NewReader(body))
		req.Header.Set("Content-Type", httpgrpc.UnaryRpcContentType_V1)
		rec := httptest.NewRecorder()
		hs.ServeHTTP(rec, req)
		hv := rec.Header().Values("X-Grpc-Details")
		c := map[string]interface{}{"op": "details-codec", "detail_hex": hexOrDash(raw)}
		enc := ""
		if len(hv) == 1 {
			enc = hv[0]
		}
		r.Op(sprintf("C03 b64rawenc %s", hexOrDash(raw)), hexOrDash([]byte(enc)))
		st := httpgrpc.VerifStatFromResponse(&http.Response{StatusCode: rec.Code, Status: "x", Header: rec.Header()})
		ans := "error"
		if st != nil && len(st.Proto().Details) == 1 {
			back, _ := proto.MarshalOptions{Deterministic: true}.Marshal(st.Proto().Details[0])
			ans = hexOrDash(back)
		}
		r.Op(sprintf("C03 b64rawdec %s", hexOrDash([]byte(enc))), ans)
		r.Eval(sprintf("details %x", raw), len(raw)%3 != 0)
		r.Count("unit:details-b64")
		if ans != hexOrDash(raw) {
			r.Violate("http/status/unary/detail-not-byte-exact", "0..n error details of any message type … equals the status the server handler returned", sprintf("detail %x came back as %s (header %q)", raw, ans, enc), c, ans)
		}
	}
}

func extraC02(r *Run) {
	detailsCodec(r)
	rng := r.Rng.Fork("extraC02")
	msgs := statusStrings()
	codeSet := []codes.Code{1, 2, 3, 4, 5, 6, 7, 8, 9, 10, 11, 12, 13, 14, 15, 16, 17, 99, 1 << 20, 1 << 31, 1<<32 - 1, 1<<32 - 2}
	mkStatus := func() *status.Status {
		p := &spb.Status{Code: int32(codeSet[rng.Intn(len(codeSet))]), Message: msgs[rng.Intn(len(msgs))]}
		for i := 0; i < rng.Intn(3); i++ {
			var d proto.Message = &httpgrpc.HttpTrailer{Code: int32(i), Message: "detail"}
			if rng.Bool() {
				d = durationpb.New(1234)
			}
			a, _ := anypb.New(d)
			p.Details = append(p.Details, a)
		}
		return status.FromProto(p)
	}
	// every way the response can be cut short: record the byte stream of a streaming reply, then replay
	// every proper prefix of it (clean end and abrupt end) — the client must never report success
	for i := 0; i < r.Budget(6, 60); i++ {
		kind := []string{"sstream", "cstream"}[i%2]
		nmsg := rng.Intn(3)
		var herr error
		if rng.Bool() {
			herr = status.Error(codes.Code(1+rng.Intn(16)), "cut me")
		}
		svr := &scriptServer{}
		svr.sstream = func(req *Msg, s grpchantesting.TestService_ServerStreamServer) error {
			for j := 0; j < nmsg; j++ {
				s.Send(&Msg{Count: int32(j), Payload: rng.Bytes(rng.Intn(20))})
			}
			return herr
		}
		svr.cstream = func(s grpchantesting.TestService_ClientStreamServer) error {
			for {
				if _, err := s.Recv(); err != nil {
					break
				}
			}
			if herr != nil {
				return herr
			}
			return s.SendAndClose(&Msg{Count: 7})
		}
		call := func(ch grpc.ClientConnInterface) error {
			cli := grpchantesting.NewTestServiceClient(ch)
			ctx, cancel := context.WithCancel(context.Background())
			defer cancel()
			if kind == "sstream" {
				ss, err := cli.ServerStream(ctx, &Msg{})
				if err != nil {
					return err
				}
				for {
					if _, err := ss.Recv(); err != nil {
						return err
					}
				}
			}
			cs, err := cli.ClientStream(ctx)
			if err != nil {
				return err
			}
			cs.Send(&Msg{})
			_, err = cs.CloseAndRecv()
			return err
		}
		hm := newHTTPMem(svr)
		fullErr := call(hm.ch)
		hm.tr.handlerWG.Wait()
		body := hm.tr.Recorded()
		hdr := hm.tr.lastHdr
		u, _ := url.Parse("http://mem.test/")
		for k := 0; k < len(body); k++ {
			for _, abrupt := range []bool{false, true} {
				rt := &replayTransport{code: 200, hdr: hdr, body: body[:k]}
				if abrupt {
					rt.endErr = errAbrupt
				}
				err := call(&httpgrpc.Channel{Transport: rt, BaseURL: u})
				r.Eval(fmt.Sprint("cut", kind, nmsg, herr, k, abrupt), true)
				r.Count("truncation:" + kind)
				if err == nil || err == io.EOF {
					r.Violate("http/truncation/"+kind+"/reported-as-success", "a response that is lost, truncated or cannot be decoded is always reported as an error",
						sprintf("%s reply of %d bytes (handler: %d messages then %v) cut after %d bytes (abrupt=%v): client reported %v", kind, len(body), nmsg, herr, k, abrupt, err),
						map[string]interface{}{"transport": "http", "kind": kind, "body_hex": hexOrDash(body), "cut": k, "abrupt": abrupt}, canonErr(err))
				}
			}
		}
		_ = fullErr
	}
	// the same for unary calls: a successful reply whose body breaks off (transport error while reading it) at any offset,
	// in particular at offset 0 and on a field boundary, where the bytes received so far decode as a valid, shorter message
	{
		full := marshalDet(&Msg{Count: 7, Payload: []byte("payload-bytes"), Headers: map[string][]byte{"k": []byte("v")}, DelayMillis: 3})
		hdr := http.Header{"Content-Type": {httpgrpc.UnaryRpcContentType_V1}, "Content-Length": {strconv.Itoa(len(full))}}
		u, _ := url.Parse("http://mem.test/")
		for k := 0; k < len(full); k++ {
			rt := &replayTransport{code: 200, hdr: hdr, body: full[:k], endErr: errAbrupt}
			out := &Msg{}
			err := (&httpgrpc.Channel{Transport: rt, BaseURL: u}).Invoke(context.Background(), mUnary, &Msg{}, out)
			r.Eval(fmt.Sprint("cut-unary", k), true)
			r.Count("truncation:unary")
			if err == nil {
				r.Violate("http/truncation/unary/reported-as-success", "a response that is lost, truncated or cannot be decoded is always reported as an error",
					sprintf("unary reply of %d bytes whose body read fails after %d bytes: Invoke returned nil (decoded count=%d, %d payload bytes)", len(full), k, out.Count, len(out.Payload)),
					map[string]interface{}{"transport": "http", "kind": "unary", "body_hex": hexOrDash(full), "cut": k, "abrupt": true}, "ok")
			}
		}
	}
	ref := refTransport()
	for i := 0; i < r.Budget(80, 2500); i++ {
		st := mkStatus()
		after := rng.Intn(3) // messages sent before the error (streams)
		kind := []string{"unary", "sstream", "cstream"}[rng.Intn(3)]
		mkSvr := func() *scriptServer {
			svr := &scriptServer{}
			svr.unary = func(ctx context.Context, req *Msg) (*Msg, error) { return nil, st.Err() }
			svr.sstream = func(req *Msg, s grpchantesting.TestService_ServerStreamServer) error {
				for j := 0; j < after; j++ {
					s.Send(&Msg{Count: int32(j)})
				}
				return st.Err()
			}
			svr.cstream = func(s grpchantesting.TestService_ClientStreamServer) error {
				for {
					if _, err := s.Recv(); err != nil {
						break
					}
				}
				return st.Err()
			}
			return svr
		}
		call := func(ch grpc.ClientConnInterface) (error, int) {
			cli := grpchantesting.NewTestServiceClient(ch)
			switch kind {
			case "unary":
				_, err := cli.Unary(context.Background(), &Msg{})
				return err, 0
			case "sstream":
				ss, err := cli.ServerStream(context.Background(), &Msg{})
				if err != nil {
					return err, 0
				}
				n := 0
				for {
					_, err := ss.Recv()
					if err != nil {
						return err, n
					}
					n++
				}
			default:
				cs, err := cli.ClientStream(context.Background())
				if err != nil {
					return err, 0
				}
				cs.Send(&Msg{})
				_, err = cs.CloseAndRecv()
				return err, 0
			}
		}
		// what the standard transport reports for this status (sanitising included)
		rch, rstop := ref.mk(mkSvr())
		refErr, refN := call(rch)
		rstop()
		want := status.Convert(refErr)
		for _, tp := range bothTransports() {
			ch, stop := tp.mk(mkSvr())
			err, n := call(ch)
			stop()
			got := status.Convert(err)
			r.Eval(fmt.Sprint("status", tp.name, kind, st.Code(), st.Message(), len(st.Proto().Details), after), true)
			r.Count("status:" + tp.name + ":" + kind)
			r.TracesOnImpl++
			c := map[string]interface{}{"transport": tp.name, "kind": kind, "code": uint32(st.Code()), "message_hex": hexOrDash([]byte(st.Message())), "details": len(st.Proto().Details), "messages_before_error": after}
			if err == nil || err == io.EOF {
				r.Violate(tp.name+"/status/"+kind+"/error-reported-as-success", "the client reports success only if the handler returned nil", sprintf("handler returned %v; client saw %v", st.Err(), err), c, canonErr(err))
				continue
			}
			// the yardstick is the handler's own status; where the standard transport delivers something else
			// for the same handler (its sanitising, e.g. details dropped with an invalid-UTF-8 message), that
			// is accepted as well
			if okH, _ := sameStatus(got, st); okH {
				continue
			}
			if ok, why := sameStatus(got, want); !ok {
				cls := classifyMsg(st.Message())
				sig := tp.name + "/status/" + kind + "/differs"
				if strings.HasPrefix(why, "message") {
					sig = tp.name + "/status/" + kind + "/message-" + cls
				}
				r.Violate(sig, "the outcome reported to the client (status code, message and error details as seen through status.Convert) equals the status the server handler returned (compared with what the standard transport reports for the same handler)",
					sprintf("%s: %s (handler status code %d message %q)", tp.name, why, uint32(st.Code()), st.Message()), c, canonErr(err))
			}
			if kind == "sstream" && n != refN {
				r.Violate(tp.name+"/status/sstream/messages-before-error-lost", "errors returned after response messages: the messages still arrive", sprintf("%d messages before the error, standard transport delivers %d", n, refN), c, "")
			}
		}
	}
}
