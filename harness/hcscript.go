package main

import (
	"context"
	"encoding/binary"
	"errors"
	"fmt"
	"io"
	"net/http"
	"net/url"
	"runtime"
	"strconv"
	"strings"
	"sync"
	"time"

	"github.com/fullstorydev/grpchan/httpgrpc"
	"google.golang.org/grpc"
	"google.golang.org/protobuf/proto"
)

// ---------------------------------------------------------------------------
// HTTP client stream scripts: the harness plays the HTTP transport / server
// (answers the round trip, supplies response body items one at a time, ends
// the body, consumes request frames) and drives the real httpgrpc client
// stream; the Lean explorer over HttpClientStream.step must accept every
// observation.

// scriptedBody is a response body whose content the script supplies item by item. Read blocks while
// nothing is available and the body has not ended (so the reader goroutine is observably parked).
type scriptedBody struct {
	mu     sync.Mutex
	cond   *sync.Cond
	buf    []byte
	ended  bool
	endErr error
	closed bool
	ctxErr error // set when the request's context is done: reads fail at once, as with net/http
}

func newScriptedBody() *scriptedBody {
	b := &scriptedBody{}
	b.cond = sync.NewCond(&b.mu)
	return b
}
func (b *scriptedBody) Read(p []byte) (int, error) {
	b.mu.Lock()
	defer b.mu.Unlock()
	for len(b.buf) == 0 && !b.ended && !b.closed && b.ctxErr == nil {
		b.cond.Wait()
	}
	if b.ctxErr != nil {
		return 0, b.ctxErr
	}
	if len(b.buf) > 0 {
		n := copy(p, b.buf)
		b.buf = b.buf[n:]
		return n, nil
	}
	if b.closed {
		return 0, errors.New("body closed")
	}
	if b.endErr != nil {
		return 0, b.endErr
	}
	return 0, io.EOF
}
func (b *scriptedBody) Close() error {
	b.mu.Lock()
	b.closed = true
	b.cond.Broadcast()
	b.mu.Unlock()
	return nil
}
func (b *scriptedBody) supply(data []byte) {
	b.mu.Lock()
	b.buf = append(b.buf, data...)
	b.cond.Broadcast()
	b.mu.Unlock()
}
func (b *scriptedBody) failCtx(err error) {
	b.mu.Lock()
	b.ctxErr = err
	b.cond.Broadcast()
	b.mu.Unlock()
}
func (b *scriptedBody) end(err error) {
	b.mu.Lock()
	b.ended, b.endErr = true, err
	b.cond.Broadcast()
	b.mu.Unlock()
}

type scriptedTransport struct {
	replyCh chan func() (*http.Response, error) // the script's answer to the round trip
	req     *http.Request
	body    *scriptedBody
	gotReq  chan struct{}
}

func (t *scriptedTransport) RoundTrip(req *http.Request) (*http.Response, error) {
	t.req = req
	close(t.gotReq)
	// like net/http: once the request's context is done, reads of the response body fail
	go func() {
		<-req.Context().Done()
		t.body.failCtx(req.Context().Err())
	}()
	f := <-t.replyCh
	return f()
}

type hcStep struct {
	op  string
	evs []string
}

func (s hcStep) String() string { return s.op + "=>" + strings.Join(s.evs, ",") }

type hcScript struct {
	respStream  bool
	steps       []hcStep
	hung        bool
	panics      []string
	stillBusy   []string
	supplied    []int // decodable data messages supplied, in order
	delivered   []int // messages RecvMsg returned
	finals      []string
	trailerOK   bool // a decodable trailer with code 0 was supplied
	truncated   bool // the body ended (or failed) before a decodable OK trailer
	cancelled   bool
	cancelKind  string
	tooMany     bool     // a RecvMsg reported the "server sent >1" protocol violation
	afterMany   []string // results of the RecvMsg calls that came after that verdict
	recvAll     []string // every RecvMsg result in order
	afterCancel []string // results of RecvMsg calls issued after the script ended the context
	readerLeft  bool     // the reader goroutine was still alive after the second-response verdict had been returned
}

func (sc *hcScript) line() string {
	var parts []string
	for _, s := range sc.steps {
		parts = append(parts, s.String())
	}
	return sprintf("HC respstream=%s ops=%s", b01(sc.respStream), strings.Join(parts, ";"))
}
func (sc *hcScript) desc() map[string]interface{} {
	var parts []string
	for _, s := range sc.steps {
		parts = append(parts, s.String())
	}
	return map[string]interface{}{"transport": "http-client", "resp_stream": sc.respStream, "script": strings.Join(parts, " ; ")}
}

func frameBytes(payload []byte, trailer bool) []byte {
	sz := int32(len(payload))
	if trailer {
		sz = -sz
	}
	out := make([]byte, 4)
	binary.BigEndian.PutUint32(out, uint32(sz))
	return append(out, payload...)
}

func hcRes(err error) string {
	r := resOf(err)
	if r == "unexpected-eof" {
		return "plain"
	}
	return r
}

func runHCScript(rng *Rng, respStream bool, nsteps int, fixed []string) *hcScript {
	sc := &hcScript{respStream: respStream}
	tr := &scriptedTransport{replyCh: make(chan func() (*http.Response, error), 1), body: newScriptedBody(), gotReq: make(chan struct{})}
	u, _ := url.Parse("http://scripted.test/")
	ch := &httpgrpc.Channel{Transport: tr, BaseURL: u}
	ectx := newEnvCtx(context.Background(), false)
	eng := newEngine("cs", "cr", "t")
	defer eng.close()
	cs, err := ch.NewStream(ectx, &grpc.StreamDesc{ClientStreams: true, ServerStreams: respStream}, "/s.S/M")
	if err != nil {
		sc.panics = append(sc.panics, "NewStream: "+err.Error())
		return sc
	}
	<-tr.gotReq
	eng.settle()
	replied, bodyOpen, trailerSupplied, rtAnswered := false, false, false, false
	nextID := 1
	mkResp := func(code int, hdr http.Header) *http.Response {
		return &http.Response{StatusCode: code, Status: fmt.Sprintf("%d %s", code, http.StatusText(code)), Proto: "HTTP/1.1", ProtoMajor: 1, ProtoMinor: 1,
			Header: hdr, Body: tr.body, Request: tr.req, ContentLength: -1}
	}
	recvNote := "" // text of the error the last completed RecvMsg returned (written by the cr actor, read after it settled)
	exec := func(op string) hcStep {
		noteStep("http-client/stream", sc.line(), op)
		st := hcStep{op: op}
		name, arg := op, ""
		if i := strings.Index(op, ":"); i >= 0 {
			name, arg = op[:i], op[i+1:]
		}
		switch name {
		case "t.reply":
			rtAnswered, replied, bodyOpen = true, true, true
			tr.replyCh <- func() (*http.Response, error) { return mkResp(200, http.Header{}), nil }
			st.evs = eng.settle()
		case "t.replystatus":
			rtAnswered = true
			tr.replyCh <- func() (*http.Response, error) {
				return mkResp(200, http.Header{"X-Grpc-Status": []string{arg + ":scripted"}}), nil
			}
			tr.body.end(nil)
			st.evs = eng.settle()
		case "t.replybad":
			rtAnswered = true
			tr.replyCh <- func() (*http.Response, error) {
				return mkResp(200, http.Header{"X-Bin": []string{"***not base64***"}}), nil
			}
			tr.body.end(nil)
			st.evs = eng.settle()
		case "t.fail":
			rtAnswered = true
			tr.replyCh <- func() (*http.Response, error) {
				if err := tr.req.Context().Err(); err != nil {
					return nil, err
				}
				return nil, errors.New("scripted transport failure")
			}
			st.evs = eng.settle()
		case "t.item":
			parts := strings.Split(arg, ":")
			switch parts[0] {
			case "data":
				id, _ := strconv.Atoi(parts[1])
				b, _ := proto.Marshal(&Msg{Count: int32(id)})
				tr.body.supply(frameBytes(b, false))
				sc.supplied = append(sc.supplied, id)
			case "baddata":
				tr.body.supply(frameBytes([]byte{0xff, 0xff, 0xff, 0x07}, false))
			case "trailer":
				c, _ := strconv.Atoi(parts[1])
				msg := "scripted"
				b, _ := proto.Marshal(&httpgrpc.HttpTrailer{Code: int32(c), Message: msg})
				tr.body.supply(frameBytes(b, true))
				tr.body.end(nil)
				trailerSupplied, bodyOpen = true, false
				if c == 0 {
					sc.trailerOK = true
				} else if !sc.trailerOK {
					sc.truncated = true
				}
			case "badtrailer":
				tr.body.supply(frameBytes([]byte{0xff, 0xff, 0xff, 0x07}, true))
				tr.body.end(nil)
				trailerSupplied, bodyOpen = true, false
			case "bad":
				// a frame cut short by a transport error
				tr.body.supply([]byte{0, 0, 0, 9, 1, 2})
				tr.body.end(errAbrupt)
				bodyOpen = false
				if !sc.trailerOK {
					sc.truncated = true
				}
			}
			st.evs = eng.settle()
		case "t.burst":
			// a data frame and the trailer frame become readable together
			parts := strings.Split(arg, ":")
			id, _ := strconv.Atoi(parts[0])
			c, _ := strconv.Atoi(parts[1])
			b1, _ := proto.Marshal(&Msg{Count: int32(id)})
			b2, _ := proto.Marshal(&httpgrpc.HttpTrailer{Code: int32(c), Message: "scripted"})
			tr.body.supply(append(frameBytes(b1, false), frameBytes(b2, true)...))
			tr.body.end(nil)
			sc.supplied = append(sc.supplied, id)
			trailerSupplied, bodyOpen = true, false
			if c == 0 {
				sc.trailerOK = true
			} else if !sc.trailerOK {
				sc.truncated = true
			}
			st.evs = eng.settle()
		case "t.end":
			tr.body.end(nil)
			bodyOpen = false
			if !sc.trailerOK {
				sc.truncated = true
			}
			st.evs = eng.settle()
		case "t.readreq":
			st.evs = eng.do("t", func() string {
				hdr := make([]byte, 4)
				if _, err := io.ReadFull(tr.req.Body, hdr); err != nil {
					return "readerr"
				}
				n := int(int32(binary.BigEndian.Uint32(hdr)))
				io.CopyN(io.Discard, tr.req.Body, int64(n))
				return "read"
			})
			var keep []string
			for _, e := range st.evs {
				if !strings.HasPrefix(e, "t:") {
					keep = append(keep, e)
				}
			}
			st.evs = keep
		case "cs.send":
			id, _ := strconv.Atoi(arg)
			st.evs = eng.do("cs", func() string { return hcRes(cs.SendMsg(&Msg{Count: int32(id)})) })
		case "cs.closesend":
			st.evs = eng.do("cs", func() string { return hcRes(cs.CloseSend()) })
		case "cr.recv":
			st.evs = eng.do("cr", func() string {
				var m Msg
				if err := cs.RecvMsg(&m); err != nil {
					recvNote = err.Error()
					return hcRes(err)
				}
				return "msg:" + strconv.Itoa(int(m.Count))
			})
			if res, ok := evRes(st.evs, "cr"); ok {
				sc.recvAll = append(sc.recvAll, res)
				if sc.cancelled {
					sc.afterCancel = append(sc.afterCancel, res)
				}
				if sc.tooMany {
					sc.afterMany = append(sc.afterMany, res)
				} else if strings.Contains(recvNote, "server sent >1") {
					sc.tooMany = true
				}
			}
		case "cr.header":
			st.evs = eng.do("cr", func() string {
				_, err := cs.Header()
				return hcRes(err)
			})
		case "env.cancel", "env.expire":
			sc.cancelled, sc.cancelKind = true, name[4:]
			if name == "env.cancel" {
				ectx.fire(context.Canceled)
			} else {
				ectx.fire(context.DeadlineExceeded)
			}
			if replied && bodyOpen {
				bodyOpen = false
				if !sc.trailerOK {
					sc.truncated = true
				}
			}
			st.evs = eng.settle()
		}
		for _, e := range st.evs {
			switch {
			case strings.Contains(e, ":panic:"):
				sc.panics = append(sc.panics, e)
			case strings.HasPrefix(e, "cr:msg:"):
				id, _ := strconv.Atoi(e[7:])
				sc.delivered = append(sc.delivered, id)
			case strings.HasPrefix(e, "cr:") && name != "cr.header":
				sc.finals = append(sc.finals, e[3:])
			}
		}
		return st
	}
	pendingSend := func() bool { return !eng.idle("cs") }
	if fixed != nil {
		for _, op := range fixed {
			// a replayed script may name transport or env steps that are not enabled in this run (the body has already
			// failed because the stream cancelled itself; the drain steps a replay shows at its end): skip those
			if replied && bodyOpen && cs.Context().Err() != nil {
				bodyOpen = false
				if !sc.trailerOK {
					sc.truncated = true
				}
			}
			name := op
			if i := strings.Index(op, ":"); i >= 0 {
				name = op[:i]
			}
			switch {
			case (name == "t.item" || name == "t.burst") && !(replied && bodyOpen && !trailerSupplied):
				continue
			case name == "t.end" && !(replied && bodyOpen):
				continue
			case (name == "t.reply" || name == "t.replystatus" || name == "t.replybad" || name == "t.fail") && rtAnswered:
				continue
			case strings.HasPrefix(name, "env.") && sc.cancelled:
				continue
			case strings.HasPrefix(name, "cr.") && !eng.idle("cr"), strings.HasPrefix(name, "cs.") && !eng.idle("cs"):
				continue
			case name == "t.readreq" && !(pendingSend() && eng.idle("t")):
				continue
			case name == "cr.header" && !rtAnswered:
				continue
			}
			sc.steps = append(sc.steps, exec(op))
		}
	} else {
		for i := 0; i < nsteps; i++ {
			var cands []string
			if replied && bodyOpen && cs.Context().Err() != nil {
				// the stream's context is done (by the script, or by the stream itself): the body has failed
				bodyOpen = false
				if !sc.trailerOK {
					sc.truncated = true
				}
			}
			if !rtAnswered {
				cands = append(cands, "t.reply", "t.reply", "t.reply", "t.replystatus:"+strconv.Itoa(1+rng.Intn(16)), "t.replybad", "t.fail")
			}
			if replied && bodyOpen && !trailerSupplied {
				id := strconv.Itoa(200 + nextID)
				cands = append(cands, "t.burst:"+id+":0", "t.burst:"+id+":"+strconv.Itoa(rng.Intn(17)))
				cands = append(cands, "t.item:data:"+id, "t.item:data:"+id, "t.item:data:"+id, "t.item:baddata:"+id,
					"t.item:trailer:0", "t.item:trailer:"+strconv.Itoa(rng.Intn(17)), "t.item:badtrailer", "t.item:bad")
			}
			if replied && bodyOpen {
				cands = append(cands, "t.end")
			}
			if eng.idle("cr") {
				cands = append(cands, "cr.recv", "cr.recv", "cr.recv")
				if rtAnswered {
					cands = append(cands, "cr.header")
				}
			}
			if eng.idle("cs") {
				cands = append(cands, "cs.send:"+strconv.Itoa(100+nextID), "cs.closesend")
			}
			if pendingSend() && eng.idle("t") {
				cands = append(cands, "t.readreq", "t.readreq")
			}
			if !sc.cancelled && rng.Chance(10) {
				cands = append(cands, []string{"env.cancel", "env.expire"}[rng.Intn(2)])
			}
			if len(cands) == 0 {
				break
			}
			op := cands[rng.Intn(len(cands))]
			nextID++
			sc.steps = append(sc.steps, exec(op))
		}
	}
	// once RecvMsg has reported the second response of a single-response method the call is over for the caller: the
	// reader goroutine must be gone by itself (the stream cancels its own context), whatever else the server still sends
	if sc.tooMany {
		eng.settle()
		deadline := time.Now().Add(3 * time.Second) // (only waited out when the goroutine really stays)
		for stacksWith("httpgrpc.(*clientStream).doHttpCall") > 0 && time.Now().Before(deadline) {
			time.Sleep(2 * time.Millisecond)
		}
		sc.readerLeft = stacksWith("httpgrpc.(*clientStream).doHttpCall") > 0
	}
	// drain: answer the round trip, end the body, end the context: nothing may remain blocked
	if !rtAnswered {
		sc.steps = append(sc.steps, exec("t.fail"))
	}
	if replied && bodyOpen && cs.Context().Err() != nil {
		bodyOpen = false // the stream's context is done: the body has already failed
	}
	if replied && bodyOpen {
		sc.steps = append(sc.steps, exec("t.end"))
	}
	if !sc.cancelled {
		sc.steps = append(sc.steps, exec("env.cancel"))
		sc.cancelled = false // (the drain's cancel is not part of the script proper)
	}
	for _, n := range []string{"cs", "cr"} {
		if !eng.idle(n) {
			sc.stillBusy = append(sc.stillBusy, n)
		}
	}
	sc.hung = eng.hung
	tr.body.Close()
	return sc
}

// hcOracle: the HTTP-client clauses of C01/C02/C04/C05/C08 on one script.
func hcOracle(r *Run, prop string, sc *hcScript) (nontrivial bool) {
	desc, line := sc.desc(), sc.line()
	if sc.hung {
		r.Violate("http-client/stream/never-quiescent", "operations terminate or block", "the call never became quiescent within 3 s", desc, line)
	}
	if len(sc.panics) > 0 {
		r.Violate("http-client/stream/panic", "no interleaving makes the library panic", fmt.Sprint(sc.panics), desc, line)
	}
	// clauses shared by the properties that speak about the outcome of a stream
	if prop == "C02" || prop == "C04" || prop == "C05" || prop == "C08" {
		for _, res := range sc.recvAll {
			if strings.HasPrefix(res, "ctxerr:") {
				r.Violate("http-client/stream/bare-context-error", "a gRPC status of Canceled or DeadlineExceeded … never a bare io.EOF or other non-status error", sprintf("RecvMsg returned the bare context error %s", res), desc, line)
				break
			}
		}
		sawEOF := false
		for _, res := range sc.recvAll {
			if sawEOF && res != "eof" && !sc.cancelled {
				r.Violate("http-client/stream/outcome-after-eof", "receives drain what was delivered and then yield the final status", sprintf("RecvMsg returned %s after io.EOF", res), desc, line)
				break
			}
			sawEOF = sawEOF || res == "eof"
		}
		for _, res := range sc.afterMany {
			if res != "status:13" {
				r.Violate("http-client/stream/second-response-verdict-lost", "a handler that produces more than one response is reported as an error, never as success",
					sprintf("RecvMsg reported the second response as an Internal error, and a later RecvMsg returned %s", res), desc, line)
				break
			}
		}
	}
	switch prop {
	case "C01":
		nontrivial = len(sc.delivered) > 0
		if sc.respStream && !isPrefix(sc.delivered, sc.supplied) {
			r.Violate("http-client/stream/response-not-prefix", "the messages a receiver has obtained are at every moment a prefix of what its peer sent", sprintf("client received %s, transport supplied %s", intsStr(sc.delivered), intsStr(sc.supplied)), desc, line)
		}
		for _, f := range sc.finals {
			if f == "eof" && sc.respStream && !sc.cancelled && !equalInts(sc.delivered, sc.supplied) {
				r.Violate("http-client/stream/response-incomplete", "when the call ends successfully the two sequences are equal", sprintf("io.EOF after %s of %s", intsStr(sc.delivered), intsStr(sc.supplied)), desc, line)
			}
		}
	case "C02":
		nontrivial = sc.truncated || len(sc.finals) > 0
		for _, f := range sc.finals {
			if f == "eof" && !sc.trailerOK {
				r.Violate("http-client/stream/success-without-ok-trailer", "a response that is lost, truncated or cannot be decoded is always reported as an error", "RecvMsg reported io.EOF although no decodable OK trailer frame was supplied", desc, line)
			}
		}
	case "C04":
		nontrivial = sc.cancelled
		if sc.cancelled && !sc.respStream && !sc.trailerOK && len(sc.delivered) > 0 {
			r.Violate("http-client/stream/partial-success-after-cancel", "never a success with missing data … either the complete real result or the cancellation status, never a mixture of the two",
				sprintf("the context ended before any OK trailer had been supplied, yet RecvMsg on the single-response method returned %s with a nil error", intsStr(sc.delivered)), desc, line)
		}
		if sc.cancelled && !equalInts(sc.delivered, sc.supplied) {
			for _, res := range sc.afterCancel {
				if res == "eof" {
					r.Violate("http-client/stream/eof-after-cancel-with-missing-data", "never a success with missing data and never a bare io.EOF",
						sprintf("after the context ended RecvMsg returned io.EOF although only %s of the supplied %s had been delivered", intsStr(sc.delivered), intsStr(sc.supplied)), desc, line)
					break
				}
			}
		}
	case "C05":
		nontrivial = true
		if sc.readerLeft {
			r.Violate("http-client/stream/reader-goroutine-left-after-verdict", "after a call has completed and been consumed no goroutine of the library remains",
				"RecvMsg had returned the Internal error for a second response, yet the reader goroutine (doHttpCall) was still alive: nothing but the caller's own context would ever release it", desc, line)
		}
		if len(sc.stillBusy) > 0 {
			r.Violate("http-client/stream/blocked-after-completion", "once the call has completed or its context is done every client operation completes", fmt.Sprint(sc.stillBusy), desc, line)
		}
	case "C08":
		nontrivial = !sc.respStream
		if !sc.respStream && len(sc.delivered) > 0 && !sc.trailerOK {
			r.Violate("http-client/stream/single-response-without-ok", "exactly one response message together with success, or a non-OK status", sprintf("a message was returned (%s) although no OK trailer was supplied", intsStr(sc.delivered)), desc, line)
		}
		if !sc.respStream && len(sc.delivered) > 0 && len(sc.supplied) > 1 && !sc.cancelled {
			r.Violate("http-client/stream/success-with-two-responses", "a handler that produces more than one response is reported as an error, never as success carrying an arbitrary one of the messages", sprintf("the transport supplied %s; RecvMsg returned %s with a nil error", intsStr(sc.supplied), intsStr(sc.delivered)), desc, line)
		}
		if !sc.respStream && len(sc.delivered) > 1 {
			r.Violate("http-client/stream/more-than-one-response", "exactly one response message", intsStr(sc.delivered), desc, line)
		}
	}
	return
}

// raceScripts: everything is readable at once when the client starts receiving, so the client's verdict on a second
// response races with the reader goroutine reaching the trailer frame. Repeated, because the schedule is the runtime's.
var hcRaceScripts = [][]string{
	{"t.reply", "t.item:data:202", "t.item:data:203", "t.item:trailer:0", "cr.recv", "cr.recv", "cr.recv"},
	{"t.reply", "t.item:data:202", "t.item:baddata:203", "t.item:trailer:0", "cr.recv", "cr.recv"},
	{"t.reply", "t.item:data:202", "t.item:data:203", "t.item:trailer:1", "cr.recv", "cr.recv"},
	{"t.reply", "t.item:data:202", "t.item:data:203", "t.item:badtrailer", "cr.recv", "cr.recv"},
	{"t.reply", "t.item:data:201", "cr.recv", "t.burst:202:0", "cr.recv", "cr.recv"},
	{"t.reply", "t.item:data:201", "t.item:data:202", "t.item:data:203", "cr.recv", "cr.recv"},
}

func hcSuite(r *Run, prop string) {
	rng := r.Rng.Fork("hc")
	// HC.txt: "<respstream 0|1> <op;op;...>"
	for _, f := range corpusLines("HC") {
		if len(f) != 2 {
			continue
		}
		sc := runHCScript(rng, f[0] == "1", 0, stripResults(f[1]))
		r.Op(sc.line(), "observed")
		r.TracesOnImpl++
		r.Count("corpus:HC")
		r.Eval(sc.line(), hcOracle(r, prop, sc))
	}
	if prop == "C02" || prop == "C05" || prop == "C08" {
		for rep := 0; rep < r.Budget(40, 400); rep++ {
			for _, fixed := range hcRaceScripts {
				sc := runHCScript(rng, false, 0, fixed)
				r.Op(sc.line(), "observed")
				r.TracesOnImpl++
				r.Count("transport:http-client-race")
				r.Eval(sc.line(), hcOracle(r, prop, sc))
			}
		}
	}
	n := r.Budget(200, 4000)
	for i := 0; i < n; i++ {
		respStream := i%3 != 0
		if prop == "C08" {
			respStream = i%4 == 0
		}
		sc := runHCScript(rng, respStream, 5+rng.Intn(10), nil)
		r.Op(sc.line(), "observed")
		r.TracesOnImpl++
		r.Count("transport:http-client")
		nv := len(r.Violations)
		nt := hcOracle(r, prop, sc)
		for _, v := range r.Violations[nv:] {
			// shrink (the engine is scheduled by the runtime: a candidate counts as failing if one of three runs fails)
			sig := v.Signature
			var full []string
			for _, st := range sc.steps {
				full = append(full, st.op)
			}
			min := shrinkOps(full, func(c []string) bool {
				for k := 0; k < 3; k++ {
					pr := newProbe(r)
					hcOracle(pr, prop, runHCScript(rng.Fork("shrink"), respStream, 0, c))
					if hasSig(pr.Violations, sig) {
						return true
					}
				}
				return false
			})
			r.attachMinimal(sig, map[string]interface{}{"respstream": respStream, "ops": strings.Join(min, ";")})
		}
		r.Eval(sc.line(), nt)
		if nt && r.Dist["hc-samples"] < 2 {
			r.Dist["hc-samples"]++
			r.Sample(sc.desc())
		}
	}
}

// stacksWith counts the goroutines whose stack mentions the given function.
func stacksWith(fn string) int {
	n := runtime.Stack(stackBuf, true)
	for n == len(stackBuf) {
		stackBuf = make([]byte, 2*len(stackBuf))
		n = runtime.Stack(stackBuf, true)
	}
	cnt := 0
	for i, p := range strings.Split(string(stackBuf[:n]), "\n\n") {
		if i > 0 && strings.Contains(p, fn) {
			cnt++
		}
	}
	return cnt
}
