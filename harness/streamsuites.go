package main

import (
	"fmt"
	"runtime"
	"strings"
	"time"
)

func init() {
	suites["C01"] = func(r *Run) { streamSuite(r, "C01") }
	suites["C02"] = func(r *Run) { streamSuite(r, "C02") }
	suites["C03"] = func(r *Run) { streamSuite(r, "C03") }
	suites["C04"] = func(r *Run) { streamSuite(r, "C04") }
	suites["C05"] = func(r *Run) { streamSuite(r, "C05") }
	suites["C08"] = func(r *Run) { streamSuite(r, "C08") }
	suites["C06"] = suiteC06
}

// relevantGoroutines counts goroutines with library frames on their stack.
func relevantGoroutines() int {
	n := runtime.Stack(stackBuf, true)
	cnt := 0
	for i, p := range strings.Split(string(stackBuf[:n]), "\n\n") {
		if i == 0 {
			continue
		}
		if strings.Contains(p, "grpchan/inprocgrpc.") || strings.Contains(p, "grpchan/httpgrpc.") {
			cnt++
		}
	}
	return cnt
}

func streamSuite(r *Run, prop string) {
	rules := map[string]string{
		"C01": "every message delivered exactly once, in order: receivers' views are prefixes of what the peer handed to SendMsg; equal on a clean end; concurrent calls isolated",
		"C02": "the client's terminal outcome equals the handler's returned status",
		"C03": "headers before the first message, trailers before the final status, all of them on success; SetHeader after send fails",
		"C04": "after cancel/deadline every pending and later receive returns Canceled/DeadlineExceeded; the handler's context is done; handler-returned context errors keep their code",
		"C05": "no deadlock, no panic, everything completes once the handler returned or the context ended; no goroutine left",
		"C08": "single-response methods yield exactly one response or an error",
	}
	r.Rule = "quiescence-sequenced scripts over the op alphabet {cs.send, cs.closesend, cr.recv, cr.header, cr.trailer, h.recv, h.send, h.setheader, h.sendheader, h.settrailer, h.return(nil|status|plain|ctx error), env.cancel, env.expire} on the in-process channel (all interleavings, checked against the Lean transition system by a subset-construction explorer) and on the HTTP channel over the in-memory transport (half-duplex scripts, oracle only); all stream kinds. Oracle for this property: " + rules[prop] + ". Non-trivial: the script contains an operation of the kind the property is about that blocked, failed or raced; distinct by script."
	r.Assumptions = append(r.Assumptions, "goroutine park states from runtime.Stack identify blocked operations")
	rng := r.Rng
	n := r.Budget(500, 6000)
	baseline := relevantGoroutines()
	corpus := isCorpus() // past failures first, then generated scripts
	if prop == "C08" {
		// this property's oracle is about single-response methods only
		var keep []isCorpusEntry
		for _, e := range corpus {
			if e.kind == "cstream" || e.kind == "unarystream" {
				keep = append(keep, e)
			}
		}
		corpus = keep
	}
	for i := -len(corpus); i < n; i++ {
		transport := "inproc"
		if i >= 0 && i%5 == 4 {
			transport = "http"
		}
		kinds := []string{"bidi", "sstream", "cstream", "unarystream"}
		kind := kinds[rng.Intn(len(kinds))]
		if prop == "C08" {
			kind = []string{"cstream", "unarystream"}[rng.Intn(2)]
		}
		o := isOpts{steps: 5 + rng.Intn(10), transport: transport, halfDuplex: transport == "http"}
		if i < 0 {
			e := corpus[i+len(corpus)]
			kind, transport = e.kind, e.transport
			o = isOpts{transport: transport, fixed: e.steps}
			r.Count("corpus:IS")
		}
		switch prop {
		case "C04":
			o.allowCancel = true
		case "C05":
			o.allowCancel = rng.Chance(50)
		default:
			o.allowCancel = rng.Chance(15)
		}
		sc := runInprocScript(rng, kind, o)
		h := analyse(sc)
		desc := sc.desc()
		line := sc.line()
		if transport == "inproc" {
			r.Op(line, "observed")
		}
		r.TracesOnImpl++
		r.Count("transport:" + transport)
		r.Count("kind:" + kind)
		nontrivial := false

		if sc.hung {
			r.Violate(transport+"/stream/never-quiescent", "stream operations terminate or block", "the call never became quiescent within 3 s", desc, line)
		}
		if len(sc.panics) > 0 {
			r.Violate(transport+"/stream/panic", "no interleaving of client and handler operations makes the library panic", fmt.Sprint(sc.panics), desc, line)
		}
		cAtt, cOK := h.sent("cs")
		hAtt, hOK := h.sent("h")
		hGot, cGot := h.received("h"), h.received("cr")
		cancelled := h.cancelStep >= 0
		// the client's terminal receive outcomes (after which only repeats follow)
		var finals []*opRec
		for _, o := range h.byActorOp("cr", "recv") {
			if _, ok := msgOf(o.res); !ok && o.res != "" {
				finals = append(finals, o)
			}
		}

		switch prop {
		case "C01":
			nontrivial = len(hGot)+len(cGot) > 0
			if !isPrefix(hGot, cAtt) {
				r.Violate(transport+"/stream/request-not-prefix", "the messages a receiver has obtained are at every moment a prefix of what its peer sent", sprintf("handler received %s, client sent %s", intsStr(hGot), intsStr(cAtt)), desc, line)
			}
			if !isPrefix(cGot, hAtt) {
				r.Violate(transport+"/stream/response-not-prefix", "the messages a receiver has obtained are at every moment a prefix of what its peer sent", sprintf("client received %s, handler sent %s", intsStr(cGot), intsStr(hAtt)), desc, line)
			}
			// clean end on the handler side: it saw EOF before any cancellation
			for _, o := range h.byActorOp("h", "recv") {
				if o.res == "eof" && (!cancelled || o.doneStep < h.cancelStep) && !equalInts(hGot, cOK) && sc.transport == "inproc" {
					// every send that returned nil before CloseSend must have arrived
					r.Violate(transport+"/stream/request-incomplete", "when the call ends successfully the two sequences are equal", sprintf("handler saw EOF having received %s; client's successful sends %s", intsStr(hGot), intsStr(cOK)), desc, line)
				}
			}
			if len(finals) > 0 && finals[0].res == "eof" && !cancelled && kind != "cstream" && kind != "unarystream" {
				if !equalInts(cGot, hOK) {
					r.Violate(transport+"/stream/response-incomplete", "when the call ends successfully the two sequences are equal", sprintf("client saw EOF having received %s; handler's successful sends %s", intsStr(cGot), intsStr(hOK)), desc, line)
				}
			}
		case "C02":
			// single-response kinds: the message IS the success report; it must not be handed out once the
			// handler has returned an error
			if (kind == "cstream" || kind == "unarystream") && h.returnStep >= 0 && h.returnErr != "nil" && !cancelled {
				for _, o := range h.byActorOp("cr", "recv") {
					if _, ok := msgOf(o.res); ok && o.doneStep >= h.returnStep {
						nontrivial = true
						r.Violate(transport+"/stream/success-despite-error", "the client reports success only if the handler returned nil and the complete response was received", sprintf("handler returned %s; the client's RecvMsg on a single-response method returned %s with a nil error", h.returnErr, o.res), desc, line)
					}
				}
			}
			if h.returnStep >= 0 && len(finals) > 0 && (!cancelled || finals[0].doneStep < h.cancelStep) {
				nontrivial = true
				want := expectFinal(h.returnErr)
				got := codeClass(finals[0].res)
				single := kind == "cstream" || kind == "unarystream"
				if single && want == "eof" {
					// single-response kinds: success is the message itself (ok) when exactly one was sent
					want = "eof-or-msg"
				}
				okk := got == want || (want == "eof-or-msg" && (got == "eof" || got == "code:13")) || (single && len(hAtt) >= 2 && got == "code:13")
				if !okk && finals[0].step > h.returnStep {
					r.Violate(transport+"/stream/final-status-differs", "the outcome reported to the client equals the status the server handler returned", sprintf("handler returned %s, client's RecvMsg reported %s", h.returnErr, finals[0].res), desc, line)
				}
				if got == "eof" && h.returnErr != "nil" {
					r.Violate(transport+"/stream/success-despite-error", "the client reports success only if the handler returned nil", sprintf("handler returned %s, client saw io.EOF", h.returnErr), desc, line)
				}
				// asked again, the client still reports the handler's outcome: never a clean end of stream after a failure
				if h.returnErr != "nil" && got != "eof" && finals[0].step > h.returnStep {
					for _, f := range finals[1:] {
						if codeClass(f.res) == "eof" && (!cancelled || f.doneStep < h.cancelStep) {
							r.Violate(transport+"/stream/success-after-reported-error", "the outcome reported to the client equals the status the server handler returned (a failed call is never reported as a clean end of stream, however often the client asks)", sprintf("handler returned %s; RecvMsg reported %s, and a later RecvMsg reported io.EOF", h.returnErr, finals[0].res), desc, line)
							break
						}
					}
				}
			}
		case "C03":
			// header/trailer ids the handler committed
			var hdrs, tlrs []int
			sent := false
			for _, o := range h.ops {
				if o.actor != "h" {
					continue
				}
				switch o.op {
				case "setheader", "sendheader":
					if sent && o.res == "ok" && sc.transport == "inproc" {
						r.Violate(transport+"/stream/setheader-after-send-succeeded", "setting headers after they were sent fails", sprintf("%s:%d returned ok after headers were sent", o.op, o.arg), desc, line)
					}
					if o.res == "ok" {
						hdrs = append(hdrs, o.arg)
					}
					if o.op == "sendheader" && o.res == "ok" {
						sent = true
					}
				case "send":
					if o.res == "ok" {
						sent = true
					}
				case "settrailer":
					tlrs = append(tlrs, o.arg)
				}
			}
			nontrivial = len(hdrs)+len(tlrs) > 0
			if !cancelled && h.returnStep >= 0 {
				// after the first message or the final status, Header() must show every committed header
				for _, o := range h.byActorOp("cr", "header") {
					firstMsgStep := -1
					for _, ro := range h.byActorOp("cr", "recv") {
						if ro.res != "" && ro.doneStep >= 0 {
							firstMsgStep = ro.doneStep
							break
						}
					}
					if firstMsgStep >= 0 && o.step > firstMsgStep && strings.HasPrefix(o.res, "md:") {
						want := "md:-"
						if len(hdrs) > 0 {
							want = "md:" + strings.ReplaceAll(strings.Trim(intsStr(hdrs), "[]"), ",", "+")
						}
						if o.res != want {
							r.Violate(transport+"/stream/headers-missing", "headers become observable no later than the first response message", sprintf("Header() after the first receive returned %s, handler set %s", o.res, want), desc, line)
						}
					}
				}
				// (a single-response method on which the handler sent two messages ends with the library's own
				// Internal error: the client stops reading there, so the handler's trailers are not part of that outcome)
				protocolViolation := (kind == "cstream" || kind == "unarystream") && len(hAtt) >= 2
				if len(finals) > 0 && !protocolViolation {
					for _, o := range h.byActorOp("cr", "trailer") {
						if o.step > finals[0].doneStep && finals[0].step > h.returnStep {
							want := "md:-"
							if len(tlrs) > 0 {
								want = "md:" + strings.ReplaceAll(strings.Trim(intsStr(tlrs), "[]"), ",", "+")
							}
							// trailers set after the handler's last chance do not count
							if o.res != want {
								r.Violate(transport+"/stream/trailers-missing", "trailers no later than the final status; a call that reports success has delivered all of them", sprintf("Trailer() after the final status returned %s, handler set %s", o.res, want), desc, line)
							}
						}
					}
				}
			}
		case "C04":
			completedBefore := false
			for _, f := range finals {
				if cancelled && f.doneStep < h.cancelStep {
					completedBefore = true // the client had already observed the call's final outcome
				}
			}
			if cancelled && !completedBefore {
				nontrivial = true
				want := "status:1"
				if h.cancelKind == "expire" {
					want = "status:4"
				}
				for _, o := range h.byActorOp("cr", "recv") {
					if o.doneStep >= h.cancelStep && o.res != "" && o.res != want {
						// a receive that completed at the very step of the cancel may have raced and won with the real result
						singleKind := kind == "cstream" || kind == "unarystream"
						if singleKind && strings.HasPrefix(o.res, "msg:") && !(h.returnStep >= 0 && h.returnStep < h.cancelStep) {
							// on a single-response method the message alone is not the complete real result: the call's outcome is
							// only known once the handler has returned, and it had not when the context ended
							r.Violate(transport+"/stream/partial-success-after-cancel", "when cancellation races with completion the caller gets either the complete real result or the cancellation status, never a mixture of the two (never a success with missing data)",
								sprintf("single-response RecvMsg pending at %s returned the message with a nil error although the handler had not returned (its trailers and final status never reached the caller)", h.cancelKind), desc, line)
							continue
						}
						if o.doneStep == h.cancelStep && o.step < h.cancelStep {
							continue
						}
						// cancellation racing with completion: the complete real result is also acceptable
						if h.returnStep >= 0 && h.returnStep < h.cancelStep && codeClass(o.res) == expectFinal(h.returnErr) && o.res != "eof" {
							continue
						}
						// …including a clean end, when the handler had returned nil before the context ended and the
						// client has been given every message the handler sent (io.EOF with missing data is never acceptable)
						if o.res == "eof" && h.returnStep >= 0 && h.returnStep < h.cancelStep && h.returnErr == "nil" {
							got, sent := 0, 0
							for _, x := range h.byActorOp("cr", "recv") {
								if strings.HasPrefix(x.res, "msg:") && x.doneStep >= 0 && x.doneStep <= o.doneStep {
									got++
								}
							}
							for _, x := range h.byActorOp("h", "send") {
								if x.res == "ok" {
									sent++
								}
							}
							if got == sent {
								continue
							}
						}
						pendingOrLater := "later"
						if o.step < h.cancelStep {
							pendingOrLater = "pending"
						}
						r.Violate(transport+"/stream/recv-after-cancel-not-status", "every pending and later stream receive returns promptly with a gRPC status of Canceled or DeadlineExceeded, never a success with missing data and never a bare io.EOF or other non-status error",
							sprintf("%s RecvMsg after %s returned %s (want %s)", pendingOrLater, h.cancelKind, o.res, want), desc, line)
					}
					if o.res == "" {
						r.Violate(transport+"/stream/recv-blocked-after-cancel", "returns promptly", "a RecvMsg stayed blocked after the context ended", desc, line)
					}
				}
				for _, o := range h.byActorOp("h", "recv") {
					if o.step > h.cancelStep && (strings.HasPrefix(o.res, "msg:") || o.res == "") {
						r.Violate(transport+"/stream/handler-ctx-not-cancelled", "the handler's context is cancelled as well", sprintf("handler RecvMsg after the cancel returned %q", o.res), desc, line)
					}
				}
			} else if h.returnStep >= 0 && strings.HasPrefix(h.returnErr, "ctx:") && len(finals) > 0 && finals[0].step > h.returnStep &&
				!((kind == "cstream" || kind == "unarystream") && len(hAtt) >= 2) {
				nontrivial = true
				want := map[string]string{"ctx:canceled": "status:1", "ctx:deadline": "status:4"}[h.returnErr]
				if finals[0].res != want {
					r.Violate(transport+"/stream/handler-ctx-error-code", "if the handler itself returns a context error, the client sees the matching Canceled/DeadlineExceeded code", sprintf("handler returned %s, client saw %s", h.returnErr, finals[0].res), desc, line)
				}
			}
		case "C05":
			nontrivial = cancelled || h.returnStep >= 0
			if len(sc.stillBusy) > 0 {
				r.Violate(transport+"/stream/blocked-after-completion", "once the server handler has returned or the call's context is done, every blocked or later operation completes in bounded time", sprintf("still blocked after the handler returned and the context ended: %v", sc.stillBusy), desc, line)
			}
			// once the handler has returned, no client operation may stay blocked: a pending SendMsg sees the
			// server-done signal, a pending RecvMsg/Header gets the final frames
			if h.returnStep >= 0 {
				end := len(sc.steps)
				if cancelled {
					end = h.cancelStep
				}
				if end > sc.bodyLen {
					end = sc.bodyLen
				}
				for _, o := range h.ops {
					if o.actor == "h" || o.step >= end || h.returnStep >= end {
						continue
					}
					deadline := o.step
					if h.returnStep > deadline {
						deadline = h.returnStep
					}
					if o.doneStep < 0 || o.doneStep > deadline {
						r.Violate(transport+"/stream/client-op-blocked-after-handler-returned", "once the server handler has returned every blocked or later client operation completes in bounded time",
							sprintf("%s.%s issued at step %d was still blocked after the handler had returned at step %d (completed at step %d; -1 = never)", o.actor, o.op, o.step, h.returnStep, o.doneStep), desc, line)
					}
				}
			}
			if h.returnStep >= 0 && !cancelled {
				for _, o := range h.byActorOp("cs", "send") {
					if o.step > h.returnStep && o.doneStep >= 0 && o.res != "ok" && o.res != "eof" && o.res != "plain" {
						r.Violate(transport+"/stream/send-after-finish", "after the handler has finished, sends return nil or io.EOF", sprintf("SendMsg after the handler returned: %s", o.res), desc, line)
					}
				}
				// a SendMsg that finds the request buffer empty does not wait for anything (in particular not for a receive the
				// caller has pending on another goroutine)
				if transport == "inproc" {
					closed := -1
					for _, o := range h.byActorOp("cs", "closesend") {
						if closed < 0 || o.step < closed {
							closed = o.step
						}
					}
					for _, o := range h.byActorOp("cs", "send") {
						if o.doneStep == o.step || (cancelled && h.cancelStep <= o.step) || (closed >= 0 && closed < o.step) || (h.returnStep >= 0 && h.returnStep < o.step) {
							continue
						}
						sent, taken := 0, 0
						for _, x := range h.byActorOp("cs", "send") {
							if x.step < o.step && x.res == "ok" && x.doneStep < o.step {
								sent++
							} else if x.step < o.step && x.doneStep < 0 {
								sent = -1000 // an earlier send is still pending: this one queues behind it
							}
						}
						for _, x := range h.byActorOp("h", "recv") {
							if strings.HasPrefix(x.res, "msg:") && x.doneStep >= 0 && x.doneStep < o.step {
								taken++
							}
						}
						if sent >= 0 && sent == taken {
							r.Violate(transport+"/stream/send-blocked-with-empty-buffer", "stream operations complete or block only for the reasons the transport documents: a SendMsg blocks only while the one-message buffer is full",
								sprintf("SendMsg #%d was issued with the request buffer empty (%d sent, %d taken by the handler), the context live and the handler running, and did not complete", sent+1, sent, taken), desc, line)
							break
						}
					}
				}
				// receives drain what was delivered — each message once, in order — and then yield the final status
				if len(cGot) > len(hAtt) || !isPrefix(cGot, hAtt) {
					r.Violate(transport+"/stream/receive-does-not-drain", "receives drain what was delivered and then yield the final status", sprintf("client received %s from a handler that sent %s: a message was handed out again, the stream never reaches its end", intsStr(cGot), intsStr(hAtt)), desc, line)
				}
				// the final status is idempotent
				if len(finals) >= 2 && finals[0].step > h.returnStep {
					for _, f := range finals[1:] {
						if codeClass(f.res) != codeClass(finals[0].res) {
							r.Violate(transport+"/stream/final-status-not-idempotent", "receives drain what was delivered and then yield the final status", sprintf("final results %s then %s", finals[0].res, f.res), desc, line)
						}
					}
				}
			}
		case "C08":
			nontrivial = len(hAtt) != 1 || h.returnErr != "nil"
			if !cancelled && h.returnStep >= 0 {
				okRecv := 0
				for _, o := range h.byActorOp("cr", "recv") {
					if _, ok := msgOf(o.res); ok {
						okRecv++
						// success carrying a message: exactly one response and an OK status
						if o.doneStep >= h.returnStep && (len(hOK) != 1 || h.returnErr != "nil") {
							r.Violate(transport+"/stream/single-response-violated", "the caller obtains exactly one response message together with success, or a non-OK status: a handler that produces no response or more than one is reported as an error",
								sprintf("handler sent %d responses and returned %s; the client's RecvMsg returned %s", len(hOK), h.returnErr, o.res), desc, line)
						}
					}
				}
				if okRecv > 1 {
					r.Violate(transport+"/stream/single-response-violated", "exactly one response message", sprintf("%d receives succeeded", okRecv), desc, line)
				}
			}
			// success is only ever reported once the handler's outcome is in: it returned nil having sent exactly one response
			retStep, retErr := -1, "" // the handler's return, whether scripted or part of the closing drain
			for _, o := range h.byActorOp("h", "return") {
				retStep, retErr = o.step, o.herr
			}
			for _, o := range h.byActorOp("cr", "recv") {
				if (kind == "cstream" || kind == "unarystream") && strings.HasPrefix(o.res, "msg:") && o.doneStep >= 0 && !(retStep >= 0 && retStep <= o.doneStep && retErr == "nil" && len(hOK) == 1) {
					r.Violate(transport+"/stream/single-response-success-before-outcome", "the caller obtains exactly one response message together with success, or a non-OK status (a handler that goes on to produce a second response or a failure is never reported as success)",
						sprintf("RecvMsg returned %s with a nil error although the handler had not (yet) returned nil after exactly one response (handler outcome: %q, responses attempted: %s)", o.res, retErr, intsStr(hAtt)), desc, line)
					break
				}
			}
		}
		r.Eval(line+transport, nontrivial)
		if len(r.Samples) < 4 && nontrivial {
			r.Sample(desc)
		}
	}
	if prop == "C05" {
		// after every call completed and was consumed no library goroutine remains
		deadline := time.Now().Add(2 * time.Second)
		left := relevantGoroutines()
		for left > baseline && time.Now().Before(deadline) {
			time.Sleep(5 * time.Millisecond)
			runtime.GC()
			left = relevantGoroutines()
		}
		if left > baseline {
			r.Violate("stream/goroutine-leak", "after a call has completed and been consumed no goroutine of the library remains", sprintf("%d library goroutines remain (baseline %d)", left, baseline), map[string]interface{}{"op": "goroutine-census"}, "")
		}
	}
	if prop != "C01" {
		unarySuite(r, prop)
	}
	if prop != "C03" {
		hcSuite(r, prop)
	}
	if prop == "C01" || prop == "C02" || prop == "C03" || prop == "C08" {
		hsSuite(r, prop)
	}
	if prop == "C02" || prop == "C03" {
		huSuite(r, prop)
	}
	extraChecks(r, prop)
}

// unarySuite: scripted in-process unary calls (Invoke) with schedule-point holds, accepted by the
// explorer over InprocUnary.step, judged by the unary clauses of the property.
func unarySuite(r *Run, prop string) {
	rng := r.Rng.Fork("unary")
	n := r.Budget(200, 4000)
	var corpus [][]string // IU.txt: "<op;op;...>" — past failures and directed interleavings first
	for _, f := range corpusLines("IU") {
		if len(f) == 1 {
			corpus = append(corpus, stripResults(f[0]))
		}
	}
	for i := -len(corpus); i < n; i++ {
		o := iuOpts{steps: 3 + rng.Intn(8), allowHolds: i%2 == 0, allowStall: prop == "C06" || i%7 == 3}
		if i < 0 {
			o = iuOpts{fixed: corpus[i+len(corpus)]}
			r.Count("corpus:IU")
		}
		sc := runUnaryScript(rng, o)
		r.Op(sc.line(), "observed")
		r.TracesOnImpl++
		r.Count("transport:inproc-unary")
		nt := unaryOracle(r, prop, sc)
		r.Eval(sc.line(), nt)
		if nt && r.Dist["unary-samples"] < 2 {
			r.Dist["unary-samples"]++
			r.Sample(sc.desc())
		}
	}
}
