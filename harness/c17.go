package main

import (
	"context"
	"errors"
	"fmt"
	"net"
	"strings"

	"github.com/fullstorydev/grpchan"
	"github.com/fullstorydev/grpchan/grpchantesting"
	"google.golang.org/grpc"
	"google.golang.org/grpc/credentials/insecure"
	"google.golang.org/grpc/test/bufconn"
)

func init() { suites["C17"] = suiteC17 }

// recordingChannel is a base channel that only records calls.
type recordingChannel struct {
	log *[]string
}

func (rc *recordingChannel) Invoke(ctx context.Context, method string, args, reply interface{}, opts ...grpc.CallOption) error {
	*rc.log = append(*rc.log, sprintf("baseU(%s,opts=%d)", method, len(opts)))
	return nil
}
func (rc *recordingChannel) NewStream(ctx context.Context, desc *grpc.StreamDesc, method string, opts ...grpc.CallOption) (grpc.ClientStream, error) {
	*rc.log = append(*rc.log, sprintf("baseS(%s,opts=%d)", method, len(opts)))
	return nil, nil
}

type bufBase struct {
	cc   *grpc.ClientConn
	stop func()
}

func newBufconn(svr grpchantesting.TestServiceServer) *bufBase {
	lis := bufconn.Listen(1 << 20)
	gs := grpc.NewServer()
	grpchantesting.RegisterTestServiceServer(gs, svr)
	go gs.Serve(lis)
	cc, err := grpc.DialContext(context.Background(), "bufnet",
		grpc.WithContextDialer(func(ctx context.Context, s string) (net.Conn, error) { return lis.DialContext(ctx) }),
		grpc.WithTransportCredentials(insecure.NewCredentials()))
	if err != nil {
		panic(err)
	}
	return &bufBase{cc: cc, stop: func() { cc.Close(); gs.Stop() }}
}

var errShort = errors.New("short-circuited")

func suiteC17(r *Run) {
	r.Rule = "nesting depths 1..5, every nil/pass/short-circuit/alter-options combination per layer (unary and stream interceptor independently), base = real grpc.ClientConn over bufconn, in-process channel, HTTP channel, recording channel; one unary call and one stream creation per configuration; compared: ordered event logs incl. the class of the cc argument (root / nil / other) and the options count reaching the base. Non-trivial: depth >= 2 or a layer with a nil interceptor; distinct by (base, layers)."
	r.Assumptions = append(r.Assumptions, "grpc.ClientConn over bufconn as the standard connection")
	rng := r.Rng
	behs := []string{"-", "p", "s", "a", "d", "m", "c"} // none, pass, short-circuit, add an option, drop all options, forward under another method name, short-circuit with the bare context error

	bb := newBufconn(&scriptServer{})
	defer bb.stop()

	for iter := 0; iter < r.Budget(300, 12000); iter++ {
		depth := 1 + rng.Intn(5)
		if iter < 40 {
			depth = 1 + iter%3
		}
		baseKind := []string{"grpc", "inproc", "http", "rec", "grpcf", "recf"}[rng.Intn(6)]
		var log []string
		var base grpc.ClientConnInterface
		switch baseKind {
		case "grpc":
			base = bb.cc
		case "grpcf":
			// a wrapper of the user's own (any WrappedClientConn) around the standard connection: still found at the bottom
			base = &foreignWrap{bb.cc}
		case "recf":
			base = &foreignWrap{&recordingChannel{log: &log}}
		case "inproc":
			base = newInproc(&scriptServer{})
		case "http":
			base = newHTTPMem(&scriptServer{}).ch
		case "rec":
			base = &recordingChannel{log: &log}
		}
		ccClass := func(cc *grpc.ClientConn) string {
			switch {
			case cc == nil:
				return "nil"
			case cc == bb.cc:
				return "root"
			default:
				return "other"
			}
		}
		// layers[0] is the innermost wrapper
		type layer struct{ u, s string }
		layers := make([]layer, depth)
		ch := base
		var wrappers []grpc.ClientConnInterface
		for i := 0; i < depth; i++ {
			l := layer{behs[rng.Intn(7)], behs[rng.Intn(7)]}
			if rng.Chance(50) {
				l = layer{"p", "p"}
			}
			if baseKind != "rec" && baseKind != "recf" {
				// the real channels would answer a renamed method with "unimplemented"; only the recording base takes any name
				if l.u == "m" {
					l.u = "p"
				}
				if l.s == "m" {
					l.s = "p"
				}
			}
			layers[i] = l
			idx := i
			var ui grpc.UnaryClientInterceptor
			var si grpc.StreamClientInterceptor
			if l.u != "-" {
				beh := l.u
				ui = func(ctx context.Context, method string, req, reply interface{}, cc *grpc.ClientConn, invoker grpc.UnaryInvoker, opts ...grpc.CallOption) error {
					log = append(log, sprintf("intU(%d,cc=%s,%s,opts=%d)", idx, ccClass(cc), method, len(opts)))
					switch beh {
					case "s":
						return errShort
					case "c":
						return context.Canceled
					case "a":
						opts = append(opts, grpc.WaitForReady(false))
					case "d":
						opts = nil
					case "m":
						method += "~"
					}
					return invoker(ctx, method, req, reply, cc, opts...)
				}
			}
			if l.s != "-" {
				beh := l.s
				si = func(ctx context.Context, desc *grpc.StreamDesc, cc *grpc.ClientConn, method string, streamer grpc.Streamer, opts ...grpc.CallOption) (grpc.ClientStream, error) {
					log = append(log, sprintf("intS(%d,cc=%s,%s,opts=%d)", idx, ccClass(cc), method, len(opts)))
					switch beh {
					case "s":
						return nil, errShort
					case "c":
						return nil, context.Canceled
					case "a":
						opts = append(opts, grpc.WaitForReady(false))
					case "d":
						opts = nil
					case "m":
						method += "~"
					}
					return streamer(ctx, desc, cc, method, opts...)
				}
			}
			prev := ch
			ch = grpchan.InterceptClientConn(ch, ui, si)
			wrappers = append(wrappers, ch)
			c := map[string]interface{}{"base": baseKind, "layer": i, "u": l.u, "s": l.s}
			if l.u == "-" && l.s == "-" {
				if ch != prev {
					r.Violate("client-intercept/no-interceptors-not-identity", "with no interceptors the original channel is returned", "InterceptClientConn(ch, nil, nil) != ch", c, "")
				}
			} else {
				w, ok := ch.(grpchan.WrappedClientConn)
				if !ok || w.Unwrap() != prev {
					r.Violate("client-intercept/unwrap-wrong", "otherwise unwrapping yields the wrapped channel", sprintf("Unwrap() returned %v", ok), c, "")
				}
			}
		}
		var lspec []string
		for _, l := range layers {
			lspec = append(lspec, l.u+l.s)
		}
		caseDesc := map[string]interface{}{"base": baseKind, "layers_inner_to_outer": strings.Join(lspec, ",")}

		for _, kind := range []string{"unary", "stream"} {
			log = log[:0]
			ctx, cancel := context.WithCancel(context.Background())
			var err error
			// the caller's own options: what reaches the next layer is what the interceptor forwards, nothing else
			ncopts := rng.Intn(3)
			var copts []grpc.CallOption
			for k := 0; k < ncopts; k++ {
				copts = append(copts, grpc.WaitForReady(true))
			}
			// the recording base takes any name: also one without the leading slash (legal for a ClientConnInterface)
			noSlash := (baseKind == "rec" || baseKind == "recf") && rng.Chance(35)
			mU, mB := mUnary, mBidi
			if noSlash {
				mU, mB = mUnary[1:], mBidi[1:]
			}
			if kind == "unary" {
				err = ch.Invoke(ctx, mU, &Msg{}, &Msg{}, copts...)
			} else {
				var cs grpc.ClientStream
				cs, err = ch.NewStream(ctx, descBidi, mB, copts...)
				if cs != nil {
					cs.CloseSend()
				}
			}
			cancel()
			res := "ok"
			if err == errShort || err == context.Canceled {
				res = "short" // the interceptor's own error value, handed back as it is
			} else if err != nil {
				res = "err"
			}
			// keep interceptor events and recording-base events only
			ans := strings.Join(log, " ") + " =>" + res
			r.Op(sprintf("C17 %s base=%s layers=%s copts=%d slash=%s", kind, baseKind, strings.Join(lspec, ","), ncopts, b01(!noSlash)), ans)
			r.Eval(fmt.Sprint(kind, baseKind, lspec), depth >= 2 || strings.Contains(strings.Join(lspec, ","), "-"))
			r.Count("base:" + baseKind)
			r.TracesOnImpl++
			// oracle: each applicable layer exactly once, outermost first, until a short-circuit; cc = root iff base is grpc
			var want []int
			for i := depth - 1; i >= 0; i-- {
				b := layers[i].u
				if kind == "stream" {
					b = layers[i].s
				}
				if b == "-" {
					continue
				}
				want = append(want, i)
				if b == "s" || b == "c" {
					break
				}
			}
			var got []int
			wantCC := "nil"
			if baseKind == "grpc" || baseKind == "grpcf" {
				wantCC = "root"
			}
			for _, e := range log {
				if !strings.HasPrefix(e, "int") {
					continue
				}
				var idx int
				fmt.Sscanf(e[5:], "%d", &idx)
				got = append(got, idx)
				if !strings.Contains(e, "cc="+wantCC+",") {
					sig := "client-intercept/cc-argument-wrong-" + kind
					r.Violate(sig, "the connection argument given to interceptors is the underlying standard gRPC connection when there is one at any wrapping depth and nil otherwise",
						sprintf("%s call, base %s, layers (inner to outer) %v: event %s (expected cc=%s)", kind, baseKind, lspec, e, wantCC), caseDesc, e)
				}
			}
			// method name and options: every layer (and finally the wrapped channel) receives exactly what the layer above forwarded
			cur, stopped := ncopts, false
			curM := mU
			if kind == "stream" {
				curM = mB
			}
			var wantOpts []string
			for i := depth - 1; i >= 0 && !stopped; i-- {
				b := layers[i].u
				if kind == "stream" {
					b = layers[i].s
				}
				if b == "-" {
					continue
				}
				wantOpts = append(wantOpts, sprintf("%s,opts=%d)", curM, cur))
				switch b {
				case "s", "c":
					stopped = true
				case "a":
					cur++
				case "d":
					cur = 0
				case "m":
					curM += "~"
				}
			}
			if !stopped && (baseKind == "rec" || baseKind == "recf") {
				wantOpts = append(wantOpts, sprintf("%s,opts=%d)", curM, cur))
			}
			var gotOpts []string
			for _, e := range log {
				if k := strings.Index(e, "grpchantesting"); k >= 0 {
					if k > 0 && e[k-1] == '/' {
						k--
					}
					gotOpts = append(gotOpts, e[k:])
				}
			}
			if fmt.Sprint(gotOpts) != fmt.Sprint(wantOpts) {
				sig, what := "client-intercept/options-not-as-forwarded", "option counts"
				strip := func(xs []string) (o []string) {
					for _, x := range xs {
						o = append(o, x[strings.LastIndex(x, "opts="):])
					}
					return
				}
				if fmt.Sprint(strip(gotOpts)) == fmt.Sprint(strip(wantOpts)) {
					sig, what = "client-intercept/method-not-as-forwarded", "method names"
				}
				r.Violate(sig, "the continuation passed to an interceptor reaches the next layer exactly as the interceptor calls it: method name and options passed through unchanged",
					sprintf("%s call with %d caller options, layers (inner to outer) %v: %s seen %v, expected %v", kind, ncopts, lspec, what, gotOpts, wantOpts), caseDesc, ans)
			}
			// results: what the outermost short-circuiting interceptor returned is what the caller gets — the same value
			wantErr := error(nil)
			for i := depth - 1; i >= 0; i-- {
				b := layers[i].u
				if kind == "stream" {
					b = layers[i].s
				}
				if b == "s" {
					wantErr = errShort
					break
				} else if b == "c" {
					wantErr = context.Canceled
					break
				}
			}
			if wantErr != nil && err != wantErr {
				r.Violate("client-intercept/result-not-passed-through-"+kind, "with the method name, messages, options and results passed through unchanged",
					sprintf("%s call, layers (inner to outer) %v: the interceptor returned the error value %q; the caller got %T %q", kind, lspec, wantErr, err, fmt.Sprint(err)), caseDesc, ans)
			}
			if fmt.Sprint(got) != fmt.Sprint(want) {
				r.Violate("client-intercept/wrong-order-or-count", "routes each call through the interceptor exactly once, outermost wrapper first; kinds without an interceptor go straight to the wrapped channel",
					sprintf("%s call: interceptors ran in order %v, expected %v", kind, got, want), caseDesc, ans)
			}
		}
		if len(r.Samples) < 4 && depth >= 2 {
			r.Sample(map[string]interface{}{"case": caseDesc, "last_log": strings.Join(log, " ")})
		}
	}
}


// foreignWrap: a WrappedClientConn that is not grpchan's own wrapper type.
type foreignWrap struct{ inner grpc.ClientConnInterface }

func (f *foreignWrap) Invoke(ctx context.Context, method string, args, reply interface{}, opts ...grpc.CallOption) error {
	return f.inner.Invoke(ctx, method, args, reply, opts...)
}
func (f *foreignWrap) NewStream(ctx context.Context, desc *grpc.StreamDesc, method string, opts ...grpc.CallOption) (grpc.ClientStream, error) {
	return f.inner.NewStream(ctx, desc, method, opts...)
}
func (f *foreignWrap) Unwrap() grpc.ClientConnInterface { return f.inner }
