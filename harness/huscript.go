//go:build verif

package main

// HU scripts: one unary call over HTTP, end to end and deterministic. The handler runs a list of
// grpc.SetHeader / SendHeader / SetTrailer calls and returns a response (encodable or not) or an
// error; the real Channel.Invoke (with grpc.Header / grpc.Trailer options) talks to the real Server
// through the in-memory transport. The Lean model HttpUnary must reproduce every result, the caller's
// outcome and both metadata targets.

import (
	"context"
	"strconv"
	"strings"

	"github.com/fullstorydev/grpchan/httpgrpc"
	"google.golang.org/grpc"
	"google.golang.org/grpc/metadata"
)

type huScript struct {
	ops     []string
	ret     string
	results []string
	client  string
	hdr     string
	tlr     string
}

func (sc *huScript) line() string {
	return sprintf("HU ops=%s ret=%s", dashIfEmpty(strings.Join(sc.ops, ";")), sc.ret)
}
func (sc *huScript) answer() string {
	return sprintf("res=%s client=%s hdr=%s tlr=%s", dashIfEmpty(strings.Join(sc.results, ",")), sc.client, dashIfEmpty(sc.hdr), dashIfEmpty(sc.tlr))
}
func (sc *huScript) desc() map[string]interface{} {
	return map[string]interface{}{"side": "http-unary", "handler_ops": strings.Join(sc.ops, ";"), "handler_returns": sc.ret,
		"results": strings.Join(sc.results, ","), "caller_sees": sc.client, "header_target": sc.hdr, "trailer_target": sc.tlr}
}

func runHUScript(ops []string, ret string) *huScript {
	sc := &huScript{ops: ops, ret: ret}
	handler := func(srv interface{}, ctx context.Context, dec func(interface{}) error, _ grpc.UnaryServerInterceptor) (interface{}, error) {
		var in Msg
		if err := dec(&in); err != nil {
			return nil, err
		}
		for _, op := range ops {
			i := strings.Index(op, ":")
			id, _ := strconv.Atoi(op[i+1:])
			var err error
			switch op[:i] {
			case "sethdr":
				err = grpc.SetHeader(ctx, scriptMD(id))
			case "sendhdr":
				err = grpc.SendHeader(ctx, scriptMD(id))
			case "settlr":
				err = grpc.SetTrailer(ctx, scriptMD(id))
			case "sethdrx":
				// header metadata under the name the protocol itself uses for the status of a unary reply
				err = grpc.SetHeader(ctx, metadata.Pairs("x-grpc-status", strconv.Itoa(id)+":spoof"))
			}
			if err != nil {
				sc.results = append(sc.results, "plain") // (grpc wraps the failure in its own status: only ok/failed is compared)
			} else {
				sc.results = append(sc.results, "ok")
			}
		}
		switch {
		case strings.HasPrefix(ret, "resp:"):
			parts := strings.Split(ret, ":")
			id, _ := strconv.Atoi(parts[1])
			if parts[2] == "1" {
				return &Msg{Count: int32(id)}, nil
			}
			return &hsNotProto{A: id}, nil
		default:
			return nil, hsRetErr(strings.TrimPrefix(ret, "err:"))
		}
	}
	sd := &grpc.ServiceDesc{ServiceName: "s.S", HandlerType: (*synthHandler)(nil), Methods: []grpc.MethodDesc{{MethodName: "U", Handler: handler}}}
	hs := httpgrpc.NewServer()
	hs.RegisterService(sd, synthImpl{})
	ch := newHTTPMemGeneric(hs).ch
	var out Msg
	var h, t metadata.MD
	err := ch.Invoke(context.Background(), "/s.S/U", &Msg{}, &out, grpc.Header(&h), grpc.Trailer(&t))
	if err != nil {
		sc.client = hcRes(err)
	} else {
		sc.client = "msg:" + strconv.Itoa(int(out.Count))
	}
	sc.hdr, sc.tlr = idsOf(h), idsOf(t)
	return sc
}

func genHUScript(rng *Rng) ([]string, string) {
	var ops []string
	n := rng.Intn(7)
	for i := 0; i < n; i++ {
		id := strconv.Itoa(i + 1)
		switch c := rng.Intn(10); {
		case c < 4:
			ops = append(ops, "sethdr:"+id)
		case c < 6:
			ops = append(ops, "sendhdr:"+id)
		default:
			ops = append(ops, "settlr:"+id)
		}
		if rng.Chance(6) {
			ops = append(ops, "sethdrx:"+strconv.Itoa([]int{0, 5, 7, 99}[rng.Intn(4)]))
		}
	}
	rets := []string{"resp:7:1", "resp:7:1", "resp:0:1", "resp:8:0", "err:plain", "err:ctx:canceled", "err:ctx:deadline", "err:status:0",
		"err:status:" + strconv.Itoa(1+rng.Intn(16)), "err:status:" + strconv.Itoa(17+rng.Intn(80))}
	return ops, rets[rng.Intn(len(rets))]
}

func huSuite(r *Run, prop string) {
	rng := r.Rng.Fork("hu")
	for i := 0; i < r.Budget(200, 4000); i++ {
		ops, ret := genHUScript(rng)
		r.Begin("http-unary/process-crash", "no panic", map[string]interface{}{"handler_ops": strings.Join(ops, ";"), "handler_returns": ret})
		sc := runHUScript(ops, ret)
		r.Op(sc.line(), sc.answer())
		r.Count("transport:http-unary")
		desc, line := sc.desc(), sc.line()
		var okH, tl []string
		spoofed := false
		for j, op := range sc.ops {
			k := strings.Index(op, ":")
			if op[:k] == "settlr" {
				tl = append(tl, op[k+1:])
			} else if op[:k] == "sethdrx" {
				spoofed = spoofed || (j < len(sc.results) && sc.results[j] == "ok")
			} else if j < len(sc.results) && sc.results[j] == "ok" {
				okH = append(okH, op[k+1:])
			}
		}
		r.Eval(line, len(okH)+len(tl) > 0 || strings.HasPrefix(ret, "err"))
		switch prop {
		case "C03":
			if sc.hdr != strings.Join(okH, "+") || sc.tlr != strings.Join(tl, "+") {
				r.Violate("http-unary/metadata-targets-differ", "response headers and trailers arrive complete, unaltered … on success and on failure alike", sprintf("handler set headers [%s] trailers [%s]; the caller's targets hold [%s] / [%s] (outcome %s)", strings.Join(okH, "+"), strings.Join(tl, "+"), sc.hdr, sc.tlr, sc.client), desc, line)
			}
		case "C02", "C14":
			if spoofed && strings.HasPrefix(ret, "resp:") {
				// (a genuine defect, recorded: the check for it has its own signature so that it cannot mask anything else)
				if strings.HasPrefix(sc.client, "status:") {
					r.Violate("http-unary/handler-metadata-spoofs-status", "the outcome reported to the client equals the status the server handler returned", sprintf("handler returned %s after setting header metadata under x-grpc-status; Invoke reported %s", ret, sc.client), desc, line)
				}
				break
			}
			want := map[string]string{"err:plain": "status:2", "err:ctx:canceled": "status:1", "err:ctx:deadline": "status:4", "err:status:0": "status:13", "resp:7:1": "msg:7", "resp:0:1": "msg:0"}[ret]
			if want == "" && strings.HasPrefix(ret, "err:status:") {
				want = "status:" + strings.TrimPrefix(ret, "err:status:")
			}
			if want != "" && sc.client != want {
				r.Violate("http-unary/outcome-differs", "the outcome reported to the client equals the status the server handler returned", sprintf("handler returned %s, Invoke reported %s", ret, sc.client), desc, line)
			}
			if strings.HasPrefix(sc.client, "msg:") && !strings.HasPrefix(ret, "resp:") {
				r.Violate("http-unary/success-despite-error", "success only if the handler returned nil", sprintf("handler returned %s, Invoke reported %s", ret, sc.client), desc, line)
			}
		}
	}
}
