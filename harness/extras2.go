package main

import (
	"context"
	"runtime"
	"time"

	"github.com/fullstorydev/grpchan/grpchantesting"
	"google.golang.org/grpc"
)

func extraC03(r *Run) {}

// recvOnly's single use of the stream is the blocking RecvMsg itself: while it blocks, nothing else
// in the program refers to the stream value the channel handed out.
func recvOnly(cs grpc.ClientStream, out chan<- string) {
	var m Msg
	err := cs.RecvMsg(&m)
	if err != nil {
		out <- resOf(err)
		return
	}
	out <- "msg"
}

// extraC04: a call whose context is NOT done must never be reported as Canceled. The HTTP channel
// attaches a cancelling finalizer to the stream object it returns; a garbage collection during a
// blocking RecvMsg that is the caller's last use of the stream must not cancel the call.
func extraC04(r *Run) {
	for _, tp := range bothTransports() {
		for i := 0; i < r.Budget(3, 20); i++ {
			release := make(chan struct{})
			svr := &scriptServer{}
			svr.sstream = func(req *Msg, s grpchantesting.TestService_ServerStreamServer) error {
				<-release
				return s.Send(&Msg{Count: 9})
			}
			ch, stop := tp.mk(svr)
			out := make(chan string, 1)
			func() {
				cs, err := ch.NewStream(context.Background(), descSStream, mSStream)
				if err != nil {
					out <- resOf(err)
					return
				}
				cs.SendMsg(&Msg{})
				cs.CloseSend()
				go recvOnly(cs, out)
			}()
			time.Sleep(5 * time.Millisecond)
			for k := 0; k < 3; k++ {
				runtime.GC()
				time.Sleep(2 * time.Millisecond)
			}
			close(release)
			res := ""
			select {
			case res = <-out:
			case <-time.After(3 * time.Second):
				res = "blocked"
			}
			stop()
			r.Eval(sprintf("gc-during-recv %s %d", tp.name, i), true)
			r.Count("gc-during-recv:" + tp.name)
			if res != "msg" {
				r.Violate(tp.name+"/stream/spurious-cancel-by-finalizer", "a call whose context is not done is never reported as Canceled: the caller gets the real result (also C02: the outcome equals the handler's)",
					sprintf("a garbage collection during a blocking RecvMsg (the caller's last use of the stream) made it return %s instead of the message the handler sent", res),
					map[string]interface{}{"transport": tp.name, "kind": "sstream", "script": "NewStream; SendMsg; CloseSend; go RecvMsg (blocking, last use); runtime.GC() x3; handler sends"}, res)
			}
		}
	}
}
