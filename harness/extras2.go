package main

import (
	"sort"
	"context"
	"encoding/hex"
	"fmt"
	"io"
	"net/http"
	"net/http/httptest"
	"net/url"
	"runtime"
	"sync"
	"time"

	"strings"

	"github.com/fullstorydev/grpchan/httpgrpc"
	"github.com/fullstorydev/grpchan/inprocgrpc"
	"google.golang.org/grpc/codes"
	"google.golang.org/grpc/metadata"
	"google.golang.org/grpc/status"

	"github.com/fullstorydev/grpchan/grpchantesting"
	"google.golang.org/grpc"
)

// ---------------------------------------------------------------------------
// C03: metadata maps end to end, and the header codec against the Lean model

func randKey(rng *Rng, bin bool) string {
	alpha := "abcdefghijklmnopqrstuvwxyz0123456789-_."
	n := 1 + rng.Intn(8)
	b := make([]byte, n)
	for i := range b {
		b[i] = alpha[rng.Intn(len(alpha))]
	}
	k := "x" + string(b) // never a reserved or grpc- key
	if bin {
		k += "-bin"
	}
	return k
}

func randPrintable(rng *Rng, edgeSpace bool) string {
	n := rng.Intn(12)
	b := make([]byte, n)
	for i := range b {
		b[i] = byte(0x21 + rng.Intn(0x7e-0x21+1)) // printable ASCII without space
		if i > 0 && i < n-1 && rng.Chance(15) {
			b[i] = ' '
		}
	}
	s := string(b)
	if edgeSpace {
		s = " " + s + " "
	}
	return s
}

func randMD(rng *Rng, edgeSpace bool) metadata.MD {
	md := metadata.MD{}
	for i := 0; i < rng.Intn(5); i++ {
		bin := rng.Chance(40)
		k := randKey(rng, bin)
		for j := 0; j < 1+rng.Intn(3); j++ {
			if bin {
				v := rng.Bytes(rng.Intn(7))
				if rng.Chance(30) {
					v = append(v, 0x00, 0x0a, 0xff)
				}
				md[k] = append(md[k], string(v))
			} else {
				md[k] = append(md[k], randPrintable(rng, edgeSpace && rng.Chance(50)))
			}
		}
	}
	return md
}

// subsetMD: every key/value list of want appears unchanged in got (a transport may add keys of its own).
func subsetMD(want, got metadata.MD) (bool, string) {
	for k, vs := range want {
		g := got[k]
		if len(g) != len(vs) {
			return false, sprintf("key %q: %d values, want %d (%q vs %q)", k, len(g), len(vs), g, vs)
		}
		for i := range vs {
			if g[i] != vs[i] {
				return false, sprintf("key %q value %d: %q, want %q", k, i, g[i], vs[i])
			}
		}
	}
	return true, ""
}

func mdHex(md metadata.MD) string { return canonMD(md) }

func extraC03(r *Run) {
	rng := r.Rng.Fork("extraC03")
	// (1) unit: base64 / toHeaders / asMetadata against the Lean model
	for i := 0; i < r.Budget(150, 4000); i++ {
		v := rng.Bytes(rng.Intn(9))
		if rng.Chance(20) {
			v = append(v, 0x00, 0x0a, 0xff)
		}
		h := http.Header{}
		httpgrpc.VerifToHeaders(metadata.MD{"k-bin": []string{string(v)}}, h, "")
		enc := h.Get("k-bin")
		r.Op(sprintf("C03 b64enc %s", hexOrDash(v)), hexOrDash([]byte(enc)))
		md, err := httpgrpc.VerifAsMetadata(http.Header{"K-Bin": []string{enc}})
		ans := "error"
		if err == nil {
			ans = hexOrDash([]byte(md["k-bin"][0]))
		}
		r.Op(sprintf("C03 b64dec %s", hexOrDash([]byte(enc))), ans)
		r.Eval(sprintf("b64 %x", v), len(v)%3 != 0)
		r.Count("unit:b64")
		if err != nil || md["k-bin"][0] != string(v) {
			r.Violate("http/metadata/bin-not-byte-exact", "'-bin' values byte-exact", sprintf("value %x came back as %q (err %v)", v, md["k-bin"], err), map[string]interface{}{"op": "unit-b64", "value_hex": hexOrDash(v)}, ans)
		}
		// malformed base64 must be an error, never a fabricated value
		if rng.Chance(20) {
			bad := enc + "*"
			_, err := httpgrpc.VerifAsMetadata(http.Header{"K-Bin": []string{bad}})
			a := "ok"
			if err != nil {
				a = "error"
			}
			r.Op(sprintf("C03 b64dec %s", hexOrDash([]byte(bad))), map[string]string{"ok": "accepted", "error": "error"}[a])
		}
	}
	// (1b) unit: the one header block of a unary reply — headers under their own keys, trailers under the prefix —
	// taken apart again by the client (real toHeaders x2 + setMetadata against the Lean model TrailerSplit)
	splitKeys := []string{"a", "b-key", "x", "x-grpc-trailer", "x-grpc-trailer-", "x-grpc-trailer-a", "x-grpc-trailer-zz", "trailer-a", "zz"}
	for i := 0; i < r.Budget(120, 3000); i++ {
		nextID := 1
		mk := func(allowPrefixed bool) metadata.MD {
			md := metadata.MD{}
			for j := 0; j < rng.Intn(4); j++ {
				k := splitKeys[rng.Intn(len(splitKeys))]
				if !allowPrefixed && (strings.HasPrefix(k, "x-grpc-trailer-") || rng.Chance(0)) {
					k = splitKeys[rng.Intn(3)]
				}
				if _, dup := md[k]; dup {
					continue
				}
				for v := 0; v < 1+rng.Intn(3); v++ {
					md[k] = append(md[k], sprintf("%d", nextID))
					nextID++
				}
			}
			return md
		}
		spoofy := rng.Chance(30)
		hMD, tMD := mk(spoofy), mk(true)
		delete(tMD, "x-grpc-trailer-") // (as a trailer key this one is fine; kept out only to keep the op line small)
		hdr := http.Header{}
		httpgrpc.VerifToHeaders(hMD, hdr, "")
		httpgrpc.VerifToHeaders(tMD, hdr, "X-GRPC-Trailer-")
		var gotH, gotT metadata.MD
		err := httpgrpc.VerifSetMetadata(hdr, []*metadata.MD{&gotH}, []*metadata.MD{&gotT})
		enc := func(md metadata.MD) string {
			if len(md) == 0 {
				return "-"
			}
			var parts []string
			for k, vs := range md {
				parts = append(parts, hex.EncodeToString([]byte(k))+":"+strings.Join(vs, ","))
			}
			sort.Strings(parts)
			return strings.Join(parts, ";")
		}
		ans := "error"
		if err == nil {
			ans = "h=" + enc(gotH) + " t=" + enc(gotT)
		}
		r.Op(sprintf("C03 split h=%s t=%s", enc(hMD), enc(tMD)), ans)
		r.Eval(sprintf("split %s %s", enc(hMD), enc(tMD)), len(hMD)+len(tMD) > 0)
		r.Count("unit:unary-trailer-split")
		if !spoofy && (err != nil || enc(gotH) != enc(hMD) || enc(gotT) != enc(tMD)) {
			r.Violate("http/metadata/unary-trailer-split-wrong", "every header and trailer pair the handler sets is visible to the caller through … every grpc.Header/grpc.Trailer call option supplied",
				sprintf("handler headers %s, trailers %s: the caller's header target holds %s, its trailer target %s (err %v)", enc(hMD), enc(tMD), enc(gotH), enc(gotT), err),
				map[string]interface{}{"op": "unary-trailer-split", "headers": enc(hMD), "trailers": enc(tMD)}, ans)
		}
	}
	// (2) end to end: outgoing metadata -> handler; handler headers/trailers -> caller (all call options)
	tps := append(bothTransports(), transportUnderTest{"httpnet", func(svr *scriptServer) (grpc.ClientConnInterface, func()) {
		// a real net/http server and transport on the loopback interface: header lines really go over the wire
		hs := httpgrpc.NewServer()
		grpchantesting.RegisterTestServiceServer(hs, svr)
		ts := httptest.NewServer(hs)
		u, _ := url.Parse(ts.URL)
		return &httpgrpc.Channel{Transport: ts.Client().Transport, BaseURL: u}, ts.Close
	}})
	for _, tp := range tps {
		for i := 0; i < r.Budget(40, 1500); i++ {
			kind := []string{"unary", "sstream", "cstream", "bidi"}[i%4]
			edge := (i/4)%5 == 4 // values with leading/trailing spaces (printable ASCII, known HTTP finding), every kind
			reqMD, hdrMD, tlrMD := randMD(rng, edge), randMD(rng, edge), randMD(rng, edge)
			fail := rng.Chance(25)
			var seen metadata.MD
			var smu sync.Mutex
			svr := &scriptServer{}
			work := func(ctx context.Context) error {
				md, _ := metadata.FromIncomingContext(ctx)
				smu.Lock()
				seen = md.Copy()
				smu.Unlock()
				// headers in two steps, trailers in two steps (multi-valued keys keep all values in order)
				h1, h2 := splitMD(hdrMD)
				t1, t2 := splitMD(tlrMD)
				grpc.SetHeader(ctx, h1)
				grpc.SetHeader(ctx, h2)
				grpc.SetTrailer(ctx, t1)
				grpc.SetTrailer(ctx, t2)
				// the handler re-uses its metadata objects afterwards: what it has set must not change with them
				for _, m := range []metadata.MD{h1, h2, t1, t2} {
					for k := range m {
						m[k] = append(m[k], "mutated-after-set")
					}
					m["xlate"] = []string{"added-after-set"}
				}
				if fail {
					return status.Error(codes.Aborted, "scripted failure")
				}
				return nil
			}
			svr.unary = func(ctx context.Context, req *Msg) (*Msg, error) { return &Msg{Count: 1}, work(ctx) }
			svr.sstream = func(req *Msg, s grpchantesting.TestService_ServerStreamServer) error {
				if err := work(s.Context()); err != nil {
					return err
				}
				return s.Send(&Msg{Count: 1})
			}
			svr.cstream = func(s grpchantesting.TestService_ClientStreamServer) error {
				for {
					if _, err := s.Recv(); err != nil {
						break
					}
				}
				if err := work(s.Context()); err != nil {
					return err
				}
				return s.SendAndClose(&Msg{Count: 1})
			}
			svr.bidi = func(s grpchantesting.TestService_BidiStreamServer) error {
				for {
					if _, err := s.Recv(); err != nil {
						break
					}
				}
				if err := work(s.Context()); err != nil {
					return err
				}
				return s.Send(&Msg{Count: 1})
			}
			ch, stop := tp.mk(svr)
			// the caller attaches its metadata the two ways the API offers: a map (NewOutgoingContext) and appended pairs
			ctx := context.Background()
			baseMD := metadata.MD{}
			var appended []string
			var rkeys []string
			for k := range reqMD {
				rkeys = append(rkeys, k)
			}
			sort.Strings(rkeys)
			for i, k := range rkeys {
				if i%2 == 0 {
					baseMD[k] = reqMD[k]
				} else {
					for _, v := range reqMD[k] {
						appended = append(appended, k, v)
					}
				}
			}
			if len(baseMD) > 0 || len(appended) == 0 {
				ctx = metadata.NewOutgoingContext(ctx, baseMD)
			}
			if len(appended) > 0 {
				ctx = metadata.AppendToOutgoingContext(ctx, appended...)
			}
			var h1, h2, t1, t2 metadata.MD // duplicated call options: every target is filled
			opts := []grpc.CallOption{grpc.Header(&h1), grpc.Header(&h2), grpc.Trailer(&t1), grpc.Trailer(&t2)}
			// per-RPC credentials whose keys overlap the caller's: a transport (or credential) may add
			// values, the caller's own stay, in order, in front
			var credMD map[string]string
			credsDesc := "-"
			if (i/4)%3 == 1 {
				cm := map[string]string{"cred-own": "c0"}
				for _, k := range rkeys {
					if !strings.HasSuffix(k, "-bin") {
						cm[k] = "from-credential"
						break
					}
				}
				credMD = cm
				credsDesc = fmt.Sprint(cm)
				opts = append(opts, grpc.PerRPCCredentials(&testCreds{md: cm}))
			}
			var callErr error
			var strHdr, strTlr metadata.MD
			isStream := kind != "unary"
			if !isStream {
				callErr = ch.Invoke(ctx, mUnary, &Msg{}, &Msg{}, opts...)
			} else {
				desc, name := descSStream, mSStream
				switch kind {
				case "cstream":
					desc, name = descCStream, mCStream
				case "bidi":
					desc, name = descBidi, mBidi
				}
				cs, err := ch.NewStream(ctx, desc, name, opts...)
				if err != nil {
					callErr = err
				} else {
					cs.SendMsg(&Msg{})
					cs.CloseSend()
					for {
						var m Msg
						if err := cs.RecvMsg(&m); err != nil {
							if err != io.EOF {
								callErr = err
							}
							break
						}
						if kind == "cstream" {
							break
						}
					}
					strHdr, _ = cs.Header()
					strTlr = cs.Trailer()
				}
			}
			stop()
			c := map[string]interface{}{"transport": tp.name, "kind": kind, "handler_fails": fail, "edge_whitespace": edge,
				"request_md": mdHex(reqMD), "headers": mdHex(hdrMD), "trailers": mdHex(tlrMD), "per_rpc_credentials": credsDesc}
			r.Eval(fmt.Sprint("md-e2e", tp.name, kind, i), len(reqMD)+len(hdrMD)+len(tlrMD) > 0)
			r.Count("md-e2e:" + tp.name + ":" + kind)
			r.TracesOnImpl++
			if (callErr != nil) != fail {
				r.Violate(tp.name+"/metadata/call-outcome", "the call outcome is the handler's", sprintf("handler fails=%v, call error %v", fail, callErr), c, canonErr(callErr))
				continue
			}
			suffix := ""
			if edge {
				suffix = "/edge-whitespace"
			}
			smu.Lock()
			// what the credential contributed (C13's business) is set aside: one trailing value per credential key
			for k, v := range credMD {
				if vs := seen[k]; len(vs) > 0 && vs[len(vs)-1] == v {
					seen[k] = vs[:len(vs)-1]
				}
			}
			if ok, why := subsetMD(reqMD, seen); !ok {
				r.Violate(tp.name+"/metadata/request-altered"+suffix, "every key/value pair the caller attaches as outgoing metadata is visible to the handler, multi-valued keys keeping all values in order and '-bin' values byte-exact", why, c, mdHex(seen))
			}
			smu.Unlock()
			check := func(what string, want metadata.MD, gots ...metadata.MD) {
				for gi, g := range gots {
					if len(g["xlate"]) > 0 {
						r.Violate(tp.name+"/metadata/"+what+"-aliases-handler-map"+suffix, "every header and trailer pair the handler sets is visible to the caller unaltered (the library keeps its own copy: later changes to the handler's metadata object are not part of what was set)", sprintf("%s target %d contains a key the handler added to its map only after calling Set%s", what, gi, what), c, mdHex(g))
						return
					}
					if ok, why := subsetMD(want, g); !ok {
						r.Violate(tp.name+"/metadata/"+what+"-altered"+suffix, "every header and trailer pair the handler sets is visible to the caller through Header()/Trailer() and through every grpc.Header/grpc.Trailer call option supplied", sprintf("%s target %d: %s", what, gi, why), c, mdHex(g))
						return
					}
				}
			}
			if isStream {
				check("header", hdrMD, h1, h2, strHdr)
				check("trailer", tlrMD, t1, t2, strTlr)
			} else {
				check("header", hdrMD, h1, h2)
				check("trailer", tlrMD, t1, t2)
			}
		}
	}
}

// splitMD splits a metadata map into two maps that share keys: the first value(s) of every key in
// the first, the rest in the second.
func splitMD(md metadata.MD) (metadata.MD, metadata.MD) {
	a, b := metadata.MD{}, metadata.MD{}
	for k, vs := range md {
		n := (len(vs) + 1) / 2
		a[k] = append([]string(nil), vs[:n]...)
		if n < len(vs) {
			b[k] = append([]string(nil), vs[n:]...)
		}
	}
	return a, b
}

// recvOnly's single use of the stream is the blocking RecvMsg itself: while it blocks, nothing else
// in the program refers to the stream value the channel handed out.
func recvOnly(cs grpc.ClientStream, out chan<- string) {
	var m Msg
	err := cs.RecvMsg(&m)
	if err != nil {
		out <- resOf(err)
		return
	}
	out <- "msg"
}

// extraC04: a call whose context is NOT done must never be reported as Canceled. The HTTP channel
// attaches a cancelling finalizer to the stream object it returns; a garbage collection during a
// blocking RecvMsg that is the caller's last use of the stream must not cancel the call.
// shortTimeoutTransport forwards a smaller GRPC-Timeout than the caller's deadline implies, so that the
// server-side timer fires while the caller's context is still live.
type shortTimeoutTransport struct {
	inner http.RoundTripper
	value string
}

func (t shortTimeoutTransport) RoundTrip(req *http.Request) (*http.Response, error) {
	req = req.Clone(req.Context())
	req.Header.Set("GRPC-Timeout", t.value)
	return t.inner.RoundTrip(req)
}

// serverSideDeadline: the deadline carried by GRPC-Timeout expires on the server first; a handler that
// honours its context returns the context error; the caller (whose own context is still live) must see
// a DeadlineExceeded status — not a truncated stream.
func serverSideDeadline(r *Run) {
	for i := 0; i < r.Budget(4, 40); i++ {
		kind := []string{"sstream", "bidi", "unary", "cstream"}[i%4]
		svr := &scriptServer{}
		wait := func(ctx context.Context) error {
			select {
			case <-ctx.Done():
				return ctx.Err()
			case <-time.After(5 * time.Second):
				return nil
			}
		}
		svr.unary = func(ctx context.Context, req *Msg) (*Msg, error) { return &Msg{}, wait(ctx) }
		svr.sstream = func(req *Msg, s grpchantesting.TestService_ServerStreamServer) error {
			s.Send(&Msg{Count: 1})
			return wait(s.Context())
		}
		svr.bidi = func(s grpchantesting.TestService_BidiStreamServer) error { return wait(s.Context()) }
		svr.cstream = func(s grpchantesting.TestService_ClientStreamServer) error { return wait(s.Context()) }
		hm := newHTTPMem(svr)
		hm.ch.Transport = shortTimeoutTransport{inner: hm.tr, value: "30m"}
		ctx, cancel := context.WithTimeout(context.Background(), 10*time.Second)
		var err error
		switch kind {
		case "unary":
			err = hm.ch.Invoke(ctx, mUnary, &Msg{}, &Msg{})
		default:
			desc, name := descSStream, mSStream
			if kind == "bidi" {
				desc, name = descBidi, mBidi
			} else if kind == "cstream" {
				desc, name = descCStream, mCStream
			}
			var cs grpc.ClientStream
			cs, err = hm.ch.NewStream(ctx, desc, name)
			if err == nil {
				cs.SendMsg(&Msg{})
				cs.CloseSend()
				for {
					var m Msg
					if err = cs.RecvMsg(&m); err != nil {
						break
					}
				}
			}
		}
		cancel()
		r.Eval(sprintf("server-deadline %s %d", kind, i), true)
		r.Count("server-side-deadline:" + kind)
		if status.Code(err) != codes.DeadlineExceeded {
			r.Violate("http/"+kind+"/server-deadline-not-status", "if the handler itself returns a context error, the client sees the matching Canceled/DeadlineExceeded code (never a bare io.EOF or other non-status error)",
				sprintf("the GRPC-Timeout deadline expired on the server, the handler returned its context error; the caller (context still live) saw %v", err),
				map[string]interface{}{"transport": "http", "kind": kind, "grpc_timeout": "30m", "caller_deadline": "10s"}, canonErr(err))
		}
	}
}

// unaryCancelAfterReplyHeaders: a unary HTTP call whose context ends after the reply headers have arrived, while the caller
// is still busy with them (many grpc.Header options widen that window) and the body is being read. Whatever I/O error the
// cancellation provokes, the caller must get the Canceled / DeadlineExceeded status, never a bare error.
func unaryCancelAfterReplyHeaders(r *Run) {
	gotHeaders := make(chan struct{}, 1)
	srv := httptest.NewServer(http.HandlerFunc(func(w http.ResponseWriter, req *http.Request) {
		w.Header().Set("Content-Type", httpgrpc.UnaryRpcContentType_V1)
		w.Header().Set("Content-Length", "100")
		w.Header().Set("k", "v")
		w.WriteHeader(200)
		w.(http.Flusher).Flush()
		select {
		case gotHeaders <- struct{}{}:
		default:
		}
		<-req.Context().Done()
	}))
	defer srv.Close()
	u, _ := url.Parse(srv.URL)
	hs := make([]metadata.MD, 200000)
	var opts []grpc.CallOption
	for i := range hs {
		opts = append(opts, grpc.Header(&hs[i]))
	}
	tr := &http.Transport{}
	defer tr.CloseIdleConnections()
	for i := 0; i < r.Budget(40, 300); i++ {
		select {
		case <-gotHeaders:
		default:
		}
		ch := &httpgrpc.Channel{Transport: tr, BaseURL: u}
		expire := i%2 == 1
		var ctx context.Context
		var cancel context.CancelFunc
		ctx, cancel = context.WithCancel(context.Background())
		want := "status:1"
		if expire {
			ctx, cancel = context.WithDeadline(context.Background(), time.Now().Add(time.Hour))
			want = "status:1" // (the deadline is far away: the cancel function ends it)
		}
		go func(i int) {
			<-gotHeaders
			time.Sleep(time.Duration(100+i*40) * time.Microsecond)
			cancel()
		}(i)
		err := ch.Invoke(ctx, "/s.S/U", &Msg{}, &Msg{}, opts...)
		cancel()
		got := resOf(err)
		r.Eval(fmt.Sprint("unary-cancel-after-headers", i), true)
		r.Count("unary-cancel-after-headers")
		if got != want {
			r.Violate("http/unary/cancel-after-reply-headers-not-status", "every pending and later unary call … returns promptly with a gRPC status of Canceled or DeadlineExceeded, never … a bare io.EOF or other non-status error",
				sprintf("context cancelled %d µs after the reply headers arrived, body still being read: Invoke returned %s (%v)", 100+i*40, got, err),
				map[string]interface{}{"transport": "httpnet", "kind": "unary", "op": "cancel-after-reply-headers", "delay_us": 100 + i*40, "header_options": len(opts)}, got)
		}
	}
}

// cancelReachesIdleHandlerOverTheWire (C04): a real net/http server and transport on loopback. The
// caller of a single-request method half-closes a little after the message (a separate write), the
// handler sits idle on its context, the caller cancels: the handler's context must end too.
func cancelReachesIdleHandlerOverTheWire(r *Run) {
	for i := 0; i < r.Budget(8, 48); i++ {
		// bidi-one: the handler takes one message and then sits idle without having read the request to its end
		kind := []string{"sstream", "bidi-drain", "sstream", "bidi-one"}[i%4]
		gap := []time.Duration{15 * time.Millisecond, 0, 40 * time.Millisecond}[(i/4)%3]
		started := make(chan struct{}, 1)
		ended := make(chan time.Time, 1)
		// generous where cancellation is expected within milliseconds (only waited out on failure)
		window := 5 * time.Second
		if kind == "bidi-one" {
			window = 2500 * time.Millisecond
		}
		wait := func(ctx context.Context) error {
			started <- struct{}{}
			select {
			case <-ctx.Done():
				ended <- time.Now()
				return ctx.Err()
			case <-time.After(window + 500*time.Millisecond):
				return nil
			}
		}
		svr := &scriptServer{}
		svr.sstream = func(req *Msg, ss grpchantesting.TestService_ServerStreamServer) error { return wait(ss.Context()) }
		svr.bidi = func(bs grpchantesting.TestService_BidiStreamServer) error {
			if _, err := bs.Recv(); err != nil {
				return err
			}
			for kind == "bidi-drain" {
				if _, err := bs.Recv(); err != nil {
					break
				}
			}
			return wait(bs.Context())
		}
		svr.unary = func(ctx context.Context, req *Msg) (*Msg, error) { return &Msg{}, wait(ctx) }
		hs := httpgrpc.NewServer()
		grpchantesting.RegisterTestServiceServer(hs, svr)
		ts := httptest.NewServer(hs)
		u, _ := url.Parse(ts.URL)
		tr := &http.Transport{}
		ch := &httpgrpc.Channel{Transport: tr, BaseURL: u}
		desc, name := descSStream, mSStream
		switch kind {
		case "bidi-one", "bidi-drain":
			desc, name = descBidi, mBidi
		}
		ctx, cancel := context.WithCancel(context.Background())
		res := "not-started"
		cs, err := ch.NewStream(ctx, desc, name)
		if err == nil {
			cs.SendMsg(&Msg{Count: 1, Payload: []byte("x")})
			time.Sleep(gap)
			cs.CloseSend()
			select {
			case <-started:
				time.Sleep(10 * time.Millisecond)
				t0 := time.Now()
				cancel()
				select {
				case t1 := <-ended:
					res = "cancelled"
					_ = t1.Sub(t0)
				case <-time.After(window):
					res = "handler-context-still-live"
				}
			case <-time.After(3 * time.Second):
			}
		}
		cancel()
		tr.CloseIdleConnections()
		ts.CloseClientConnections()
		ts.Close()
		r.Eval(fmt.Sprint("wire-cancel-idle-handler", kind, gap, i), true)
		r.Count("wire-cancel-idle-handler:" + kind)
		r.TracesOnImpl++
		if res == "not-started" {
			r.Count("wire-cancel-idle-handler:handler-not-started")
		} else if res != "cancelled" {
			sig := "httpnet/stream/handler-ctx-not-cancelled"
			if kind == "bidi-one" {
				sig += "/bidi-request-not-read-to-end"
			}
			r.Violate(sig, "when the caller's context is cancelled … the handler's context is cancelled as well",
				sprintf("%s over a real HTTP connection: message, half-close %v later, handler idle on its context, caller cancels: %s", kind, gap, res),
				map[string]interface{}{"transport": "httpnet", "kind": kind, "half_close_after": gap.String(), "script": "NewStream; SendMsg; sleep; CloseSend; (handler waits on ctx.Done) cancel"}, res)
		}
	}
}

// lateButCompleteUnaryReply (C04): the server-side timer (GRPC-Timeout) fires while a unary handler that ignores its
// context is still working; it then returns its response with a nil error. The caller — whose own deadline is far
// away — gets the complete real result or DeadlineExceeded, never Canceled (nobody cancelled) and never a mixture.
func lateButCompleteUnaryReply(r *Run) {
	for i := 0; i < r.Budget(4, 30); i++ {
		svr := &scriptServer{unary: func(ctx context.Context, req *Msg) (*Msg, error) {
			<-ctx.Done() // the timer has fired …
			time.Sleep(2 * time.Millisecond)
			return &Msg{Count: 77, Payload: []byte("late but complete")}, nil // … and the work is done anyway
		}}
		hm := newHTTPMem(svr)
		hm.ch.Transport = shortTimeoutTransport{inner: hm.tr, value: []string{"20m", "5m", "40m"}[i%3]}
		ctx, cancel := context.WithTimeout(context.Background(), 10*time.Second)
		out := &Msg{}
		err := hm.ch.Invoke(ctx, mUnary, &Msg{}, out)
		cancel()
		got := resOf(err)
		r.Eval(fmt.Sprint("late-complete-unary", i), true)
		r.Count("late-but-complete-unary-reply")
		r.TracesOnImpl++
		ok := (err == nil && out.Count == 77) || got == "status:4"
		if !ok {
			r.Violate("http/unary/late-complete-reply-not-result-or-deadline", "when cancellation races with completion the caller gets either the complete real result or the cancellation status (DeadlineExceeded for a deadline), never a mixture of the two",
				sprintf("server-side deadline (GRPC-Timeout) fired, the handler then returned its response with a nil error; the caller (own deadline 10 s away, never cancelled) got %s (%v), response count %d", got, err, out.Count),
				map[string]interface{}{"transport": "http", "kind": "unary", "op": "handler-returns-response-after-server-side-deadline"}, got)
		}
	}
}

func extraC04(r *Run) {
	unaryCancelAfterReplyHeaders(r)
	serverSideDeadline(r)
	lateButCompleteUnaryReply(r)
	cancelReachesIdleHandlerOverTheWire(r)
	for _, tp := range bothTransports() {
		for i := 0; i < r.Budget(3, 20); i++ {
			release := make(chan struct{})
			svr := &scriptServer{}
			svr.sstream = func(req *Msg, s grpchantesting.TestService_ServerStreamServer) error {
				<-release
				return s.Send(&Msg{Count: 9})
			}
			ch, stop := tp.mk(svr)
			out := make(chan string, 1)
			func() {
				cs, err := ch.NewStream(context.Background(), descSStream, mSStream)
				if err != nil {
					out <- resOf(err)
					return
				}
				cs.SendMsg(&Msg{})
				cs.CloseSend()
				go recvOnly(cs, out)
			}()
			time.Sleep(5 * time.Millisecond)
			for k := 0; k < 3; k++ {
				runtime.GC()
				time.Sleep(2 * time.Millisecond)
			}
			close(release)
			res := ""
			select {
			case res = <-out:
			case <-time.After(3 * time.Second):
				res = "blocked"
			}
			stop()
			r.Eval(sprintf("gc-during-recv %s %d", tp.name, i), true)
			r.Count("gc-during-recv:" + tp.name)
			if res != "msg" {
				r.Violate(tp.name+"/stream/spurious-cancel-by-finalizer", "a call whose context is not done is never reported as Canceled: the caller gets the real result (also C02: the outcome equals the handler's)",
					sprintf("a garbage collection during a blocking RecvMsg (the caller's last use of the stream) made it return %s instead of the message the handler sent", res),
					map[string]interface{}{"transport": tp.name, "kind": "sstream", "script": "NewStream; SendMsg; CloseSend; go RecvMsg (blocking, last use); runtime.GC() x3; handler sends"}, res)
			}
		}
	}
}

// closeSendRacesBlockedSend (C05): CloseSend issued from a second goroutine while a SendMsg is parked
// on the full request buffer; then the handler drains. No interleaving may make the library panic
// (send on / close of a closed channel), and everything must complete.
func closeSendRacesBlockedSend(r *Run) {
	for i := 0; i < r.Budget(6, 60); i++ {
		kind := []string{"bidi", "cstream"}[i%2]
		csFlag, ssFlag := kindFlags(kind)
		hl := newHandlerLoop()
		sd := &grpc.ServiceDesc{ServiceName: "s.S", HandlerType: (*synthHandler)(nil),
			Streams: []grpc.StreamDesc{{StreamName: "M", ClientStreams: csFlag, ServerStreams: ssFlag, Handler: func(srv interface{}, stream grpc.ServerStream) error { return hl.serve(stream) }}}}
		ich := &inprocgrpc.Channel{}
		ich.RegisterService(sd, synthImpl{})
		eng := newEngine("cs", "cs2", "h")
		cs, err := ich.NewStream(context.Background(), &grpc.StreamDesc{ClientStreams: csFlag, ServerStreams: ssFlag}, "/s.S/M")
		if err != nil {
			eng.close()
			continue
		}
		eng.settle()
		var log []string
		rec := func(name string, evs []string) { log = append(log, name+"=>"+strings.Join(evs, ",")) }
		send := func(id int) func() string {
			return func() string { return resOf(cs.SendMsg(&Msg{Count: int32(id)})) }
		}
		hrecv := func() string {
			return hl.command(func(ss grpc.ServerStream, ctx context.Context) (string, bool) {
				var m Msg
				if err := ss.RecvMsg(&m); err != nil {
					return resOf(err), false
				}
				return sprintf("msg:%d", m.Count), false
			})
		}
		rec("cs.send:1", eng.do("cs", send(1)))
		rec("cs.send:2", eng.do("cs", send(2))) // parks: the one-slot buffer is full
		rec("cs2.closesend", eng.do("cs2", func() string { return resOf(cs.CloseSend()) }))
		for k := 0; k < 3; k++ {
			if eng.idle("h") {
				rec("h.recv", eng.do("h", hrecv))
			}
		}
		if eng.idle("cs") && i%3 == 0 {
			rec("cs.send:3", eng.do("cs", send(3)))
		}
		if eng.idle("cs2") {
			rec("cs2.closesend", eng.do("cs2", func() string { return resOf(cs.CloseSend()) }))
		}
		// let the handler return
		hl.retErr = nil
		if eng.idle("h") {
			a := eng.actors["h"]
			a.busy = true
			a.ops <- func() string {
				hl.cmds <- func(ss grpc.ServerStream, ctx context.Context) (string, bool) { return "returned", true }
				return <-hl.results
			}
			rec("h.return", eng.settle())
		}
		var busy []string
		for _, n := range eng.order {
			if !eng.idle(n) {
				busy = append(busy, n)
			}
		}
		eng.close()
		script := strings.Join(log, " ; ")
		desc := map[string]interface{}{"transport": "inproc", "kind": kind, "script": script}
		r.Eval("closesend-race "+kind+sprintf("%d", i), true)
		r.Count("closesend-races-send")
		if strings.Contains(script, "panic:") {
			r.Violate("inproc/stream/panic", "no interleaving of client and handler operations makes the library deadlock or panic (for example by sending on or re-closing an internal channel)", "CloseSend from a second goroutine while a SendMsg was parked on the full buffer: "+script, desc, script)
		}
		if len(busy) > 0 || eng.hung {
			r.Violate("inproc/stream/blocked-after-completion", "every operation completes once the handler has returned", sprintf("still blocked: %v", busy), desc, script)
		}
	}
}
