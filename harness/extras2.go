package main

func extraC03(r *Run) {}
func extraC04(r *Run) {}
