package main

import (
	"context"
	"fmt"
	"net/http"
	"net/url"
	"io"
	"strings"

	"github.com/fullstorydev/grpchan"
	"github.com/fullstorydev/grpchan/grpchantesting"
	"github.com/fullstorydev/grpchan/httpgrpc"
	"github.com/fullstorydev/grpchan/inprocgrpc"
	"google.golang.org/grpc"
	"google.golang.org/grpc/codes"
	"google.golang.org/grpc/status"
)

func init() { suites["C12"] = suiteC12 }

// synthSvc is a synthetic service whose handlers record which (service, method) ran.
type synthSvc struct {
	name    string
	unary   []string
	streams []string
}

type synthHandler interface{ mark() }
type synthImpl struct{}

func (synthImpl) mark() {}

func (s synthSvc) desc(ran *[]string) *grpc.ServiceDesc {
	d := &grpc.ServiceDesc{ServiceName: s.name, HandlerType: (*synthHandler)(nil)}
	for _, m := range s.unary {
		full := s.name + "/" + m
		d.Methods = append(d.Methods, grpc.MethodDesc{MethodName: m, Handler: func(srv interface{}, ctx context.Context, dec func(interface{}) error, interceptor grpc.UnaryServerInterceptor) (interface{}, error) {
			*ran = append(*ran, "U:"+full)
			var in Msg
			if err := dec(&in); err != nil {
				return nil, err
			}
			return &Msg{}, nil
		}})
	}
	for _, m := range s.streams {
		full := s.name + "/" + m
		d.Streams = append(d.Streams, grpc.StreamDesc{StreamName: m, ClientStreams: true, ServerStreams: true, Handler: func(srv interface{}, stream grpc.ServerStream) error {
			*ran = append(*ran, "S:"+full)
			return nil
		}})
	}
	return d
}

func regArg(svcs []synthSvc) string {
	var parts []string
	for _, s := range svcs {
		var u, st []string
		for _, m := range s.unary {
			u = append(u, hexOrDash([]byte(m)))
		}
		for _, m := range s.streams {
			st = append(st, hexOrDash([]byte(m)))
		}
		parts = append(parts, hexOrDash([]byte(s.name))+":"+strings.Join(u, ",")+":"+strings.Join(st, ","))
	}
	if len(parts) == 0 {
		return "reg="
	}
	return "reg=" + strings.Join(parts, ";")
}

func suiteC12(r *Run) {
	r.Rule = "method-name strings (well-formed, missing slash, empty, extra segments, prefixes/suffixes of registered names, dot segments, unary name on the stream API and vice versa) x random sets of synthetic services; in-process Invoke/NewStream, and HTTP through Server and HandleServices with base paths (with/without trailing slash, nested, needing escaping). Observed: which handler ran, outcome class, recovered panic. Non-trivial: name shares a prefix with a registered name or is malformed; distinct by (transport, kind, registry, base, name)."
	r.Assumptions = append(r.Assumptions, "http.ServeMux exact-path matching and net/url escaping (external)")
	rng := r.Rng
	svcNames := []string{"pkg.Svc", "pkg.Svc2", "pkg.S", "a.b.C", "x"}
	mthNames := []string{"Get", "GetAll", "Ge", "Put", "stream_it", "M"}

	for iter := 0; iter < r.Budget(60, 2500); iter++ {
		// a random registry
		var svcs []synthSvc
		used := map[string]bool{}
		for i := 0; i < 1+rng.Intn(3); i++ {
			n := rng.Pick(svcNames)
			if used[n] {
				continue
			}
			used[n] = true
			s := synthSvc{name: n}
			for _, m := range mthNames {
				switch rng.Intn(4) {
				case 0:
					s.unary = append(s.unary, m)
				case 1:
					s.streams = append(s.streams, m)
				}
			}
			svcs = append(svcs, s)
		}
		// candidate names
		var names []string
		for _, s := range svcs {
			for _, m := range append(append([]string{}, s.unary...), s.streams...) {
				names = append(names, "/"+s.name+"/"+m, s.name+"/"+m)
				switch rng.Intn(8) {
				case 0:
					names = append(names, "/"+s.name+"/"+m+"/")
				case 1:
					names = append(names, "/"+s.name+"/"+m+"/x")
				case 2:
					names = append(names, "//"+s.name+"//"+m)
				case 3:
					names = append(names, "/"+s.name+"/"+m[:len(m)-1])
				case 4:
					names = append(names, "/"+s.name+"/"+m+"x")
				case 5:
					names = append(names, "/x/../"+s.name+"/"+m)
				case 6:
					names = append(names, "/"+s.name[:len(s.name)-1]+"/"+m)
				case 7:
					names = append(names, "/"+s.name+"/./"+m)
				}
			}
			names = append(names, "/"+s.name, "/"+s.name+"/", s.name)
			// near misses that differ from a registered name only in letter case (names are byte strings, not case-folded)
			for _, m := range append(append([]string{}, s.unary...), s.streams...) {
				switch rng.Intn(4) {
				case 0:
					names = append(names, "/"+s.name+"/"+strings.ToLower(m), "/"+s.name+"/"+strings.ToUpper(m))
				case 1:
					names = append(names, "/"+strings.ToUpper(s.name)+"/"+m, "/"+strings.ToLower(s.name)+"/"+m)
				case 2:
					names = append(names, "/"+s.name+"/"+swapCaseAt(m, rng.Intn(len(m))))
				}
			}
			// near misses that only an unescaping step could turn into a registered name
			for _, m := range append(append([]string{}, s.unary...), s.streams...) {
				switch rng.Intn(6) {
				case 0:
					names = append(names, "/"+s.name+"/"+pctEscapeAt(m, rng.Intn(len(m))))
				case 1:
					names = append(names, "/"+pctEscapeAt(s.name, rng.Intn(len(s.name)))+"/"+m)
				case 2:
					names = append(names, "/"+s.name+"%2F"+m, "/"+s.name+"%2f"+m)
				case 3:
					names = append(names, "/"+s.name+"/"+m+"%00", "/"+s.name+"/"+m+"?x=1", "/"+s.name+"/"+m+"#f")
				}
			}
		}
		names = append(names, "", "/", "//", "foo", "/foo", "/nosuch.Svc/Get", "/pkg.Svc/NoSuch", "/ /", "/\x00/\xff")
		if iter%5 != 0 {
			// sample to keep the quick tier short
			rng2 := names[:0]
			for _, n := range names {
				if rng.Chance(45) || n == "" || n == "/" || n == "foo" || n == "/foo" {
					rng2 = append(rng2, n)
				}
			}
			names = rng2
		}

		// ---------------- in-process
		var ran []string
		ch := &inprocgrpc.Channel{}
		for _, s := range svcs {
			ch.RegisterService(s.desc(&ran), synthImpl{})
		}
		for _, name := range names {
			for _, kind := range []string{"unary", "stream"} {
				ran = ran[:0]
				var err error
				var pan string
				func() {
					defer recoverTo(&pan)
					ctx, cancel := context.WithCancel(context.Background())
					defer cancel()
					if kind == "unary" {
						err = ch.Invoke(ctx, name, &Msg{}, &Msg{})
					} else {
						var cs grpc.ClientStream
						cs, err = ch.NewStream(ctx, descBidi, name)
						if err == nil {
							cs.CloseSend()
							var m Msg
							err = cs.RecvMsg(&m) // io.EOF after the handler returns nil
							if err != nil && err.Error() == "EOF" {
								err = nil
							}
						}
					}
				}()
				ans := "unimplemented"
				switch {
				case pan != "":
					ans = "panic"
				case len(ran) == 1 && err == nil:
					ans = "handler " + hexOrDash([]byte(strings.SplitN(ran[0][2:], "/", 2)[0])) + " " + hexOrDash([]byte(strings.SplitN(ran[0][2:], "/", 2)[1]))
				case len(ran) == 0 && status.Code(err) == codes.Unimplemented:
					ans = "unimplemented"
				default:
					ans = fmt.Sprintf("other(ran=%v,err=%v)", ran, err)
				}
				r.Op(sprintf("C12 inproc %s %s %s", kind, hexOrDash([]byte(name)), regArg(svcs)), ans)
				r.Eval(fmt.Sprint("inproc ", kind, name, regArg(svcs)), true)
				r.Count("inproc:" + strings.SplitN(ans, " ", 2)[0])
				r.TracesOnImpl++
				c := map[string]interface{}{"transport": "inproc", "api": kind, "method": name, "method_hex": hexOrDash([]byte(name)), "registry": regArg(svcs)}
				if pan != "" {
					r.Violate("inproc/resolve/panic-on-malformed-name", "malformed method names produce a status error rather than a panic",
						sprintf("%s(%q) panicked: %s", map[string]string{"unary": "Invoke", "stream": "NewStream"}[kind], name, trunc(pan, 120)), c, "panic")
					continue
				}
				// the handler that ran must be exactly the one named
				want := ""
				nm := name
				if !strings.HasPrefix(nm, "/") {
					nm = "/" + nm
				}
				for _, s := range svcs {
					ms := s.unary
					tag := "U:"
					if kind == "stream" {
						ms, tag = s.streams, "S:"
					}
					for _, m := range ms {
						if nm == "/"+s.name+"/"+m {
							want = tag + s.name + "/" + m
						}
					}
				}
				got := ""
				if len(ran) > 0 {
					got = strings.Join(ran, "+")
				}
				if got != want {
					r.Violate("inproc/resolve/wrong-handler", "runs the handler registered for that service and method and no other; unknown names fail without running any handler",
						sprintf("%s(%q): ran %q, expected %q (err %v)", kind, name, got, want, err), c, ans)
				} else if want == "" && status.Code(err) != codes.Unimplemented {
					r.Violate("inproc/resolve/wrong-error", "unknown services or methods fail with a status error (Unimplemented in-process)",
						sprintf("%s(%q): error %v", kind, name, err), c, ans)
				}
				if len(r.Samples) < 3 && (name == "" || want != "") {
					r.Sample(map[string]interface{}{"case": c, "impl": ans})
				}
			}
		}

		// ---------------- HTTP
		bases := []string{"/", "/rpc", "/rpc/", "/a/b/", "/a b/", "/x%2Fy/"}
		base := bases[rng.Intn(len(bases))]
		for _, via := range []string{"server", "handleservices"} {
			var hran []string
			var h http.Handler
			if via == "server" {
				hs := httpgrpc.NewServer(httpgrpc.WithBasePath(base))
				for _, s := range svcs {
					hs.RegisterService(s.desc(&hran), synthImpl{})
				}
				h = hs
			} else {
				reg := grpchan.HandlerMap{}
				for _, s := range svcs {
					reg.RegisterService(s.desc(&hran), synthImpl{})
				}
				mux := http.NewServeMux()
				httpgrpc.HandleServices(mux.HandleFunc, base, reg, nil, nil)
				h = mux
			}
			tr := newMemTransport(h)
			u := &url.URL{Scheme: "http", Host: "mem.test", Path: base}
			hch := &httpgrpc.Channel{Transport: tr, BaseURL: u}
			for _, name := range names {
				if strings.ContainsAny(name, "\x00\xff ") {
					continue // not representable in a URL path without escaping rules of net/url (external)
				}
				for _, kind := range []string{"unary", "stream"} {
					hran = hran[:0]
					var err error
					var pan string
					func() {
						defer recoverTo(&pan)
						ctx, cancel := context.WithCancel(context.Background())
						defer cancel()
						if kind == "unary" {
							err = hch.Invoke(ctx, name, &Msg{}, &Msg{})
						} else {
							var cs grpc.ClientStream
							cs, err = hch.NewStream(ctx, descBidi, name)
							if err == nil {
								cs.CloseSend()
								var m Msg
								err = cs.RecvMsg(&m)
								if err != nil && err.Error() == "EOF" {
									err = nil
								}
							}
						}
					}()
					r.Eval(fmt.Sprint("http ", via, base, kind, name, regArg(svcs)), true)
					r.Count("http:" + via)
					r.TracesOnImpl++
					c := map[string]interface{}{"transport": "http", "via": via, "base": base, "api": kind, "method": name, "registry": regArg(svcs)}
					if pan != "" {
						r.Violate("http/resolve/panic", "malformed method names produce a status error rather than a panic", sprintf("%s %q panicked: %s", kind, name, trunc(pan, 100)), c, "panic")
						continue
					}
					// expected handler for the *exact* well-formed name
					want := ""
					exact := false
					for _, s := range svcs {
						for _, m := range s.unary {
							if name == "/"+s.name+"/"+m || name == s.name+"/"+m {
								exact = true
								if kind == "unary" {
									want = "U:" + s.name + "/" + m
								} else {
									want = "U:" + s.name + "/" + m // the HTTP path has one handler per name; kind mismatch is judged by the content type
								}
							}
						}
						for _, m := range s.streams {
							if name == "/"+s.name+"/"+m || name == s.name+"/"+m {
								exact = true
								want = "S:" + s.name + "/" + m
							}
						}
					}
					got := strings.Join(hran, "+")
					if exact {
						kindMatches := (kind == "unary") == strings.HasPrefix(want, "U:")
						if kindMatches && got != want {
							r.Violate("http/resolve/wrong-handler", "runs the handler registered for that service and method and no other, for every absolute base path, through both the server type and the bulk-registration helper",
								sprintf("%s base %q %s(%q): ran %q, expected %q (err %v)", via, base, kind, name, got, want, err), c, got)
						}
						if !kindMatches && got != "" {
							r.Violate("http/resolve/kind-mismatch-ran-handler", "a unary name used for a stream (and vice versa) fails without running the handler",
								sprintf("%s base %q %s(%q): ran %q", via, base, kind, name, got), c, got)
						}
					} else {
						// names that are not exactly registered: lenient resolution through path cleaning is
						// tolerated (DESIGN section 8 row 15) but only towards the handler the cleaned name denotes;
						// anything else must fail with a status error and run nothing
						if got != "" {
							cleaned := cleanName(name)
							if !strings.HasSuffix(got, ":"+cleaned) && got[2:] != cleaned {
								r.Violate("http/resolve/foreign-handler", "and no other", sprintf("%s base %q %s(%q): ran %q", via, base, kind, name, got), c, got)
							}
							r.Count("http:lenient-resolution")
						} else if err == nil {
							r.Violate("http/resolve/success-without-handler", "unknown services or methods fail with a status error", sprintf("%s base %q %s(%q) returned nil without running a handler", via, base, kind, name), c, "ok")
						} else if _, ok := status.FromError(err); !ok {
							r.Violate("http/resolve/non-status-error", "fail with a status error", sprintf("%s base %q %s(%q): %v", via, base, kind, name, err), c, canonErr(err))
						} else if status.Code(err) != codes.NotFound && wellFormed(name) {
							r.Violate("http/resolve/unknown-name-not-notfound", "unknown services or methods fail with a status error (NotFound over HTTP)",
								sprintf("%s base %q %s(%q): %v", via, base, kind, name, err), c, canonErr(err))
						} else {
							r.Count("http:unknown-name-code-" + status.Code(err).String())
						}
					}
				}
			}
		}
	}
	// ---------------- registration interleaved with requests: a service registered on the Server after it
	// has already served requests resolves like any other
	for iter := 0; iter < r.Budget(6, 60); iter++ {
		base := []string{"/", "/rpc/", "/a/b/"}[iter%3]
		var hran []string
		hs := httpgrpc.NewServer(httpgrpc.WithBasePath(base))
		tr := newMemTransport(hs)
		hch := &httpgrpc.Channel{Transport: tr, BaseURL: &url.URL{Scheme: "http", Host: "mem.test", Path: base}}
		call := func(name string) (error, string) {
			hran = hran[:0]
			err := hch.Invoke(context.Background(), name, &Msg{}, &Msg{})
			return err, strings.Join(hran, "+")
		}
		a := synthSvc{name: "pkg.First", unary: []string{"Get"}}
		b := synthSvc{name: "pkg.Second", unary: []string{"Get", "Put"}}
		hs.RegisterService(a.desc(&hran), synthImpl{})
		warm := []string{"/pkg.First/Get", "/pkg.Nope/Get", "/pkg.Second/Get"}[iter%3] // a hit, a miss, a miss on the later name
		call(warm)
		hs.RegisterService(b.desc(&hran), synthImpl{})
		for _, name := range []string{"/pkg.Second/Get", "/pkg.Second/Put", "/pkg.First/Get"} {
			err, got := call(name)
			want := "U:" + name[1:]
			c := map[string]interface{}{"transport": "http", "via": "server", "base": base, "sequence": "register pkg.First; request " + warm + "; register pkg.Second; request " + name}
			r.Eval(fmt.Sprint("http-register-late", base, warm, name), true)
			r.Count("http:register-after-first-request")
			if got != want {
				r.Violate("http/resolve/late-registration-not-routed", "runs the handler registered for that service and method", sprintf("%s after a late registration: ran %q, expected %q (err %v)", name, got, want, err), c, got)
			}
		}
	}
	// the same on the in-process channel: a name that was asked for before its service was registered resolves
	// afterwards like any other (unary and stream API), and a miss stays a miss for names never registered
	for iter := 0; iter < 6; iter++ {
		var ran []string
		ch := &inprocgrpc.Channel{}
		a := synthSvc{name: "pkg.First", unary: []string{"Get"}, streams: []string{"Watch"}}
		b := synthSvc{name: "pkg.Second", unary: []string{"Get", "Put"}, streams: []string{"Watch"}}
		ch.RegisterService(a.desc(&ran), synthImpl{})
		warm := []string{"/pkg.Second/Get", "/pkg.Second/Watch", "/pkg.First/Get"}[iter%3]
		viaStream := iter >= 3
		call := func(name string) (error, string) {
			ran = ran[:0]
			var err error
			func() {
				defer func() {
					if p := recover(); p != nil {
						err = fmt.Errorf("panic: %v", p)
					}
				}()
				if strings.HasSuffix(name, "/Watch") {
					var cs grpc.ClientStream
					cs, err = ch.NewStream(context.Background(), &grpc.StreamDesc{StreamName: "Watch", ServerStreams: true, ClientStreams: true}, name)
					if err == nil {
						cs.CloseSend()
						var m Msg
						if e := cs.RecvMsg(&m); e != nil && e != io.EOF {
							err = e
						}
					}
				} else {
					err = ch.Invoke(context.Background(), name, &Msg{}, &Msg{})
				}
			}()
			return err, strings.Join(ran, "+")
		}
		_ = viaStream
		call(warm)
		ch.RegisterService(b.desc(&ran), synthImpl{})
		for _, name := range []string{"/pkg.Second/Get", "/pkg.Second/Put", "/pkg.Second/Watch", "/pkg.First/Get", "/pkg.First/Watch"} {
			err, got := call(name)
			want := "U:" + name[1:]
			if strings.HasSuffix(name, "/Watch") {
				want = "S:" + name[1:]
			}
			c := map[string]interface{}{"transport": "inproc", "sequence": "register pkg.First; call " + warm + "; register pkg.Second; call " + name}
			r.Eval(fmt.Sprint("inproc-register-late", warm, name), true)
			r.Count("inproc:register-after-first-call")
			if got != want {
				r.Violate("inproc/resolve/late-registration-not-routed", "runs the handler registered for that service and method", sprintf("%s after a late registration (the same name had been called before it): ran %q, expected %q (err %v)", name, got, want, err), c, got)
			}
		}
		if err, got := call("/pkg.Third/Get"); err == nil || got != "" {
			r.Violate("inproc/resolve/unknown-not-unimplemented", "every other name yields Unimplemented", sprintf("/pkg.Third/Get: ran %q err %v", got, err), map[string]interface{}{"transport": "inproc"}, got)
		}
	}
	_ = grpchantesting.MetadataNew
}

// pctEscapeAt replaces the byte at i by its %XX escape.
func pctEscapeAt(s string, i int) string {
	return s[:i] + fmt.Sprintf("%%%02X", s[i]) + s[i+1:]
}

// wellFormed: "/svc/method" with two plain segments.
func wellFormed(name string) bool {
	p := strings.Split(strings.TrimPrefix(name, "/"), "/")
	if len(p) != 2 {
		return false
	}
	for _, s := range p {
		if s == "" || s == "." || s == ".." {
			return false
		}
	}
	return true
}

// cleanName is path.Clean applied to "/"+name, without the leading slash.
func cleanName(name string) string {
	var out []string
	for _, s := range strings.Split(name, "/") {
		switch s {
		case "", ".":
		case "..":
			if len(out) > 0 {
				out = out[:len(out)-1]
			}
		default:
			out = append(out, s)
		}
	}
	return strings.Join(out, "/")
}


// swapCaseAt flips the case of the letter at (or after) position i; the string is returned unchanged if it has no letter there.
func swapCaseAt(s string, i int) string {
	b := []byte(s)
	for k := 0; k < len(b); k++ {
		j := (i + k) % len(b)
		switch {
		case b[j] >= 'a' && b[j] <= 'z':
			b[j] -= 32
			return string(b)
		case b[j] >= 'A' && b[j] <= 'Z':
			b[j] += 32
			return string(b)
		}
	}
	return s
}
